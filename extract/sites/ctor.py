"""metrics.py `_build_full_name` / MetricWrapperBase.__init__ / reserved label names, metrics_core.py Metric.__init__:
the literals and the statement shapes the constructor model (Model/Ctor.lean) is written after."""
import ast
import re
from leanlit import *

TARGET = 'Ctor'
SOURCES = ['prometheus_client/metrics.py', 'prometheus_client/metrics_core.py']


def norm(node):
    return ast.unparse(node)


BUILD_SHAPE = [
    r"if not name:\n    raise ValueError\(.*\)",
    r"full_name = ''",
    r"if namespace:\n    full_name \+= namespace \+ '(?P<nssep>[^']*)'",
    r"if subsystem:\n    full_name \+= subsystem \+ '(?P<sssep>[^']*)'",
    r"full_name \+= name",
    r"if metric_type == '(?P<ctype>\w+)' and full_name.endswith\('(?P<total>\w+)'\):\n    full_name = full_name\[:-(?P<slice>\d+)\]",
    r"if unit and \(?not full_name.endswith\('(?P<usep1>[^']*)' \+ unit\)\)?:\n    full_name \+= '(?P<usep2>[^']*)' \+ unit",
    r"if unit and metric_type in \((?P<nounit>[^)]*)\):\n    raise ValueError\(.*\)",
    r"return full_name",
]

INIT_SHAPE = [
    r"if unit and \(?not name.endswith\('(?P<usep1>[^']*)' \+ unit\)\)?:\n    name \+= '(?P<usep2>[^']*)' \+ unit",
    r"_validate_metric_name\(name\)",
    r"self.name: str = name",
    r"self.documentation: str = documentation",
    r"self.unit: str = unit",
    r"if typ == '(?P<from>\w+)':\n    typ = '(?P<to>\w+)'",
    r"if typ not in METRIC_TYPES:\n    raise ValueError\(.*\)",
    r"self.type: str = typ",
    r"self.samples: List\[Sample\] = \[\]",
]


def match_shape(func, shape, what):
    body = [n for n in func.body if not (isinstance(n, ast.Expr) and isinstance(n.value, ast.Constant))]
    if len(body) != len(shape):
        raise Fail('%s has %d statements, expected %d' % (what, len(body), len(shape)))
    got = {}
    for st, pat in zip(body, shape):
        src = norm(st)
        m = re.fullmatch(pat, src, flags=re.S)
        if not m:
            raise Fail('%s statement %r does not match %r' % (what, src[:70], pat[:50]))
        got.update(m.groupdict())
    return got


def generate(repo):
    out = header(TARGET, SOURCES)
    ok, why = True, ''
    v = dict(types=[], sep='', ctype='', total='', slice=0, nounit=[], untyped=('', ''), reserved=[])
    try:
        mt = parse(repo, SOURCES[0])
        mc = parse(repo, SOURCES[1])
        t = find_assign(mc, 'METRIC_TYPES')
        if not isinstance(t, ast.Tuple):
            raise Fail('METRIC_TYPES is not a tuple literal')
        v['types'] = [const(e, str) for e in t.elts]
        b = match_shape(find_func(mt, '_build_full_name'), BUILD_SHAPE, '_build_full_name')
        seps = {b['nssep'], b['sssep'], b['usep1'], b['usep2']}
        if len(seps) != 1:
            raise Fail('separators differ: %s' % sorted(seps))
        v['sep'] = seps.pop()
        v['ctype'], v['total'], v['slice'] = b['ctype'], b['total'], int(b['slice'])
        v['nounit'] = [const(e, str) for e in ast.parse('(' + b['nounit'] + ',)').body[0].value.elts]
        i = match_shape(find_func(mc, '__init__', cls='Metric'), INIT_SHAPE, 'Metric.__init__')
        if {i['usep1'], i['usep2']} != {v['sep']}:
            raise Fail('Metric.__init__ unit separator differs')
        v['untyped'] = (i['from'], i['to'])
        # MetricWrapperBase.__init__: _build_full_name, then _validate_labelnames, then _validate_metric_name(self._name)
        w = find_func(mt, '__init__', cls='MetricWrapperBase')
        calls = [norm(n.func) for n in ast.walk(w) if isinstance(n, ast.Call)
                 and norm(n.func) in ('_build_full_name', '_validate_labelnames', '_validate_metric_name')]
        srcs = [norm(st) for st in w.body]
        want = ["self._name = _build_full_name(self._type, name, namespace, subsystem, unit)",
                "self._labelnames = _validate_labelnames(self, labelnames)",
                "_validate_metric_name(self._name)"]
        pos = [srcs.index(x) if x in srcs else -1 for x in want]
        if -1 in pos or pos != sorted(pos) or sorted(calls) != sorted(['_build_full_name', '_validate_labelnames', '_validate_metric_name']):
            raise Fail('MetricWrapperBase.__init__ validation calls changed')
        gm = find_func(mt, '_get_metric', cls='MetricWrapperBase')
        if norm(gm.body[-1]) != 'return Metric(self._name, self._documentation, self._type, self._unit)':
            raise Fail('_get_metric changed')
        # per class: _type and _reserved_labelnames
        res = []
        for n in mt.body:
            if isinstance(n, ast.ClassDef) and any(norm(bs) == 'MetricWrapperBase' for bs in n.bases):
                typ, rl = None, []
                for st in n.body:
                    if isinstance(st, ast.Assign) and norm(st.targets[0]) == '_type':
                        typ = const(st.value, str)
                    if isinstance(st, ast.Assign) and norm(st.targets[0]) == '_reserved_labelnames':
                        if not isinstance(st.value, (ast.List, ast.Tuple)):
                            raise Fail('%s._reserved_labelnames is not a literal' % n.name)
                        rl = [const(e, str) for e in st.value.elts]
                if typ is None:
                    raise Fail('class %s has no _type' % n.name)
                res.append((typ, rl))
        if not res:
            raise Fail('no metric classes found')
        v['reserved'] = res
        # Enum.__init__ extra checks
        en = find_func(mt, '__init__', cls='Enum')
        es = [norm(st) for st in en.body]
        if not any(s.startswith('if name in labelnames:\n    raise ValueError') for s in es) or \
           not any(s.startswith('if not states:\n    raise ValueError') for s in es):
            raise Fail('Enum.__init__ checks changed')
    except Fail as e:
        ok, why = False, str(e)
        v = dict(types=[], sep='', ctype='', total='', slice=0, nounit=[], untyped=('', ''), reserved=[])
    if not ok:
        out += '-- EXTRACT-FAIL ctor: %s\n' % why
    out += 'def extractOk : Bool := %s\n' % ('true' if ok else 'false')
    out += '/-- `metrics_core.METRIC_TYPES` -/\n'
    out += 'def metricTypes : List (List Char) := %s\n' % strlist(v['types'])
    out += "/-- the `'_'` joining namespace, subsystem, name and unit -/\n"
    out += 'def sep : List Char := %s\n' % chars(v['sep'])
    out += '/-- `if metric_type == <counterType> and full_name.endswith(<totalSuffix>): full_name = full_name[:-<sliceLen>]` -/\n'
    out += 'def counterType : List Char := %s\n' % chars(v['ctype'])
    out += 'def totalSuffix : List Char := %s\n' % chars(v['total'])
    out += 'def sliceLen : Nat := %d\n' % v['slice']
    out += '/-- types that must not have a unit -/\n'
    out += 'def noUnitTypes : List (List Char) := %s\n' % strlist(v['nounit'])
    out += '/-- `Metric.__init__`: this type name is rewritten to that one -/\n'
    out += 'def untypedFrom : List Char := %s\n' % chars(v['untyped'][0])
    out += 'def untypedTo : List Char := %s\n' % chars(v['untyped'][1])
    out += '/-- per instrumentation class: `_type` and `_reserved_labelnames` -/\n'
    out += 'def reservedLabelnames : List (List Char × List (List Char)) := [%s]\n' % ', '.join(
        '(%s, %s)' % (chars(t), strlist(r)) for t, r in v['reserved'])
    return out + footer(TARGET)
