"""The three built-in custom collectors: gc_collector.GCCollector, platform_collector.PlatformCollector,
process_collector.ProcessCollector.

Per collector: the list of `*MetricFamily(...)` constructor calls its `collect()` (for PlatformCollector: `_add_metric`,
called once from `__init__`) makes — class, name (a literal, or `self._prefix + <literal>`), documentation literal,
`labels=[...]` literal, whether a value goes into the constructor, how many `add_metric` call sites there are on the
object and with how many label values — and the order in which the objects are returned.
Anything else that could put a sample into a family is an unexpected shape: an `add_sample` attribute anywhere in the
three classes, an assignment to `.samples`, a constructor class that is not one of the eight, a non-literal name, a
`Metric(...)` / `Sample(...)` call, a changed try/except structure in ProcessCollector.collect.
"""
import ast
from leanlit import *

TARGET = 'Builtins'
SOURCES = ['prometheus_client/gc_collector.py', 'prometheus_client/platform_collector.py',
           'prometheus_client/process_collector.py']

EIGHT = ['UnknownMetricFamily', 'CounterMetricFamily', 'GaugeMetricFamily', 'SummaryMetricFamily', 'HistogramMetricFamily',
         'GaugeHistogramMetricFamily', 'InfoMetricFamily', 'StateSetMetricFamily']
VALUE_STYLE = ['UnknownMetricFamily', 'CounterMetricFamily', 'GaugeMetricFamily']   # (name, doc, value=, labels=) / add_metric(labels, value)

STRUCT = '''/-- one family-constructor call site of a built-in collector -/
structure Site where
  /-- the constructor class: index in [Unknown, Counter, Gauge, Summary, Histogram, GaugeHistogram, Info, StateSet]MetricFamily -/
  cls : Nat
  /-- the name argument is `self._prefix + <name>` (otherwise the literal `name`) -/
  prefixed : Bool
  name : List Char
  doc : List Char
  /-- the `labels=[...]` literal (`none`: not passed, or computed — PlatformCollector) -/
  labels : Option (List (List Char))
  /-- a value is passed to the constructor -/
  valueInCtor : Bool
  /-- `add_metric` call sites on the object, and the number of label values each passes -/
  addCalls : Nat
  addLabelValues : Nat
  /-- the key of the environment reading that is the value (`stat['<key>']`; the local variable name for ProcessCollector) -/
  key : List Char
deriving DecidableEq, Repr, Inhabited
'''


def _site(s):
    return '⟨%d, %s, %s, %s, %s, %s, %d, %d, %s⟩' % (
        EIGHT.index(s['cls']), 'true' if s['prefixed'] else 'false', chars(s['name']), chars(s['doc']),
        'none' if s['labels'] is None else 'some ' + strlist(s['labels']), 'true' if s['value'] else 'false',
        s['adds'], s['addlabels'], chars(s['key']))


def _sites(xs):
    return '[' + ',\n  '.join(_site(s) for s in xs) + ']'


def _cls(tree, name):
    for n in tree.body:
        if isinstance(n, ast.ClassDef) and n.name == name:
            return n
    raise Fail('class %s not found' % name)


def _no_backdoor(cls):
    """nothing in the class may create samples except through the constructors / add_metric"""
    for n in ast.walk(cls):
        if isinstance(n, ast.Attribute) and n.attr == 'add_sample':
            raise Fail('%s uses add_sample (line %d)' % (cls.name, n.lineno))
        if isinstance(n, ast.Attribute) and n.attr == 'samples':
            raise Fail('%s touches .samples (line %d)' % (cls.name, n.lineno))
        if isinstance(n, ast.Call) and isinstance(n.func, ast.Name) and n.func.id in ('Metric', 'Sample'):
            raise Fail('%s calls %s(...) directly (line %d)' % (cls.name, n.func.id, n.lineno))
        if isinstance(n, ast.Call) and isinstance(n.func, (ast.Name, ast.Attribute)):
            fn = n.func.id if isinstance(n.func, ast.Name) else n.func.attr
            if fn.endswith('MetricFamily') and fn not in EIGHT:
                raise Fail('%s constructs %s, not one of the eight family classes (line %d)' % (cls.name, fn, n.lineno))


def _ctor_calls(fn):
    out = [n for n in ast.walk(fn) if isinstance(n, ast.Call) and isinstance(n.func, ast.Name) and n.func.id in EIGHT]
    out.sort(key=lambda n: (n.lineno, n.col_offset))
    return out


def _name_arg(a, where):
    """-> (prefixed, literal)"""
    if isinstance(a, ast.Constant) and isinstance(a.value, str):
        return False, a.value
    if isinstance(a, ast.BinOp) and isinstance(a.op, ast.Add) and ast.unparse(a.left) == 'self._prefix' \
            and isinstance(a.right, ast.Constant) and isinstance(a.right.value, str):
        return True, a.right.value
    raise Fail('%s: family name is neither a literal nor self._prefix + literal: %s' % (where, ast.unparse(a)[:80]))


def _value_ctor(c, where):
    """a constructor call of the (name, documentation, value=None, labels=None) kind -> site dict (without adds)"""
    cls = c.func.id
    if cls not in VALUE_STYLE:
        raise Fail('%s: %s is used; only Unknown/Counter/Gauge call shapes are modelled for the built-in collectors' % (where, cls))
    if len(c.args) < 2 or len(c.args) > 3:
        raise Fail('%s: %s(...) with %d positional arguments' % (where, cls, len(c.args)))
    prefixed, name = _name_arg(c.args[0], where)
    doc = const(c.args[1], str)
    value = len(c.args) == 3
    labels = None
    for k in c.keywords:
        if k.arg == 'value':
            value = True
        elif k.arg == 'labels':
            if not isinstance(k.value, ast.List):
                raise Fail('%s: labels= is not a list literal' % where)
            labels = [const(e, str) for e in k.value.elts]
        else:
            raise Fail('%s: unexpected keyword %s' % (where, k.arg))
    return {'cls': cls, 'prefixed': prefixed, 'name': name, 'doc': doc, 'labels': labels, 'value': value, 'adds': 0,
            'addlabels': 0, 'key': ''}


def _assigned_var(fn, call):
    for n in ast.walk(fn):
        if isinstance(n, ast.Assign) and n.value is call and len(n.targets) == 1 and isinstance(n.targets[0], ast.Name):
            return n.targets[0].id
    raise Fail('%s: constructor result is not assigned to a local variable (line %d)' % (fn.name, call.lineno))


# ---------------------------------------------------------------------------------------------------- GCCollector
def _gc(repo):
    tree = parse(repo, SOURCES[0])
    cls = _cls(tree, 'GCCollector')
    _no_backdoor(cls)
    fn = find_func(tree, 'collect', cls='GCCollector')
    sites, var = [], {}
    for c in _ctor_calls(fn):
        s = _value_ctor(c, 'GCCollector.collect')
        if s['value'] or s['prefixed']:
            raise Fail('GCCollector.collect: constructor with a value or a prefixed name')
        var[_assigned_var(fn, c)] = len(sites)
        sites.append(s)
    loops = [n for n in fn.body if isinstance(n, ast.For)]
    if len(loops) != 1 or ast.unparse(loops[0].iter) != 'enumerate(gc.get_stats())' or ast.unparse(loops[0].target) != '(gen, stat)':
        raise Fail('GCCollector.collect: loop is not `for gen, stat in enumerate(gc.get_stats())`')
    body = loops[0].body
    if not body or ast.unparse(body[0]) != 'generation = str(gen)':
        raise Fail('GCCollector.collect: loop does not start with generation = str(gen)')
    for st in body[1:]:
        c = st.value if isinstance(st, ast.Expr) else None
        if not (isinstance(c, ast.Call) and isinstance(c.func, ast.Attribute) and c.func.attr == 'add_metric'
                and isinstance(c.func.value, ast.Name) and c.func.value.id in var):
            raise Fail('GCCollector.collect: loop statement is not <family>.add_metric(...): %s' % ast.unparse(st)[:80])
        if len(c.args) != 1 or ast.unparse(c.args[0]) != '[generation]' or len(c.keywords) != 1 or c.keywords[0].arg != 'value':
            raise Fail('GCCollector.collect: add_metric call shape: %s' % ast.unparse(c)[:80])
        v = c.keywords[0].value
        if not (isinstance(v, ast.Subscript) and ast.unparse(v.value) == 'stat'):
            raise Fail('GCCollector.collect: value is not stat[<literal>]: %s' % ast.unparse(v)[:60])
        s = sites[var[c.func.value.id]]
        s['adds'] += 1
        s['addlabels'] = 1
        s['key'] = const(v.slice, str)
    for s in sites:
        if s['adds'] != 1:
            raise Fail('GCCollector.collect: family %s has %d add_metric sites in the loop' % (s['name'], s['adds']))
    # statements other than the assignments, the loop and the return
    rest = [st for st in fn.body if not isinstance(st, (ast.Assign, ast.For, ast.Return))
            and not (isinstance(st, ast.Expr) and isinstance(st.value, ast.Constant))]
    if rest:
        raise Fail('GCCollector.collect: unexpected statement %s' % ast.unparse(rest[0])[:80])
    ret = fn.body[-1]
    if not (isinstance(ret, ast.Return) and isinstance(ret.value, ast.List) and all(isinstance(e, ast.Name) for e in ret.value.elts)):
        raise Fail('GCCollector.collect: does not end with return [<names>]')
    order = []
    for e in ret.value.elts:
        if e.id not in var:
            raise Fail('GCCollector.collect: returns %s, which is not a constructed family' % e.id)
        order.append(var[e.id])
    return sites, order


# ---------------------------------------------------------------------------------------------------- PlatformCollector
ADD_METRIC_BODY = ['labels = data.keys()', 'values = [data[k] for k in labels]']


def _dict_keys(fn, where):
    ret = [s for s in fn.body if isinstance(s, ast.Return)]
    if len(ret) != 1 or not isinstance(ret[0].value, ast.Dict):
        raise Fail('%s: does not return a dict literal' % where)
    return [const(k, str) for k in ret[0].value.keys]


def _platform(repo):
    tree = parse(repo, SOURCES[1])
    cls = _cls(tree, 'PlatformCollector')
    _no_backdoor(cls)
    am = find_func(tree, '_add_metric', cls='PlatformCollector')
    body = [s for s in am.body if not (isinstance(s, ast.Expr) and isinstance(s.value, ast.Constant))]
    if [a.arg for a in am.args.args] != ['name', 'documentation', 'data'] or len(body) != 5 \
            or [ast.unparse(s) for s in body[:2]] != ADD_METRIC_BODY or ast.unparse(body[4]) != 'return g':
        raise Fail('PlatformCollector._add_metric: shape changed: %s' % ' / '.join(ast.unparse(s) for s in body)[:200])
    c = body[2].value if isinstance(body[2], ast.Assign) and ast.unparse(body[2].targets[0]) == 'g' else None
    if not (isinstance(c, ast.Call) and isinstance(c.func, ast.Name) and c.func.id in EIGHT):
        raise Fail('PlatformCollector._add_metric: g is not built by a family constructor: %s' % ast.unparse(body[2])[:100])
    if c.func.id not in VALUE_STYLE:
        raise Fail('PlatformCollector._add_metric: %s is used; only Unknown/Counter/Gauge call shapes are modelled' % c.func.id)
    if ast.unparse(c) != '%s(name, documentation, labels=labels)' % c.func.id:
        raise Fail('PlatformCollector._add_metric: constructor call shape: %s' % ast.unparse(c)[:100])
    a = body[3].value if isinstance(body[3], ast.Expr) else None
    if not (isinstance(a, ast.Call) and ast.unparse(a.func) == 'g.add_metric' and len(a.args) == 2 and not a.keywords
            and ast.unparse(a.args[0]) == 'values'):
        raise Fail('PlatformCollector._add_metric: add_metric call shape: %s' % ast.unparse(body[3])[:100])
    value = const(a.args[1], int)
    if isinstance(value, bool) or value < 0:
        raise Fail('PlatformCollector._add_metric: value literal %r' % value)
    init = find_func(tree, '__init__', cls='PlatformCollector')
    calls = [n for n in ast.walk(cls) if isinstance(n, ast.Call) and ast.unparse(n.func) == 'self._add_metric']
    if len(calls) != 1 or len(calls[0].args) != 3 or calls[0].keywords or ast.unparse(calls[0].args[2]) != 'info':
        raise Fail('PlatformCollector: expected one self._add_metric(<name>, <doc>, info) call')
    name, doc = const(calls[0].args[0], str), const(calls[0].args[1], str)
    src = [ast.unparse(s) for s in init.body]
    want_head = ['info = self._info()', 'system = self._platform.system()']
    assign = [s for s in init.body if isinstance(s, ast.Assign) and ast.unparse(s.targets[0]) == 'self._metrics']
    if len(assign) != 1 or not isinstance(assign[0].value, ast.List) or assign[0].value.elts != [calls[0]]:
        raise Fail('PlatformCollector.__init__: self._metrics is not [self._add_metric(...)]')
    if not all(w in src for w in want_head):
        raise Fail('PlatformCollector.__init__: info / system statements changed')
    ifs = [s for s in init.body if isinstance(s, ast.If) and ast.unparse(s.test).startswith('system ==')]
    if len(ifs) != 1 or ifs[0].orelse or [ast.unparse(s) for s in ifs[0].body] != ['info.update(self._java())']:
        raise Fail('PlatformCollector.__init__: `if system == <literal>: info.update(self._java())` not found')
    java = const(ifs[0].test.comparators[0], str)
    col = find_func(tree, 'collect', cls='PlatformCollector')
    cb = [s for s in col.body if not (isinstance(s, ast.Expr) and isinstance(s.value, ast.Constant))]
    if [ast.unparse(s) for s in cb] != ['return self._metrics']:
        raise Fail('PlatformCollector.collect: is not `return self._metrics`')
    # nobody else writes self._metrics
    w = [n for n in ast.walk(cls) if isinstance(n, ast.Attribute) and n.attr == '_metrics' and isinstance(n.ctx, (ast.Store, ast.Del))]
    if len(w) != 1:
        raise Fail('PlatformCollector: self._metrics is assigned %d times' % len(w))
    site = {'cls': c.func.id, 'prefixed': False, 'name': name, 'doc': doc, 'labels': None, 'value': False, 'adds': 1,
            'addlabels': 0, 'key': ''}
    return site, value, _dict_keys(find_func(tree, '_info', cls='PlatformCollector'), 'PlatformCollector._info'), \
        _dict_keys(find_func(tree, '_java', cls='PlatformCollector'), 'PlatformCollector._java'), java


# ---------------------------------------------------------------------------------------------------- ProcessCollector
def _process(repo):
    tree = parse(repo, SOURCES[2])
    cls = _cls(tree, 'ProcessCollector')
    _no_backdoor(cls)
    init = find_func(tree, '__init__', cls='ProcessCollector')
    pre = [s for s in init.body if isinstance(s, ast.If) and ast.unparse(s.test) == 'namespace']
    if len(pre) != 1 or len(pre[0].body) != 1 or len(pre[0].orelse) != 1:
        raise Fail('ProcessCollector.__init__: `if namespace: self._prefix = … else: self._prefix = …` not found')
    a, b = pre[0].body[0], pre[0].orelse[0]
    if not (isinstance(a, ast.Assign) and ast.unparse(a.targets[0]) == 'self._prefix' and isinstance(a.value, ast.BinOp)
            and isinstance(a.value.op, ast.Add) and ast.unparse(a.value.left) == 'namespace'
            and isinstance(b, ast.Assign) and ast.unparse(b.targets[0]) == 'self._prefix'):
        raise Fail('ProcessCollector.__init__: prefix assignments changed')
    prefix_ns, prefix_plain = const(a.value.right, str), const(b.value, str)
    w = [n for n in ast.walk(cls) if isinstance(n, ast.Attribute) and n.attr == '_prefix' and isinstance(n.ctx, (ast.Store, ast.Del))]
    if len(w) != 2:
        raise Fail('ProcessCollector: self._prefix is assigned %d times' % len(w))
    fn = find_func(tree, 'collect', cls='ProcessCollector')
    body = [s for s in fn.body if not (isinstance(s, ast.Expr) and isinstance(s.value, ast.Constant))]
    shape = [type(s).__name__ for s in body]
    if shape != ['If', 'Assign', 'Assign', 'Try', 'Try', 'Return']:
        raise Fail('ProcessCollector.collect: statement kinds %s' % shape)
    if ast.unparse(body[0]) != 'if not self._btime:\n    return []':
        raise Fail('ProcessCollector.collect: does not start with `if not self._btime: return []`')
    if ast.unparse(body[2]) != 'result = []' or ast.unparse(body[5]) != 'return result':
        raise Fail('ProcessCollector.collect: result = [] / return result changed')
    allsites, orders = [], []
    for t in body[3:5]:
        sites, var = [], {}
        if len(t.handlers) != 1 or ast.unparse(t.handlers[0].type) != 'OSError' or ast.unparse(t.handlers[0].body[0]) != 'pass' \
                or len(t.handlers[0].body) != 1 or t.orelse or t.finalbody:
            raise Fail('ProcessCollector.collect: try statement is not try/except OSError: pass')
        for c in _ctor_calls(t):
            s = _value_ctor(c, 'ProcessCollector.collect')
            if not s['value'] or s['labels'] is not None:
                raise Fail('ProcessCollector.collect: %s built without a value or with labels' % s['name'])
            v = _assigned_var(t, c)
            s['key'] = v
            var[v] = len(sites)
            sites.append(s)
        # result is only touched by one result.extend([...]) as the last statement of the try body
        touch = [n for n in ast.walk(t) if isinstance(n, ast.Name) and n.id == 'result']
        last = t.body[-1]
        if len(touch) != 1 or not (isinstance(last, ast.Expr) and isinstance(last.value, ast.Call)
                                   and ast.unparse(last.value.func) == 'result.extend' and len(last.value.args) == 1
                                   and isinstance(last.value.args[0], ast.List)
                                   and all(isinstance(e, ast.Name) for e in last.value.args[0].elts)):
            raise Fail('ProcessCollector.collect: try body does not end with the only result.extend([<names>])')
        order = []
        for e in last.value.args[0].elts:
            if e.id not in var:
                raise Fail('ProcessCollector.collect: extends result with %s, which is not a constructed family' % e.id)
            order.append(var[e.id])
        orders.append(order)
        allsites.append(sites)
        if any(isinstance(n, ast.Attribute) and n.attr == 'add_metric' for n in ast.walk(t)):
            raise Fail('ProcessCollector.collect: add_metric call')
    # no constructor outside the two try statements
    if len(_ctor_calls(fn)) != sum(len(x) for x in allsites):
        raise Fail('ProcessCollector.collect: family constructor outside the try statements')
    # the second try: max_fds is bound only inside `for line in limits: if …: max_fds = …; break`
    cond = [n for n in ast.walk(body[4]) if isinstance(n, ast.If)]
    if len(cond) != 1 or not any(isinstance(x, ast.Break) for x in cond[0].body):
        raise Fail('ProcessCollector.collect: the conditional binding in the limits loop changed')
    conditional = [var[_assigned_var(body[4], c)] for c in _ctor_calls(cond[0])]
    if len(allsites[1]) != 2 or conditional != [0]:
        raise Fail('ProcessCollector.collect: second try statement: expected a family bound in the limits loop, then one built '
                   'unconditionally (found %d constructor calls, conditional %r)' % (len(allsites[1]), conditional))
    return allsites, orders, prefix_ns, prefix_plain


def _nats(xs):
    return '[' + ', '.join(str(x) for x in xs) + ']'


DEFAULT_SITE = {'cls': 'GaugeMetricFamily', 'prefixed': False, 'name': 'x', 'doc': '', 'labels': None, 'value': False, 'adds': 0,
                'addlabels': 0, 'key': ''}


def generate(repo):
    fails = []
    gc, plat, proc = ([], []), (DEFAULT_SITE, 1, [], [], 'Java'), ([[], []], [[], []], '_process_', 'process_')
    for what, f in (('gc', _gc), ('platform', _platform), ('process', _process)):
        try:
            r = f(repo)
            if what == 'gc':
                gc = r
            elif what == 'platform':
                plat = r
            else:
                proc = r
        except Fail as e:
            fails.append('%s: %s' % (what, e))
        except (OSError, SyntaxError) as e:
            fails.append('%s: %s: %s' % (what, type(e).__name__, e))
    out = header(TARGET, SOURCES)
    for f in fails:
        out += '-- EXTRACT-FAIL builtins.%s\n' % f.replace('\n', ' ')
    out += 'def extractOk : Bool := %s\n' % ('false' if fails else 'true')
    out += STRUCT
    out += '/-- `GCCollector.collect`: the constructor calls in source order -/\ndef gcSites : List Site := %s\n' % _sites(gc[0])
    out += '/-- … and the indices of the returned list -/\ndef gcReturn : List Nat := %s\n' % _nats(gc[1])
    out += '/-- `PlatformCollector._add_metric` as called from `__init__` -/\ndef platformSite : Site := %s\n' % _site(plat[0])
    out += '/-- the `int` literal passed to `g.add_metric(values, <literal>)` -/\ndef platformValue : Nat := %d\n' % plat[1]
    out += '/-- keys of the dict literal `_info()` returns, in order -/\ndef platformInfoKeys : List (List Char) := %s\n' % strlist(plat[2])
    out += '/-- keys of the dict literal `_java()` returns, merged in when `system() == platformJavaSystem` -/\n'
    out += 'def platformJavaKeys : List (List Char) := %s\n' % strlist(plat[3])
    out += 'def platformJavaSystem : List Char := %s\n' % chars(plat[4])
    out += '/-- `ProcessCollector.collect`: the constructor calls of the first try statement (reads `<pid>/stat`), in source order -/\n'
    out += 'def processStatSites : List Site := %s\n' % _sites(proc[0][0])
    out += '/-- … of the second try statement: [bound only when a line of `limits` matches, built from `len(os.listdir(fd))`] -/\n'
    out += 'def processFdSites : List Site := %s\n' % _sites(proc[0][1])
    out += '/-- `result.extend([...])` of the first / second try statement, as indices into the respective site list -/\n'
    out += 'def processStatExtend : List Nat := %s\ndef processFdExtend : List Nat := %s\n' % (_nats(proc[1][0]), _nats(proc[1][1]))
    out += '/-- `self._prefix = namespace + processPrefixNs` if `namespace` else `processPrefixPlain` -/\n'
    out += 'def processPrefixNs : List Char := %s\ndef processPrefixPlain : List Char := %s\n' % (chars(proc[2]), chars(proc[3]))
    return out + footer(TARGET)
