"""parser.py `_unquote_unescape`: is the text stripped BEFORE the emptiness test (repaired) or after it (the F8 defect:
an all-whitespace argument then reaches `text[0]` and raises IndexError)."""
import ast
from leanlit import *

TARGET = 'ParseCore'
SOURCES = ['prometheus_client/parser.py']


def generate(repo):
    ok, why, strips_first = True, '', False
    try:
        tree = parse(repo, SOURCES[0])
        f = find_func(tree, '_unquote_unescape')
        strip_at = empty_at = index_at = None
        for i, st in enumerate(f.body):
            src = ast.unparse(st)
            if strip_at is None and src == 'text = text.strip()':
                strip_at = i
            if empty_at is None and isinstance(st, ast.If) and ast.unparse(st.test) == 'not text' \
                    and len(st.body) == 1 and ast.unparse(st.body[0]) == 'return (text, False)':
                empty_at = i
            if index_at is None and isinstance(st, ast.If) and ast.unparse(st.test) == "text[0] == '\"'":
                index_at = i
        if None in (strip_at, empty_at, index_at):
            raise Fail('statements not found: strip=%s empty-test=%s text[0]-test=%s' % (strip_at, empty_at, index_at))
        if not (strip_at < index_at and empty_at < index_at):
            raise Fail('text[0] is read before the strip / emptiness test')
        strips_first = strip_at < empty_at
    except Fail as e:
        ok, why = False, str(e)
    out = header(TARGET, SOURCES)
    if not ok:
        out += '-- EXTRACT-FAIL parser._unquote_unescape: %s\n' % why
    out += 'def extractOk : Bool := %s\n' % ('true' if ok else 'false')
    out += '/-- `text = text.strip()` precedes `if not text: return text, False` -/\n'
    out += 'def unquoteStripsFirst : Bool := %s\n' % ('true' if strips_first else 'false')
    return out + footer(TARGET)
