"""exposition.py / openmetrics/exposition.py: escape chains, type munging, trailing-gauge suffixes, line literals."""
import ast
from leanlit import *

TARGET = 'Expo'
SOURCES = ['prometheus_client/exposition.py', 'prometheus_client/openmetrics/exposition.py', 'prometheus_client/samples.py']


def replace_chain(node):
    """x.replace(a, b).replace(c, d)… -> (base expr source, [(a, b), (c, d), …])"""
    chain = []
    while (isinstance(node, ast.Call) and isinstance(node.func, ast.Attribute) and node.func.attr == 'replace'
           and len(node.args) == 2):
        chain.append((const(node.args[0], str), const(node.args[1], str)))
        node = node.func.value
    chain.reverse()
    return ast.unparse(node), chain


def pairs(chain):
    return '[' + ', '.join('(%s, %s)' % (ch(a) if len(a) == 1 else chars(a), chars(b)) for a, b in chain) + ']'


def generate(repo):
    out = header(TARGET, SOURCES)
    ok, why = True, ''
    v = dict(escapeChain=[], helpChain=[], exemplarChain=[], munge=[], trailing=[], helpChainTrailing=[], exemplarNameEscaped=False, stampAbsNsec=False)
    try:
        text = parse(repo, SOURCES[0])
        om = parse(repo, SOURCES[1])
        # openmetrics._escape
        f = find_func(om, '_escape')
        ret = [n for n in f.body if isinstance(n, ast.Return)][0]
        base, chain = replace_chain(ret.value)
        if base != 's' or not chain: raise Fail('_escape is not a replace chain on s')
        if any(len(a) != 1 for a, _ in chain): raise Fail('_escape replaces multi-character strings')
        v['escapeChain'] = chain
        # exemplar value chain in openmetrics.generate_latest
        g = find_func(om, 'generate_latest')
        ex = None
        for n in ast.walk(g):
            if isinstance(n, ast.Call) and isinstance(n.func, ast.Attribute) and n.func.attr == 'replace':
                b, c = replace_chain(n)
                if b == 'v' and len(c) >= 2:
                    ex = c if ex is None or len(c) > len(ex) else ex
        if ex is None: raise Fail('exemplar value replace chain not found')
        # how the exemplar label NAME is written: raw `k` or `escape_label_name(k)`
        exname = None
        for n in ast.walk(g):
            if (isinstance(n, ast.Call) and isinstance(n.func, ast.Attribute) and n.func.attr == 'format'
                    and isinstance(n.func.value, ast.Constant) and n.func.value.value == '{}="{}"' and len(n.args) == 2):
                b1, c1 = replace_chain(n.args[1])
                if b1 == 'v' and c1:
                    a0 = ast.unparse(n.args[0])
                    if a0 == 'k': exname = False
                    elif a0 == 'escape_label_name(k)': exname = True
                    else: raise Fail('exemplar label name written as %s' % a0)
        if exname is None: raise Fail('exemplar label item format not found')
        v['exemplarNameEscaped'] = exname
        if any(len(a) != 1 for a, _ in ex): raise Fail('exemplar chain replaces multi-character strings')
        v['exemplarChain'] = ex
        # text generate_latest: help chains (family line and trailing-gauge line), munging if-chain, suffix list
        t = find_func(text, 'generate_latest')
        helps = []
        for n in ast.walk(t):
            if isinstance(n, ast.Call) and isinstance(n.func, ast.Attribute) and n.func.attr == 'replace':
                b, c = replace_chain(n)
                if b == 'metric.documentation' and len(c) >= 2:
                    helps.append((n.lineno, c))
        # keep maximal chains only (inner calls are sub-chains)
        helps.sort()
        maxlen = max((len(c) for _, c in helps), default=0)
        helps = [c for _, c in helps if len(c) == maxlen]
        if len(helps) != 2: raise Fail('expected two HELP escaping chains in text generate_latest, found %d' % len(helps))
        v['helpChain'], v['helpChainTrailing'] = helps
        for c in helps:
            if any(len(a) != 1 for a, _ in c): raise Fail('help chain replaces multi-character strings')
        # munging: if mtype == 'counter': mname = mname + '_total' elif …
        munge = []
        for n in ast.walk(t):
            if isinstance(n, ast.If) and ast.unparse(n.test).startswith("mtype == "):
                typ = const(n.test.comparators[0], str)
                suffix, newtyp = '', typ
                for st in n.body:
                    src = ast.unparse(st)
                    if isinstance(st, ast.Assign) and ast.unparse(st.targets[0]) == 'mname':
                        if not (isinstance(st.value, ast.BinOp) and ast.unparse(st.value.left) == 'mname'):
                            raise Fail('munge name form: ' + src)
                        suffix = const(st.value.right, str)
                    elif isinstance(st, ast.Assign) and ast.unparse(st.targets[0]) == 'mtype':
                        newtyp = const(st.value, str)
                    else:
                        raise Fail('munge statement: ' + src)
                munge.append((typ, suffix, newtyp))
        if not munge: raise Fail('type munging chain not found')
        v['munge'] = munge
        # samples.Timestamp.__str__: f"{self.sec}.{self.nsec:09d}" or with abs(self.nsec)
        smp = parse(repo, SOURCES[2])
        st = find_func(smp, '__str__', cls='Timestamp')
        rets = [n for n in st.body if isinstance(n, ast.Return)]
        if len(rets) != 1: raise Fail('Timestamp.__str__ shape')
        src = ast.unparse(rets[0].value)
        if src == "f'{self.sec}.{self.nsec:09d}'": v['stampAbsNsec'] = False
        elif src == "f'{self.sec}.{abs(self.nsec):09d}'": v['stampAbsNsec'] = True
        else: raise Fail('Timestamp.__str__ returns %s' % src)
        tr = None
        for n in ast.walk(t):
            if isinstance(n, ast.For) and ast.unparse(n.target) == 'suffix' and isinstance(n.iter, ast.List):
                tr = [const(e, str) for e in n.iter.elts]
        if tr is None: raise Fail('trailing suffix list not found')
        v['trailing'] = tr
    except Fail as e:
        ok, why = False, str(e)
    if not ok:
        out += '-- EXTRACT-FAIL exposition: %s\n' % why
    out += 'def extractOk : Bool := %s\n' % ('true' if ok else 'false')
    out += '/-- `openmetrics._escape`: ordered single-character replacements -/\n'
    out += 'def escapeChain : List (Char × List Char) := %s\n' % pairs(v['escapeChain'])
    out += '/-- exemplar label values in the OpenMetrics exposition -/\n'
    out += 'def exemplarChain : List (Char × List Char) := %s\n' % pairs(v['exemplarChain'])
    out += '/-- is the exemplar label name passed through `escape_label_name` (true) or written raw (false) -/\n'
    out += 'def exemplarNameEscaped : Bool := %s\n' % ('true' if v['exemplarNameEscaped'] else 'false')
    out += '/-- `Timestamp.__str__` formats abs(nsec) (true) or the signed nsec (false: a negative Timestamp gets a second minus sign) -/\n'
    out += 'def stampAbsNsec : Bool := %s\n' % ('true' if v['stampAbsNsec'] else 'false')
    out += '/-- HELP text in the text exposition (family line / trailing-gauge line) -/\n'
    out += 'def helpChain : List (Char × List Char) := %s\n' % pairs(v['helpChain'])
    out += 'def helpChainTrailing : List (Char × List Char) := %s\n' % pairs(v['helpChainTrailing'])
    out += '/-- text-format munging: (type, suffix appended to the family name, type written) -/\n'
    out += 'def textMunge : List (List Char × List Char × List Char) := [%s]\n' % ', '.join(
        '(%s, %s, %s)' % (chars(a), chars(b), chars(c)) for a, b, c in v['munge'])
    out += '/-- sample-name suffixes split off into trailing gauge families by the text exposition -/\n'
    out += 'def trailingSuffixes : List (List Char) := %s\n' % strlist(v['trailing'])
    return out + footer(TARGET)
