"""metrics_core: the eight `*MetricFamily` classes of the custom-collector API.

Per class: the type literal passed to `Metric.__init__`, the sample-name suffix literals of the `Sample(...)` calls in
`add_metric` (in source order; a bare `self.name` is the empty suffix), the extra label name literal (`'le'`) of the two
histogram classes, and for CounterMetricFamily the suffix stripped in `__init__` together with the slice length.
The number of `Sample(...)` calls per class is part of the shape: a different number -> EXTRACT-FAIL.
"""
import ast
from leanlit import *

TARGET = 'Families'
SOURCES = ['prometheus_client/metrics_core.py']

# class -> (lean prefix, names of the Sample(...) sites in source order)
CLASSES = [
    ('UnknownMetricFamily', 'unknown', ['Sample']),
    ('CounterMetricFamily', 'counter', ['Total', 'Created']),
    ('GaugeMetricFamily', 'gauge', ['Sample']),
    ('SummaryMetricFamily', 'summary', ['Count', 'Sum']),
    ('HistogramMetricFamily', 'histogram', ['Bucket', 'Count', 'Sum']),
    ('GaugeHistogramMetricFamily', 'gaugehistogram', ['Bucket', 'Gcount', 'Gsum']),
    ('InfoMetricFamily', 'info', ['Info']),
    ('StateSetMetricFamily', 'stateset', ['Sample']),
]
LE_CLASSES = ('histogram', 'gaugehistogram')


def _is_self_name(n):
    return isinstance(n, ast.Attribute) and n.attr == 'name' and isinstance(n.value, ast.Name) and n.value.id == 'self'


def _suffix(arg):
    """first argument of Sample(...): `self.name` -> '' ; `self.name + '<lit>'` -> lit"""
    if _is_self_name(arg):
        return ''
    if isinstance(arg, ast.BinOp) and isinstance(arg.op, ast.Add) and _is_self_name(arg.left):
        return const(arg.right, str)
    raise Fail('sample name is neither self.name nor self.name + literal: %s' % ast.unparse(arg)[:80])


def _class_type(init, cls):
    calls = [n for n in ast.walk(init) if isinstance(n, ast.Call) and isinstance(n.func, ast.Attribute)
             and n.func.attr == '__init__' and isinstance(n.func.value, ast.Name) and n.func.value.id == 'Metric']
    if len(calls) != 1:
        raise Fail('%s.__init__ has %d Metric.__init__ calls' % (cls, len(calls)))
    c = calls[0]
    if len(c.args) < 4 or c.keywords:
        raise Fail('%s: Metric.__init__ call shape changed: %s' % (cls, ast.unparse(c)[:100]))
    return const(c.args[3], str)


def _le(add, cls):
    """the literal label name in `[('le', bucket)]`"""
    found = []
    for n in ast.walk(add):
        if isinstance(n, ast.List) and len(n.elts) == 1 and isinstance(n.elts[0], ast.Tuple) and len(n.elts[0].elts) == 2 \
                and isinstance(n.elts[0].elts[0], ast.Constant) and isinstance(n.elts[0].elts[0].value, str):
            found.append(n.elts[0].elts[0].value)
    if len(found) != 1:
        raise Fail('%s.add_metric: expected one [(<literal>, bucket)] label, found %r' % (cls, found))
    return found[0]


def _counter_strip(init):
    """`if name.endswith('<lit>'): name = name[:-k]` as the first statement (after the docstring-less body start)"""
    for st in init.body:
        if isinstance(st, ast.If) and ast.unparse(st.test).startswith('name.endswith(') and not st.orelse and len(st.body) == 1:
            t = st.test
            if not (isinstance(t, ast.Call) and len(t.args) == 1 and not t.keywords):
                break
            lit = const(t.args[0], str)
            b = st.body[0]
            if not (isinstance(b, ast.Assign) and ast.unparse(b.targets[0]) == 'name' and isinstance(b.value, ast.Subscript)
                    and ast.unparse(b.value.value) == 'name' and isinstance(b.value.slice, ast.Slice)
                    and b.value.slice.lower is None and b.value.slice.step is None
                    and isinstance(b.value.slice.upper, ast.UnaryOp) and isinstance(b.value.slice.upper.op, ast.USub)):
                raise Fail('CounterMetricFamily.__init__: strip statement is not name = name[:-k]: %s' % ast.unparse(b)[:80])
            k = const(b.value.slice.upper.operand, int)
            if k <= 0:
                raise Fail('CounterMetricFamily.__init__: slice length %r' % k)
            # it must precede Metric.__init__
            return lit, k, True
    raise Fail("CounterMetricFamily.__init__: `if name.endswith(<literal>): name = name[:-k]` not found")


def _emit(ok, types, sufs, les, strip, why=''):
    out = header(TARGET, SOURCES)
    if not ok:
        out += '-- EXTRACT-FAIL metrics_core.families: %s\n' % why
    out += 'def extractOk : Bool := %s\n' % ('true' if ok else 'false')
    for cls, pre, sites in CLASSES:
        out += '/-- `%s`: type passed to `Metric.__init__` -/\n' % cls
        out += 'def %sType : List Char := %s\n' % (pre, chars(types.get(pre, 'unknown')))
        for s in sites:
            out += 'def %s%s : List Char := %s\n' % (pre, s, chars(sufs.get((pre, s), '')))
        if pre in LE_CLASSES:
            out += 'def %sLe : List Char := %s\n' % (pre, chars(les.get(pre, 'le')))
    out += "/-- `if name.endswith(counterStrip): name = name[:-counterStripLen]` in `CounterMetricFamily.__init__` -/\n"
    out += 'def counterStrips : Bool := %s\n' % ('true' if strip[2] else 'false')
    out += 'def counterStrip : List Char := %s\n' % chars(strip[0])
    out += 'def counterStripLen : Nat := %d\n' % strip[1]
    return out + footer(TARGET)


def generate(repo):
    types, sufs, les = {}, {}, {}
    strip = ('_total', 6, True)
    try:
        tree = parse(repo, SOURCES[0])
        for cls, pre, sites in CLASSES:
            init = find_func(tree, '__init__', cls=cls)
            add = find_func(tree, 'add_metric', cls=cls)
            types[pre] = _class_type(init, cls)
            calls = [n for n in ast.walk(add) if isinstance(n, ast.Call) and isinstance(n.func, ast.Name) and n.func.id == 'Sample']
            calls.sort(key=lambda n: (n.lineno, n.col_offset))
            if len(calls) != len(sites):
                raise Fail('%s.add_metric has %d Sample(...) calls, expected %d' % (cls, len(calls), len(sites)))
            for s, c in zip(sites, calls):
                if not c.args:
                    raise Fail('%s.add_metric: Sample() without positional name' % cls)
                sufs[(pre, s)] = _suffix(c.args[0])
            if pre in LE_CLASSES:
                les[pre] = _le(add, cls)
            # nothing else may add samples: no add_sample / samples assignment in add_metric or __init__
            for fn in (init, add):
                for n in ast.walk(fn):
                    if isinstance(n, ast.Attribute) and n.attr == 'add_sample':
                        raise Fail('%s.%s uses add_sample' % (cls, fn.name))
                    if isinstance(n, (ast.Assign, ast.AugAssign)) and 'self.samples' in ast.unparse(
                            n.targets[0] if isinstance(n, ast.Assign) else n.target):
                        raise Fail('%s.%s assigns self.samples' % (cls, fn.name))
        # a counter that stops stripping is a shape change
        try:
            strip = _counter_strip(find_func(tree, '__init__', cls='CounterMetricFamily'))
        except Fail as e:
            # model the code that exists: no strip statement -> the model does not strip either; the site is flagged
            return _emit(False, types, sufs, les, ('_total', 6, False), str(e))
        # Metric.add_sample: appends exactly one Sample built from its arguments
        a = find_func(tree, 'add_sample', cls='Metric')
        body = [s for s in a.body if not (isinstance(s, ast.Expr) and isinstance(s.value, ast.Constant))]
        if len(body) != 1 or ast.unparse(body[0]) != 'self.samples.append(Sample(name, labels, value, timestamp, exemplar, native_histogram))':
            raise Fail('Metric.add_sample changed: %s' % ' / '.join(ast.unparse(s) for s in body)[:160])
        return _emit(True, types, sufs, les, strip)
    except Fail as e:
        return _emit(False, types, sufs, les, strip, str(e))
