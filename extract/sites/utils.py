"""utils.floatToGoString: threshold, strip set, exponent literal/width, special spellings."""
import ast
from leanlit import *

TARGET = 'Utils'
SOURCES = ['prometheus_client/utils.py']

DEFAULTS = dict(dotThreshold=0, stripChars='', expLit='', expMinWidth=0, posInfText='', negInfText='', nanText='')

def _emit(ok, v, why=''):
    out = header(TARGET, SOURCES)
    if not ok:
        out += '-- EXTRACT-FAIL utils.floatToGoString: %s\n' % why
    out += 'def extractOk : Bool := %s\n' % ('true' if ok else 'false')
    out += 'def dotThreshold : Nat := %d\n' % v['dotThreshold']
    out += 'def stripChars : List Char := %s\n' % chars(v['stripChars'])
    out += 'def expLit : List Char := %s\n' % chars(v['expLit'])
    out += 'def expMinWidth : Nat := %d\n' % v['expMinWidth']
    out += 'def posInfText : List Char := %s\n' % chars(v['posInfText'])
    out += 'def negInfText : List Char := %s\n' % chars(v['negInfText'])
    out += 'def nanText : List Char := %s\n' % chars(v['nanText'])
    return out + footer(TARGET)

def generate(repo):
    v = dict(DEFAULTS)
    try:
        tree = parse(repo, SOURCES[0])
        f = find_func(tree, 'floatToGoString')
        # shape: d = float(d); if d == INF: return A elif d == MINUS_INF: return B elif math.isnan(d): return C else: ...
        top = [n for n in f.body if isinstance(n, ast.If)]
        if len(top) != 1: raise Fail('expected one top-level if')
        n = top[0]
        def cmp_name(t, name):
            return (isinstance(t, ast.Compare) and len(t.ops) == 1 and isinstance(t.ops[0], ast.Eq)
                    and isinstance(t.left, ast.Name) and t.left.id == 'd'
                    and isinstance(t.comparators[0], ast.Name) and t.comparators[0].id == name)
        def ret_const(body):
            if len(body) != 1 or not isinstance(body[0], ast.Return): raise Fail('return of a literal expected')
            return const(body[0].value, str)
        if not cmp_name(n.test, 'INF'): raise Fail('first test is not d == INF')
        v['posInfText'] = ret_const(n.body)
        n2 = n.orelse[0] if len(n.orelse) == 1 and isinstance(n.orelse[0], ast.If) else None
        if n2 is None or not cmp_name(n2.test, 'MINUS_INF'): raise Fail('second test is not d == MINUS_INF')
        v['negInfText'] = ret_const(n2.body)
        n3 = n2.orelse[0] if len(n2.orelse) == 1 and isinstance(n2.orelse[0], ast.If) else None
        if n3 is None or 'isnan' not in ast.dump(n3.test): raise Fail('third test is not math.isnan(d)')
        v['nanText'] = ret_const(n3.body)
        els = n3.orelse
        # s = repr(d); dot = s.find('.'); if d > 0 and dot > K: mantissa = f'..'.rstrip(SET); return f'{mantissa}LIT{dot - 1:W}'; return s
        kinds = [type(x).__name__ for x in els]
        if kinds != ['Assign', 'Assign', 'If', 'Return']: raise Fail('else-branch shape %s' % kinds)
        if ast.unparse(els[0]) != 's = repr(d)': raise Fail('s = repr(d) expected')
        if ast.unparse(els[1]) != "dot = s.find('.')": raise Fail("dot = s.find('.') expected")
        if ast.unparse(els[3]) != 'return s': raise Fail('return s expected')
        iff = els[2]
        t = iff.test
        if not (isinstance(t, ast.BoolOp) and isinstance(t.op, ast.And) and len(t.values) == 2
                and ast.unparse(t.values[0]) == 'd > 0'
                and isinstance(t.values[1], ast.Compare) and ast.unparse(t.values[1].left) == 'dot'
                and isinstance(t.values[1].ops[0], ast.Gt)):
            raise Fail('test is not `d > 0 and dot > K`: %s' % ast.unparse(t))
        v['dotThreshold'] = const(t.values[1].comparators[0], int)
        if iff.orelse or len(iff.body) != 2: raise Fail('if body shape')
        m, r = iff.body
        # mantissa
        if not (isinstance(m, ast.Assign) and ast.unparse(m.targets[0]) == 'mantissa'
                and isinstance(m.value, ast.Call) and isinstance(m.value.func, ast.Attribute)
                and m.value.func.attr == 'rstrip' and len(m.value.args) == 1):
            raise Fail('mantissa = f"…".rstrip(SET) expected')
        v['stripChars'] = const(m.value.args[0], str)
        js = m.value.func.value
        if ast.unparse(js) != "f'{s[0]}.{s[1:dot]}{s[dot + 1:]}'":
            raise Fail('mantissa f-string changed: %s' % ast.unparse(js))
        # return f'{mantissa}e+{dot - 1:02d}'
        if not (isinstance(r, ast.Return) and isinstance(r.value, ast.JoinedStr)): raise Fail('return f-string expected')
        parts = r.value.values
        if not (len(parts) == 3 and isinstance(parts[0], ast.FormattedValue) and ast.unparse(parts[0].value) == 'mantissa'
                and parts[0].format_spec is None and isinstance(parts[1], ast.Constant)
                and isinstance(parts[2], ast.FormattedValue) and ast.unparse(parts[2].value) == 'dot - 1'):
            raise Fail('return f-string shape: %s' % ast.unparse(r.value))
        v['expLit'] = parts[1].value
        spec = parts[2].format_spec
        if spec is None:
            v['expMinWidth'] = 0
        else:
            st = ''.join(const(x, str) for x in spec.values)
            import re
            mm = re.fullmatch(r'0(\d+)d?', st)
            if not mm: raise Fail('format spec %r not understood' % st)
            v['expMinWidth'] = int(mm.group(1))
        return _emit(True, v)
    except Fail as e:
        return _emit(False, v, str(e))
