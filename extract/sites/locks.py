"""C02 — LOCK SKELETONS of the methods that touch shared state (values.py, metrics.py, registry.py).

Purely syntactic (DESIGN.md 2.2), so it reacts to exactly the edits C02's measured mutations make:

  with <e>            e ends in `_lock` / is the closure name `lock`      -> withLock l [body]
  shared attr / closure var   Load                                         -> read x
                              Store / Del / subscript-store / mutator call -> write x   (`self._file.write_value(…)` is
                              the store into the shared mmap file: write file)
                              AugAssign target                             -> rmw x
  x.copy() / copy.copy(x)                                                  -> copy x
  for … in <shared | alias of shared>[.items()/.values()/.keys()]          -> iterate x [body]
  call of collect / describe / desc_func / _samples / _child_samples       -> callUser c
  self.__class__(…) / process_identifier()                                 -> callLib c
  yield / yield from                                                       -> yield
  self.m(…) / X.__m(…) / X._m(…) with m a (non-listed) method of a class of the same module: m's skeleton is spliced in
  everything else is skipped; nesting is kept; statement order and (approximately) evaluation order are kept.
  Besides the skeletons, `inPlace` lists per method the shared objects it mutates IN PLACE (subscript store / delete, mutator
  call) as opposed to rebinding the attribute: an object handed out by reference (Info's label dict inside its Sample) must
  only ever be rebound.
  The body of `if pid[...] != <fresh identifier>:` (the after-fork branch of MmapedValue, property C09) is not part of the
  skeleton: threads of one process never take it.

`name = <shared>` makes `name` an alias (iterating it is iterating the shared object); `name = <copy of shared>` does not.
"""
import ast
from leanlit import *

TARGET = 'Locks'
SOURCES = ['prometheus_client/values.py', 'prometheus_client/metrics.py', 'prometheus_client/registry.py']

SHARED = {'_value': 'value', '_exemplar': 'exemplar', '_timestamp': 'timestamp', '_metrics': 'metrics',
          '_collector_to_names': 'collectorToNames', '_names_to_collectors': 'namesToCollectors',
          '_target_info': 'targetInfo', 'files': 'files', 'values': 'values', 'pid': 'pid', '_file': 'file'}
CLOSURE_SHARED = {'files', 'values', 'pid'}          # free variables of MultiProcessValue's closure
USER_CALLS = {'collect': 'collect', 'describe': 'describe', 'desc_func': 'descFunc', '_samples': 'samples',
              '_child_samples': 'childSamples'}
MUTATORS = {'append', 'clear', 'pop', 'add', 'update', 'remove', 'setdefault', 'popitem', 'extend', 'insert', 'discard',
            'write_value'}      # MmapedDict.write_value: the store into the shared mmap file
VIEWS = {'items', 'values', 'keys'}

# (file index, class, enclosing factory function or None, lock id of `self._lock` / `lock` in that class)
CLASSES = {
    'MutexValue': (0, None, 'value'),
    'MmapedValue': (0, 'MultiProcessValue', 'global'),
    'MetricWrapperBase': (1, None, 'parent'),
    'Info': (1, None, 'value'),
    'Enum': (1, None, 'value'),
    'CollectorRegistry': (2, None, 'registry'),
    'RestrictedRegistry': (2, None, 'registry'),
}
METHODS = [
    ('MutexValue', 'inc'), ('MutexValue', 'set'), ('MutexValue', 'set_exemplar'), ('MutexValue', 'get'),
    ('MutexValue', 'get_exemplar'),
    ('MmapedValue', '__init__'), ('MmapedValue', 'inc'), ('MmapedValue', 'set'), ('MmapedValue', 'get'),
    ('MetricWrapperBase', 'labels'), ('MetricWrapperBase', 'remove'), ('MetricWrapperBase', 'clear'),
    ('MetricWrapperBase', '_multi_samples'),
    ('Info', 'info'), ('Info', '_child_samples'), ('Enum', 'state'), ('Enum', '_child_samples'),
    ('CollectorRegistry', 'register'), ('CollectorRegistry', 'unregister'), ('CollectorRegistry', 'collect'),
    ('CollectorRegistry', 'set_target_info'), ('CollectorRegistry', 'get_target_info'),
    ('RestrictedRegistry', 'collect'),
]

DECL = '''inductive LockId | registry | parent | value | global
deriving DecidableEq, Repr
inductive Var | value | exemplar | timestamp | metrics | collectorToNames | namesToCollectors | targetInfo
              | files | values | pid | file
deriving DecidableEq, Repr
inductive Callee | collect | describe | descFunc | samples | childSamples | childCtor | processIdentifier
deriving DecidableEq, Repr
/-- lock skeleton of a method: what is touched under which lock, what is called, where it yields -/
inductive Sk
  | withLock (l : LockId) (body : List Sk)
  | read (x : Var)
  | write (x : Var)
  | rmw (x : Var)
  | copy (x : Var)
  | iterate (x : Var) (body : List Sk)
  | callUser (c : Callee)
  | callLib (c : Callee)
  | yield
deriving Repr
'''


def lean_name(cls, meth):
    return '%s_%s' % (cls, meth.strip('_') if meth.startswith('__') else meth.lstrip('_'))


def find_class(tree, cls, factory):
    body = tree.body
    if factory:
        body = find_func(tree, factory).body
    for n in body:
        if isinstance(n, ast.ClassDef) and n.name == cls:
            return n
    raise Fail('class %s not found' % cls)


class Walker:
    def __init__(self, module_classes, cls_node, cls, lock_id, closure):
        self.module_classes = module_classes      # {class name: ClassDef} of the same module (for helper splicing)
        self.cls_node = cls_node
        self.cls = cls
        self.lock_id = lock_id
        self.closure = closure                    # closure names count as shared only inside MultiProcessValue
        self.alias = {}
        self.visiting = []
        self.inplace = []                         # shared objects mutated IN PLACE (as opposed to rebinding the attribute)

    # ---- classification helpers
    def shared_of(self, n):
        """Var name if expression n denotes a shared object (attribute, closure variable or alias), else None"""
        if isinstance(n, ast.Attribute) and n.attr in SHARED and n.attr not in CLOSURE_SHARED:
            return SHARED[n.attr]
        if isinstance(n, ast.Name):
            if self.closure and n.id in CLOSURE_SHARED:
                return SHARED[n.id]
            if n.id in self.alias:
                return self.alias[n.id]
        return None

    def shared_view(self, n):
        """shared object possibly behind .items()/.values()/.keys()"""
        if (isinstance(n, ast.Call) and isinstance(n.func, ast.Attribute) and n.func.attr in VIEWS and not n.args):
            return self.shared_of(n.func.value)
        return self.shared_of(n)

    def copy_of(self, n):
        if isinstance(n, ast.Call):
            f = n.func
            if isinstance(f, ast.Attribute) and f.attr == 'copy':
                if isinstance(f.value, ast.Name) and f.value.id == 'copy' and len(n.args) == 1:
                    return self.shared_of(n.args[0])          # copy.copy(x)
                if not n.args:
                    return self.shared_of(f.value)            # x.copy()
            if isinstance(f, ast.Name) and f.id in ('dict', 'list', 'set', 'tuple') and len(n.args) == 1:
                return self.shared_of(n.args[0])              # dict(x) / list(x): a snapshot as well
        return None

    def lock_of(self, e):
        if isinstance(e, ast.Attribute) and e.attr.endswith('_lock'):
            return self.lock_id
        if isinstance(e, ast.Name) and (e.id == 'lock' or e.id.endswith('_lock')):
            return self.lock_id
        return None

    def helper(self, name):
        """a method of a class of this module that is spliced (never one of the user-call names)"""
        if name in USER_CALLS:
            return None
        cands = []
        for cn, c in self.module_classes.items():
            for m in c.body:
                if isinstance(m, ast.FunctionDef) and m.name == name:
                    cands.append((cn, m))
        own = [m for cn, m in cands if cn == self.cls]
        if own:
            return own[0]
        if len(cands) == 1:
            return cands[0][1]
        return None

    # ---- statements
    def block(self, stmts):
        out = []
        for s in stmts:
            out += self.stmt(s)
        return out

    def stmt(self, s):
        if isinstance(s, ast.With):
            inner = None
            pre = []
            locks = []
            for it in s.items:
                l = self.lock_of(it.context_expr)
                if l is not None:
                    locks.append(l)
                else:
                    pre += self.expr(it.context_expr)
            body = self.block(s.body)
            for l in reversed(locks):
                body = [('withLock', l, body)]
            return pre + body
        if isinstance(s, (ast.For, ast.AsyncFor)):
            x = self.shared_view(s.iter)
            if x is not None:
                return [('iterate', x, self.block(s.body))] + self.block(s.orelse)
            return self.expr(s.iter) + self.block(s.body) + self.block(s.orelse)
        if isinstance(s, ast.AugAssign):
            out = self.expr(s.value)
            x = self.target_shared(s.target)
            if x is not None:
                return out + self.target_prefix(s.target) + [('rmw', x)]
            return out + self.expr(s.target)
        if isinstance(s, (ast.Assign, ast.AnnAssign)):
            if s.value is None:
                return []
            targets = s.targets if isinstance(s, ast.Assign) else [s.target]
            cp = self.copy_of(s.value)
            sh = self.shared_view(s.value)
            out = self.expr(s.value)
            for t in targets:
                out += self.store(t)
                if isinstance(t, ast.Name):
                    if cp is None and sh is not None:
                        self.alias[t.id] = sh
                    else:
                        self.alias.pop(t.id, None)
            return out
        if isinstance(s, ast.Delete):
            out = []
            for t in s.targets:
                out += self.store(t)
            return out
        if isinstance(s, (ast.Return, ast.Expr)):
            return self.expr(s.value) if s.value is not None else []
        if isinstance(s, (ast.If, ast.While)):
            if isinstance(s, ast.If) and self.fork_guard(s.test):
                # `if pid['value'] != actual_pid:` — the branch taken after a fork() (property C09); threads of ONE
                # process never take it, so only the test's reads belong to the C02 skeleton
                return self.expr(s.test) + self.block(s.orelse)
            return self.expr(s.test) + self.block(s.body) + self.block(s.orelse)
        if isinstance(s, ast.Try):
            out = self.block(s.body)
            for h in s.handlers:
                out += self.block(h.body)
            return out + self.block(s.orelse) + self.block(s.finalbody)
        if isinstance(s, ast.Raise):
            return (self.expr(s.exc) if s.exc else [])
        if isinstance(s, (ast.FunctionDef, ast.AsyncFunctionDef, ast.ClassDef, ast.Pass, ast.Break, ast.Continue,
                          ast.Import, ast.ImportFrom, ast.Global, ast.Nonlocal, ast.Assert)):
            return []
        raise Fail('statement kind %s not understood in %s' % (type(s).__name__, self.cls))

    def fork_guard(self, test):
        return (self.closure and isinstance(test, ast.Compare) and len(test.ops) == 1
                and isinstance(test.ops[0], ast.NotEq)
                and any(isinstance(n, ast.Name) and n.id == 'pid' for n in ast.walk(test)))

    def target_shared(self, t):
        x = self.shared_of(t)
        if x is not None:
            return x
        if isinstance(t, ast.Subscript):
            return self.shared_of(t.value)
        return None

    def target_prefix(self, t):
        """reads performed to evaluate the target itself (receiver, subscript index)"""
        if isinstance(t, ast.Subscript):
            pre = self.expr(t.slice)
            if isinstance(t.value, ast.Attribute):
                pre = self.expr(t.value.value) + pre
            return pre
        if isinstance(t, ast.Attribute):
            return self.expr(t.value)
        return []

    def store(self, t):
        if isinstance(t, (ast.Tuple, ast.List)):
            out = []
            for e in t.elts:
                out += self.store(e)
            return out
        if isinstance(t, ast.Starred):
            return self.store(t.value)
        x = self.target_shared(t)
        if x is not None:
            if isinstance(t, ast.Subscript):
                self.inplace.append(x)            # d[k] = v / del d[k]: the object itself is changed
            return self.target_prefix(t) + [('write', x)]
        if isinstance(t, ast.Name):
            return []
        return self.target_prefix(t)

    # ---- expressions
    def exprs(self, ns):
        out = []
        for n in ns:
            out += self.expr(n)
        return out

    def expr(self, n):
        if n is None:
            return []
        if isinstance(n, ast.Call):
            return self.call(n)
        if isinstance(n, (ast.Yield, ast.YieldFrom)):
            return self.expr(n.value) + [('yield',)]
        if isinstance(n, ast.Attribute):
            x = self.shared_of(n)
            pre = self.expr(n.value)
            return pre + ([('read', x)] if x is not None else [])
        if isinstance(n, ast.Name):
            x = self.shared_of(n)
            return [('read', x)] if x is not None else []
        if isinstance(n, (ast.ListComp, ast.SetComp, ast.GeneratorExp, ast.DictComp)):
            elts = [n.key, n.value] if isinstance(n, ast.DictComp) else [n.elt]
            return self.comp(n.generators, elts)
        if isinstance(n, ast.Lambda):
            return []
        out = []
        for c in ast.iter_child_nodes(n):
            if isinstance(c, ast.expr):
                out += self.expr(c)
            elif isinstance(c, ast.keyword):
                out += self.expr(c.value)
            elif isinstance(c, ast.comprehension):
                raise Fail('stray comprehension')
        return out

    def comp(self, gens, elts):
        if not gens:
            return self.exprs(elts)
        g = gens[0]
        x = self.shared_view(g.iter)
        inner = self.exprs(g.ifs) + self.comp(gens[1:], elts)
        if x is not None:
            return [('iterate', x, inner)]
        return self.expr(g.iter) + inner

    def call(self, n):
        f = n.func
        args = self.exprs(n.args) + self.exprs([k.value for k in n.keywords])
        cp = self.copy_of(n)
        if cp is not None:
            return [('copy', cp)]
        if isinstance(f, ast.Attribute):
            recv = self.shared_of(f.value)
            if recv is not None and f.attr in MUTATORS:
                self.inplace.append(recv)         # x.clear() / x.update(…) / x.append(…): the object itself is changed
                return args + [('write', recv)]
            if f.attr in USER_CALLS:
                return self.expr(f.value) + args + [('callUser', USER_CALLS[f.attr])]
            if f.attr == '__class__':
                return self.expr(f.value) + args + [('callLib', 'childCtor')]
            name = f.attr
            if name.startswith('_%s__' % self.cls):          # already-mangled spelling
                name = name[len(self.cls) + 1:]
            is_self = isinstance(f.value, ast.Name) and f.value.id == 'self'
            if is_self or (name.startswith('_') and not name.endswith('__')):
                h = self.helper(name)
                if h is not None and not any(m is h for m in self.visiting) and len(self.visiting) < 4:
                    self.visiting.append(h)
                    saved = self.alias
                    self.alias = {}
                    try:
                        body = self.block(h.body)
                    finally:
                        self.alias = saved
                        self.visiting.pop()
                    return self.expr(f.value) + args + body
            return self.expr(f.value) + args
        if isinstance(f, ast.Name):
            if f.id in USER_CALLS:
                return args + [('callUser', USER_CALLS[f.id])]
            if f.id == 'process_identifier':
                return args + [('callLib', 'processIdentifier')]
            return args
        return self.expr(f) + args


def render(items, ind=2):
    def one(it):
        k = it[0]
        if k == 'withLock':
            return '.withLock .%s %s' % (it[1], render(it[2], ind + 2))
        if k == 'iterate':
            return '.iterate .%s %s' % (it[1], render(it[2], ind + 2))
        if k == 'yield':
            return '.yield'
        return '.%s .%s' % (k, it[1])
    if not items:
        return '[]'
    pad = ' ' * ind
    return '[\n' + ',\n'.join(pad + one(i) for i in items) + ']'


def _emit(ok, sks, whys, inplace=None):
    out = header(TARGET, SOURCES) + DECL
    for w in whys:
        out += '-- EXTRACT-FAIL locks.%s\n' % w
    out += 'def extractOk : Bool := %s\n' % ('true' if ok else 'false')
    names = []
    for cls, meth in METHODS:
        nm = lean_name(cls, meth)
        names.append(nm)
        out += '/-- `%s.%s` -/\ndef %s : List Sk := %s\n' % (cls, meth, nm, render(sks.get(nm, [])))
    out += 'def all : List (String × List Sk) := [\n' + ',\n'.join('  ("%s", %s)' % (n, n) for n in names) + ']\n'
    inplace = inplace or {}
    out += ('/-- per method: the shared objects it changes IN PLACE (subscript store / delete, `clear`, `update`, `append`, …) rather\n'
            'than by rebinding the attribute to a fresh object -/\n')
    out += 'def inPlace : List (String × List Var) := [\n' + ',\n'.join(
        '  ("%s", [%s])' % (n, ', '.join('.' + v for v in sorted(set(inplace.get(n, []))))) for n in names) + ']\n'
    return out + footer(TARGET)


FALLBACK = _emit(False, {}, ['all: extractor exception'])


def generate(repo):
    sks, whys, inplace = {}, [], {}
    trees = {}
    for i, rel in enumerate(SOURCES):
        try:
            trees[i] = parse(repo, rel)
        except (OSError, SyntaxError) as e:
            whys.append('%s: cannot parse (%s)' % (rel, type(e).__name__))
    mod_classes = {}
    for cls, (fi, factory, _) in CLASSES.items():
        if fi in trees:
            try:
                mod_classes.setdefault(fi, {})[cls] = find_class(trees[fi], cls, factory)
            except Fail as e:
                whys.append('%s: %s' % (cls, e))
    for cls, meth in METHODS:
        fi, factory, lock_id = CLASSES[cls]
        nm = lean_name(cls, meth)
        try:
            cnode = mod_classes.get(fi, {}).get(cls)
            if cnode is None:
                raise Fail('class missing')
            fn = None
            for m in cnode.body:
                if isinstance(m, ast.FunctionDef) and m.name == meth:
                    fn = m
            if fn is None:
                raise Fail('method not found')
            w = Walker(mod_classes[fi], cnode, cls, lock_id, closure=(factory is not None))
            w.visiting.append(fn)
            sks[nm] = w.block(fn.body)
            inplace[nm] = list(w.inplace)
        except Fail as e:
            whys.append('%s.%s: %s' % (cls, meth, e))
    return _emit(not whys, sks, whys, inplace)
