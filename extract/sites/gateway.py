"""exposition.{push_to_gateway,pushadd_to_gateway,delete_from_gateway,_use_gateway,_escape_grouping_key}:
method literals, content type, URL format strings, scheme list/prefix, strip set, `sorted(` around the grouping key,
the `@base64` / `=` literals and the shape of the three-way case split (C19)."""
import ast
from leanlit import *

TARGET = 'Gateway'
SOURCES = ['prometheus_client/exposition.py']
SITE = 'exposition._use_gateway'

# defaults = the baseline literals, so that after an EXTRACT-FAIL the model is still the model of the intended code
DEFAULTS = dict(methodPut='PUT', methodPost='POST', methodDelete='DELETE', deleteLit='DELETE',
                contentTypeLatest='text/plain; version=0.0.4; charset=utf-8', headerName='Content-Type',
                urlFmt=['', '/metrics/', '/', ''], pairFmt=['/', '/', ''], jobLit='job', base64Suffix='@base64',
                emptyMarker='=', slashLit='/', httpPrefix='http://', allowedSchemes=['http', 'https'], rstripChars='/',
                sortsGroupingKey=True, spaceAsPlus=False,
                # the library's own handlers (_make_handler, default/passthrough/basic-auth, redirect_request)
                mhMethodInstalled=True, mhTimeoutPassed=True, mhErrorFrom=400, mhErrorClass='OSError',
                defaultBase='HTTPHandler', redirectBase='_PrometheusRedirectHandler',
                authHeaderName='Authorization', authPrefix='Basic ', authSep=':',
                redirSafeCodes=[301, 302, 303, 307], redirSafeMethods=['GET', 'HEAD'],
                redirUnsafeCodes=[301, 302, 303], redirUnsafeMethods=['POST', 'PUT'],
                redirSpaceFrom=' ', redirSpaceTo='%20', redirErrorClass='HTTPError', registryNoneIsDefault=True)


def _emit(ok, v, why=''):
    out = header(TARGET, SOURCES)
    if not ok:
        out += '-- EXTRACT-FAIL %s: %s\n' % (SITE, why)
    out += 'def extractOk : Bool := %s\n' % ('true' if ok else 'false')
    for name in ('methodPut', 'methodPost', 'methodDelete', 'deleteLit', 'contentTypeLatest', 'headerName',
                 'jobLit', 'base64Suffix', 'emptyMarker', 'slashLit', 'httpPrefix', 'rstripChars'):
        out += 'def %s : List Char := %s\n' % (name, chars(v[name]))
    out += 'def urlFmt : List (List Char) := %s\n' % strlist(v['urlFmt'])
    out += 'def pairFmt : List (List Char) := %s\n' % strlist(v['pairFmt'])
    out += 'def allowedSchemes : List (List Char) := %s\n' % strlist(v['allowedSchemes'])
    out += 'def sortsGroupingKey : Bool := %s\n' % ('true' if v['sortsGroupingKey'] else 'false')
    # which urllib encoder the plain branch uses: quote_plus(v) (space -> '+') or quote(v, safe='') (space -> %20)
    out += 'def spaceAsPlus : Bool := %s\n' % ('true' if v['spaceAsPlus'] else 'false')
    # ---- the handlers: `_make_handler.handle`
    # `request.get_method = lambda: method` present / `open(request, timeout=timeout)` carries the keyword
    for name in ('mhMethodInstalled', 'mhTimeoutPassed', 'registryNoneIsDefault'):
        out += 'def %s : Bool := %s\n' % (name, 'true' if v[name] else 'false')
    # `if resp.code >= N` -> N; `> N` -> N + 1: the least status that raises
    out += 'def mhErrorFrom : Nat := %d\n' % v['mhErrorFrom']
    for name in ('mhErrorClass', 'defaultBase', 'redirectBase', 'authHeaderName', 'authPrefix', 'authSep',
                 'redirSpaceFrom', 'redirSpaceTo', 'redirErrorClass'):
        out += 'def %s : List Char := %s\n' % (name, chars(v[name]))
    for name in ('redirSafeCodes', 'redirUnsafeCodes'):
        out += 'def %s : List Nat := [%s]\n' % (name, ', '.join(str(int(c)) for c in v[name]))
    for name in ('redirSafeMethods', 'redirUnsafeMethods'):
        out += 'def %s : List (List Char) := %s\n' % (name, strlist(v[name]))
    return out + footer(TARGET)


def _body(f):
    """function body without the docstring"""
    b = list(f.body)
    if b and isinstance(b[0], ast.Expr) and isinstance(b[0].value, ast.Constant) and isinstance(b[0].value.value, str):
        b = b[1:]
    return b


def _method_of(tree, fname, registry_arg):
    """`_use_gateway(LIT, gateway, job, <registry|None>, grouping_key, timeout, handler)` as the only statement"""
    f = find_func(tree, fname)
    b = _body(f)
    if len(b) != 1 or not isinstance(b[0], ast.Expr) or not isinstance(b[0].value, ast.Call):
        raise Fail('%s: a single call of _use_gateway expected' % fname)
    c = b[0].value
    if ast.unparse(c.func) != '_use_gateway' or c.keywords or len(c.args) != 7:
        raise Fail('%s: call shape %s' % (fname, ast.unparse(c)))
    rest = [ast.unparse(a) for a in c.args[1:]]
    if rest != ['gateway', 'job', registry_arg, 'grouping_key', 'timeout', 'handler']:
        raise Fail('%s: arguments %s' % (fname, rest))
    return const(c.args[0], str)


def _split_fmt(s, n):
    parts = s.split('{}')
    if len(parts) != n + 1 or '{' in ''.join(parts) or '}' in ''.join(parts):
        raise Fail('format string %r: %d plain {} fields expected' % (s, n))
    return parts


def _fmt_call(node, n_fields):
    """`'<fmt>'.format(...)` -> (pieces, args)"""
    if not (isinstance(node, ast.Call) and isinstance(node.func, ast.Attribute) and node.func.attr == 'format'
            and not node.keywords):
        raise Fail('str.format call expected: %s' % ast.unparse(node))
    return _split_fmt(const(node.func.value, str), n_fields), node.args


HANDLER_PARAMS = ['url', 'method', 'timeout', 'headers', 'data']


def _tuple_consts(node, typ, what):
    if not isinstance(node, (ast.Tuple, ast.List, ast.Set)):
        raise Fail('%s: a literal tuple expected: %s' % (what, ast.unparse(node)))
    return [const(e, typ) for e in node.elts]


def _handlers(tree, v):
    """_make_handler/handle, default_handler, passthrough_redirect_handler, basic_auth_handler/handle,
    _PrometheusRedirectHandler.redirect_request"""
    # ------------------------------------------------------------ _make_handler
    f = find_func(tree, '_make_handler')
    if [a.arg for a in f.args.args] != HANDLER_PARAMS + ['base_handler']:
        raise Fail('_make_handler parameters %s' % [a.arg for a in f.args.args])
    b = _body(f)
    if not (len(b) == 2 and isinstance(b[0], ast.FunctionDef) and b[0].name == 'handle' and not b[0].args.args
            and ast.unparse(b[1]) == 'return handle'):
        raise Fail('_make_handler: def handle() + return handle expected')
    h = _body(b[0])
    src = [ast.unparse(x) for x in h]
    if not src or src[0] != 'request = Request(url, data=data)':
        raise Fail('_make_handler.handle: request = Request(url, data=data) expected: %s' % (src[:1],))
    i = 1
    v['mhMethodInstalled'] = False
    if i < len(h) and src[i] == 'request.get_method = lambda: method':
        v['mhMethodInstalled'] = True
        i += 1
    if not (i < len(h) and isinstance(h[i], ast.For) and not h[i].orelse and isinstance(h[i].target, ast.Tuple)
            and [ast.unparse(e) for e in h[i].target.elts] == ['k', 'v'] and ast.unparse(h[i].iter) == 'headers'
            and [ast.unparse(x) for x in h[i].body] == ['request.add_header(k, v)']):
        raise Fail('_make_handler.handle: header loop / method installation not understood: %s' % src[i:i + 1])
    i += 1
    if i < len(h) and src[i] == 'resp = build_opener(base_handler).open(request, timeout=timeout)':
        v['mhTimeoutPassed'] = True
    elif i < len(h) and src[i] == 'resp = build_opener(base_handler).open(request)':
        v['mhTimeoutPassed'] = False
    else:
        raise Fail('_make_handler.handle: open(...) call not understood: %s' % src[i:i + 1])
    i += 1
    if not (i == len(h) - 1 and isinstance(h[i], ast.If) and not h[i].orelse and len(h[i].body) == 1
            and isinstance(h[i].body[0], ast.Raise)):
        raise Fail('_make_handler.handle: a final `if resp.code >= N: raise …` expected')
    t = h[i].test
    if not (isinstance(t, ast.Compare) and ast.unparse(t.left) == 'resp.code' and len(t.ops) == 1
            and isinstance(t.ops[0], (ast.GtE, ast.Gt))):
        raise Fail('_make_handler.handle: status test not understood: %s' % ast.unparse(t))
    n = const(t.comparators[0], int)
    if isinstance(n, bool) or n < 0:
        raise Fail('status threshold %r' % (n,))
    v['mhErrorFrom'] = n if isinstance(t.ops[0], ast.GtE) else n + 1
    r = h[i].body[0]
    if not (r.cause is None and isinstance(r.exc, ast.Call) and isinstance(r.exc.func, ast.Name)):
        raise Fail('raise <Class>(...) expected: %s' % ast.unparse(r))
    v['mhErrorClass'] = r.exc.func.id
    imports = [n for n in tree.body if isinstance(n, ast.ImportFrom) and n.module == 'urllib.request' and n.level == 0]
    for name in ('Request', 'build_opener', 'HTTPHandler', 'HTTPRedirectHandler'):
        if not any(a.name == name and a.asname is None for n in imports for a in n.names):
            raise Fail('urllib.request.%s is not imported under its own name' % name)
        if any(isinstance(n, (ast.FunctionDef, ast.ClassDef)) and n.name == name for n in tree.body):
            raise Fail('%s is redefined in the module' % name)

    # ------------------------------------------------------------ default_handler / passthrough_redirect_handler
    def base_of(fname):
        g = find_func(tree, fname)
        if [a.arg for a in g.args.args] != HANDLER_PARAMS:
            raise Fail('%s parameters' % fname)
        gb = _body(g)
        if not (len(gb) == 1 and isinstance(gb[0], ast.Return) and isinstance(gb[0].value, ast.Call)
                and ast.unparse(gb[0].value.func) == '_make_handler' and not gb[0].value.keywords
                and [ast.unparse(a) for a in gb[0].value.args[:5]] == HANDLER_PARAMS and len(gb[0].value.args) == 6
                and isinstance(gb[0].value.args[5], ast.Name)):
            raise Fail('%s: return _make_handler(url, method, timeout, headers, data, <Base>) expected' % fname)
        return gb[0].value.args[5].id
    v['defaultBase'] = base_of('default_handler')
    v['redirectBase'] = base_of('passthrough_redirect_handler')
    for fname in ('push_to_gateway', 'pushadd_to_gateway', 'delete_from_gateway'):
        g = find_func(tree, fname)
        names = [a.arg for a in g.args.args]
        dflt = dict(zip(names[len(names) - len(g.args.defaults):], g.args.defaults))
        if 'handler' not in dflt or ast.unparse(dflt['handler']) != 'default_handler':
            raise Fail('%s: handler does not default to default_handler' % fname)

    # ------------------------------------------------------------ basic_auth_handler
    f = find_func(tree, 'basic_auth_handler')
    if [a.arg for a in f.args.args] != HANDLER_PARAMS + ['username', 'password'] \
            or [ast.unparse(d) for d in f.args.defaults] != ['None', 'None']:
        raise Fail('basic_auth_handler parameters')
    b = _body(f)
    if not (len(b) == 2 and isinstance(b[0], ast.FunctionDef) and b[0].name == 'handle' and ast.unparse(b[1]) == 'return handle'):
        raise Fail('basic_auth_handler: def handle() + return handle expected')
    h = _body(b[0])
    if not (len(h) == 2 and isinstance(h[0], ast.If) and not h[0].orelse
            and ast.unparse(h[0].test) == 'username is not None and password is not None'
            and ast.unparse(h[1]) == 'default_handler(url, method, timeout, headers, data)()'):
        raise Fail('basic_auth_handler.handle: `if username is not None and password is not None: …; default_handler(…)()` expected')
    a = h[0].body
    if len(a) != 4:
        raise Fail('basic_auth_handler.handle: four statements expected in the auth branch')
    js = a[0].value
    if not (isinstance(a[0], ast.Assign) and ast.unparse(a[0].targets[0]) == 'auth_value' and isinstance(js, ast.Call)
            and isinstance(js.func, ast.Attribute) and js.func.attr == 'encode' and not js.args and not js.keywords
            and isinstance(js.func.value, ast.JoinedStr) and len(js.func.value.values) == 3
            and ast.unparse(js.func.value.values[0].value) == 'username' and ast.unparse(js.func.value.values[2].value) == 'password'
            and isinstance(js.func.value.values[1], ast.Constant)):
        raise Fail("auth_value = f'{username}<sep>{password}'.encode() expected: %s" % ast.unparse(a[0]))
    v['authSep'] = js.func.value.values[1].value
    if ast.unparse(a[1]) != 'auth_token = base64.b64encode(auth_value)':
        raise Fail('auth_token = base64.b64encode(auth_value) expected: %s' % ast.unparse(a[1]))
    c = a[2].value
    if not (isinstance(a[2], ast.Assign) and ast.unparse(a[2].targets[0]) == 'auth_header' and isinstance(c, ast.BinOp)
            and isinstance(c.op, ast.Add) and isinstance(c.left, ast.Constant) and isinstance(c.left.value, bytes)
            and ast.unparse(c.right) == 'auth_token'):
        raise Fail("auth_header = b'<prefix>' + auth_token expected: %s" % ast.unparse(a[2]))
    v['authPrefix'] = c.left.value.decode('latin-1')
    c = a[3].value if isinstance(a[3], ast.Expr) else None
    if not (isinstance(c, ast.Call) and ast.unparse(c.func) == 'headers.append' and len(c.args) == 1
            and isinstance(c.args[0], ast.Tuple) and len(c.args[0].elts) == 2 and ast.unparse(c.args[0].elts[1]) == 'auth_header'):
        raise Fail("headers.append(('<name>', auth_header)) expected: %s" % ast.unparse(a[3]))
    v['authHeaderName'] = const(c.args[0].elts[0], str)

    # ------------------------------------------------------------ _PrometheusRedirectHandler.redirect_request
    cls = [n for n in tree.body if isinstance(n, ast.ClassDef) and n.name == '_PrometheusRedirectHandler']
    if len(cls) != 1 or [ast.unparse(x) for x in cls[0].bases] != ['HTTPRedirectHandler']:
        raise Fail('_PrometheusRedirectHandler(HTTPRedirectHandler) expected')
    if [n.name for n in cls[0].body if isinstance(n, (ast.FunctionDef, ast.Assign))] != ['redirect_request']:
        raise Fail('_PrometheusRedirectHandler defines more than redirect_request')
    f = find_func(tree, 'redirect_request', cls='_PrometheusRedirectHandler')
    if [a.arg for a in f.args.args] != ['self', 'req', 'fp', 'code', 'msg', 'headers', 'newurl']:
        raise Fail('redirect_request parameters')
    b = _body(f)
    kinds = [type(x).__name__ for x in b]
    if kinds != ['Assign', 'If', 'Assign', 'Assign', 'Return']:
        raise Fail('redirect_request statement shape %s' % kinds)
    if ast.unparse(b[0]) != "m = getattr(req, 'method', req.get_method())":
        raise Fail('redirect_request: m = getattr(req, "method", req.get_method()) expected')
    t = b[1].test
    ok = (isinstance(t, ast.UnaryOp) and isinstance(t.op, ast.Not) and isinstance(t.operand, ast.BoolOp)
          and isinstance(t.operand.op, ast.Or) and len(t.operand.values) == 2 and not b[1].orelse)
    pairs = []
    if ok:
        for conj in t.operand.values:
            if not (isinstance(conj, ast.BoolOp) and isinstance(conj.op, ast.And) and len(conj.values) == 2
                    and all(isinstance(x, ast.Compare) and len(x.ops) == 1 and isinstance(x.ops[0], ast.In) for x in conj.values)
                    and ast.unparse(conj.values[0].left) == 'code' and ast.unparse(conj.values[1].left) == 'm'):
                ok = False
                break
            pairs.append((_tuple_consts(conj.values[0].comparators[0], int, 'redirect codes'),
                          _tuple_consts(conj.values[1].comparators[0], str, 'redirect methods')))
    if not ok:
        raise Fail('redirect_request: `if not (code in (…) and m in (…) or code in (…) and m in (…))` expected: %s' % ast.unparse(t))
    (v['redirSafeCodes'], v['redirSafeMethods']), (v['redirUnsafeCodes'], v['redirUnsafeMethods']) = pairs
    r = b[1].body
    if not (len(r) == 1 and isinstance(r[0], ast.Raise) and isinstance(r[0].exc, ast.Call) and isinstance(r[0].exc.func, ast.Name)):
        raise Fail('redirect_request: raise <Class>(…) expected in the refusal branch')
    v['redirErrorClass'] = r[0].exc.func.id
    c = b[2].value
    if not (ast.unparse(b[2].targets[0]) == 'new_request' and isinstance(c, ast.Call) and ast.unparse(c.func) == 'Request'
            and len(c.args) == 1):
        raise Fail('redirect_request: new_request = Request(<url>, …) expected')
    kw = {k.arg: ast.unparse(k.value) for k in c.keywords}
    if kw != {'headers': 'req.headers', 'origin_req_host': 'req.origin_req_host', 'unverifiable': 'True', 'data': 'req.data'}:
        raise Fail('redirect_request: fields copied to the new request changed: %s' % sorted(kw.items()))
    u = c.args[0]
    if not (isinstance(u, ast.Call) and ast.unparse(u.func) == 'newurl.replace' and len(u.args) == 2 and not u.keywords):
        raise Fail('redirect_request: newurl.replace(a, b) expected: %s' % ast.unparse(u))
    v['redirSpaceFrom'], v['redirSpaceTo'] = const(u.args[0], str), const(u.args[1], str)
    if len(v['redirSpaceFrom']) != 1:
        raise Fail('redirect_request: a single character is replaced in the model')
    if ast.unparse(b[3]) != 'new_request.method = m' or ast.unparse(b[4]) != 'return new_request':
        raise Fail('redirect_request: new_request.method = m; return new_request expected')


def generate(repo):
    v = dict(DEFAULTS)
    try:
        tree = parse(repo, SOURCES[0])
        v['contentTypeLatest'] = const(find_assign(tree, 'CONTENT_TYPE_LATEST'), str)
        n_ct = sum(1 for n in tree.body if isinstance(n, ast.Assign) and any(
            isinstance(t, ast.Name) and t.id == 'CONTENT_TYPE_LATEST' for t in n.targets))
        if n_ct != 1:
            raise Fail('CONTENT_TYPE_LATEST assigned %d times at module level' % n_ct)
        v['methodPut'] = _method_of(tree, 'push_to_gateway', 'registry')
        v['methodPost'] = _method_of(tree, 'pushadd_to_gateway', 'registry')
        v['methodDelete'] = _method_of(tree, 'delete_from_gateway', 'None')

        # ---------------------------------------------------------------- _use_gateway
        f = find_func(tree, '_use_gateway')
        params = [a.arg for a in f.args.args]
        if params != ['method', 'gateway', 'job', 'registry', 'grouping_key', 'timeout', 'handler']:
            raise Fail('_use_gateway parameters %s' % params)
        b = _body(f)
        kinds = [type(x).__name__ for x in b]
        if kinds != ['Assign', 'If', 'Assign', 'Assign', 'Assign', 'If', 'If', 'AugAssign', 'Expr']:
            raise Fail('_use_gateway statement shape %s' % kinds)
        if ast.unparse(b[0]) != 'gateway_url = urlparse(gateway)':
            raise Fail('gateway_url = urlparse(gateway) expected')
        # if not gateway_url.scheme or gateway_url.scheme not in [..]: gateway = f'http://{gateway}'
        t = b[1].test
        if not (isinstance(t, ast.BoolOp) and isinstance(t.op, ast.Or) and len(t.values) == 2
                and ast.unparse(t.values[0]) == 'not gateway_url.scheme'
                and isinstance(t.values[1], ast.Compare) and ast.unparse(t.values[1].left) == 'gateway_url.scheme'
                and len(t.values[1].ops) == 1 and isinstance(t.values[1].ops[0], ast.NotIn)
                and isinstance(t.values[1].comparators[0], (ast.List, ast.Tuple, ast.Set))):
            raise Fail('scheme test changed: %s' % ast.unparse(t))
        v['allowedSchemes'] = [const(e, str) for e in t.values[1].comparators[0].elts]
        if b[1].orelse or len(b[1].body) != 1:
            raise Fail('scheme defaulting body shape')
        a = b[1].body[0]
        if not (isinstance(a, ast.Assign) and ast.unparse(a.targets[0]) == 'gateway' and isinstance(a.value, ast.JoinedStr)
                and len(a.value.values) == 2 and isinstance(a.value.values[0], ast.Constant)
                and isinstance(a.value.values[1], ast.FormattedValue) and ast.unparse(a.value.values[1].value) == 'gateway'
                and a.value.values[1].format_spec is None and a.value.values[1].conversion == -1):
            raise Fail("gateway = f'<prefix>{gateway}' expected: %s" % ast.unparse(a))
        v['httpPrefix'] = a.value.values[0].value
        # gateway = gateway.rstrip('/')
        s = b[2]
        if not (ast.unparse(s.targets[0]) == 'gateway' and isinstance(s.value, ast.Call)
                and ast.unparse(s.value.func) == 'gateway.rstrip' and len(s.value.args) == 1 and not s.value.keywords):
            raise Fail('gateway = gateway.rstrip(<chars>) expected: %s' % ast.unparse(s))
        v['rstripChars'] = const(s.value.args[0], str)
        # url = '{}/metrics/{}/{}'.format(gateway, *_escape_grouping_key("job", job))
        s = b[3]
        if ast.unparse(s.targets[0]) != 'url':
            raise Fail('url = … expected')
        pieces, args = _fmt_call(s.value, 3)
        if not (len(args) == 2 and ast.unparse(args[0]) == 'gateway' and isinstance(args[1], ast.Starred)
                and isinstance(args[1].value, ast.Call) and ast.unparse(args[1].value.func) == '_escape_grouping_key'
                and len(args[1].value.args) == 2 and ast.unparse(args[1].value.args[1]) == 'job'):
            raise Fail('url format arguments changed: %s' % ast.unparse(s.value))
        v['urlFmt'] = pieces
        v['jobLit'] = const(args[1].value.args[0], str)
        # data = b''; if method != 'DELETE': …; data = generate_latest(registry)
        if ast.unparse(b[4]) != "data = b''":
            raise Fail("data = b'' expected: %s" % ast.unparse(b[4]))
        t = b[5].test
        if not (isinstance(t, ast.Compare) and ast.unparse(t.left) == 'method' and len(t.ops) == 1
                and isinstance(t.ops[0], ast.NotEq)):
            raise Fail('body selection test changed: %s' % ast.unparse(t))
        v['deleteLit'] = const(t.comparators[0], str)
        if b[5].orelse or [ast.unparse(x) for x in b[5].body] != [
                'if registry is None:\n    registry = REGISTRY', 'data = generate_latest(registry)']:
            raise Fail('body selection branch changed')
        if ast.unparse(b[6]) != 'if grouping_key is None:\n    grouping_key = {}':
            raise Fail('grouping_key defaulting changed')
        # url += ''.join('/{}/{}'.format(*_escape_grouping_key(str(k), str(v))) for k, v in sorted(grouping_key.items()))
        s = b[7]
        if not (ast.unparse(s.target) == 'url' and isinstance(s.op, ast.Add) and isinstance(s.value, ast.Call)
                and ast.unparse(s.value.func) == "''.join" and len(s.value.args) == 1
                and isinstance(s.value.args[0], (ast.GeneratorExp, ast.ListComp))):
            raise Fail("url += ''.join(<generator>) expected")
        g = s.value.args[0]
        pieces, args = _fmt_call(g.elt, 2)
        if not (len(args) == 1 and ast.unparse(args[0]) == '*_escape_grouping_key(str(k), str(v))'):
            raise Fail('pair format arguments changed: %s' % ast.unparse(g.elt))
        v['pairFmt'] = pieces
        if len(g.generators) != 1 or g.generators[0].ifs or ast.unparse(g.generators[0].target) != '(k, v)':
            raise Fail('generator shape changed')
        it = ast.unparse(g.generators[0].iter)
        if it == 'sorted(grouping_key.items())':
            v['sortsGroupingKey'] = True
        elif it == 'grouping_key.items()':
            v['sortsGroupingKey'] = False
        else:
            raise Fail('iteration source not understood: %s' % it)
        # handler(url=url, method=method, timeout=timeout, headers=[('Content-Type', CONTENT_TYPE_LATEST)], data=data)()
        c = b[8].value
        if not (isinstance(c, ast.Call) and not c.args and not c.keywords and isinstance(c.func, ast.Call)
                and ast.unparse(c.func.func) == 'handler' and not c.func.args):
            raise Fail('handler(...)() expected: %s' % ast.unparse(b[8]))
        kw = {k.arg: k.value for k in c.func.keywords}
        if sorted(kw) != ['data', 'headers', 'method', 'timeout', 'url']:
            raise Fail('handler keywords %s' % sorted(kw))
        for name in ('data', 'method', 'timeout', 'url'):
            if ast.unparse(kw[name]) != name:
                raise Fail('handler receives %s=%s' % (name, ast.unparse(kw[name])))
        h = kw['headers']
        if not (isinstance(h, ast.List) and len(h.elts) == 1 and isinstance(h.elts[0], ast.Tuple)
                and len(h.elts[0].elts) == 2 and ast.unparse(h.elts[0].elts[1]) == 'CONTENT_TYPE_LATEST'):
            raise Fail('headers changed: %s' % ast.unparse(h))
        v['headerName'] = const(h.elts[0].elts[0], str)

        # ---------------------------------------------------------------- _escape_grouping_key
        f = find_func(tree, '_escape_grouping_key')
        if [a.arg for a in f.args.args] != ['k', 'v']:
            raise Fail('_escape_grouping_key parameters')
        b = _body(f)
        if len(b) != 1 or not isinstance(b[0], ast.If):
            raise Fail('_escape_grouping_key: one if/elif/else expected')
        n1 = b[0]
        if ast.unparse(n1.test) != "v == ''":
            raise Fail("first test is not v == '': %s" % ast.unparse(n1.test))

        def ret_pair(body):
            if len(body) != 1 or not isinstance(body[0], ast.Return) or not isinstance(body[0].value, ast.Tuple) \
                    or len(body[0].value.elts) != 2:
                raise Fail('return of a pair expected')
            return body[0].value.elts

        def k_plus(node):
            if not (isinstance(node, ast.BinOp) and isinstance(node.op, ast.Add) and ast.unparse(node.left) == 'k'):
                raise Fail('k + <suffix> expected: %s' % ast.unparse(node))
            return const(node.right, str)
        e = ret_pair(n1.body)
        v['base64Suffix'] = k_plus(e[0])
        v['emptyMarker'] = const(e[1], str)
        n2 = n1.orelse[0] if len(n1.orelse) == 1 and isinstance(n1.orelse[0], ast.If) else None
        if n2 is None:
            raise Fail('elif expected')
        t = n2.test
        if not (isinstance(t, ast.Compare) and len(t.ops) == 1 and isinstance(t.ops[0], ast.In)
                and isinstance(t.left, ast.Constant) and ast.unparse(t.comparators[0]) == 'v'):
            raise Fail("second test is not '<c>' in v: %s" % ast.unparse(t))
        v['slashLit'] = const(t.left, str)
        e = ret_pair(n2.body)
        if k_plus(e[0]) != v['base64Suffix']:
            raise Fail('the two base64 suffixes differ')
        if ast.unparse(e[1]) != "base64.urlsafe_b64encode(v.encode('utf-8')).decode('utf-8')":
            raise Fail('base64 branch changed: %s' % ast.unparse(e[1]))
        e = ret_pair(n2.orelse)
        plain = ast.unparse(e[1])
        if ast.unparse(e[0]) != 'k' or plain not in ('quote_plus(v)', "quote(v, safe='')"):
            raise Fail('plain branch changed: %s' % ast.unparse(n2.orelse[0]))
        v['spaceAsPlus'] = plain == 'quote_plus(v)'
        used = 'quote_plus' if v['spaceAsPlus'] else 'quote'
        imports = [n for n in tree.body if isinstance(n, (ast.Import, ast.ImportFrom))]
        if not any(isinstance(n, ast.Import) and any(a.name == 'base64' and a.asname is None for a in n.names) for n in imports):
            raise Fail('import base64 changed')
        if not any(isinstance(n, ast.ImportFrom) and n.module == 'urllib.parse' and n.level == 0
                   and any(a.name == used and a.asname is None for a in n.names) for n in imports):
            raise Fail('urllib.parse.%s is not imported under its own name' % used)
        for n in ast.walk(tree):      # the name must not be rebound at module level
            if isinstance(n, (ast.FunctionDef, ast.ClassDef)) and n.name == used:
                raise Fail('%s is redefined in the module' % used)
        _handlers(tree, v)
        return _emit(True, v)
    except Fail as e:
        return _emit(False, v, str(e))
