"""validation.py: the three name regular expressions as (first class, rest class, end-anchor kind)."""
import ast
import re
from leanlit import *

TARGET = 'Validation'
SOURCES = ['prometheus_client/validation.py']


def parse_class(body):
    """'a-zA-Z_:' -> list of (lo, hi) code point ranges"""
    out = []
    i = 0
    while i < len(body):
        if body[i] == '\\':
            raise Fail('escape in character class')
        if i + 2 < len(body) and body[i + 1] == '-':
            out.append((body[i], body[i + 2])); i += 3
        else:
            out.append((body[i], body[i])); i += 1
    return out


def parse_name_re(pat):
    m = re.fullmatch(r'\^\[([^\]]+)\]\[([^\]]+)\]\*(\$|\\Z)', pat)
    if not m:
        raise Fail('pattern %r is not ^[..][..]*$ or \\Z' % pat)
    return parse_class(m.group(1)), parse_class(m.group(2)), m.group(3) == '$'


def ranges(rs):
    return '[' + ', '.join('(%s, %s)' % (ch(a), ch(b)) for a, b in rs) + ']'


def compile_arg(tree, name):
    v = find_assign(tree, name)
    if not (isinstance(v, ast.Call) and ast.unparse(v.func) == 're.compile' and len(v.args) == 1):
        raise Fail('%s is not re.compile(<literal>)' % name)
    return const(v.args[0], str)


def uses_match(tree, func, re_name):
    """how a function applies the regex: 'match' | 'fullmatch' | other"""
    f = find_func(tree, func)
    kinds = set()
    for n in ast.walk(f):
        if isinstance(n, ast.Call) and isinstance(n.func, ast.Attribute) and ast.unparse(n.func.value) == re_name:
            kinds.add(n.func.attr)
    return kinds


def generate(repo):
    out = header(TARGET, SOURCES)
    out += ('/-- a name pattern `^[first][rest]*` + end anchor; `dollar = true` is Python `$` (also matches before a final\n'
            'newline), `false` is `\\Z` / `fullmatch` -/\n'
            'structure NameRe where\n  first : List (Char × Char)\n  rest : List (Char × Char)\n  dollar : Bool\nderiving Repr, DecidableEq\n')
    ok, why = True, ''
    vals = {}
    try:
        tree = parse(repo, SOURCES[0])
        for nm, lean in (('METRIC_NAME_RE', 'metricNameRe'), ('METRIC_LABEL_NAME_RE', 'labelNameRe')):
            f, r, d = parse_name_re(compile_arg(tree, nm))
            vals[lean] = (f, r, d)
        rp = compile_arg(tree, 'RESERVED_METRIC_LABEL_NAME_RE')
        m = re.fullmatch(r'\^(\w+)\.\*(\$|\\Z)', rp)
        if not m:
            raise Fail('reserved pattern %r is not ^<prefix>.*$' % rp)
        vals['reserved'] = (m.group(1), m.group(2) == '$')
        # all uses must be .match (anchored at the start only by ^, end by the pattern's own anchor) or fullmatch
        full = {}
        for fn, rn in (('_validate_metric_name', 'METRIC_NAME_RE'), ('_is_valid_legacy_metric_name', 'METRIC_NAME_RE'),
                       ('_validate_labelname', 'METRIC_LABEL_NAME_RE'), ('_is_valid_legacy_labelname', 'METRIC_LABEL_NAME_RE'),
                       ('_validate_metric_label_name_token', 'METRIC_LABEL_NAME_RE')):
            k = uses_match(tree, fn, rn)
            if not k or not k <= {'match', 'fullmatch'}:
                raise Fail('%s applies %s through %s' % (fn, rn, sorted(k)))
            full[fn] = (k == {'fullmatch'})
        vals['full'] = full
    except Fail as e:
        ok, why = False, str(e)
        vals = {'metricNameRe': ([], [], True), 'labelNameRe': ([], [], True), 'reserved': ('', True),
                'full': {k: False for k in ('_validate_metric_name', '_is_valid_legacy_metric_name', '_validate_labelname',
                                            '_is_valid_legacy_labelname', '_validate_metric_label_name_token')}}
    if not ok:
        out += '-- EXTRACT-FAIL validation regexes: %s\n' % why
    out += 'def extractOk : Bool := %s\n' % ('true' if ok else 'false')
    for lean in ('metricNameRe', 'labelNameRe'):
        f, r, d = vals[lean]
        out += 'def %s : NameRe := ⟨%s, %s, %s⟩\n' % (lean, ranges(f), ranges(r), 'true' if d else 'false')
    out += 'def reservedPrefix : List Char := %s\n' % chars(vals['reserved'][0])
    out += 'def reservedDollar : Bool := %s\n' % ('true' if vals['reserved'][1] else 'false')
    out += '/-- per function: is the regex applied with `fullmatch` (then the end anchor is exact whatever the pattern says) -/\n'
    for fn, v in vals['full'].items():
        out += 'def full%s : Bool := %s\n' % (fn, 'true' if v else 'false')
    return out + footer(TARGET)
