#!/usr/bin/env python3
"""T1 — regenerate lean/PromVerif/Generated/*.lean from /repo's working tree (pure `ast`, nothing imported
from the repo).  Every site module in extract/sites exposes

    TARGET   = 'Utils'                      # -> Generated/Utils.lean
    SOURCES  = ['prometheus_client/utils.py']
    generate(repo) -> str                   # Lean source; must define `extractOk : Bool`

A site that is missing or has an unexpected shape yields `extractOk := false` plus a comment
`-- EXTRACT-FAIL <site>: <why>`; the property theorem `extract_ok` then fails, which the check treats as a broken
proof obligation (never silently skipped).  Files are rewritten only when their content changes.
"""
import importlib
import os
import pkgutil
import sys

HERE = os.path.dirname(os.path.abspath(__file__))
sys.path.insert(0, HERE)

def main(argv):
    repo = os.environ.get('VERIF_REPO', '/repo')
    out = os.path.join(HERE, '..', 'lean', 'PromVerif', 'Generated')
    only = None
    i = 1
    while i < len(argv):
        if argv[i] == '--repo': repo = argv[i + 1]; i += 2
        elif argv[i] == '--out': out = argv[i + 1]; i += 2
        elif argv[i] == '--only': only = set(argv[i + 1].split(',')); i += 2
        else: raise SystemExit('usage: extract.py [--repo DIR] [--out DIR] [--only A,B]')
    os.makedirs(out, exist_ok=True)
    import sites
    changed, fails = [], []
    for m in sorted(pkgutil.iter_modules(sites.__path__), key=lambda m: m.name):
        mod = importlib.import_module('sites.' + m.name)
        if only and mod.TARGET not in only:
            continue
        try:
            text = mod.generate(repo)
        except Exception as e:  # a bug in a site module must not pass silently either
            text = ('-- EXTRACT-FAIL %s: extractor exception %s: %s\n' % (mod.TARGET, type(e).__name__, e)
                    + getattr(mod, 'FALLBACK', 'namespace PromVerif.Generated.%s\ndef extractOk : Bool := false\nend PromVerif.Generated.%s\n' % (mod.TARGET, mod.TARGET)))
        if 'EXTRACT-FAIL' in text:
            fails.append(mod.TARGET)
        path = os.path.join(out, mod.TARGET + '.lean')
        old = open(path).read() if os.path.exists(path) else None
        if old != text:
            with open(path, 'w') as f:
                f.write(text)
            changed.append(mod.TARGET)
    print('extract: changed=%s fails=%s' % (','.join(changed) or '-', ','.join(fails) or '-'))
    return 0

if __name__ == '__main__':
    sys.exit(main(sys.argv))
