/-
pvdriver — line-protocol driver over the executable models (imports no Mathlib).
One request per line: `<module> <op> <fields…>`; one reply per line.
-/
import PromVerif.Drv.All

open PromVerif

partial def loop (h : IO.FS.Stream) (out : IO.FS.Stream) : IO Unit := do
  let line ← h.getLine
  if line.isEmpty then return ()
  let fs := Wire.fields (line.trimAscii.toString)
  let reply := match fs with
    | m :: rest => Drv.dispatch m rest
    | [] => "err empty"
  out.putStrLn reply
  loop h out

def main : IO Unit := do
  let out ← IO.getStdout
  loop (← IO.getStdin) out
  out.flush
