-- Root of the `PromVerif` library: every model, spec, lemma and property module.
import PromVerif.Drv.All
import PromVerif.Props.All
