-- Python exception classes the models distinguish
namespace PromVerif.Py

inductive PyErr
  | valueError | keyError | indexError | typeError | attributeError
  | runtimeError | structError | overflowError | unicodeError | fileNotFound | osError | timeout
deriving Repr, DecidableEq, Inhabited

abbrev PyM := Except PyErr

def PyErr.name : PyErr → String
  | .valueError => "ValueError" | .keyError => "KeyError" | .indexError => "IndexError"
  | .typeError => "TypeError" | .attributeError => "AttributeError" | .runtimeError => "RuntimeError"
  | .structError => "struct.error" | .overflowError => "OverflowError" | .unicodeError => "UnicodeError"
  | .fileNotFound => "FileNotFoundError" | .osError => "OSError" | .timeout => "Timeout"

end PromVerif.Py
