/-
Python `str` operations on `List Char` (no Mathlib).  Each definition follows the CPython
behaviour named in its doc comment; the correspondence harness compares them with the
interpreter at function level.
-/
namespace PromVerif.Py

/-- `s.find(c)` for a one-character needle; `none` is Python's `-1`. -/
def findChar (c : Char) : List Char → Option Nat
  | [] => none
  | x :: xs => if x = c then some 0 else (findChar c xs).map (· + 1)

/-- `s.rstrip(chars)` with `chars` given as a predicate. -/
def rstripSet (p : Char → Bool) : List Char → List Char
  | [] => []
  | c :: cs =>
    match rstripSet p cs with
    | [] => if p c then [] else [c]
    | r => c :: r

/-- `s.lstrip(chars)` -/
def lstripSet (p : Char → Bool) (s : List Char) : List Char := s.dropWhile p

/-- `s.strip(chars)` -/
def stripSet (p : Char → Bool) (s : List Char) : List Char := rstripSet p (lstripSet p s)

def digitChar (d : Nat) : Char := Char.ofNat (48 + d)

/-- `str(n)` for a non-negative int. -/
def decDigits (n : Nat) : List Char :=
  if h : n < 10 then [digitChar n] else decDigits (n / 10) ++ [digitChar (n % 10)]
termination_by n
decreasing_by omega

def isDigit (c : Char) : Bool := '0' ≤ c && c ≤ '9'

def digitVal (c : Char) : Nat := c.toNat - 48

/-- value of a digit string read left to right -/
def parseDigits (s : List Char) : Nat := s.foldl (fun acc c => acc * 10 + digitVal c) 0

/-- `format(n, '0<w>d')`: left-pad with zeros to width `w`. -/
def zpad (w : Nat) (s : List Char) : List Char := List.replicate (w - s.length) '0' ++ s

/-- `s.startswith(p)` -/
def startsWith (p s : List Char) : Bool := p.isPrefixOf s

/-- split on the first occurrence of `c`: text before, and text after if `c` occurs -/
def splitFirst (c : Char) : List Char → List Char × Option (List Char)
  | [] => ([], none)
  | x :: xs =>
    if x = c then ([], some xs)
    else let (a, b) := splitFirst c xs; (x :: a, b)

end PromVerif.Py
