/-
Python `str` operations on `List Char` (no Mathlib).  Each definition follows the CPython
behaviour named in its doc comment; the correspondence harness compares them with the
interpreter at function level.
-/
namespace PromVerif.Py

/-- `s.find(c)` for a one-character needle; `none` is Python's `-1`. -/
def findChar (c : Char) : List Char → Option Nat
  | [] => none
  | x :: xs => if x = c then some 0 else (findChar c xs).map (· + 1)

/-- `s.rstrip(chars)` with `chars` given as a predicate. -/
def rstripSet (p : Char → Bool) : List Char → List Char
  | [] => []
  | c :: cs =>
    match rstripSet p cs with
    | [] => if p c then [] else [c]
    | r => c :: r

/-- `s.lstrip(chars)` -/
def lstripSet (p : Char → Bool) (s : List Char) : List Char := s.dropWhile p

/-- `s.strip(chars)` -/
def stripSet (p : Char → Bool) (s : List Char) : List Char := rstripSet p (lstripSet p s)

def digitChar (d : Nat) : Char := Char.ofNat (48 + d)

/-- `str(n)` for a non-negative int. -/
def decDigits (n : Nat) : List Char :=
  if h : n < 10 then [digitChar n] else decDigits (n / 10) ++ [digitChar (n % 10)]
termination_by n
decreasing_by omega

def isDigit (c : Char) : Bool := '0' ≤ c && c ≤ '9'

def digitVal (c : Char) : Nat := c.toNat - 48

/-- value of a digit string read left to right -/
def parseDigits (s : List Char) : Nat := s.foldl (fun acc c => acc * 10 + digitVal c) 0

/-- `format(n, '0<w>d')`: left-pad with zeros to width `w`. -/
def zpad (w : Nat) (s : List Char) : List Char := List.replicate (w - s.length) '0' ++ s

/-- `s.startswith(p)` -/
def startsWith (p s : List Char) : Bool := p.isPrefixOf s

/-- split on the first occurrence of `c`: text before, and text after if `c` occurs -/
def splitFirst (c : Char) : List Char → List Char × Option (List Char)
  | [] => ([], none)
  | x :: xs =>
    if x = c then ([], some xs)
    else let (a, b) := splitFirst c xs; (x :: a, b)

end PromVerif.Py

namespace PromVerif.Py

abbrev Str := List Char

/-- `a < b` for Python str (lexicographic by code point) -/
def strLt : Str → Str → Bool
  | [], [] => false
  | [], _ :: _ => true
  | _ :: _, [] => false
  | a :: as, b :: bs => if a.toNat < b.toNat then true else if b.toNat < a.toNat then false else strLt as bs

/-- insert into a list sorted by key (stable: after equal keys) -/
def insertByKey {β : Type} (kv : Str × β) : List (Str × β) → List (Str × β)
  | [] => [kv]
  | x :: xs => if strLt kv.1 x.1 then kv :: x :: xs else x :: insertByKey kv xs

/-- `sorted(d.items())` for a dict with str keys (keys unique, so values are never compared) -/
def sortByKey {β : Type} (l : List (Str × β)) : List (Str × β) :=
  l.foldl (fun acc kv => insertByKey kv acc) []

/-- `sep.join(parts)` -/
def joinStr (sep : Str) : List Str → Str
  | [] => []
  | [x] => x
  | x :: xs => x ++ sep ++ joinStr sep xs

/-- `s.replace(old, new)` for a single-character `old` -/
def replaceChar (old : Char) (new : Str) (s : Str) : Str :=
  s.flatMap (fun c => if c = old then new else [c])

/-- `s.endswith(suffix)` -/
def endsWith (suffix s : Str) : Bool := suffix.reverse.isPrefixOf s.reverse

/-- `sub in s` -/
def isInfix (sub : Str) : Str → Bool
  | [] => sub.isEmpty
  | c :: cs => sub.isPrefixOf (c :: cs) || isInfix sub cs

/-- `str(n)` for an int -/
def intStr (n : Int) : Str :=
  match n with
  | .ofNat k => decDigits k
  | .negSucc k => '-' :: decDigits (k + 1)

/-- Python's `str.strip()` whitespace (`str.isspace`): the code points CPython 3.12 treats as space -/
def isPySpace (c : Char) : Bool :=
  let n := c.toNat
  (9 ≤ n && n ≤ 13) || (28 ≤ n && n ≤ 32) || n = 0x85 || n = 0xA0 || n = 0x1680 ||
  (0x2000 ≤ n && n ≤ 0x200A) || n = 0x2028 || n = 0x2029 || n = 0x202F || n = 0x205F || n = 0x3000

/-- `string.whitespace` = ' \t\n\r\x0b\x0c' -/
def isAsciiSpace (c : Char) : Bool :=
  let n := c.toNat
  n = 32 || (9 ≤ n && n ≤ 13)

/-- `s.strip()` -/
def strip (s : Str) : Str := stripSet isPySpace s
def lstrip (s : Str) : Str := lstripSet isPySpace s
def rstrip (s : Str) : Str := rstripSet isPySpace s

end PromVerif.Py
