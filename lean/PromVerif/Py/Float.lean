/-
CPython's `int(str)` and `float(str)` for the driver (executable instantiation of the parsers' number
parameters; the theorems are parametric in these functions and use none of their properties beyond
"raises only ValueError").  Decimal → double is done exactly (integer arithmetic, round-half-even),
validated against CPython by the correspondence harness.
-/
import PromVerif.Py.Str
import PromVerif.Generated.Unicode

namespace PromVerif.Py
open PromVerif.Generated.Unicode

/-- value of a Unicode decimal digit (category Nd) -/
def ndValue? (c : Char) : Option Nat :=
  match ndRanges.find? (fun r => r.1 ≤ c.toNat && c.toNat ≤ r.2) with
  | some r => some ((c.toNat - r.1) % 10)
  | none => none

/-- the whitespace `int()` / `float()` strip: `str.isspace` minus U+001C..U+001F (CPython maps non-ASCII spaces to ' '
and then strips ASCII whitespace, which does not include the four separator controls) -/
def isNumSpace (c : Char) : Bool := isPySpace c && !(0x1c ≤ c.toNat && c.toNat ≤ 0x1f)

def numStrip (s : Str) : Str := stripSet isNumSpace s

/-- digits with single underscores between digits (PEP 515); returns the digit values -/
def digitsUnderscore : Str → Option (List Nat)
  | [] => none
  | c :: cs =>
    match ndValue? c with
    | none => none
    | some d =>
      match cs with
      | [] => some [d]
      | '_' :: rest => (digitsUnderscore rest).map (d :: ·)
      | rest => (digitsUnderscore rest).map (d :: ·)

def natOfDigits (ds : List Nat) : Nat := ds.foldl (fun a d => a * 10 + d) 0

def splitSign : Str → Bool × Str
  | '-' :: t => (true, t)
  | '+' :: t => (false, t)
  | s => (false, s)

/-- `int(s)` base 10: surrounding whitespace, sign, digits with underscores, digit-count limit -/
def pyInt? (s : Str) : Option Int :=
  let (neg, body) := splitSign (numStrip s)
  match digitsUnderscore body with
  | some ds =>
    -- sys.int_info: more than max_str_digits *digits* raises ValueError (leading zeros count)
    if ds.length > maxStrDigits then none
    else
      let n := natOfDigits ds
      some (if neg then - Int.ofNat n else Int.ofNat n)
  | none => none

def bitLength (n : Nat) : Nat := if n = 0 then 0 else n.log2 + 1

/-- the double nearest to `num/den` (round-half-even), as a bit pattern without sign -/
def roundToDoubleBits (num den : Nat) : Nat :=
  if num = 0 then 0 else
  let est : Int := (bitLength num : Int) - (bitLength den : Int)
  let quot (k : Int) : Nat × Nat × Nat :=       -- floor(num / (den * 2^k)), remainder, divisor
    if k ≥ 0 then let d := den * 2 ^ k.toNat; (num / d, num % d, d)
    else let n := num * 2 ^ (-k).toNat; (n / den, n % den, den)
  let k0 : Int := est - 53
  let k1 : Int := if (quot k0).1 ≥ 2 ^ 53 then k0 + 1 else k0
  let k : Int := if k1 < -1074 then -1074 else k1
  let (q, r, d) := quot k
  let q' := if 2 * r > d || (2 * r == d && q % 2 == 1) then q + 1 else q
  if q' < 2 ^ 52 then q'      -- subnormal (k = -1074) or zero
  else
    let biased : Int := k + 52 + 1023
    if biased ≥ 2047 then 0x7FF0000000000000
    else
      let bits := biased.toNat * 2 ^ 52 + (q' - 2 ^ 52)
      if bits ≥ 0x7FF0000000000000 then 0x7FF0000000000000 else bits

/-- `m * 10^e` → double bits, guarding against astronomically large exponents -/
def decimalToBits (m : Nat) (e : Int) : Nat :=
  if m = 0 then 0 else
  let nd : Int := (decDigits m).length
  if e + nd > 400 then 0x7FF0000000000000
  else if e + nd < -400 then 0
  else if e ≥ 0 then roundToDoubleBits (m * 10 ^ e.toNat) 1
  else roundToDoubleBits m (10 ^ (-e).toNat)

def lowerAscii (c : Char) : Char := if 'A' ≤ c && c ≤ 'Z' then Char.ofNat (c.toNat + 32) else c

/-- the exponent part after `e`/`E`: optional sign, digits (underscores allowed between digits) -/
def parseExpPart (s : Str) : Option Int :=
  let (neg, body) := splitSign s
  match digitsUnderscore body with
  | some ds =>
    -- clamp absurd exponents so the arithmetic stays small; the result saturates anyway
    let n := if ds.length > 8 then 100000000 else natOfDigits ds
    some (if neg then - Int.ofNat n else Int.ofNat n)
  | none => none

/-- mantissa `D+[.D*] | .D+` → (digit values of int part ++ frac part, number of frac digits) -/
def parseMantissa (s : Str) : Option (List Nat × Nat) :=
  let (ip, fp) := splitFirst '.' s
  match fp with
  | none => (digitsUnderscore ip).map (·, 0)
  | some f =>
    let i? : Option (List Nat) := if ip.isEmpty then some [] else digitsUnderscore ip
    let f? : Option (List Nat) := if f.isEmpty then some [] else digitsUnderscore f
    match i?, f? with
    | some i, some fd => if i.isEmpty && fd.isEmpty then none else some (i ++ fd, fd.length)
    | _, _ => none

/-- `float(s)` as a bit pattern (NaN canonical `0x7ff8…`, sign kept for NaN as CPython does not matter) -/
def pyFloatBits? (s : Str) : Option Nat :=
  let (neg, body) := splitSign (numStrip s)
  let low := body.map lowerAscii
  let signBit := if neg then 2 ^ 63 else 0
  if low == "inf".toList || low == "infinity".toList then some (signBit + 0x7FF0000000000000)
  else if low == "nan".toList then some 0x7FF8000000000000
  else
    let (mant, ex) := match low.span (· ≠ 'e') with
      | (m, []) => (m, none)
      | (m, _ :: e) => (m, some e)
    match parseMantissa mant, (match ex with | none => some 0 | some e => parseExpPart e) with
    | some (ds, nf), some e =>
      -- strip leading zeros so the digit-count guard is meaningful
      let m := natOfDigits ds
      some (signBit + decimalToBits m (e - nf))
    | _, _ => none

def pyFloat? (s : Str) : Option Float := (pyFloatBits? s).map (fun b => Float.ofBits b.toUInt64)

end PromVerif.Py
