/-
Line-protocol codecs shared by every driver module (no Mathlib).

* text fields cross the wire as lower-case hex of their UTF-8 bytes, prefixed `h:` (empty text = `h:`)
* doubles cross as decimal unsigned 64-bit patterns prefixed `b:`; NaN is canonicalised by the harness
* a missing optional value is `-`
-/
namespace PromVerif.Wire

def hexDigit (n : Nat) : Char :=
  if n < 10 then Char.ofNat (48 + n) else Char.ofNat (87 + n)

def hexVal (c : Char) : Option Nat :=
  if '0' ≤ c ∧ c ≤ '9' then some (c.toNat - 48)
  else if 'a' ≤ c ∧ c ≤ 'f' then some (c.toNat - 87)
  else if 'A' ≤ c ∧ c ≤ 'F' then some (c.toNat - 55)
  else none

def bytesToHex (bs : List UInt8) : String :=
  String.ofList (bs.flatMap fun b => [hexDigit (b.toNat / 16), hexDigit (b.toNat % 16)])

def hexToBytes : List Char → Option (List UInt8)
  | [] => some []
  | [_] => none
  | a :: b :: rest => do
    let x ← hexVal a
    let y ← hexVal b
    let r ← hexToBytes rest
    pure (UInt8.ofNat (x * 16 + y) :: r)

/-- encode text as `h:<hex of utf8>` -/
def encText (s : List Char) : String :=
  "h:" ++ bytesToHex (String.ofList s).toUTF8.toList

/-- decode a `h:<hex>` field to text -/
def decText (f : String) : Option (List Char) :=
  if f.startsWith "h:" then
    match hexToBytes (f.toList.drop 2) with
    | some bs =>
      let ba := ByteArray.mk bs.toArray
      match String.fromUTF8? ba with
      | some s => some s.toList
      | none => none
    | none => none
  else none

/-- decode a `x:<hex>` raw bytes field -/
def decBytes (f : String) : Option (List UInt8) :=
  if f.startsWith "x:" then hexToBytes (f.toList.drop 2) else none

def encBytes (bs : List UInt8) : String := "x:" ++ bytesToHex bs

def decNat (f : String) : Option Nat := f.toNat?

def decInt (f : String) : Option Int := f.toInt?

/-- `b:<u64>` → Float -/
def decFloat (f : String) : Option Float :=
  if f.startsWith "b:" then
    match (String.ofList (f.toList.drop 2)).toNat? with
    | some n => some (Float.ofBits n.toUInt64)
    | none => none
  else none

def encFloat (x : Float) : String :=
  if x.isNaN then "b:9221120237041090560" else "b:" ++ toString x.toBits.toNat

/-- split a request line into fields (single spaces) -/
def fields (line : String) : List String :=
  (line.splitOn " ").filter (· ≠ "")

/-- `;`-separated list field; the empty list is `.` -/
def decList (f : String) : List String :=
  if f = "." then [] else f.splitOn ";"

def encList (xs : List String) : String :=
  if xs.isEmpty then "." else ";".intercalate xs

end PromVerif.Wire
