/-
C12 — in-memory and file-backed value stores are observationally equivalent.

A composition over the models of C01 (`Model/Metrics`, in-process metric objects over an abstract value type), C09
(`Model/Values`, the `MultiProcessValue` closure writing per-type files), C08 (`Model/Multiprocess`, the collector) and
C13 (`Model/Utils.floatToGoString`), glued by `Model/Backends`:

  runMutex ds h      the history through `Model/Metrics` (cells in memory);
  runMmap ds pid clock h   the SAME control flow, every cell a `MmapedValue` — the history compiled to value-object
                     calls and run by `Values.run` from the fresh directory;
  mpCollect          the collector model on the resulting directory;
  normalise          (Spec/Backends) removes exactly the differences the statement lists.

Main theorem `backends_equivalent_partial`: for EVERY history (any length, any label sets, any bucket layouts, all ten
gauge modes, V abstract) the two normalised collections are the same set of `((sample name, sorted labels), value)`.
It is `_partial`: three shapes the statement does not list as intended differences are excluded by hypothesis, each
CONFIRMED ON THE REAL CODE and exhibited by the models (kernel-checked counter-examples below):

  F14  a histogram whose first bound is negative (`not (upper_bounds[0] >= 0)`): the in-process `_child_samples` omits
       `_sum`, the multiprocess collector reports it (hypothesis `hF14`; `negative_first_bound_sum_differs`);
  F28  `remove()` / `clear()`: in multiprocess mode the library only warns ("Removal of labels has not been implemented
       in multi-process mode yet"); the entries stay in the file and a re-created child continues from them
       (hypothesis `NoRemoval`; `remove_not_propagated`, `recreated_child_continues`).  F28 is also CHARACTERISED:
       `backends_equivalent_with_removals_partial` (section 5) proves for EVERY history that the multiprocess
       collection is the in-process collection of the history with its removals erased;
  F29  bucket layouts with numerically equal bounds (`-0.0` and `0.0`, or a repeated bound): the collector merges the
       buckets by `float(le)`, the in-process path lists them separately (hypothesis `BoundsOK.nodup/sorted`; outside
       the collector model, whose bounds are compared by the abstract `lt`).
A gauge label named `pid` is C08's known finding (`C08:gauge-label-named-pid`) and an excluded precondition here
(`WFAllB.noPid`).  Metric names are pairwise different (one registry).

"Same values" in C12 is NUMERIC equality (Python `==`, with NaN = NaN), not identity of bit patterns.  The theorems
are stated with Lean's `=` over an abstract value type `V` and take as hypothesis the law `hz : 0 + a = a` (the collector's
`samples[k] += value` on a `defaultdict(float)`).  For `V := Int` (examples below) the law holds literally.  For the
driver's `V := Float` it holds ONLY UP TO THE SIGN OF ZERO: `0.0 + -0.0` is `0.0`, numerically equal to `-0.0` but a
different bit pattern — so at doubles the theorem is to be read modulo the sign of a zero value, and that reading is
sharp: on the real code `Gauge(multiprocess_mode='livesum').set(-0.0)` (or a counter / summary / histogram `_sum` cell
that only ever received `-0.0`) collects `-0.0` in-process and `0.0` through the collector.  The harness compares
numerically and COUNTS these sign-of-zero differences (evidence `documented_limits.signed-zero-sum`).
The other laws: `not (0 < 0)`, the clock is positive (`time.time()`); all discharged for `Int` below.
What is needed from C13 is `BoundsOK`: every rendered bound reads back (`float(le text)`) as a bound that renders to
the same text — `floatToGoString` is a fixpoint on rendered bounds; `float`/`repr` are CPython's (trusted), so this
is a hypothesis, validated by the harness on every bound of every generated layout.
-/
import PromVerif.Lemmas.BackendsCompose
import PromVerif.Lemmas.BackendsEraseRun
import PromVerif.Props.C01

namespace PromVerif.Props.C12
open PromVerif.Py PromVerif.Generated.Multiprocess
open PromVerif.Model.Metrics (Val Decl Kind Child Action Addr Reg callMethod)
open PromVerif.Model.Multiprocess (VOps BOps Labels SKey)
open PromVerif.Model.Values (Params mmapKey)
open PromVerif.Model.Backends
open PromVerif.Spec.Backends
open PromVerif.Lemmas.Backends
open PromVerif.Lemmas.Metrics (childOf metricOf upd)
set_option autoImplicit false

/-- the extractor found every site C12's models depend on (metrics.py, multiprocess.py / values.py, utils.py) -/
theorem extract_ok : Generated.Metrics.extractOk = true ∧ Generated.Multiprocess.extractOk = true ∧
    Generated.Utils.extractOk = true := by decide

variable {V : Type} [Val V] {B : Type} [DecidableEq B]

/-! ## 1. one front end, one value-store interface -/

/-- **The in-memory run is C01's run** on the calls that reach the metric objects (`Gauge.inc/dec` in a mostrecent mode
raise RuntimeError before anything else, on both back-ends: only their `labels(...)` part is executed).  Hence every
theorem of C01 — `collect_refines_spec`, `rejected_is_frame`, `label_addressing`, … — holds of it; the file-backed run
shares this control flow by construction (`Model/Backends.stepVops` decides with `Metrics.step`). -/
theorem inmemory_is_c01_run (ds : List (MDecl V)) (h : List (Model.Metrics.Op V)) :
    runMutex ds h = (Model.Metrics.run (Reg.fresh (ds.map (·.decl))) (h.map (front ds))).1 :=
  runMutex_eq ds h

/-- … and is the replay of the reference histories of the accepted calls (C01's `state_is_replay_of_accepted`) -/
theorem inmemory_is_replay (ds : List (MDecl V)) (h : List (Model.Metrics.Op V)) :
    runMutex ds h = List.zipWith metricOf (ds.map (·.decl))
      (Spec.Metrics.history (ds.map (·.decl)) (Model.Metrics.accepted (regFresh ds) (h.map (front ds)))) := by
  rw [runMutex_eq]
  exact PromVerif.Props.C01.state_is_replay_of_accepted _ _

/-- **`MutexValue` and `MmapedValue` are driven through one interface**: an ACCEPTED method call changes the in-memory
cells of the child exactly by the value-object calls (`inc` = `+=`, `set` = `=`) that the file-backed run issues to the
child's `MmapedValue`s (`cellUpdates`, statement order of metrics.py) -/
theorem one_interface (d : MDecl V) (hs : Supported d) (t : V) (act : Action V) (c : Child V)
    (hok : (callMethod d.decl true act (some c)).2 = .ok) :
    cellValues d (upd d.decl act c) = applyUpds (cellValues d c) (cellUpdates d t act) :=
  upd_cells d hs t act c hok

/-! ## 2. both back-ends refine the same cell spec -/

/-
FULL STATEMENT: for every history.  MISSING PART: histories containing `remove()` / `clear()` — in multiprocess mode
these do not reach the files (finding F28), after which a re-created child's cells differ (`recreated_child_continues`).
-/
/-- **Cells agree**: after any history without remove/clear, for every live child and every cell of it, the entry in
the process's file holds the in-memory (`MutexValue`) value of that cell, and the cached value of EVERY `MmapedValue`
constructed for that cell is what the file holds (C09's coherence invariant `Values.Inv.cached`, the one behind
`caches_coherent_partial`) — one value, three views. -/
theorem cells_agree_partial (ds : List (MDecl V)) (hwf : WFAll ds) (pid : Str) (clock : Nat → V)
    (hclk : ∀ n, (voOf V).truthy (clock n) = true ∧ Val.lt (Val.zero : V) (clock n) = true)
    (h : List (Model.Metrics.Op V)) (hnr : NoRemoval h) (i : Nat) (d : MDecl V) (hist : Spec.Metrics.Hist V)
    (hd : ds[i]? = some d)
    (hh : (Spec.Metrics.history (ds.map (·.decl)) (Model.Metrics.accepted (regFresh ds) (h.map (front ds))))[i]? = some hist)
    (ka : List Str × List (Action V)) (hka : ka ∈ childList d hist) (pos : Nat) (p : Params) (v : V)
    (hp : (cellParams d ka.1)[pos]? = some p) (hv : (cellValues d (childOf d.decl ka.2))[pos]? = some v) :
    (Model.Values.cellVal (voOf V) (runMmap ds pid clock h).disk (fileOf pid p) (mmapKey p)).1 = v ∧
      ∀ o ∈ (runMmap ds pid clock h).values, o.params = p → o.value = v := by
  obtain ⟨ps', hc⟩ := runMmap_core ds hwf pid clock hclk h hnr
  have h1 := hc.cells i d hist hd hh ka hka pos p v hp hv
  refine ⟨h1, ?_⟩
  intro o ho hop
  -- C09's coherence invariant: the cache of the youngest value object on a key is what its file holds; here every
  -- object is the youngest on its key (one object per cell)
  obtain ⟨j, hj⟩ := List.mem_iff_getElem?.mp ho
  have hcoh := hc.vinv.inv.cached j o hj (isLast_of_nodup _ hc.vinv.uniq j)
  have hb := hc.vinv.inv.bound.bound o ho
  have hpid : (runMmap ds pid clock h).pid = pid := hc.vinv.hpid
  have : Model.Values.cellVal (voOf V) (runMmap ds pid clock h).disk o.file o.key = (o.value, o.ts) := hcoh
  rw [hb.1, hb.2, hop, hpid] at this
  have e := congrArg Prod.fst this
  simp only at e
  rw [← e]
  exact h1

/-! ## 3. the collector on ONE process's files -/

/-- **Single-process collection, one family.**  For a directory whose contributions to metric `d` are the entries of
`d`'s value objects (which `Lemmas/BackendsFiles.contribs_eq` proves of every reachable state), the spec that C08 proves
the collector model computes reports exactly, child by child (`mpChild`):
  * counter / summary cells and the histogram `_sum` cell: `0.0 + value` — the sum over a single file;
  * histogram buckets: the stored NON-cumulative counts cumulated in bound order (`childSeries`: the collector's sort
    leaves the declared order, each merged count is `0.0 + count`), `_count` their total;
  * gauges: min / max of one value = that value, sum = `0.0 + value`, all / liveall the value under `labels + pid`,
    mostrecent the value if its set-time is positive and NO SERIES otherwise. -/
theorem collector_on_one_process (bo : BOps B) (Bs : List B) (d : MDecl V) (hw : WFDeclB bo Bs d)
    (fs : List (Spec.Multiprocess.SFile V)) (pid : Str) (disk : List (Str × Model.Values.Store V)) (h : Spec.Metrics.Hist V)
    (hcs : Spec.Multiprocess.contribs fs d.decl.name = expContribs d pid disk h)
    (hnd : ((childList d h).map (·.1)).Nodup) (hlen : ∀ ka ∈ childList d h, ka.1.length = d.decl.labelnames.length)
    (k : SKey) (v : V) :
    Spec.Multiprocess.value (voOf V) bo fs d.decl.name k = some v ↔
      ∃ ka ∈ childList d h, (k, v) ∈ mpChild bo Bs d pid disk ka :=
  family_value bo Bs d hw fs pid disk h hcs hnd hlen k v

/-- **Bucket labels agree on both paths.**  The multiprocess path stores `le = floatToGoString(bound)` in the key, reads
it back with `float`, sorts, and renders again; the in-process path renders the bound.  Given the fixpoint hypothesis
(`BoundsOK`: the text read back renders to the same text), `normalise` sends the collector's `labels + le` and the
in-process `labels + le` to the same sorted label list. -/
theorem le_labels_agree (d : MDecl V) (hln : d.decl.labelnames.Nodup)
    (hpid : pidMode d = true → "pid".toList ∉ d.decl.labelnames) (key : List Str) (hp : pidMode d = false)
    (hle : leName ∉ d.decl.labelnames) (t : Str) :
    normLabels d (Model.Multiprocess.pyDict (plainLabels d key ++ [(leName, t)]))
      = normLabels d (d.decl.labelnames.zip key ++ [(leName, t)]) :=
  normLabels_bucket d hln hpid key hp hle t

/-- **One child, after `normalise`**: the series the collector reports for the child and the child's in-process samples
are the same set — histogram buckets rebuilt by cumulation = the `_child_samples` cumulation, `_count` = the last
(`+Inf`) bucket = the total, `pid` dropped, a never-set mostrecent gauge absent from both. -/
theorem child_collections_agree (bo : BOps B) (Bs : List B) (d : MDecl V) (hw : WFDeclB bo Bs d)
    (hnopid : isGauge d = true → pidLabel ∉ d.decl.labelnames)
    (hsum : ∀ bs, d.decl.kind = Kind.histogram bs → Model.Metrics.sumExposed (bs.map (·.1)) = true)
    (hz : ∀ a : V, Val.add Val.zero a = a) (hlt : Val.lt (Val.zero : V) Val.zero = false)
    (ns : Str → Labels → Bool) (pid : Str) (disk : List (Str × Model.Values.Store V)) (ka : List Str × List (Action V))
    (hns : isMostRecent d = true → ns d.decl.name (plainLabels d ka.1) = !hasSet ka.2)
    (hcells : ∀ (pos : Nat) (p : Params) (v : V), (cellParams d ka.1)[pos]? = some p →
      (cellValues d (childOf d.decl ka.2))[pos]? = some v → (cv pid disk p).1 = v)
    (hts : isMostRecent d = true → ∀ p ∈ cellParams d ka.1, TsOK ka.2 (cv pid disk p).2)
    (kv : SKey × V) :
    (∃ x ∈ mpChild bo Bs d pid disk ka, normD d ns (mpFlat d x).name (mpFlat d x).labels (mpFlat d x).value = some kv) ↔
      (∃ f ∈ inChild d ka, normD d ns f.name f.labels f.value = some kv) :=
  child_norm bo Bs d hw hnopid hsum hz hlt ns pid disk ka hns hcells hts kv

/-! ## 4. the property -/

/-
FULL STATEMENT (does not hold of the code):
  theorem backends_equivalent : for EVERY history h,
    normalise (mpCollect (runMmap ds pid clock h)) = normalise (collect (runMutex ds h))   as finite maps.
MISSING PART, exactly: (a) `hF14` — no histogram whose first bound is negative (finding F14: the multiprocess path
exposes `_sum`, the in-process path does not); (b) `hnr` — no `remove()` / `clear()` in the history (finding F28: not
implemented in multiprocess mode); (c) the bounds of a histogram read back strictly increasing (`BoundsOK` in `hwf`):
numerically equal bounds (`-0.0`/`0.0`, repeats) are merged by the collector.  Equality is stated as equality of the
SETS of `((sample name, sorted labels), value)` pairs; that the in-process side is a finite map (no key twice) needs in
addition that no two metrics claim one sample name (C06) and is not restated here.
-/
/-- **In-memory and file-backed value stores are observationally equivalent** (values up to `hz`: at doubles, numeric
equality — see the file header on the sign of zero).  For every single-process history without
remove/clear over counters, gauges (every multiprocess mode), summaries and histograms (no negative first bound) — any
length, any label sets, any bucket layouts — collecting through the multiprocess collector SUCCEEDS and yields, after
`normalise` (`_created`, `pid` on all/liveall gauges, order, never-set mostrecent gauges), exactly the series and values
of the in-process collection of the same history. -/
theorem backends_equivalent_partial (bo : BOps B) (ds : List (MDecl V)) (bsOf : MDecl V → List B)
    (hwf : WFAllB bo ds bsOf)
    (hF14 : ∀ d ∈ ds, ∀ bs, d.decl.kind = Kind.histogram bs → Model.Metrics.sumExposed (bs.map (·.1)) = true)
    (hz : ∀ a : V, Val.add Val.zero a = a) (hlt : Val.lt (Val.zero : V) Val.zero = false)
    (pid : Str) (hpid : '_' ∉ pid) (clock : Nat → V)
    (hclk : ∀ n, (voOf V).truthy (clock n) = true ∧ Val.lt (Val.zero : V) (clock n) = true)
    (h : List (Model.Metrics.Op V)) (hnr : NoRemoval h) :
    ∃ out, mpCollect bo (runMmap ds pid clock h) = .ok out ∧
      ∀ kv, kv ∈ normalise ds (neverSetOf ds h) (flatMp out) ↔
        kv ∈ normalise ds (neverSetOf ds h) (flatMutex ds (Model.Metrics.collect (runMutex ds h))) := by
  obtain ⟨ps', hc⟩ := runMmap_core ds hwf.toWFAll pid clock hclk h hnr
  have habs := Lemmas.Metrics.run_fresh_abs (ds.map (·.decl)) (h.map (front ds))
  have hlen : (Spec.Metrics.history (ds.map (·.decl))
      (Model.Metrics.accepted (regFresh ds) (h.map (front ds)))).length = ds.length := by
    have := forall2_length _ _ _ habs.ok
    rw [List.length_map] at this
    exact this
  obtain ⟨out, h1, h2⟩ := compose bo ds bsOf hwf hF14 hz hlt pid hpid _ ps' _ hc hlen
  refine ⟨out, h1, ?_⟩
  intro kv
  rw [inmemory_is_replay ds h]
  exact h2 kv

/-
`normalise` compares `((sample name, sorted labels), value)` pairs only.  What it drops is covered separately:
family name, type and help text by `families_agree_partial` below (the in-process family of a metric carries the
declaration's name, type and help by construction of `MetricWrapperBase.describe/collect`, which C01's model does not
represent: the harness compares the two REAL collections' `(name, type, documentation)`); multiplicity is not compared
(an in-process histogram with a repeated bound lists one series twice, with equal values).
MISSING PART: histories with `remove()` / `clear()` (F28).
-/
/-- **Family metadata agree.**  After any history without remove/clear the collector reports each family ONCE, under
the name of a declared metric, with that metric's type and help text (C08 `accumulate_eq_spec_partial`: first help
wins — here all value objects of a metric carry the same help), and it reports every declared metric that has a child
(an unlabelled metric always has one; a labelled parent without children is reported by neither collection's samples). -/
theorem families_agree_partial (bo : BOps B) (ds : List (MDecl V)) (bsOf : MDecl V → List B) (hwf : WFAllB bo ds bsOf)
    (pid : Str) (hpid : '_' ∉ pid) (clock : Nat → V)
    (hclk : ∀ n, (voOf V).truthy (clock n) = true ∧ Val.lt (Val.zero : V) (clock n) = true)
    (h : List (Model.Metrics.Op V)) (hnr : NoRemoval h) :
    ∃ out, mpCollect bo (runMmap ds pid clock h) = .ok out ∧ (out.map (·.name)).Nodup ∧
      (∀ om ∈ out, ∃ d ∈ ds, om.name = d.decl.name ∧ om.typ = typStr d.decl.kind ∧ om.doc = d.help) ∧
      (∀ (i : Nat) (d : MDecl V) (hist : Spec.Metrics.Hist V), ds[i]? = some d →
        (Spec.Metrics.history (ds.map (·.decl)) (Model.Metrics.accepted (regFresh ds) (h.map (front ds))))[i]? = some hist →
        childList d hist ≠ [] → ∃ om ∈ out, om.name = d.decl.name) := by
  obtain ⟨ps', hc⟩ := runMmap_core ds hwf.toWFAll pid clock hclk h hnr
  have habs := Lemmas.Metrics.run_fresh_abs (ds.map (·.decl)) (h.map (front ds))
  have hlen : (Spec.Metrics.history (ds.map (·.decl))
      (Model.Metrics.accepted (regFresh ds) (h.map (front ds)))).length = ds.length := by
    have := forall2_length _ _ _ habs.ok
    rw [List.length_map] at this
    exact this
  exact families_meta bo ds bsOf hwf pid hpid _ ps' _ hc hlen

/-! ## 5. histories WITH remove() / clear(): the file-backed store behaves as if removals never happened (F28) -/

/-- **The directory does not see removals.**  `remove()` / `clear()` drop child OBJECTS only (the library warns that
removal is not implemented in multiprocess mode); a later `labels()` constructs new `MmapedValue`s on the existing
keys, which re-read the entries (C09: the youngest object on a key is coherent), and updates continue from there.  So
the file-backed run of ANY history leaves exactly the directory of the run of the history with every remove/clear
erased (the erased run's clock shows at each kept call what the full run's clock shows there). -/
theorem directory_ignores_removals (ds : List (MDecl V)) (hwf : WFAll ds) (pid : Str) (clock : Nat → V)
    (hclk : ∀ n, (voOf V).truthy (clock n) = true ∧ Val.lt (Val.zero : V) (clock n) = true)
    (h : List (Model.Metrics.Op V)) :
    (runMmap ds pid clock h).disk = (runMmap ds pid (eraseClock clock h) (erase h)).disk :=
  erase_same_disk ds hwf pid clock hclk h

/-
FULL STATEMENT (of the property, for histories with removals): multiprocess = in-process of the SAME history — false
(F28, `remove_not_propagated`).  What holds instead, and is proved here for EVERY history: multiprocess = in-process of
the history with its removals erased.  MISSING PART relative to the property: the removals themselves; the other
exclusions are those of `backends_equivalent_partial` (F14 `hF14`, F29 / `BoundsOK`, preconditions in `hwf`).
-/
/-- **F28 characterised.**  For every history — `remove()` and `clear()` included — the normalised multiprocess
collection is the normalised IN-PROCESS collection of the history in which every remove/clear is erased: removed
children stay exposed with their last values, a re-created child continues from the old value, a mostrecent gauge set
before its removal keeps its set-time. -/
theorem backends_equivalent_with_removals_partial (bo : BOps B) (ds : List (MDecl V)) (bsOf : MDecl V → List B)
    (hwf : WFAllB bo ds bsOf)
    (hF14 : ∀ d ∈ ds, ∀ bs, d.decl.kind = Kind.histogram bs → Model.Metrics.sumExposed (bs.map (·.1)) = true)
    (hz : ∀ a : V, Val.add Val.zero a = a) (hlt : Val.lt (Val.zero : V) Val.zero = false)
    (pid : Str) (hpid : '_' ∉ pid) (clock : Nat → V)
    (hclk : ∀ n, (voOf V).truthy (clock n) = true ∧ Val.lt (Val.zero : V) (clock n) = true)
    (h : List (Model.Metrics.Op V)) :
    ∃ out, mpCollect bo (runMmap ds pid clock h) = .ok out ∧
      ∀ kv, kv ∈ normalise ds (neverSetOf ds (erase h)) (flatMp out) ↔
        kv ∈ normalise ds (neverSetOf ds (erase h)) (flatMutex ds (Model.Metrics.collect (runMutex ds (erase h)))) := by
  obtain ⟨out, h1, h2⟩ := backends_equivalent_partial bo ds bsOf hwf hF14 hz hlt pid hpid (eraseClock clock h)
    (eraseClock_pos clock hclk h) (erase h) (erase_noRemoval h)
  refine ⟨out, ?_, h2⟩
  have hd := erase_same_disk ds hwf.toWFAll pid clock hclk h
  unfold mpCollect files at h1 ⊢
  rw [hd]
  exact h1

end PromVerif.Props.C12

/-! ## 6. non-vacuity and the counter-examples behind the hypotheses (`V := Int`) -/

namespace PromVerif.Props.C12.Example
open PromVerif.Py PromVerif.Model.Metrics PromVerif.Model.Backends PromVerif.Spec.Backends PromVerif.Lemmas.Backends
open PromVerif.Model.Multiprocess (BOps Labels SKey)
open PromVerif.Props.C01.Example (intVal)
set_option autoImplicit false

/-- bounds as positions in a table of `le` texts: `float(text)` is the position, `floatToGoString` the text there -/
def tblB (texts : List Str) : BOps Nat :=
  ⟨fun t => let i := texts.findIdx (· = t); if i < texts.length then some i else none,
   fun a b => decide (a < b), fun i => texts.getD i []⟩

def bo3 : BOps Nat := tblB ["1.0".toList, "5.0".toList, "+Inf".toList]

/-- a labelled counter, a labelled gauge in mode `livemostrecent`, an unlabelled gauge in mode `all`, a summary and a
histogram with bounds 1, 5, +Inf -/
def ds : List (MDecl Int) :=
  [ ⟨⟨"c".toList, .counter, ["l".toList, "k".toList]⟩, "a counter".toList, []⟩,
    ⟨⟨"g".toList, .gauge, ["l".toList]⟩, "a gauge".toList, "livemostrecent".toList⟩,
    ⟨⟨"a".toList, .gauge, []⟩, "another".toList, "all".toList⟩,
    ⟨⟨"s".toList, .summary, []⟩, "a summary".toList, []⟩,
    ⟨⟨"h".toList, .histogram [(1, "1.0".toList), (5, "5.0".toList), (1000000, "inf".toList)], ["method".toList]⟩,
      "a histogram".toList, []⟩ ]

def bsOf (d : MDecl Int) : List Nat :=
  match d.decl.kind with
  | .histogram _ => [0, 1, 2]
  | _ => []

/-- a history: two children of the counter (one addressed twice, a rejected negative increment), a mostrecent gauge
child that is only touched, one that is set, a blocked `inc`, the unlabelled gauge, summary and histogram observations
(one exactly on a bound) -/
def hist : List (Op Int) :=
  [ .call 0 (.labels [.str "x".toList, .str "y".toList] []) (.inc 2),
    .call 0 (.labels [.str "x".toList, .str "z".toList] []) (.inc 3),
    .call 0 (.labels [.str "x".toList, .str "y".toList] []) (.inc 4),
    .call 0 (.labels [.str "x".toList, .str "y".toList] []) (.inc (-1)),
    .call 1 (.labels [.str "never".toList] []) .touch,
    .call 1 (.labels [.str "once".toList] []) (.set 7),
    .call 1 (.labels [.str "once".toList] []) (.inc 1),
    .call 2 .none (.set 9),
    .call 2 .none (.dec 4),
    .call 3 .none (.observe 6),
    .call 4 (.labels [.str "GET".toList] []) (.observe 5),
    .call 4 (.labels [.str "GET".toList] []) (.observe 7) ]

def clock (n : Nat) : Int := (n : Int) + 1

theorem int_zero_add : ∀ a : Int, Val.add Val.zero a = a := fun a => Int.zero_add a

theorem int_lt_irrefl : Val.lt (Val.zero : Int) Val.zero = false := by decide

theorem clock_pos : ∀ n, (voOf Int).truthy (clock n) = true ∧ Val.lt (Val.zero : Int) (clock n) = true := by
  intro n
  have h1 : (voOf Int).truthy (clock n) = !((clock n) == (0 : Int)) := rfl
  have h2 : Val.lt (Val.zero : Int) (clock n) = decide ((0 : Int) < clock n) := rfl
  rw [h1, h2]
  unfold clock
  constructor
  · simp only [Bool.not_eq_true', beq_eq_false_iff_ne, ne_eq]; omega
  · simp only [decide_eq_true_eq]; omega

theorem hist_noRemoval : NoRemoval hist := by
  intro op hop
  simp only [hist, List.mem_cons, List.not_mem_nil, or_false] at hop
  rcases hop with h | h | h | h | h | h | h | h | h | h | h | h <;> subst h <;> exact ⟨_, _, _, rfl⟩

set_option maxRecDepth 4000 in
theorem ds_wf : WFAllB bo3 ds bsOf := by
  refine ⟨by decide, ?_, by decide⟩
  intro d hd
  simp only [ds, List.mem_cons, List.not_mem_nil, or_false] at hd
  rcases hd with h | h | h | h | h <;> subst h
  · exact ⟨⟨trivial, by decide, by decide, by decide⟩, by decide, ⟨rfl, by decide, by decide, by decide⟩,
      fun ⟨_, hk⟩ => by cases hk⟩
  · exact ⟨⟨trivial, by decide, by decide, by decide⟩, by decide, ⟨rfl, by decide, by decide, by decide⟩,
      fun ⟨_, hk⟩ => by cases hk⟩
  · exact ⟨⟨trivial, by decide, by decide, by decide⟩, by decide, ⟨rfl, by decide, by decide, by decide⟩,
      fun ⟨_, hk⟩ => by cases hk⟩
  · exact ⟨⟨trivial, by decide, by decide, by decide⟩, by decide, ⟨rfl, by decide, by decide, by decide⟩,
      fun ⟨_, hk⟩ => by cases hk⟩
  · exact ⟨⟨trivial, by decide, by decide, by decide⟩, by decide, ⟨by decide, by decide, by decide, by decide⟩,
      fun _ => by decide⟩

theorem ds_f14 : ∀ d ∈ ds, ∀ bs, d.decl.kind = Kind.histogram bs → sumExposed (bs.map (·.1)) = true := by
  intro d hd bs hk
  simp only [ds, List.mem_cons, List.not_mem_nil, or_false] at hd
  rcases hd with h | h | h | h | h <;> subst h <;> simp at hk
  subst hk
  decide

/-- every hypothesis of `backends_equivalent_partial` is met by the declarations and the history above -/
theorem example_equivalent : ∃ out, mpCollect bo3 (runMmap ds "7".toList clock hist) = .ok out ∧
    ∀ kv, kv ∈ normalise ds (neverSetOf ds hist) (flatMp out) ↔
      kv ∈ normalise ds (neverSetOf ds hist) (flatMutex ds (collect (runMutex ds hist))) :=
  PromVerif.Props.C12.backends_equivalent_partial bo3 ds bsOf ds_wf ds_f14 int_zero_add int_lt_irrefl "7".toList
    (by decide) clock clock_pos hist hist_noRemoval

/-- both normalised collections of one case, as lists -/
def bothSides (bo : BOps Nat) (ds : List (MDecl Int)) (h : List (Op Int)) : List (SKey × Int) × List (SKey × Int) :=
  let ns := neverSetOf ds h
  let a := normalise ds ns (flatMutex ds (collect (runMutex ds h)))
  match mpCollect bo (runMmap ds "7".toList clock h) with
  | .ok out => (a, normalise ds ns (flatMp out))
  | .error _ => (a, [])

/-! ### F14: a histogram whose first bound is negative -/

def hneg : MDecl Int :=
  ⟨⟨"h".toList, .histogram [(-1, "-1.0".toList), (1, "1.0".toList), (1000000, "inf".toList)], []⟩, "doc".toList, []⟩

def boNeg : BOps Nat := tblB ["-1.0".toList, "1.0".toList, "+Inf".toList]

set_option maxRecDepth 100000 in
set_option synthInstance.maxSize 2000 in
/-- **F14 in the models** (kernel-checked): `Histogram('h', buckets=[-1, 1]).observe(1)`: the file-backed path reports
`h_sum = 1`, the in-memory path has no `h_sum` series; everything else agrees -/
theorem negative_first_bound_sum_differs :
    (("h_sum".toList, ([] : Labels)), (1 : Int)) ∈ (bothSides boNeg [hneg] [.call 0 .none (.observe 1)]).2 ∧
    (∀ v : Int, (("h_sum".toList, ([] : Labels)), v) ∉ (bothSides boNeg [hneg] [.call 0 .none (.observe 1)]).1) ∧
    (bothSides boNeg [hneg] [.call 0 .none (.observe 1)]).2.length
      = (bothSides boNeg [hneg] [.call 0 .none (.observe 1)]).1.length + 1 := by
  refine ⟨by decide, ?_, by decide⟩
  intro v hv
  have : ∀ kv ∈ (bothSides boNeg [hneg] [.call 0 .none (.observe 1)]).1, kv.1.1 ≠ "h_sum".toList := by decide
  exact this _ hv rfl

/-! ### F28: remove() / clear() do not reach the files -/

def cnt : MDecl Int := ⟨⟨"c".toList, .counter, ["l".toList]⟩, "doc".toList, []⟩

set_option maxRecDepth 100000 in
set_option synthInstance.maxSize 2000 in
/-- **F28 in the models**: `c.labels('a').inc(2); c.remove('a')`: the in-memory collection is empty, the file-backed one
still reports `c_total{l="a"} 2` -/
theorem remove_not_propagated :
    bothSides bo3 [cnt] [.call 0 (.labels [.str "a".toList] []) (.inc 2), .remove 0 [.str "a".toList]]
      = ([], [(("c_total".toList, [("l".toList, "a".toList)]), 2)]) := by decide

set_option maxRecDepth 100000 in
set_option synthInstance.maxSize 2000 in
/-- … and a child re-created after `remove()` restarts from zero in memory but continues from the old entry in the file:
`inc(2); remove; inc(1)` collects 1 in-process and 3 through the files -/
theorem recreated_child_continues :
    bothSides bo3 [cnt] [.call 0 (.labels [.str "a".toList] []) (.inc 2), .remove 0 [.str "a".toList],
        .call 0 (.labels [.str "a".toList] []) (.inc 1)]
      = ([(("c_total".toList, [("l".toList, "a".toList)]), 1)], [(("c_total".toList, [("l".toList, "a".toList)]), 3)]) := by
  decide

/-! ### what the example computes -/

set_option maxRecDepth 100000 in
set_option synthInstance.maxSize 2000 in
/-- the two normalised collections of the example are permutations of one another (here: checked by the kernel on the
concrete lists; `example_equivalent` is the general statement) — 11 series: two counter children (6, 3), the set
mostrecent child (7; the never-set child is absent from both), the `all` gauge without its pid label (5), summary
count/sum (1, 6), histogram buckets 0/1/2, count 2, sum 12 -/
example : (bothSides bo3 ds hist).1.length = 11 ∧ (bothSides bo3 ds hist).2.length = 11 ∧
    ∀ kv ∈ (bothSides bo3 ds hist).1, kv ∈ (bothSides bo3 ds hist).2 := by decide

/-! ### histories with removals: `backends_equivalent_with_removals_partial` applies to any history -/

/-- a history with `remove` and `clear` between updates of the same children -/
def histR : List (Op Int) :=
  [ .call 0 (.labels [.str "x".toList, .str "y".toList] []) (.inc 2),
    .remove 0 [.str "x".toList, .str "y".toList],
    .call 0 (.labels [.str "x".toList, .str "y".toList] []) (.inc 1),
    .call 1 (.labels [.str "once".toList] []) (.set 7),
    .clear 1,
    .call 1 (.labels [.str "once".toList] []) .touch,
    .call 4 (.labels [.str "GET".toList] []) (.observe 5),
    .clear 4,
    .call 4 (.labels [.str "GET".toList] []) (.observe 7) ]

theorem example_with_removals : ∃ out, mpCollect bo3 (runMmap ds "7".toList clock histR) = .ok out ∧
    ∀ kv, kv ∈ normalise ds (neverSetOf ds (erase histR)) (flatMp out) ↔
      kv ∈ normalise ds (neverSetOf ds (erase histR)) (flatMutex ds (collect (runMutex ds (erase histR)))) :=
  PromVerif.Props.C12.backends_equivalent_with_removals_partial bo3 ds bsOf ds_wf ds_f14 int_zero_add int_lt_irrefl
    "7".toList (by decide) clock clock_pos histR

/-- the multiprocess collection of `h` and the in-process collection of the ERASED history, normalised alike -/
def sidesErased (bo : BOps Nat) (ds : List (MDecl Int)) (h : List (Op Int)) : List (SKey × Int) × List (SKey × Int) :=
  let ns := neverSetOf ds (erase h)
  let a := normalise ds ns (flatMutex ds (collect (runMutex ds (erase h))))
  match mpCollect bo (runMmap ds "7".toList clock h) with
  | .ok out => (a, normalise ds ns (flatMp out))
  | .error _ => (a, [])

set_option maxRecDepth 100000 in
set_option synthInstance.maxSize 2000 in
/-- … and what it computes: through the files the re-created counter child shows 2 + 1, the cleared mostrecent gauge
still shows 7 (it keeps its set-time), the cleared histogram child counts both observations — exactly the in-process
collection of the erased history; the in-process collection of the SAME history shows 1 for the counter child -/
example : (∀ kv ∈ (sidesErased bo3 ds histR).1, kv ∈ (sidesErased bo3 ds histR).2) ∧
    (∀ kv ∈ (sidesErased bo3 ds histR).2, kv ∈ (sidesErased bo3 ds histR).1) ∧
    (("c_total".toList, [("k".toList, "y".toList), ("l".toList, "x".toList)]), (3 : Int)) ∈ (sidesErased bo3 ds histR).2 ∧
    (("g".toList, [("l".toList, "once".toList)]), (7 : Int)) ∈ (sidesErased bo3 ds histR).2 ∧
    (("h_count".toList, [("method".toList, "GET".toList)]), (2 : Int)) ∈ (sidesErased bo3 ds histR).2 ∧
    (("c_total".toList, [("k".toList, "y".toList), ("l".toList, "x".toList)]), (1 : Int)) ∈ (bothSides bo3 ds histR).1 := by
  decide

end PromVerif.Props.C12.Example
