/-
C12 — in-memory and file-backed value stores are observationally equivalent (work in progress: theorems are added below).
-/
import PromVerif.Spec.Backends
import PromVerif.Props.C01
import PromVerif.Props.C08
import PromVerif.Props.C09
import PromVerif.Props.C13

namespace PromVerif.Props.C12
set_option autoImplicit false

/-- the extractor found every site C12's models depend on (metrics.py, multiprocess.py / values.py, utils.py) -/
theorem extract_ok : Generated.Metrics.extractOk = true ∧ Generated.Multiprocess.extractOk = true ∧
    Generated.Utils.extractOk = true := by decide

end PromVerif.Props.C12
