import PromVerif.Model.Metrics
import PromVerif.Spec.Metrics
namespace PromVerif.Props.C01
open PromVerif.Generated.Metrics
theorem extract_ok : extractOk = true := by decide
end PromVerif.Props.C01
