/-
C01 — collected values equal a reference model for every operation history.

M = Model/Metrics.lean (after prometheus_client/metrics.py + values.MutexValue), generic in the value type `V`
(class `Val`, no laws).  S = Spec/Metrics.lean (the property text as a history-indexed reference).  The theorems
quantify over EVERY list of calls (induction, no bound), every declaration and every `V`; the IEEE facts a theorem
needs are explicit hypotheses:

  `LeTrans V`        `<=` is transitive (true of IEEE doubles, NaN included)
  `CountExact V B`   counting by `+ 1.0` and adding two counts is exact while the result stays `<= B`
                     (true of doubles for B = 2^53); the history is assumed no longer than `B`
  `GoodDecl d`       histogram bounds sorted by `<=` (what `_prepare_buckets` checks); enum states pairwise distinct

and the `Int` instance at the end discharges all of them (non-vacuity).

Finding F7 (repaired in /repo, commit b4fbf51): `Counter.reset()` and `Info.info()` on a labelled parent used to raise
AttributeError because they did not start with `self._raise_if_not_observable()`.  T1 extracts whether they do
(`counterResetChecksObservable`, `infoChecksObservable`); `rejected_iff` is the full statement and needs both to be true,
so reverting the repair breaks it; `labelled_parent_update_rejected` and `Example.f7_regression` are the regressions.
A second repair (commit 8998c4d): `Counter.reset()` stores the float `0.0` (`resetStoresFloat`), not the int `0` under
which later int amounts were summed exactly instead of in floating point; `reset_keeps_float_sums` pins it and the
counter part of `collect_refines_spec` rests on it.
-/
import PromVerif.Lemmas.MetricsCollect
import PromVerif.Lemmas.MetricsFrame
import PromVerif.Lemmas.MetricsNodup
import PromVerif.Lemmas.MetricsConstruct

namespace PromVerif.Props.C01
open PromVerif.Py PromVerif.Model.Metrics PromVerif.Generated.Metrics PromVerif.Lemmas.Metrics
open PromVerif.Spec.Metrics (bucketCount observations)

/-- the extractor found every site of metrics.py in the shape it understands -/
theorem extract_ok : extractOk = true := by decide

variable {V : Type} [Val V]

/-! ## 1. refinement -/

/-- **`Counter.reset()` keeps the floating-point sum**: it stores the float zero (T1: `self._value.set(0.0)`).  With
the int `0` the cell would be a Python int and later int amounts would be added exactly (`reset(); inc(2**53+1);
inc(1)` collected 9007199254740994, not the left-to-right float sum 9007199254740992); the float-sum model
cannot express that, so the counter part of `collect_refines_spec` rests on this theorem and stops checking without it. -/
theorem reset_keeps_float_sums : resetStoresFloat = true := by decide

/-- **Collected values equal the reference, for every history.**  After ANY list of calls on freshly constructed
metrics, `collect` returns exactly what the reference reads off the history of accepted calls: counter and summary
totals are left-to-right sums of the accepted amounts, bucket `le=b` is the number of observations `<= b`, `_count` is
the `+Inf` bucket, a gauge is its operations applied in order, an enum shows its last accepted state at 1; children
appear in creation order, keyed by the stringified label values, and restart from the empty history after
remove/clear. -/
theorem collect_refines_spec {B : Nat} (hx : CountExact V B) (htr : LeTrans V) (ds : List (Decl V))
    (hgood : ∀ d ∈ ds, GoodDecl d) (ops : List (Op V)) (hB : ops.length ≤ B) :
    collect (run (Reg.fresh ds) ops).1 = Spec.Metrics.collect ds (accepted (Reg.fresh ds) ops) := by
  obtain ⟨heq, hok⟩ := run_fresh_abs ds ops
  rw [heq]
  exact collect_eq reset_keeps_float_sums hx htr ds _ hgood hok (fun h hm =>
    histLen_mono (Nat.le_trans (accepted_length ops _) hB) h (history_len ds _ h hm))

/-- the invariant behind it: every metric object is the replay of the calls accepted since each child was created -/
theorem state_is_replay_of_accepted (ds : List (Decl V)) (ops : List (Op V)) :
    (run (Reg.fresh ds) ops).1
      = List.zipWith metricOf ds (Spec.Metrics.history ds (accepted (Reg.fresh ds) ops)) :=
  (run_fresh_abs ds ops).eq

/-- **`_prepare_buckets` delivers what the histogram theorems assume**: for NaN-free bounds, when it returns the
bounds are sorted by `<=`, the LAST ONE IS `+Inf`, and there are at least two.  (With a NaN bound the library's check
`buckets != sorted(buckets)` is blind — `Histogram(buckets=[2.0, nan, 1.0])` is accepted; such layouts are not "sorted
bucket layouts" and are outside the statement and the model.) -/
theorem prepare_buckets_sorted_inf (htr : LeTrans V) (hl : InfLaws V) (bs bounds : List (V × Str))
    (hnn : ∀ b ∈ bs, Val.le b.1 b.1 = true) (h : prepareBuckets bs = .ok bounds) :
    (bounds.map (·.1)).Pairwise (fun x y => Val.le x y = true) ∧ (bounds.map (·.1)).getLast? = some Val.inf ∧
      2 ≤ bounds.length :=
  prepareBuckets_ok htr hl bs bounds hnn h

/-- **Every metric the constructors accept satisfies `GoodDecl`** — so `collect_refines_spec` and
`histogram_cumulative` apply to all of them; the caller supplies only what no constructor checks (`InputsOK`: no NaN
bound, pairwise distinct enum states). -/
theorem constructed_is_good (htr : LeTrans V) (hl : InfLaws V) (legacy : Bool) (d d' : Decl V) (hin : InputsOK d)
    (h : construct legacy d = .ok d') : GoodDecl d' :=
  construct_good htr hl legacy d d' hin h

/-- `collect_refines_spec` for registries of constructed metrics: no `GoodDecl` hypothesis left -/
theorem collect_refines_spec_constructed {B : Nat} (hx : CountExact V B) (htr : LeTrans V) (hl : InfLaws V)
    (legacy : Bool) (ds : List (Decl V))
    (hc : ∀ d' ∈ ds, ∃ d, InputsOK d ∧ construct legacy d = .ok d') (ops : List (Op V)) (hB : ops.length ≤ B) :
    collect (run (Reg.fresh ds) ops).1 = Spec.Metrics.collect ds (accepted (Reg.fresh ds) ops) :=
  collect_refines_spec hx htr ds (fun d' hd' => by
    obtain ⟨d, hin, h⟩ := hc d' hd'
    exact constructed_is_good htr hl legacy d d' hin h) ops hB

/-- … and its child table is a dict: the keys (tuples of stringified label values) are pairwise distinct -/
theorem reachable_keys_nodup (ds : List (Decl V)) (ops : List (Op V)) :
    ∀ m ∈ (run (Reg.fresh ds) ops).1, (m.children.map (·.1)).Nodup := by
  rw [state_is_replay_of_accepted]
  exact zipWith_metricOf_keys ds _ (history_keysNodup ds _)

/-! ## 2. rejected calls -/

/-- **A raising call never mutates**, whatever it raises: the registry is unchanged, or — when the call was
`m.labels(…).<method>(…)`, `labels(…)` returned and the METHOD raised — it is exactly the registry after that accepted
`labels(…)` call alone (which may have created a child at zero). -/
theorem rejected_is_frame (r : Reg V) (op : Op V) (e : PyErr) (h : (step r op).2 = .raised e) :
    (step r op).1 = r ∨
      ∃ t, op.touchOf = some t ∧ (step r t).2 = .ok ∧ (step r op).1 = (step r t).1 :=
  step_frame r op e h

/-- calls on the metric object itself, `remove` and `clear`: a raise leaves the registry unchanged -/
theorem rejected_unaddressed_is_frame (r : Reg V) (op : Op V) (e : PyErr) (h : (step r op).2 = .raised e)
    (hu : op.touchOf = none) : (step r op).1 = r := by
  rcases step_frame r op e h with h1 | ⟨t, ht, _, _⟩
  · exact h1
  · rw [hu] at ht; simp at ht

/-- a rejected `labels(…)` call (wrong count or names) leaves the registry unchanged -/
theorem rejected_labels_is_frame (r : Reg V) (i : Nat) (args : List PyVal) (kw : List (Str × PyVal)) (act : Action V)
    (e : PyErr) (h : (step r (.call i (.labels args kw) .touch)).2 = .raised e) :
    (step r (.call i (.labels args kw) act)).1 = r := by
  cases hout : (step r (.call i (.labels args kw) act)).2 with
  | ok =>
    -- the labels() call would have been accepted: impossible
    exfalso
    rw [step_eq] at h hout
    simp only [Op.metric] at h hout
    cases hr : r[i]? with
    | none => simp [hr] at hout
    | some m =>
      simp only [hr, stepM] at h hout
      cases hres : resolveLabels m.decl.labelnames args kw with
      | error e' => simp [stepCall_labels_err m args kw e' _ hres] at hout
      | ok key => simp [stepCall_labels_ok m args kw key _ hres, callMethod_touch] at h
  | raised e' =>
    rcases step_frame r _ e' hout with h1 | ⟨t, ht, hok, _⟩
    · exact h1
    · simp only [Op.touchOf, Option.some.injEq] at ht
      subst ht
      rw [h] at hok
      simp at hok

/-- lift to the observation: a raising call never changes what `collect` returns (beyond the zero child of an
accepted `labels()`) -/
theorem rejected_never_changes_collect (r : Reg V) (op : Op V) (e : PyErr) (h : (step r op).2 = .raised e) :
    collect (step r op).1 = collect r ∨
      ∃ t, op.touchOf = some t ∧ (step r t).2 = .ok ∧ collect (step r op).1 = collect (step r t).1 := by
  rcases step_frame r op e h with h1 | ⟨t, ht, hok, heq⟩
  · left; rw [h1]
  · right; exact ⟨t, ht, hok, by rw [heq]⟩

/-- the calls the statement rejects, for `m.<method>(…)` (`Addr.none`) and `m.labels(…).<method>(…)`:
wrong label count or names (`BadLabels`, with the two further argument errors of `labels()`), updating a labelled
parent without labels, a negative counter increment, an unknown enum state (`RejectedMethod`, with the one further
ValueError of the code: Info labels that overlap the label names or are None) -/
def RejectedCall (d : Decl V) : Addr → Action V → Prop
  | .none, act => (d.labelnames ≠ [] ∧ isMethod d.kind act = true) ∨ (d.labelnames = [] ∧ RejectedMethod d act)
  | .labels args kw, act =>
    BadLabels d.labelnames args kw ∨ (¬ BadLabels d.labelnames args kw ∧ RejectedMethod d act)

/-- the shape of finding F7: `Counter.reset()` / `Info.info(…)` on a labelled parent without labels -/
def F7Shape (d : Decl V) : Addr → Action V → Prop
  | .none, act => d.labelnames ≠ [] ∧ skipsObservableCheck d.kind act = true
  | .labels _ _, _ => False

/-- the generic form, for either state of the source: rejected calls raise ValueError, and only they do, outside the
shape `F7Shape` — which is empty exactly when both methods start with `self._raise_if_not_observable()` -/
theorem rejected_iff_unless_unchecked (m : Metric V) (hwf : m.single.isSome = m.decl.labelnames.isEmpty) (addr : Addr)
    (act : Action V) (hF7 : ¬ F7Shape m.decl addr act) :
    (stepCall m addr act).2 = .raised .valueError ↔ RejectedCall m.decl addr act := by
  cases addr with
  | none =>
    simp only [stepCall, RejectedCall]
    cases hl : m.decl.labelnames.isEmpty with
    | true =>
      have hln : m.decl.labelnames = [] := by simpa using hl
      rw [hl] at hwf
      obtain ⟨c, hc⟩ := Option.isSome_iff_exists.mp hwf
      rw [hc, callMethod_valueError_iff]
      simp [hln]
    | false =>
      have hln : m.decl.labelnames ≠ [] := by simpa using hl
      rw [hl] at hwf
      have hc : m.single = none := by simpa using hwf
      rw [hc, parentCall_valueError_iff]
      have hskip : skipsObservableCheck m.decl.kind act = false := by
        cases hs : skipsObservableCheck m.decl.kind act with
        | false => rfl
        | true => exact absurd ⟨hln, hs⟩ hF7
      simp [hln, hskip]
  | labels args kw =>
    simp only [RejectedCall]
    cases hres : resolveLabels m.decl.labelnames args kw with
    | error e =>
      obtain ⟨he, hb⟩ := resolve_error _ _ _ _ hres
      subst he
      simp [stepCall_labels_err m args kw _ _ hres, hb]
    | ok key =>
      have hb := resolve_ok _ _ _ _ hres
      rw [stepCall_labels_ok m args kw key _ hres]
      simp only [callMethod_valueError_iff]
      simp [hb]

/-- every metric object of a reachable registry is well formed in the sense `rejected_iff` needs -/
theorem reachable_wf (ds : List (Decl V)) (ops : List (Op V)) :
    ∀ m ∈ (run (Reg.fresh ds) ops).1, m.single.isSome = m.decl.labelnames.isEmpty := by
  rw [state_is_replay_of_accepted]
  generalize Spec.Metrics.history ds (accepted (Reg.fresh ds) ops) = hs
  induction ds generalizing hs with
  | nil => intro m hm; simp at hm
  | cons d ds ih =>
    cases hs with
    | nil => intro m hm; simp at hm
    | cons h hs =>
      intro m hm
      simp only [List.zipWith, List.mem_cons] at hm
      rcases hm with hm | hm
      · subst hm
        simp only [metricOf]
        cases d.labelnames.isEmpty <;> simp
      · exact ih hs m hm

/-- the full statement, for a source tree in which both methods start with `self._raise_if_not_observable()` (the
repair of F7): then no shape is excluded -/
theorem rejected_iff_of_repaired (h1 : counterResetChecksObservable = true) (h2 : infoChecksObservable = true)
    (m : Metric V) (hwf : m.single.isSome = m.decl.labelnames.isEmpty) (addr : Addr) (act : Action V) :
    (stepCall m addr act).2 = .raised .valueError ↔ RejectedCall m.decl addr act := by
  apply rejected_iff_unless_unchecked m hwf addr act
  cases addr with
  | labels a k => exact fun h => h
  | none =>
    intro ⟨_, hs⟩
    cases hk : m.decl.kind <;> cases act <;> simp [skipsObservableCheck, hk, h1, h2] at hs

/-- **Rejected calls raise ValueError, and only they do** (full statement): negative counter increment, wrong label
count or names, unknown enum state, updating a labelled parent without labels — by ANY update method, `reset()` and
`info()` included (the repair of F7; the two `decide`s fail on a tree without it). -/
theorem rejected_iff (m : Metric V) (hwf : m.single.isSome = m.decl.labelnames.isEmpty) (addr : Addr) (act : Action V) :
    (stepCall m addr act).2 = .raised .valueError ↔ RejectedCall m.decl addr act :=
  rejected_iff_of_repaired (by decide) (by decide) m hwf addr act

/-- **F7 regression**: every update method of the class — `Counter.reset()` and `Info.info(…)` included — called on a
labelled parent without labels raises ValueError and changes nothing -/
theorem labelled_parent_update_rejected (m : Metric V) (hwf : m.single.isSome = m.decl.labelnames.isEmpty)
    (hl : m.decl.labelnames ≠ []) (act : Action V) (hm : isMethod m.decl.kind act = true) :
    stepCall m .none act = (m, .raised .valueError) := by
  have h2 := (rejected_iff m hwf .none act).mpr (Or.inl ⟨hl, hm⟩)
  have h1 : (stepCall m .none act).1 = m := by
    simp only [stepCall] at h2 ⊢
    rw [callMethod_frame _ _ _ _ _ h2]
  exact Prod.ext h1 h2

/-- `remove` raises ValueError exactly for a metric declared without labels or a wrong number of values, and nothing
else -/
theorem remove_rejected_iff (m : Metric V) (vs : List PyVal) :
    ((stepRemove m vs).2 = .raised .valueError ↔
        (m.decl.labelnames = [] ∨ vs.length ≠ m.decl.labelnames.length)) ∧
      ((stepRemove m vs).2 = .ok ∨ (stepRemove m vs).2 = .raised .valueError) := by
  unfold stepRemove
  by_cases h1 : m.decl.labelnames.isEmpty = true
  · have : m.decl.labelnames = [] := by simpa using h1
    simp [this]
  · have hne : m.decl.labelnames ≠ [] := by simpa using h1
    by_cases h2 : vs.length = m.decl.labelnames.length <;> simp [h1, h2, hne]

/-- **A caller-side mutation is a frame.**  When the caller goes on mutating the dict it passed to `info()`, or the
`states` / `buckets` sequence it passed to a constructor, nothing the registry exposes changes: the library stored
copies (T1: `infoCopiesDict`, `enumCopiesStates`, `histogramCopiesBuckets`; the `decide`s fail on a tree that stores
the caller's object itself, where the model has no answer — `afterCallerMutation = none`). -/
theorem caller_mutation_is_frame (r : Reg V) (o : CallerObject) :
    afterCallerMutation r o = some r ∧ (afterCallerMutation r o).map collect = some (collect r) := by
  have h : copiedOnEntry o = true := by cases o <;> decide
  simp [afterCallerMutation, h]

/-! ## 3. label addressing, remove, clear -/

/-- **Positional, keyword (in any permutation) and non-string values that stringify equally address one child**: the
key is the tuple of stringified values in DECLARATION order. -/
theorem label_addressing (ln : List Str) (hne : ln ≠ []) (hnd : ln.Nodup) (vals args : List PyVal)
    (hlen : vals.length = ln.length) (hstr : vals.map pyStr = args.map pyStr)
    (kw : List (Str × PyVal)) (hperm : kw.Perm (ln.zip vals)) :
    resolveLabels ln args [] = .ok (args.map pyStr) ∧ resolveLabels ln [] kw = .ok (args.map pyStr) := by
  have halen : args.length = ln.length := by
    have := congrArg List.length hstr
    simp at this
    omega
  constructor
  · have hb : ¬ BadLabels ln args [] := by
      unfold BadLabels
      simp [hne, halen]
    simpa using resolve_good ln args [] hb
  · have hkeys : (kw.map (·.1)).Perm ln := by
      have := hperm.map (·.1)
      rwa [List.map_fst_zip (by omega)] at this
    have hkw : kw ≠ [] := by
      intro e
      subst e
      have := hkeys.length_eq
      simp at this
      exact hne (List.eq_nil_of_length_eq_zero this.symm)
    have hb : ¬ BadLabels ln [] kw := by
      unfold BadLabels
      simp [hne, hkw, hkeys]
    have hknd : (kw.map (·.1)).Nodup := hkeys.nodup_iff.mpr hnd
    rw [resolve_good ln [] kw hb, if_neg hkw, ← hstr]
    congr 1
    apply map_kwValue_zip kw ln vals hlen
    intro p hp
    have hm : (p.1, p.2) ∈ kw := hperm.symm.subset hp
    unfold Spec.Metrics.kwValue
    rw [find_of_mem_nodup p.1 p.2 kw hknd hm]

/-- (kept under this name for the modules that cite it; the proof lives in Lemmas.MetricsBasic) -/
theorem tlookup_terase {β : Type} (k k' : List Str) (t : List (List Str × β)) :
    tlookup k' (terase k t) = if k' = k then none else tlookup k' t :=
  Lemmas.Metrics.tlookup_terase k k' t

/-- **`remove` deletes exactly the addressed child**: it returns, the addressed key is gone, every other child is
untouched and keeps its place. -/
theorem remove_exact (m : Metric V) (vs : List PyVal) (hne : m.decl.labelnames ≠ [])
    (hlen : vs.length = m.decl.labelnames.length) :
    (stepRemove m vs).2 = .ok ∧
      (stepRemove m vs).1.children = m.children.filter (fun kc => kc.1 ≠ vs.map pyStr) ∧
      (∀ k, tlookup k (stepRemove m vs).1.children = if k = vs.map pyStr then none else tlookup k m.children) ∧
      (stepRemove m vs).1.single = m.single ∧ (stepRemove m vs).1.decl = m.decl := by
  have h1 : m.decl.labelnames.isEmpty = false := by simpa using hne
  have hs : stepRemove m vs = ({ m with children := terase (vs.map pyStr) m.children }, .ok) := by
    simp [stepRemove, h1, hlen]
  rw [hs]
  exact ⟨rfl, rfl, fun k => tlookup_terase _ k _, rfl, rfl⟩

/-- **`clear` deletes every child** of a labelled metric (and exposes nothing afterwards) -/
theorem clear_exact (m : Metric V) (hne : m.decl.labelnames ≠ []) :
    (stepClear m).2 = .ok ∧ (stepClear m).1.children = [] ∧ metricSamples (stepClear m).1 = [] ∧
      (stepClear m).1.decl = m.decl := by
  have h1 : m.decl.labelnames.isEmpty = false := by simpa using hne
  have h2 : hasLock m.decl = true := by simp [hasLock, h1]
  simp [stepClear, h2, metricSamples, h1]

/-- **A removed child restarts from zero when addressed again**: after `remove(vs)`, a call addressed to the same
key finds a child fresh from `_metric_init` (every cell zero, first enum state, empty info) with just that call
applied. -/
theorem recreated_child_is_zero (m : Metric V) (vs : List PyVal) (hne : m.decl.labelnames ≠ [])
    (hlen : vs.length = m.decl.labelnames.length) (args : List PyVal) (kw : List (Str × PyVal)) (act : Action V)
    (hres : resolveLabels m.decl.labelnames args kw = .ok (vs.map pyStr)) :
    tlookup (vs.map pyStr) (stepCall (stepRemove m vs).1 (.labels args kw) act).1.children
      = some (upd m.decl act (metricInit m.decl.kind)) := by
  obtain ⟨_, _, hlk, _, hdecl⟩ := remove_exact m vs hne hlen
  have hres' : resolveLabels (stepRemove m vs).1.decl.labelnames args kw = .ok (vs.map pyStr) := by
    rw [hdecl]; exact hres
  have hnone : tlookup (vs.map pyStr) (stepRemove m vs).1.children = none := by rw [hlk]; simp
  rw [stepCall_labels_ok _ args kw _ act hres']
  simp only [getChild, hnone, hdecl]
  rw [treplace_append_new _ _ _ _ hnone]
  exact tlookup_append_new _ _ _ hnone

/-- the same after `clear()` -/
theorem recreated_after_clear_is_zero (m : Metric V) (hne : m.decl.labelnames ≠ []) (args : List PyVal)
    (kw : List (Str × PyVal)) (act : Action V) (key : List Str)
    (hres : resolveLabels m.decl.labelnames args kw = .ok key) :
    (stepCall (stepClear m).1 (.labels args kw) act).1.children
      = [(key, upd m.decl act (metricInit m.decl.kind))] := by
  obtain ⟨_, hch, _, hdecl⟩ := clear_exact m hne
  have hres' : resolveLabels (stepClear m).1.decl.labelnames args kw = .ok key := by rw [hdecl]; exact hres
  rw [stepCall_labels_ok _ args kw _ act hres']
  simp [getChild, hch, tlookup, hdecl, treplace]

/-! ## 4. histogram -/

/-- **Buckets are cumulative counts.**  For bounds sorted by a transitive `<=`, after any accepted calls the value
exposed for bucket `j` is the number of observations `o` with `o <= bounds[j]` — although the code stores
non-cumulative counts and adds them up at collect time.  NaN observations (no bound takes them) are covered. -/
theorem histogram_cumulative {B : Nat} (hx : CountExact V B) (htr : LeTrans V) (d : Decl V) (bs : List (V × Str))
    (hk : d.kind = .histogram bs) (hp : (bs.map (·.1)).Pairwise (fun x y => Val.le x y = true))
    (acts : List (Action V)) (hlen : acts.length ≤ B) :
    cumulate Val.zero (childOf d acts).buckets
      = bs.map (fun b => Val.ofNat (bucketCount (observations acts) b.1)) := by
  obtain ⟨_, h2⟩ := histogram_cells d bs hk acts
  have hobs := observations_length_le acts
  have hc := cumulate_cells hx htr (bs.map (·.1)) (observations acts) 0 hp (by omega)
  rw [h2]
  simpa [cellsOf, hx.zero_eq, List.map_map, Function.comp_def, bucketCount] using hc

theorem cumulate_length (acc : V) : ∀ cs : List V, (cumulate acc cs).length = cs.length
  | [] => rfl
  | c :: cs => by simp [cumulate, cumulate_length _ cs]

theorem getLast?_zip_of_length_eq {α β : Type} : ∀ (l₁ : List α) (l₂ : List β), l₁.length = l₂.length →
    (l₁.zip l₂).getLast? = (match l₁.getLast?, l₂.getLast? with
      | some a, some b => some (a, b)
      | _, _ => none)
  | [], [], _ => rfl
  | [], _ :: _, h => by simp at h
  | _ :: _, [], h => by simp at h
  | [a], [b], _ => rfl
  | [a], _ :: _ :: _, h => by simp at h
  | _ :: _ :: _, [b], h => by simp at h
  | a :: a' :: l₁, b :: b' :: l₂, h => by
    have ih := getLast?_zip_of_length_eq (a' :: l₁) (b' :: l₂) (by simpa using h)
    simp only [List.zip_cons_cons, List.getLast?_cons_cons] at ih ⊢
    exact ih

/-- **The `+Inf` bucket equals `_count`**, structurally: in the samples of ANY histogram child state the value of
the last `_bucket` sample (the bound `_prepare_buckets` appended or found last) is the value of the `_count` sample —
also after NaN observations, which no bucket takes. -/
theorem inf_bucket_eq_count (d : Decl V) (bs : List (V × Str)) (hk : d.kind = .histogram bs) (c : Child V)
    (hlen : c.buckets.length = bs.length) (hne : bs ≠ []) :
    ∃ (b : V × Str) (v : V) (rest : List (Sample V)),
      bs.getLast? = some b ∧
      (((bs.zip (cumulate Val.zero c.buckets)).map (fun ba => (⟨"_bucket".toList, leLabel ba.1.2, ba.2⟩ : Sample V))).getLast?
        = some ⟨"_bucket".toList, leLabel b.2, v⟩) ∧
      childSamples d c
        = (bs.zip (cumulate Val.zero c.buckets)).map (fun ba => ⟨"_bucket".toList, leLabel ba.1.2, ba.2⟩)
            ++ [⟨"_count".toList, [], v⟩] ++ rest := by
  have hcl := cumulate_length (Val.zero : V) c.buckets
  have hzip := getLast?_zip_of_length_eq bs (cumulate Val.zero c.buckets) (by omega)
  cases hb : bs.getLast? with
  | none => exact absurd (List.getLast?_eq_none_iff.mp hb) hne
  | some b =>
    have hcne : c.buckets ≠ [] := by
      intro e; rw [e] at hlen; simp at hlen
      exact hne (List.eq_nil_of_length_eq_zero hlen.symm)
    obtain ⟨v, hv⟩ := cumulate_getLast (Val.zero : V) c.buckets hcne
    rw [hb, hv] at hzip
    refine ⟨b, v, (if sumExposed (bs.map (·.1)) then [⟨"_sum".toList, [], c.sum⟩] else []), rfl, ?_, ?_⟩
    · rw [List.getLast?_map, hzip]; rfl
    · simp only [childSamples, hk, hv, Option.getD_some]

/-- **Buckets are monotone**: a bucket never holds fewer observations than an earlier one -/
theorem buckets_monotone (htr : LeTrans V) (bounds : List V)
    (hp : bounds.Pairwise (fun x y => Val.le x y = true)) (obs : List V) :
    (bounds.map (fun b => bucketCount obs b)).Pairwise (fun x y => x ≤ y) := by
  rw [List.pairwise_map]
  exact hp.imp (fun {a b} h => countP_le_mono htr obs a b h)

/-- the replayed buckets always have one cell per bound, so `inf_bucket_eq_count` applies to every reachable child
(proof in Lemmas.MetricsHist) -/
theorem reachable_buckets_length (d : Decl V) (bs : List (V × Str)) (hk : d.kind = .histogram bs)
    (acts : List (Action V)) : (childOf d acts).buckets.length = bs.length :=
  Lemmas.Metrics.reachable_buckets_length d bs hk acts

/-- **The `+Inf` bucket equals `_count`**, literally: for every histogram a constructor accepted and every history
of accepted calls, the last bound IS `+Inf`, and the value exposed for that bucket is the value of the `_count` sample
(NaN observations, which no bucket takes, included). -/
theorem inf_bucket_is_count (htr : LeTrans V) (hl : InfLaws V) (legacy : Bool) (d d' : Decl V) (bs : List (V × Str))
    (hkd : d.kind = .histogram bs) (hin : InputsOK d) (hc : construct legacy d = .ok d') (acts : List (Action V)) :
    ∃ (bounds : List (V × Str)) (b : V × Str) (v : V) (rest : List (Sample V)),
      d'.kind = .histogram bounds ∧ bounds.getLast? = some b ∧ b.1 = Val.inf ∧
      (((bounds.zip (cumulate Val.zero (childOf d' acts).buckets)).map
          (fun ba => (⟨"_bucket".toList, leLabel ba.1.2, ba.2⟩ : Sample V))).getLast?
        = some ⟨"_bucket".toList, leLabel b.2, v⟩) ∧
      childSamples d' (childOf d' acts)
        = (bounds.zip (cumulate Val.zero (childOf d' acts).buckets)).map
              (fun ba => ⟨"_bucket".toList, leLabel ba.1.2, ba.2⟩)
            ++ [⟨"_count".toList, [], v⟩] ++ rest := by
  obtain ⟨_, _, hk⟩ := construct_shape legacy d d' hc
  rw [hkd] at hk
  obtain ⟨bounds, hp, hk'⟩ := hk
  have hin' : ∀ b ∈ bs, Val.le b.1 b.1 = true := by simpa [InputsOK, hkd] using hin
  obtain ⟨_, hlast, hlen⟩ := prepareBuckets_ok htr hl bs bounds hin' hp
  have hne : bounds ≠ [] := by intro e; rw [e] at hlen; simp at hlen
  obtain ⟨b, v, rest, hb, h1, h2⟩ :=
    inf_bucket_eq_count d' bounds hk' (childOf d' acts) (reachable_buckets_length d' bounds hk' acts) hne
  refine ⟨bounds, b, v, rest, hk', hb, ?_, h1, h2⟩
  rw [List.getLast?_map, hb] at hlast
  simpa using hlast

end PromVerif.Props.C01

/-! ## 5. non-vacuity: every hypothesis above is met by a concrete non-trivial state (`V := Int`) -/

namespace PromVerif.Props.C01.Example
open PromVerif.Py PromVerif.Model.Metrics PromVerif.Generated.Metrics PromVerif.Lemmas.Metrics PromVerif.Props.C01

/-- the integers as a value structure: every law the theorems ask for holds, for every bound `B` -/
instance intVal : Val Int where
  zero := 0
  one := 1
  add := fun a b => a + b
  neg := fun a => -a
  le := fun a b => decide (min a 1000000 ≤ min b 1000000)     -- everything from 1000000 up is `+Inf`
  lt := fun a b => decide (a < b)
  ofNat := fun n => (n : Int)
  inf := 1000000
  beq := fun a b => a == b

theorem int_countExact (B : Nat) : CountExact Int B :=
  ⟨rfl, rfl, fun n m _ => by simp [Val.add, Val.ofNat]⟩

theorem int_leTrans : LeTrans Int := by
  intro a b c h1 h2
  simp only [Val.le, decide_eq_true_eq] at *
  omega

theorem int_infLaws : InfLaws Int :=
  ⟨fun x _ => by simp only [Val.le, Val.inf, decide_eq_true_eq]; omega,
   fun x h => by simpa [Val.beq, Val.inf] using h⟩

/-- a 3-metric registry: a labelled counter, an unlabelled histogram with a negative first bound, a labelled enum -/
def decls : List (Decl Int) :=
  [ ⟨['c'], .counter, [['l'], ['k']]⟩,
    ⟨['h'], .histogram [(-1, "-1.0".toList), (5, "5.0".toList), (1000000, "inf".toList)], []⟩,
    ⟨['e'], .enum [['u', 'p'], ['d', 'n']], [['z']]⟩ ]

/-- a 6-call history: positional and keyword addressing of one child, a rejected negative increment, two
observations (one exactly on a bound), a state change -/
def ops : List (Op Int) :=
  [ .call 0 (.labels [.str ['a'], .bool true] []) (.inc 2),
    .call 0 (.labels [] [(['k'], .str "True".toList), (['l'], .str ['a'])]) (.inc 3),
    .call 0 (.labels [.str ['a'], .bool true] []) (.inc (-1)),
    .call 1 .none (.observe 5),
    .call 1 .none (.observe 7),
    .call 2 (.labels [.none] []) (.state ['d', 'n']) ]

theorem decls_good : ∀ d ∈ decls, GoodDecl d := by
  intro d hd
  simp only [decls, List.mem_cons, List.mem_nil_iff, or_false] at hd
  rcases hd with rfl | rfl | rfl
  · trivial
  · simp only [GoodDecl]; decide
  · simp only [GoodDecl]; decide

/-- `collect_refines_spec` applies to it -/
example : collect (run (Reg.fresh decls) ops).1 = Spec.Metrics.collect decls (accepted (Reg.fresh decls) ops) :=
  collect_refines_spec (int_countExact 6) int_leTrans decls decls_good ops (by decide)

/-- what the history exposes on the counter: one child `(a, True)` holding 2 + 3 (the negative increment was
rejected, the keyword call reached the same child) -/
example :
    (run (Reg.fresh decls) (ops.take 1 ++ ops.drop 2)).2 = [.ok, .raised .valueError, .ok, .ok, .ok] := by decide

/-- **F7 regression, kernel-checked on concrete registries**: `reset()` on the labelled counter and `info({})` on a
labelled Info raise ValueError (AttributeError before the repair) -/
theorem f7_regression :
    (step (Reg.fresh decls) (.call 0 .none .reset)).2 = .raised .valueError ∧
      (step (Reg.fresh [(⟨['i'], .info, [['l']]⟩ : Decl Int)]) (.call 0 .none (.info []))).2 = .raised .valueError := by
  decide

/-- `rejected_is_frame` / `rejected_iff`: a raising step on a non-trivial registry -/
example : ∃ e, (step (run (Reg.fresh decls) (ops.take 1)).1 (.call 0 (.labels [.str ['a'], .bool true] []) (.inc (-1)))).2
    = .raised e := ⟨.valueError, by decide⟩

/-- `label_addressing`: two labels, keyword arguments in the other order, a bool standing in for the text `True` -/
example : resolveLabels [['l'], ['k']] [.str ['a'], .str "True".toList] [] = .ok [['a'], "True".toList] ∧
    resolveLabels [['l'], ['k']] [] [(['k'], .bool true), (['l'], .str ['a'])] = .ok [['a'], "True".toList] :=
  label_addressing [['l'], ['k']] (by decide) (by decide) [.str ['a'], .bool true] [.str ['a'], .str "True".toList]
    rfl rfl _ (by decide)

/-- `histogram_cumulative` / `buckets_monotone` hypotheses: the bounds of `h` are sorted -/
example : ([-1, 5, 1000000] : List Int).Pairwise (fun x y => Val.le x y = true) := by decide

/-- `prepare_buckets_sorted_inf` / `constructed_is_good` / `inf_bucket_is_count`: the constructor accepts the bounds
`[-1, 5]` (no NaN: each is `<=` itself) and appends `+Inf` -/
example : (match prepareBuckets [((-1 : Int), "-1.0".toList), (5, "5.0".toList)] with
    | .ok bounds => bounds.map (·.1) == [-1, 5, 1000000]
    | .error _ => false) = true := by decide
example : InputsOK (⟨['h'], .histogram [((-1 : Int), "-1.0".toList), (5, "5.0".toList)], []⟩ : Decl Int) := by
  simp only [InputsOK]; decide

/-- `remove_exact`, `clear_exact`, `recreated_child_is_zero`: the counter is a labelled metric and `remove` gets two
values -/
example : (⟨['c'], .counter, [['l'], ['k']]⟩ : Decl Int).labelnames ≠ [] := by decide

end PromVerif.Props.C01.Example
