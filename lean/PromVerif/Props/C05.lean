/-
C05 — no application-supplied string can break the line structure of any wire format.

Models: `Model.TextExpo`, `Model.OMExpo`, `Model.Escape`, `Model.Validation` (shared base), `Model.Graphite`,
`Model.Ctor`.  Spec: the independent line grammar `Spec.LineGrammar` (`classify`, `graphiteLine`, `splitOn`).
Lemmas: `Lemmas/Lines*.lean`.  All statements are over unbounded strings / lists (induction), core Lean only.

History: F2 (`$` in the name regexes also matched before a final LF, so `a\n` was written bare) and F3 (OpenMetrics
wrote exemplar label names raw) were repaired in /repo; T1 now extracts an exact end anchor and
`exemplarNameEscaped = true`, and the text / OpenMetrics theorems below no longer assume anything about ANY name, label
name, label value, help text, enum state, info key/value or exemplar label.  If either repair is reverted the extracted
definitions change and `metric_anchor_exact` / `label_anchor_exact` / `exemplar_name_escaped` (Lemmas) stop checking.

Remaining `_partial` theorems carry a decidable hypothesis excluding exactly a KNOWN finding, with a kernel-checked
counter-example showing the model exhibits it:
  F4  OpenMetrics writes the unit raw                                              (`familyOKOM`: unit empty or `unitTok`)
  G2  an empty sample name with an empty prefix gives an empty Graphite path       (`graphiteOK`: path not empty)
Preconditions that are not findings: values / float timestamps are number tokens (they are `repr` texts of doubles),
the family type is one of `METRIC_TYPES` (enforced by `Metric.__init__`), the Graphite clock is not negative, and the
Graphite `prefix` — operator configuration, outside the property's quantifier, inserted raw by `push` — consists of
path characters (`graphite_prefix_counterexample` documents that limit).
-/
import PromVerif.Lemmas.LinesCtor
import PromVerif.Lemmas.LinesTextKinds
import PromVerif.Lemmas.LinesGraphite

namespace PromVerif.Props.C05
open PromVerif.Py PromVerif.Model PromVerif.Model.Escape PromVerif.Model.Validation
open PromVerif.Generated.Validation
open PromVerif.Spec.LineGrammar hiding Str
open PromVerif.Lemmas.Lines

/-- decidable equality of model results, so that the counter-examples below can be closed by kernel evaluation -/
instance c05ExceptDecEq {ε α : Type} [DecidableEq ε] [DecidableEq α] : DecidableEq (Except ε α)
  | .ok a, .ok b => if h : a = b then isTrue (by rw [h]) else isFalse (by intro e; injection e with e; exact h e)
  | .error a, .error b => if h : a = b then isTrue (by rw [h]) else isFalse (by intro e; injection e with e; exact h e)
  | .ok _, .error _ => isFalse (by intro e; cases e)
  | .error _, .ok _ => isFalse (by intro e; cases e)

/-- T1: every extraction site this property's models read was found in the source with the expected shape -/
theorem extract_ok :
    PromVerif.Generated.Expo.extractOk = true ∧ PromVerif.Generated.Validation.extractOk = true ∧
    PromVerif.Generated.Graphite.extractOk = true ∧ PromVerif.Generated.Ctor.extractOk = true ∧
    PromVerif.Generated.Utils.extractOk = true := by decide

-- (1) escaping ------------------------------------------------------------------------------------------------
/-- `_escape(s)` contains no raw line feed, for every string -/
theorem escape_no_raw_lf (s : Str) : '\n' ∉ escape s := escape_noLF s

/-- scanning `"` ++ `_escape(s)` ++ `"` with the grammar's quoted-string scanner ends exactly at the closing quote:
every `"` inside `_escape(s)` is preceded by an odd run of backslashes, no LF, and no dangling backslash at the end -/
theorem escape_quotes_escaped (s rest : Str) : qscan false (escape s ++ '"' :: rest) = some rest :=
  qscan_escape s rest

/-- the same as an automaton statement: from "inside quotes, not escaped" over `_escape(s)` back to that state -/
theorem escape_quotes_escaped_automaton (om : Bool) (k : Q) (s : Str) :
    run om (.q k false) (escape s) = .q k false := run_escape om k s

/-- the HELP escaping of the text format (both call sites) leaves no raw line feed -/
theorem help_no_raw_lf (s : Str) : '\n' ∉ escapeHelp s ∧ '\n' ∉ escapeHelpTrailing s :=
  ⟨escapeHelp_noLF s, by rw [escapeHelpTrailing_eq]; exact escapeHelp_noLF s⟩

/-- the HELP docstrings are docstrings of their format, for every help text: text format (both call sites) — every
backslash written is half of `\\\\` or starts `\\n`, nothing else (0.0.4 knows exactly these two escapes); OpenMetrics — an
`escaped-string` of the ABNF -/
theorem help_text_well_escaped (s : Str) :
    helpText false (escapeHelp s) = true ∧ helpText false (escapeHelpTrailing s) = true ∧
    helpText true (escape s) = true := by
  refine ⟨?_, ?_, ?_⟩
  · simpa [helpText] using hscan_escapeHelp s
  · simpa [helpText, escapeHelpTrailing_eq] using hscan_escapeHelp s
  · simp [helpText, qscan_escape]

/-- what the grammar rejects: the label-value escape `\\"` is not an escape of a text-format HELP docstring -/
example : helpText false "He said \\\"hi\\\"".toList = false ∧ helpText false "a\\".toList = false ∧
    helpText false "He said \"hi\" \\\\ \\n".toList = true ∧ helpText true "a\"b".toList = false := by decide

/-- exemplar label values are escaped by the same chain as `_escape` -/
theorem exemplar_value_escaped (s rest : Str) :
    '\n' ∉ escapeExemplarValue s ∧ qscan false (escapeExemplarValue s ++ '"' :: rest) = some rest := by
  rw [escapeExemplarValue_eq]; exact ⟨escape_noLF s, qscan_escape s rest⟩

example : escape "a\"b\\c\nd".toList = "a\\\"b\\\\c\\nd".toList := by decide

/-- sanity of the spec: whatever the grammar accepts as one line contains no line feed -/
theorem recognised_line_has_no_lf (om : Bool) (l : Str) (k : Kind) (h : classify om l = some k) : '\n' ∉ l :=
  classify_noLF om l k h

-- (2)+(3) text format ---------------------------------------------------------------------------------------------
/-- the text exposition writes exactly `expectedLineCount` line strings per family (two metadata lines, one per sample,
two more per trailing `_created/_gsum/_gcount` group) — for every registry, no hypothesis -/
theorem text_line_count (fs : List Family) :
    (fs.flatMap TextExpo.familyLines).length = (fs.map expectedLineCount).sum := by
  induction fs with
  | nil => rfl
  | cons f r ih => simp [List.flatMap_cons, familyLines_length, ih]

/-- FULL STRENGTH.  For every registry — every string in every name, label name, label value and help position,
sample names unrelated to the family name included — whose types are `METRIC_TYPES` members and whose values are number
tokens (`familyOKText`): splitting the text exposition on LF yields exactly the line strings the model wrote (one per
HELP/TYPE/sample, `expectedLineCount` per family) and each of them is a line of the independent grammar -/
theorem text_lines_exact (fs : List Family) (h : ∀ f ∈ fs, familyOKText f = true) :
    splitOn '\n' (TextExpo.generateLatest fs) = (fs.flatMap TextExpo.familyLines).map List.dropLast ++ [[]] ∧
    ((fs.flatMap TextExpo.familyLines).map List.dropLast).length = (fs.map expectedLineCount).sum ∧
    ∀ l ∈ (fs.flatMap TextExpo.familyLines).map List.dropLast, recognise false l = true := by
  have hall : ∀ l ∈ fs.flatMap TextExpo.familyLines, ∃ k, LineOf false k l := by
    intro l hl
    obtain ⟨f, hf, hlf⟩ := List.mem_flatMap.mp hl
    exact familyLines_ok f (h f hf) l hlf
  refine ⟨?_, ?_, ?_⟩
  · unfold TextExpo.generateLatest
    exact splitOn_lines _ (fun l hl => (hall l hl).choose_spec.isLine)
  · rw [List.length_map]; exact text_line_count fs
  · intro l hl
    obtain ⟨l0, hl0, rfl⟩ := List.mem_map.mp hl
    obtain ⟨k, hk⟩ := hall l0 hl0
    simp [recognise, hk.kind]

/-- non-vacuity for the kind sequence: two main samples, `_gsum` ×2 and `_created` ×1 interleaved (groups come out sorted) -/
def exFamK : Family :=
  ⟨['h'], ['d'], "gaugehistogram".toList, [],
    [⟨"h_gsum".toList, [], "1.0".toList, none, none⟩, ⟨"h_bucket".toList, [("le".toList, "+Inf".toList)], "2.0".toList, none, none⟩,
     ⟨"h_created".toList, [], "3.0".toList, none, none⟩, ⟨"h_gsum".toList, [(['a'], ['b'])], "4.0".toList, none, none⟩,
     ⟨"x\n".toList, [], "5.0".toList, none, none⟩]⟩
example : familyOKText exFamK = true := by decide

/-- FULL STRENGTH, exact KIND sequence (the text counterpart of `om_lines_exact_partial`): splitting the text exposition
on LF and classifying every piece with the independent grammar gives, per family, HELP, TYPE, one sample line per
sample that is not a trailing `_created/_gsum/_gcount` sample, then for each trailing suffix that occurs (groups sorted
by suffix, `textGroups` = their sizes) HELP, TYPE and one sample line per sample of the group — then the empty piece
after the last LF.  No line is added, removed, split or merged, whatever the strings. -/
theorem text_kinds_exact (fs : List Family) (h : ∀ f ∈ fs, familyOKText f = true) :
    lineKinds false (TextExpo.generateLatest fs) = (fs.flatMap textKinds).map some ++ [none] := by
  have hl : LinesOf false (fs.map TextExpo.familyLines).flatten (fs.flatMap textKinds) :=
    LinesOf.flatten fs TextExpo.familyLines textKinds (fun f hf => familyLines_kinds f (h f hf))
  unfold lineKinds TextExpo.generateLatest
  rw [List.flatMap_def, splitOn_lines _ hl.isLine, List.map_append, List.map_map]
  have := hl.kinds
  simp only [Function.comp_def] at this ⊢
  rw [this]
  rfl

/-- the sample-line kinds of a family are exactly as many as its samples: main samples + group sizes -/
example : textKinds exFamK = [.help, .type, .sample, .sample, .help, .type, .sample, .help, .type, .sample, .sample] := by
  decide

/-- one sample line of the text format, in isolation: any name, any labels; the value a number token -/
theorem text_sample_line (s : Sample) (h : floatTok s.value = true) :
    ∃ b, TextExpo.sampleLine s = b ++ ['\n'] ∧ '\n' ∉ b ∧ classify false b = some .sample := by
  obtain ⟨b, hb, hk⟩ := text_sampleLine_lineOf s h
  exact ⟨b, hb, classify_noLF false b _ hk, hk⟩

/-- no label name whatsoever can break a sample line: `escape_label_name(k)="…"` is, for EVERY `k` and `v`, LF-free
and one well-formed label item of the grammar (sample labels and exemplar labels alike).  In particular a
reserved-looking name such as `__a\nb` — accepted under UTF-8 validation because `^__.*$` does not match across the
LF — is not a legacy name, hence quoted and escaped. -/
theorem any_label_name_is_safe (om ex f : Bool) (k v : Str) :
    '\n' ∉ escapeLabelName k ++ ['=', '"'] ++ escape v ++ ['"'] ∧
    run om (.lb ex f) (escapeLabelName k ++ ['=', '"'] ++ escape v ++ ['"']) = .qe (if ex then .exval else .lval) := by
  refine ⟨?_, run_labelItem om ex f k v⟩
  intro hm
  have := run_of_mem_lf om (.lb ex f) _ hm
  rw [run_labelItem om ex f k v] at this
  cases this

/-- likewise every metric / sample name: `escape_metric_name(n)` followed by a space is a well-formed name token -/
theorem any_metric_name_is_safe (n t : Str) : metaName (escapeMetricName n ++ ' ' :: t) = some t :=
  metaName_escapeMetricName n t

example : validateLabelname false "__a\nb".toList = .ok () := by decide
example : isValidLegacyLabelname "__a\nb".toList = false ∧ isValidLegacyLabelname "__a\n".toList = false ∧
    isValidLegacyLabelname "l\n".toList = false ∧ isValidLegacyMetricName "a\n".toList = false := by decide

/-- non-vacuity: a family with a non-legacy name, adversarial label names/values and help, a `_created` sample,
names ending in LF, a reserved-looking label name containing LF -/
def exFam : Family :=
  ⟨"a b\n".toList, "he\"l\\p\nx".toList, "counter".toList, [],
    [⟨"a b\n_total".toList, [("l é\n".toList, "v\n\"\\".toList), ("__a\nb".toList, []), ("k\n".toList, [])], "1.0".toList, none, none⟩,
     ⟨"a b\n_created".toList, [], "1.5".toList, none, none⟩, ⟨"x\n".toList, [], "2.0".toList, none, none⟩]⟩
example : familyOKText exFam = true := by decide
example : expectedLineCount exFam = 7 := by decide

/-- regression of repaired F2: `Gauge('a\n','h',['l\n'])` (now only constructible under UTF-8 validation) is quoted -/
def f2Fam : Family :=
  ⟨['a', '\n'], ['h'], "gauge".toList, [], [⟨['a', '\n'], [(['l', '\n'], ['v'])], "1.0".toList, none, none⟩]⟩
example : validateMetricName true f2Fam.name = .error .valueError ∧ validateLabelname true ['l', '\n'] = .error .valueError ∧
    TextExpo.generateLatest [f2Fam] = "# HELP \"a\\n\" h\n# TYPE \"a\\n\" gauge\n{\"a\\n\",\"l\\n\"=\"v\"} 1.0\n".toList ∧
    lineKinds false (TextExpo.generateLatest [f2Fam]) = [some .help, some .type, some .sample, none] := by decide +kernel

-- (2)+(3)+(4) OpenMetrics -----------------------------------------------------------------------------------------
/-
Full strength (FALSE on the unchanged tree because of the known finding F4):
  theorem om_lines_exact (fs) (out) (h : OMExpo.generateLatest fs = .ok out) (numbers are number tokens, types ∈ METRIC_TYPES) :
      lineKinds true out = ((fs.flatMap omKinds ++ [.eof]).map some) ++ [none]
Proved: the same with `familyOKOM`, whose only additional demand is that a non-empty unit has no LF, quote or backslash
(the unit is written raw: F4).  Nothing is assumed about names, labels, help or exemplar labels.  Missing: the unit.
-/
/-- splitting the OpenMetrics exposition on LF and classifying every piece with the independent grammar gives, per
family, HELP, TYPE, UNIT iff the unit is non-empty, one sample line per sample — then exactly one `# EOF` — then the
empty piece after the last LF -/
theorem om_lines_exact_partial (fs : List Family) (out : Str) (h : OMExpo.generateLatest fs = .ok out)
    (hok : ∀ f ∈ fs, familyOKOM f = true) :
    lineKinds true out = (fs.flatMap omKinds ++ [Kind.eof]).map some ++ [none] := by
  obtain ⟨lines, rfl, hl⟩ := om_doc fs out h hok
  unfold lineKinds
  rw [splitOn_lines lines hl.isLine, List.map_append, List.map_map]
  have := hl.kinds
  simp only [Function.comp_def] at this ⊢
  rw [this]
  rfl

theorem eof_not_in_omKinds (fs : List Family) : Kind.eof ∉ fs.flatMap omKinds := by
  intro h
  obtain ⟨f, _, hf⟩ := List.mem_flatMap.mp h
  simp only [omKinds, List.mem_append, List.mem_cons, List.mem_replicate, List.not_mem_nil, or_false] at hf
  rcases hf with ((hf | hf) | hf) | hf
  · cases hf
  · cases hf
  · split at hf <;> simp at hf
  · exact absurd hf.2 (by decide)

/-- (4) the OpenMetrics exposition ends in exactly one `# EOF` line, and no earlier line is an EOF line -/
theorem om_single_eof_partial (fs : List Family) (out : Str) (h : OMExpo.generateLatest fs = .ok out)
    (hok : ∀ f ∈ fs, familyOKOM f = true) :
    ∃ body : List Str, splitOn '\n' out = body ++ ["# EOF".toList, []] ∧
      ∀ l ∈ body, classify true l ≠ some .eof := by
  obtain ⟨lines, rfl, hl⟩ := om_doc fs out h hok
  obtain ⟨ls, hls⟩ := om_total_lines fs lines hl
  refine ⟨ls.map List.dropLast, ?_, ?_⟩
  · rw [splitOn_lines lines hl.isLine, hls.1]
    simp
  · intro l hlm hk
    have hk2 := hls.2.kinds
    obtain ⟨l0, hl0, rfl⟩ := List.mem_map.mp hlm
    have : some Kind.eof ∈ (fs.flatMap omKinds).map some := by
      rw [← hk2]; exact List.mem_map.mpr ⟨l0, hl0, hk⟩
    simp only [List.mem_map, Option.some.injEq, exists_eq_right] at this
    exact eof_not_in_omKinds fs this
where
  om_total_lines (fs : List Family) (lines : List Str) (hl : LinesOf true lines (fs.flatMap omKinds ++ [.eof])) :
      ∃ ls, lines = ls ++ ["# EOF\n".toList] ∧ LinesOf true ls (fs.flatMap omKinds) := by
    generalize fs.flatMap omKinds = ks at hl
    induction lines generalizing ks with
    | nil => cases ks <;> simp [LinesOf] at hl
    | cons l r ih =>
      cases ks with
      | nil =>
        cases r with
        | nil =>
          obtain ⟨⟨b, rfl, hb⟩, _⟩ := hl
          refine ⟨[], ?_, trivial⟩
          have : b = "# EOF".toList := eof_body b hb
          simp [this]
        | cons x xs => simp [LinesOf] at hl
      | cons k ks =>
        obtain ⟨ls, hls, hlo⟩ := ih ks hl.2
        exact ⟨l :: ls, by simp [hls], hl.1, hlo⟩
  eof_body (b : Str) (hb : classify true b = some .eof) : b = "# EOF".toList := by
    unfold classify at hb
    cases h1 : stripPrefix "# HELP ".toList b with
    | some r => simp only [h1] at hb; split at hb <;> (try split at hb) <;> simp at hb
    | none =>
      simp only [h1] at hb
      cases h2 : stripPrefix "# TYPE ".toList b with
      | some r => simp only [h2] at hb; split at hb <;> (try split at hb) <;> simp at hb
      | none =>
        simp only [h2, if_true] at hb
        cases h3 : stripPrefix "# UNIT ".toList b with
        | some r => simp only [h3] at hb; split at hb <;> (try split at hb) <;> simp at hb
        | none =>
          simp only [h3, Bool.true_and] at hb
          by_cases he : (b == "# EOF".toList) = true
          · simpa using he
          · simp only [he, Bool.false_eq_true, if_false] at hb
            split at hb <;> simp at hb

/-- FULL STRENGTH: one sample line of OpenMetrics (timestamp and exemplar included), in isolation — any name, labels and
exemplar labels; numbers are number tokens -/
theorem om_sample_line (fam : Family) (s : Sample) (l : Str) (hok : sampleOKOM s = true)
    (h : OMExpo.sampleLine fam s = .ok l) :
    ∃ b, l = b ++ ['\n'] ∧ '\n' ∉ b ∧ classify true b = some .sample := by
  obtain ⟨b, hb, hk⟩ := om_sampleLine_lineOf fam s l hok h
  exact ⟨b, hb, classify_noLF true b _ hk, hk⟩

/-- non-vacuity: unit, non-legacy names, timestamp, exemplar with timestamp -/
def exFamOM : Family :=
  ⟨"c d_s".toList, "h\n".toList, "counter".toList, ['s'],
    [⟨"c d_s_total".toList, [("l é".toList, "v\n\"\\".toList)], "1.0".toList, some ⟨.stamp 1 5, 1000⟩,
      some ⟨[("trace_id".toList, "a\"b\n".toList), ("a b\n# EOF".toList, ['x']), ("l\n".toList, [])], "0.5".toList,
        some (.flt "1.5".toList)⟩⟩]⟩
example : familyOKOM exFamOM = true := by decide
example : ∃ out, OMExpo.generateLatest [exFamOM] = .ok out := ⟨_, rfl⟩

/-- regression of repaired F3: `c.inc(1, {'a\n# EOF\nb': 'x'})` — the exemplar label name is quoted and escaped -/
def f3Fam : Family :=
  ⟨['c'], ['h'], "counter".toList, [],
    [⟨"c_total".toList, [], "1.0".toList, none, some ⟨[("a\n# EOF\nb".toList, ['x'])], "1.0".toList, none⟩⟩]⟩
example :
    OMExpo.generateLatest [f3Fam] =
      .ok "# HELP c h\n# TYPE c counter\nc_total 1.0 # {\"a\\n# EOF\\nb\"=\"x\"} 1.0\n# EOF\n".toList ∧
    lineKinds true "# HELP c h\n# TYPE c counter\nc_total 1.0 # {\"a\\n# EOF\\nb\"=\"x\"} 1.0\n# EOF\n".toList =
      [some .help, some .type, some .sample, some .eof, none] ∧
    familyOKOM f3Fam = true := by decide +kernel

/-- F4 in the model: `Gauge('g','d',unit='a\nb')` (UTF-8 names) — the unit is neither validated nor escaped -/
def f4Fam : Family :=
  ⟨"g_a\nb".toList, ['d'], "gauge".toList, "a\nb".toList, [⟨"g_a\nb".toList, [], "1.0".toList, none, none⟩]⟩
theorem f4_counterexample :
    validateMetricName false f4Fam.name = .ok () ∧
    OMExpo.generateLatest [f4Fam] =
      .ok "# HELP \"g_a\\nb\" d\n# TYPE \"g_a\\nb\" gauge\n# UNIT \"g_a\\nb\" a\nb\n{\"g_a\\nb\"} 1.0\n# EOF\n".toList ∧
    lineKinds true "# HELP \"g_a\\nb\" d\n# TYPE \"g_a\\nb\" gauge\n# UNIT \"g_a\\nb\" a\nb\n{\"g_a\\nb\"} 1.0\n# EOF\n".toList =
      [some .help, some .type, some .unit, none, some .sample, some .eof, none] ∧
    familyOKOM f4Fam = false := by decide +kernel

-- (5) constructors --------------------------------------------------------------------------------------------------
/-- every (type, name, namespace, subsystem, unit, label names) the constructor of an instrumentation class accepts —
under either validation setting — is accepted unchanged by `Metric.__init__`, which `collect()` runs before every
exposition; and a family with that name, any documentation and any samples whose exemplars sit on eligible samples
(the only ones `Counter.inc` / `Histogram.observe` create) is exposed by the OpenMetrics model without raising.
Nothing is stated for the text exposition because nothing can be: its model is a total function (`Str`, not `PyM Str`).
The real text exposition's only raising sites are `floatToGoString(value)` on a non-number and the
`int(float(ts) * 1000)` conversion of a non-finite timestamp — both outside the model (values are numbers, the
millisecond count is a model input the harness computes); constructors never supply a timestamp. -/
theorem constructor_accepts_exposable (legacy : Bool) (typ name ns ss unit full doc : Str) (lns : List Str)
    (samples : List Sample)
    (hcls : typ ∈ PromVerif.Generated.Ctor.reservedLabelnames.map (·.1))
    (h : Ctor.wrapperInit legacy typ name ns ss unit lns = .ok full)
    (hex : exemplarsEligible ⟨full, doc, typ, unit, samples⟩ = true) :
    Ctor.metricInit legacy full typ unit = .ok (full, typ) ∧
    (∃ out, OMExpo.generateLatest [⟨full, doc, typ, unit, samples⟩] = .ok out) :=
  ⟨ctor_then_metricInit legacy typ name ns ss unit full lns hcls h,
   om_total _ (fun f hf => by simp at hf; subst hf; exact hex)⟩

/-- conversely the OpenMetrics model raises only for an exemplar on an ineligible sample -/
theorem om_raises_only_for_ineligible_exemplar (fs : List Family) (h : ∀ f ∈ fs, exemplarsEligible f = true) :
    ∃ out, OMExpo.generateLatest fs = .ok out := om_total fs h

example : Ctor.wrapperInit true "counter".toList "req_total".toList "ns".toList [] ['s'] [['l']] = .ok "ns_req_s".toList := by
  decide
example : Ctor.wrapperInit true "histogram".toList ['h'] [] [] [] [['l', 'e']] = .error .valueError := by decide
example : Ctor.wrapperInit true "info".toList ['i'] [] [] ['s'] [] = .error .valueError := by decide
/-- regression of repaired F2 at the constructor: legacy validation rejects a full name ending in LF (here through the unit) -/
example : Ctor.wrapperInit true "gauge".toList ['g'] [] [] ['a', '\n'] [] = .error .valueError := by decide

-- (6) Graphite ------------------------------------------------------------------------------------------------------
/-- `_sanitize` output consists of whitelist characters only, for every input; whitelist characters are printable
ASCII and none of space, LF, `.`, `;`, `=` -/
theorem graphite_sanitize_whitelist (s : Str) :
    ∀ c ∈ Graphite.sanitize s, inClass PromVerif.Generated.Graphite.allowedClass c = true ∧ pathCh c = true ∧
      c ≠ ' ' ∧ c ≠ '\n' ∧ c ≠ '.' ∧ c ≠ ';' ∧ c ≠ '=' := by
  intro c hc
  have h := sanitize_allowed s c hc
  exact ⟨h, allowed_pathCh c h, allowed_strict c h⟩

/-- `push` writes one line string per collected sample -/
theorem graphite_one_line_per_sample (tags : Bool) (pfx : Str) (now : Int) (fams : List Family) :
    (Graphite.lines tags pfx now fams).length = (fams.map (fun f => f.samples.length)).sum :=
  lines_length tags pfx now fams

/-
Full strength (FALSE on the unchanged tree — known finding G2):
  every line string is `path SP value SP timestamp` for every sample name, label name and label value.
Proved: with `graphiteOK`: prefix or sample name is non-empty (G2), plus preconditions: the value is a number token, the
clock is non-negative, and the `prefix` argument — operator configuration, not an application-supplied string of the
property's quantifier, inserted raw by `push` — consists of path characters (a precondition on configuration, not a
finding; `graphite_prefix_counterexample` documents what happens outside it).  Metric names, label names and label
VALUES need no hypothesis: all go through `_sanitize`.
-/
/-- each Graphite line is LF-terminated, LF-free, and `path SP value SP int` with exactly two spaces -/
theorem graphite_lines_exact_partial (tags : Bool) (prefixstr : Str) (now : Int) (s : Sample)
    (h : graphiteOK prefixstr now s = true) :
    ∃ b, Graphite.line tags prefixstr now s = b ++ ['\n'] ∧ graphiteLine b = true ∧ '\n' ∉ b ∧ b.count ' ' = 2 := by
  obtain ⟨b, hb, hg, hlf⟩ := graphite_line_ok tags prefixstr now s h
  refine ⟨b, hb, hg, hlf, ?_⟩
  have := count_sep_splitOn ' ' b
  unfold graphiteLine at hg
  split at hg
  · next p v t hs => rw [hs] at this; simp at this; omega
  · simp at hg

example : graphiteOK "p.q.".toList 123 ⟨"m x".toList, [("l é".toList, "v w\n;=.".toList)], "1.0".toList, none, none⟩ = true := by
  decide
example : Graphite.line true "p.".toList 123 ⟨"m x".toList, [("l é".toList, "v w\n;=.".toList)], "1.0".toList, none, none⟩ =
    "p.m_x;l__=v_w____ 1.0 123\n".toList := by decide +kernel

/-- DOCUMENTED LIMIT (not a finding: the prefix is configuration, outside the property's quantifier): `push(prefix='evil 1 1\ninjected')` — the prefix is inserted raw: one sample, two
well-formed Graphite lines on the wire, the first one forged -/
def g1Fam : Family := ⟨['m'], [], "gauge".toList, [], [⟨['m'], [], "1.0".toList, none, none⟩]⟩
theorem graphite_prefix_counterexample :
    Graphite.push false "evil 1 1\ninjected".toList 123 [g1Fam] = .ok "evil 1 1\ninjected.m 1.0 123\n".toList ∧
    (splitOn '\n' "evil 1 1\ninjected.m 1.0 123\n".toList).map graphiteLine = [true, true, false] ∧
    (Graphite.lines false "evil 1 1\ninjected".toList 123 [g1Fam]).length = 1 := by
  have h : (Graphite.lines false "evil 1 1\ninjected".toList 123 [g1Fam]).flatten =
      "evil 1 1\ninjected.m 1.0 123\n".toList := by decide +kernel
  refine ⟨?_, by decide +kernel, by decide +kernel⟩
  unfold Graphite.push
  simp only [h]
  rfl

/-- G2 in the model: a sample with an empty name and no prefix gives a line with an empty path -/
def g2Fam : Family := ⟨['m'], [], "gauge".toList, [], [⟨[], [], "1.0".toList, none, none⟩]⟩
theorem graphite_empty_path_counterexample :
    Graphite.push false [] 123 [g2Fam] = .ok " 1.0 123\n".toList ∧ graphiteLine " 1.0 123".toList = false := by
  have h : (Graphite.lines false [] 123 [g2Fam]).flatten = " 1.0 123\n".toList := by decide +kernel
  refine ⟨?_, by decide +kernel⟩
  unfold Graphite.push
  simp only [h]
  rfl

end PromVerif.Props.C05
