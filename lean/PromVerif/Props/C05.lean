/-
C05 — no application-supplied string can break the line structure of any wire format.

Models: `Model.TextExpo`, `Model.OMExpo`, `Model.Escape`, `Model.Validation` (shared base), `Model.Graphite`,
`Model.Ctor`.  Spec: the independent line grammar `Spec.LineGrammar` (`classify`, `graphiteLine`, `splitOn`).
Lemmas: `Lemmas/Lines*.lean`.  All statements are over unbounded strings / lists (induction), core Lean only.

Three findings of the unchanged tree make the full-strength statements false; each `_partial` theorem carries a
decidable hypothesis that excludes exactly the finding's input class, and a kernel-checked counter-example shows the
model itself exhibits the finding:
  F2  `$` in the name regexes also matches before a final LF: such a name is written bare   (`f2Name`)
  F3  OpenMetrics writes exemplar label names raw                                           (`exemplarOK`: bare names)
  F4  OpenMetrics writes the unit raw                                                       (`unitTok`)
  G1  the Graphite prefix is inserted raw                                                   (`graphiteOK`: prefix in path alphabet)
  G2  an empty sample name with an empty prefix gives an empty Graphite path                (`graphiteOK`: path not empty)
Hypotheses that are not findings: values / float timestamps are number tokens (they are `repr` texts of doubles),
the family type is one of `METRIC_TYPES` (enforced by `Metric.__init__`), the Graphite clock is not negative.
-/
import PromVerif.Lemmas.LinesCtor
import PromVerif.Lemmas.LinesGraphite

namespace PromVerif.Props.C05
open PromVerif.Py PromVerif.Model PromVerif.Model.Escape PromVerif.Model.Validation
open PromVerif.Generated.Validation
open PromVerif.Spec.LineGrammar hiding Str
open PromVerif.Lemmas.Lines

/-- decidable equality of model results, so that the counter-examples below can be closed by kernel evaluation -/
instance c05ExceptDecEq {ε α : Type} [DecidableEq ε] [DecidableEq α] : DecidableEq (Except ε α)
  | .ok a, .ok b => if h : a = b then isTrue (by rw [h]) else isFalse (by intro e; injection e with e; exact h e)
  | .error a, .error b => if h : a = b then isTrue (by rw [h]) else isFalse (by intro e; injection e with e; exact h e)
  | .ok _, .error _ => isFalse (by intro e; cases e)
  | .error _, .ok _ => isFalse (by intro e; cases e)

/-- T1: every extraction site this property's models read was found in the source with the expected shape -/
theorem extract_ok :
    PromVerif.Generated.Expo.extractOk = true ∧ PromVerif.Generated.Validation.extractOk = true ∧
    PromVerif.Generated.Graphite.extractOk = true ∧ PromVerif.Generated.Ctor.extractOk = true ∧
    PromVerif.Generated.Utils.extractOk = true := by decide

-- (1) escaping ------------------------------------------------------------------------------------------------
/-- `_escape(s)` contains no raw line feed, for every string -/
theorem escape_no_raw_lf (s : Str) : '\n' ∉ escape s := escape_noLF s

/-- scanning `"` ++ `_escape(s)` ++ `"` with the grammar's quoted-string scanner ends exactly at the closing quote:
every `"` inside `_escape(s)` is preceded by an odd run of backslashes, no LF, and no dangling backslash at the end -/
theorem escape_quotes_escaped (s rest : Str) : qscan false (escape s ++ '"' :: rest) = some rest :=
  qscan_escape s rest

/-- the same as an automaton statement: from "inside quotes, not escaped" over `_escape(s)` back to that state -/
theorem escape_quotes_escaped_automaton (om : Bool) (k : Q) (s : Str) :
    run om (.q k false) (escape s) = .q k false := run_escape om k s

/-- the HELP escaping of the text format (both call sites) leaves no raw line feed -/
theorem help_no_raw_lf (s : Str) : '\n' ∉ escapeHelp s ∧ '\n' ∉ escapeHelpTrailing s :=
  ⟨escapeHelp_noLF s, by rw [escapeHelpTrailing_eq]; exact escapeHelp_noLF s⟩

/-- exemplar label values are escaped by the same chain as `_escape` -/
theorem exemplar_value_escaped (s rest : Str) :
    '\n' ∉ escapeExemplarValue s ∧ qscan false (escapeExemplarValue s ++ '"' :: rest) = some rest := by
  rw [escapeExemplarValue_eq]; exact ⟨escape_noLF s, qscan_escape s rest⟩

example : escape "a\"b\\c\nd".toList = "a\\\"b\\\\c\\nd".toList := by decide

/-- sanity of the spec: whatever the grammar accepts as one line contains no line feed -/
theorem recognised_line_has_no_lf (om : Bool) (l : Str) (k : Kind) (h : classify om l = some k) : '\n' ∉ l :=
  classify_noLF om l k h

-- (2)+(3) text format ---------------------------------------------------------------------------------------------
/-- the text exposition writes exactly `expectedLineCount` line strings per family (two metadata lines, one per sample,
two more per trailing `_created/_gsum/_gcount` group) — for every registry, no hypothesis -/
theorem text_line_count (fs : List Family) :
    (fs.flatMap TextExpo.familyLines).length = (fs.map expectedLineCount).sum := by
  induction fs with
  | nil => rfl
  | cons f r ih => simp [List.flatMap_cons, familyLines_length, ih]

/-
Full strength (FALSE on the unchanged tree because of F2):
  theorem text_lines_exact (fs : List Family) (hnum : values are number tokens) (htyp : types ∈ METRIC_TYPES) :
      splitOn '\n' (TextExpo.generateLatest fs) = ((fs.flatMap TextExpo.familyLines).map List.dropLast) ++ [[]] ∧ …
Proved: the same with `familyOKText`, i.e. additionally no written family name, sample name or label name is an F2
name (`f2Name`: ends in LF and is a legacy name without that LF).  Missing: nothing else.
-/
/-- splitting the text exposition on LF yields exactly the line strings the model wrote (one per HELP/TYPE/sample,
`expectedLineCount` per family) and each of them is a line of the independent grammar -/
theorem text_lines_exact_partial (fs : List Family) (h : ∀ f ∈ fs, familyOKText f = true) :
    splitOn '\n' (TextExpo.generateLatest fs) = (fs.flatMap TextExpo.familyLines).map List.dropLast ++ [[]] ∧
    ((fs.flatMap TextExpo.familyLines).map List.dropLast).length = (fs.map expectedLineCount).sum ∧
    ∀ l ∈ (fs.flatMap TextExpo.familyLines).map List.dropLast, recognise false l = true := by
  have hall : ∀ l ∈ fs.flatMap TextExpo.familyLines, ∃ k, LineOf false k l := by
    intro l hl
    obtain ⟨f, hf, hlf⟩ := List.mem_flatMap.mp hl
    exact familyLines_ok f (h f hf) l hlf
  refine ⟨?_, ?_, ?_⟩
  · unfold TextExpo.generateLatest
    exact splitOn_lines _ (fun l hl => (hall l hl).choose_spec.isLine)
  · rw [List.length_map]; exact text_line_count fs
  · intro l hl
    obtain ⟨l0, hl0, rfl⟩ := List.mem_map.mp hl
    obtain ⟨k, hk⟩ := hall l0 hl0
    simp [recognise, hk.kind]

/-- one sample line of the text format, in isolation -/
theorem text_sample_line_partial (s : Sample) (h : sampleOKText s = true) :
    ∃ b, TextExpo.sampleLine s = b ++ ['\n'] ∧ '\n' ∉ b ∧ classify false b = some .sample := by
  obtain ⟨b, hb, hk⟩ := text_sampleLine_lineOf s h
  exact ⟨b, hb, classify_noLF false b _ hk, hk⟩

/-- non-vacuity: a family with a non-legacy name, adversarial label values and help, a `_created` sample -/
def exFam : Family :=
  ⟨"a b".toList, "he\"l\\p\nx".toList, "counter".toList, [],
    [⟨"a b_total".toList, [("l é".toList, "v\n\"\\".toList), ("k".toList, [])], "1.0".toList, none, none⟩,
     ⟨"a b_created".toList, [], "1.5".toList, none, none⟩]⟩
example : familyOKText exFam = true := by decide
example : expectedLineCount exFam = 6 := by decide

/-- F2 in the model: `Gauge('a\n','h')` — accepted even under legacy validation — is written bare and the output
splits into 7 pieces instead of 3 lines + the empty tail; the pieces are not lines of the grammar -/
def f2Fam : Family := ⟨['a', '\n'], ['h'], "gauge".toList, [], [⟨['a', '\n'], [], "1.0".toList, none, none⟩]⟩
theorem f2_counterexample :
    validateMetricName true f2Fam.name = .ok () ∧
    TextExpo.generateLatest [f2Fam] = "# HELP a\n h\n# TYPE a\n gauge\na\n 1.0\n".toList ∧
    (splitOn '\n' (TextExpo.generateLatest [f2Fam])).length = 7 ∧ expectedLineCount f2Fam = 3 ∧
    lineKinds false (TextExpo.generateLatest [f2Fam]) = [none, none, none, none, none, none, none] ∧
    familyOKText f2Fam = false := by decide +kernel

/-- F2 for a label name: `Gauge('g','h',['l\n'])` -/
def f2LabelFam : Family :=
  ⟨['g'], ['h'], "gauge".toList, [], [⟨['g'], [(['l', '\n'], ['v'])], "1.0".toList, none, none⟩]⟩
theorem f2_label_counterexample :
    validateLabelname true ['l', '\n'] = .ok () ∧
    TextExpo.generateLatest [f2LabelFam] = "# HELP g h\n# TYPE g gauge\ng{l\n=\"v\"} 1.0\n".toList ∧
    lineKinds false (TextExpo.generateLatest [f2LabelFam]) = [some .help, some .type, none, none, none] ∧
    familyOKText f2LabelFam = false := by decide +kernel

-- (2)+(3)+(4) OpenMetrics -----------------------------------------------------------------------------------------
/-
Full strength (FALSE on the unchanged tree because of F2, F3, F4):
  theorem om_lines_exact (fs) (out) (h : OMExpo.generateLatest fs = .ok out) (numbers are number tokens, types ∈ METRIC_TYPES) :
      lineKinds true out = ((fs.flatMap omKinds ++ [.eof]).map some) ++ [none]
Proved: the same with `familyOKOM`: additionally no family/sample/label name is an F2 name, exemplar label names are
in the bare label alphabet (F3), a non-empty unit has no LF, quote or backslash (F4).  Missing: nothing else.
-/
/-- splitting the OpenMetrics exposition on LF and classifying every piece with the independent grammar gives, per
family, HELP, TYPE, UNIT iff the unit is non-empty, one sample line per sample — then exactly one `# EOF` — then the
empty piece after the last LF -/
theorem om_lines_exact_partial (fs : List Family) (out : Str) (h : OMExpo.generateLatest fs = .ok out)
    (hok : ∀ f ∈ fs, familyOKOM f = true) :
    lineKinds true out = (fs.flatMap omKinds ++ [Kind.eof]).map some ++ [none] := by
  obtain ⟨lines, rfl, hl⟩ := om_doc fs out h hok
  unfold lineKinds
  rw [splitOn_lines lines hl.isLine, List.map_append, List.map_map]
  have := hl.kinds
  simp only [Function.comp_def] at this ⊢
  rw [this]
  rfl

theorem eof_not_in_omKinds (fs : List Family) : Kind.eof ∉ fs.flatMap omKinds := by
  intro h
  obtain ⟨f, _, hf⟩ := List.mem_flatMap.mp h
  simp only [omKinds, List.mem_append, List.mem_cons, List.mem_replicate, List.not_mem_nil, or_false] at hf
  rcases hf with ((hf | hf) | hf) | hf
  · cases hf
  · cases hf
  · split at hf <;> simp at hf
  · exact absurd hf.2 (by decide)

/-- (4) the OpenMetrics exposition ends in exactly one `# EOF` line, and no earlier line is an EOF line -/
theorem om_single_eof_partial (fs : List Family) (out : Str) (h : OMExpo.generateLatest fs = .ok out)
    (hok : ∀ f ∈ fs, familyOKOM f = true) :
    ∃ body : List Str, splitOn '\n' out = body ++ ["# EOF".toList, []] ∧
      ∀ l ∈ body, classify true l ≠ some .eof := by
  obtain ⟨lines, rfl, hl⟩ := om_doc fs out h hok
  obtain ⟨ls, hls⟩ := om_total_lines fs lines hl
  refine ⟨ls.map List.dropLast, ?_, ?_⟩
  · rw [splitOn_lines lines hl.isLine, hls.1]
    simp
  · intro l hlm hk
    have hk2 := hls.2.kinds
    obtain ⟨l0, hl0, rfl⟩ := List.mem_map.mp hlm
    have : some Kind.eof ∈ (fs.flatMap omKinds).map some := by
      rw [← hk2]; exact List.mem_map.mpr ⟨l0, hl0, hk⟩
    simp only [List.mem_map, Option.some.injEq, exists_eq_right] at this
    exact eof_not_in_omKinds fs this
where
  om_total_lines (fs : List Family) (lines : List Str) (hl : LinesOf true lines (fs.flatMap omKinds ++ [.eof])) :
      ∃ ls, lines = ls ++ ["# EOF\n".toList] ∧ LinesOf true ls (fs.flatMap omKinds) := by
    generalize fs.flatMap omKinds = ks at hl
    induction lines generalizing ks with
    | nil => cases ks <;> simp [LinesOf] at hl
    | cons l r ih =>
      cases ks with
      | nil =>
        cases r with
        | nil =>
          obtain ⟨⟨b, rfl, hb⟩, _⟩ := hl
          refine ⟨[], ?_, trivial⟩
          have : b = "# EOF".toList := eof_body b hb
          simp [this]
        | cons x xs => simp [LinesOf] at hl
      | cons k ks =>
        obtain ⟨ls, hls, hlo⟩ := ih ks hl.2
        exact ⟨l :: ls, by simp [hls], hl.1, hlo⟩
  eof_body (b : Str) (hb : classify true b = some .eof) : b = "# EOF".toList := by
    unfold classify at hb
    cases h1 : stripPrefix "# HELP ".toList b with
    | some r => simp only [h1] at hb; split at hb <;> (try split at hb) <;> simp at hb
    | none =>
      simp only [h1] at hb
      cases h2 : stripPrefix "# TYPE ".toList b with
      | some r => simp only [h2] at hb; split at hb <;> (try split at hb) <;> simp at hb
      | none =>
        simp only [h2, if_true] at hb
        cases h3 : stripPrefix "# UNIT ".toList b with
        | some r => simp only [h3] at hb; split at hb <;> (try split at hb) <;> simp at hb
        | none =>
          simp only [h3, Bool.true_and] at hb
          by_cases he : (b == "# EOF".toList) = true
          · simpa using he
          · simp only [he, Bool.false_eq_true, if_false] at hb
            split at hb <;> simp at hb

/-- one sample line of OpenMetrics (timestamp and exemplar included), in isolation -/
theorem om_sample_line_partial (fam : Family) (s : Sample) (l : Str) (hok : sampleOKOM s = true)
    (h : OMExpo.sampleLine fam s = .ok l) :
    ∃ b, l = b ++ ['\n'] ∧ '\n' ∉ b ∧ classify true b = some .sample := by
  obtain ⟨b, hb, hk⟩ := om_sampleLine_lineOf fam s l hok h
  exact ⟨b, hb, classify_noLF true b _ hk, hk⟩

/-- non-vacuity: unit, non-legacy names, timestamp, exemplar with timestamp -/
def exFamOM : Family :=
  ⟨"c d_s".toList, "h\n".toList, "counter".toList, ['s'],
    [⟨"c d_s_total".toList, [("l é".toList, "v\n\"\\".toList)], "1.0".toList, some ⟨.stamp 1 5, 1000⟩,
      some ⟨[("trace_id".toList, "a\"b\n".toList)], "0.5".toList, some (.flt "1.5".toList)⟩⟩]⟩
example : familyOKOM exFamOM = true := by decide
example : ∃ out, OMExpo.generateLatest [exFamOM] = .ok out := ⟨_, rfl⟩

/-- F3 in the model: `c.inc(1, {'a b\n# EOF': 'x'})` — the exemplar label name is written raw: the sample line is
split and a second piece begins with `# EOF` -/
def f3Fam : Family :=
  ⟨['c'], ['h'], "counter".toList, [],
    [⟨"c_total".toList, [], "1.0".toList, none, some ⟨[("a b\n# EOF".toList, ['x'])], "1.0".toList, none⟩⟩]⟩
theorem f3_counterexample :
    validateLabelname false "a b\n# EOF".toList = .ok () ∧
    OMExpo.generateLatest [f3Fam] =
      .ok "# HELP c h\n# TYPE c counter\nc_total 1.0 # {a b\n# EOF=\"x\"} 1.0\n# EOF\n".toList ∧
    lineKinds true "# HELP c h\n# TYPE c counter\nc_total 1.0 # {a b\n# EOF=\"x\"} 1.0\n# EOF\n".toList =
      [some .help, some .type, none, none, some .eof, none] ∧
    familyOKOM f3Fam = false := by decide +kernel

/-- F3, sharper: an exemplar label name can plant an exact `# EOF` line in the middle of the exposition -/
def f3EofFam : Family :=
  ⟨['c'], ['h'], "counter".toList, [],
    [⟨"c_total".toList, [], "1.0".toList, none, some ⟨[("a\n# EOF\nb".toList, ['x'])], "1.0".toList, none⟩⟩]⟩
theorem f3_eof_counterexample :
    OMExpo.generateLatest [f3EofFam] =
      .ok "# HELP c h\n# TYPE c counter\nc_total 1.0 # {a\n# EOF\nb=\"x\"} 1.0\n# EOF\n".toList ∧
    lineKinds true "# HELP c h\n# TYPE c counter\nc_total 1.0 # {a\n# EOF\nb=\"x\"} 1.0\n# EOF\n".toList =
      [some .help, some .type, none, some .eof, none, some .eof, none] := by decide +kernel

/-- F4 in the model: `Gauge('g','d',unit='a\nb')` (UTF-8 names) — the unit is neither validated nor escaped -/
def f4Fam : Family :=
  ⟨"g_a\nb".toList, ['d'], "gauge".toList, "a\nb".toList, [⟨"g_a\nb".toList, [], "1.0".toList, none, none⟩]⟩
theorem f4_counterexample :
    validateMetricName false f4Fam.name = .ok () ∧
    OMExpo.generateLatest [f4Fam] =
      .ok "# HELP \"g_a\\nb\" d\n# TYPE \"g_a\\nb\" gauge\n# UNIT \"g_a\\nb\" a\nb\n{\"g_a\\nb\"} 1.0\n# EOF\n".toList ∧
    lineKinds true "# HELP \"g_a\\nb\" d\n# TYPE \"g_a\\nb\" gauge\n# UNIT \"g_a\\nb\" a\nb\n{\"g_a\\nb\"} 1.0\n# EOF\n".toList =
      [some .help, some .type, some .unit, none, some .sample, some .eof, none] ∧
    familyOKOM f4Fam = false := by decide +kernel

-- (5) constructors --------------------------------------------------------------------------------------------------
/-- every (type, name, namespace, subsystem, unit, label names) the constructor of an instrumentation class accepts —
under either validation setting — is accepted unchanged by `Metric.__init__`, which `collect()` runs before every
exposition; and a family with that name, any documentation and any samples whose exemplars sit on eligible samples
(the only ones `Counter.inc` / `Histogram.observe` create) is exposed by the OpenMetrics model without raising.
The text model has no raising path at all (its type is `Str`, not `PyM Str`). -/
theorem constructor_accepts_exposable (legacy : Bool) (typ name ns ss unit full doc : Str) (lns : List Str)
    (samples : List Sample)
    (hcls : typ ∈ PromVerif.Generated.Ctor.reservedLabelnames.map (·.1))
    (h : Ctor.wrapperInit legacy typ name ns ss unit lns = .ok full)
    (hex : exemplarsEligible ⟨full, doc, typ, unit, samples⟩ = true) :
    Ctor.metricInit legacy full typ unit = .ok (full, typ) ∧
    (∃ out, OMExpo.generateLatest [⟨full, doc, typ, unit, samples⟩] = .ok out) ∧
    (∃ out, TextExpo.generateLatest [⟨full, doc, typ, unit, samples⟩] = out) :=
  ⟨ctor_then_metricInit legacy typ name ns ss unit full lns hcls h,
   om_total _ (fun f hf => by simp at hf; subst hf; exact hex), ⟨_, rfl⟩⟩

/-- conversely the OpenMetrics model raises only for an exemplar on an ineligible sample -/
theorem om_raises_only_for_ineligible_exemplar (fs : List Family) (h : ∀ f ∈ fs, exemplarsEligible f = true) :
    ∃ out, OMExpo.generateLatest fs = .ok out := om_total fs h

example : Ctor.wrapperInit true "counter".toList "req_total".toList "ns".toList [] ['s'] [['l']] = .ok "ns_req_s".toList := by
  decide
example : Ctor.wrapperInit true "histogram".toList ['h'] [] [] [] [['l', 'e']] = .error .valueError := by decide
example : Ctor.wrapperInit true "info".toList ['i'] [] [] ['s'] [] = .error .valueError := by decide
/-- F2 at the constructor: legacy validation accepts a full name ending in LF (here through the unit) -/
example : Ctor.wrapperInit true "gauge".toList ['g'] [] [] ['a', '\n'] [] = .ok "g_a\n".toList := by decide

-- (6) Graphite ------------------------------------------------------------------------------------------------------
/-- `_sanitize` output consists of whitelist characters only, for every input; whitelist characters are printable
ASCII and none of space, LF, `.`, `;`, `=` -/
theorem graphite_sanitize_whitelist (s : Str) :
    ∀ c ∈ Graphite.sanitize s, inClass PromVerif.Generated.Graphite.allowedClass c = true ∧ pathCh c = true ∧
      c ≠ ' ' ∧ c ≠ '\n' ∧ c ≠ '.' ∧ c ≠ ';' ∧ c ≠ '=' := by
  intro c hc
  have h := sanitize_allowed s c hc
  exact ⟨h, allowed_pathCh c h, allowed_strict c h⟩

/-- `push` writes one line string per collected sample -/
theorem graphite_one_line_per_sample (tags : Bool) (pfx : Str) (now : Int) (fams : List Family) :
    (Graphite.lines tags pfx now fams).length = (fams.map (fun f => f.samples.length)).sum :=
  lines_length tags pfx now fams

/-
Full strength (FALSE on the unchanged tree — candidate findings G1, G2):
  every line string is `path SP value SP timestamp` for every prefix and every sample name.
Proved: with `graphiteOK`: the prefix (inserted raw by `push`) consists of path characters, prefix or sample name is
non-empty, the value is a number token, the clock is non-negative.  Label names and label VALUES need no hypothesis:
both go through `_sanitize`.
-/
/-- each Graphite line is LF-terminated, LF-free, and `path SP value SP int` with exactly two spaces -/
theorem graphite_lines_exact_partial (tags : Bool) (prefixstr : Str) (now : Int) (s : Sample)
    (h : graphiteOK prefixstr now s = true) :
    ∃ b, Graphite.line tags prefixstr now s = b ++ ['\n'] ∧ graphiteLine b = true ∧ '\n' ∉ b ∧ b.count ' ' = 2 := by
  obtain ⟨b, hb, hg, hlf⟩ := graphite_line_ok tags prefixstr now s h
  refine ⟨b, hb, hg, hlf, ?_⟩
  have := count_sep_splitOn ' ' b
  unfold graphiteLine at hg
  split at hg
  · next p v t hs => rw [hs] at this; simp at this; omega
  · simp at hg

example : graphiteOK "p.q.".toList 123 ⟨"m x".toList, [("l é".toList, "v w\n;=.".toList)], "1.0".toList, none, none⟩ = true := by
  decide
example : Graphite.line true "p.".toList 123 ⟨"m x".toList, [("l é".toList, "v w\n;=.".toList)], "1.0".toList, none, none⟩ =
    "p.m_x;l__=v_w____ 1.0 123\n".toList := by decide +kernel

/-- G1 in the model: `push(prefix='evil 1 1\ninjected')` — the prefix is inserted raw: one sample, two
well-formed Graphite lines on the wire, the first one forged -/
def g1Fam : Family := ⟨['m'], [], "gauge".toList, [], [⟨['m'], [], "1.0".toList, none, none⟩]⟩
theorem graphite_prefix_counterexample :
    Graphite.push false "evil 1 1\ninjected".toList 123 [g1Fam] = .ok "evil 1 1\ninjected.m 1.0 123\n".toList ∧
    (splitOn '\n' "evil 1 1\ninjected.m 1.0 123\n".toList).map graphiteLine = [true, true, false] ∧
    (Graphite.lines false "evil 1 1\ninjected".toList 123 [g1Fam]).length = 1 := by
  have h : (Graphite.lines false "evil 1 1\ninjected".toList 123 [g1Fam]).flatten =
      "evil 1 1\ninjected.m 1.0 123\n".toList := by decide +kernel
  refine ⟨?_, by decide +kernel, by decide +kernel⟩
  unfold Graphite.push
  simp only [h]
  rfl

/-- G2 in the model: a sample with an empty name and no prefix gives a line with an empty path -/
def g2Fam : Family := ⟨['m'], [], "gauge".toList, [], [⟨[], [], "1.0".toList, none, none⟩]⟩
theorem graphite_empty_path_counterexample :
    Graphite.push false [] 123 [g2Fam] = .ok " 1.0 123\n".toList ∧ graphiteLine " 1.0 123".toList = false := by
  have h : (Graphite.lines false [] 123 [g2Fam]).flatten = " 1.0 123\n".toList := by decide +kernel
  refine ⟨?_, by decide +kernel⟩
  unfold Graphite.push
  simp only [h]
  rfl

end PromVerif.Props.C05
