/-
C19 — what the library's OWN handlers put on the wire.

M = `Model.GatewayHandlers` (`_make_handler.handle`, `default_handler`, `passthrough_redirect_handler`,
`basic_auth_handler.handle`, `_PrometheusRedirectHandler.redirect_request`) composed with `Model.Gateway`
(`_use_gateway` and the three public functions).  Every theorem quantifies over ALL urls, methods, header
lists, bodies, time-outs and over every behaviour of the opener (`opener : Wire β τ → Except PyErr Nat`, the
trusted urllib part).  The theorems depend on the extracted flags (`mhMethodInstalled`, `mhTimeoutPassed`,
`mhErrorFrom = 400`, `mhErrorClass = OSError`, the redirect tables): dropping `request.get_method = …`, losing
`timeout=timeout`, or moving the threshold breaks them.

Model of the code that exists: `redirect_request` re-sends PUT/POST only after 301/302/303 and refuses every
redirect of a DELETE and every 307/308 (`delete_redirect_refused`, `put_post_307_308_refused` are kernel-checked
statements of that; see the report — the doc-string of `passthrough_redirect_handler` promises "all HTTP methods").
-/
import PromVerif.Model.GatewayHandlers
import PromVerif.Props.C19

set_option autoImplicit false

namespace PromVerif.Props.C19Handlers
open PromVerif.Py PromVerif.Model.Gateway PromVerif.Model.GatewayHandlers PromVerif.Spec.Gateway
open PromVerif.Generated.Gateway

/-! ### the extracted shape of `_make_handler.handle` -/

/-- `request.get_method = lambda: method` is there -/
theorem method_installed : mhMethodInstalled = true := by decide

/-- `open(request, timeout=timeout)` carries the caller's time-out -/
theorem timeout_keyword_present : mhTimeoutPassed = true := by decide

/-- `if resp.code >= 400: raise OSError(…)` -/
theorem error_threshold : mhErrorFrom = 400 ∧ errOfClass mhErrorClass = PyErr.osError := by decide

/-- `default_handler` builds on `HTTPHandler`, the passthrough handler on `_PrometheusRedirectHandler` -/
theorem base_handlers : defaultBase = "HTTPHandler".toList ∧ redirectBase = "_PrometheusRedirectHandler".toList := by
  decide +kernel

section
variable {β τ : Type}

/-- the header loop adds every `(k, v)` once, in order -/
theorem addHeaders_eq (hs : List (Str × Str)) : addHeaders hs = hs := by
  have h : ∀ acc : List (Str × Str), hs.foldl (fun acc kv => acc ++ [(kv.1, kv.2)]) acc = acc ++ hs := by
    induction hs with
    | nil => intro acc; simp
    | cons x xs ih => intro acc; simp [List.foldl_cons, ih]
  simpa [addHeaders] using h []

example : addHeaders [("a".toList, "1".toList), ("a".toList, "2".toList)] = [("a".toList, "1".toList), ("a".toList, "2".toList)] := by
  decide +kernel

/-- **The request handed to the opener is exactly the one the handler was given**: same URL, same method, every
header once and in order, same body, the caller's time-out — for every base handler class. -/
theorem sends_exactly (r : Request β τ) (base : Str) :
    makeRequest r base = ⟨r.url, r.method, r.headers, r.data, .given r.timeout, base⟩ := by
  unfold makeRequest
  rw [addHeaders_eq, if_pos method_installed, if_pos timeout_keyword_present]

example : makeRequest (β := Nat) (τ := Nat) ⟨"u".toList, "PUT".toList, 7, [("k".toList, "v".toList)], 3⟩ "B".toList
    = ⟨"u".toList, "PUT".toList, [("k".toList, "v".toList)], 3, .given 7, "B".toList⟩ := by decide +kernel

/-- the handler calls the opener once, with that request, and then looks at the status -/
theorem default_handler_eq (r : Request β τ) (opener : Wire β τ → Except PyErr Nat) :
    defaultHandler r opener =
      statusOf (opener ⟨r.url, r.method, r.headers, r.data, .given r.timeout, defaultBase⟩) := by
  unfold defaultHandler makeHandler
  rw [sends_exactly]

/-- the same for the redirect-following handler -/
theorem passthrough_handler_eq (r : Request β τ) (opener : Wire β τ → Except PyErr Nat) :
    passthroughRedirectHandler r opener =
      statusOf (opener ⟨r.url, r.method, r.headers, r.data, .given r.timeout, redirectBase⟩) := by
  unfold passthroughRedirectHandler makeHandler
  rw [sends_exactly]

/-! ### status handling -/

/-- **status ≥ 400 raises `OSError`** -/
theorem status_ge_400_raises (code : Nat) (h : 400 ≤ code) : checkStatus code = .error PyErr.osError := by
  unfold checkStatus
  rw [error_threshold.1, error_threshold.2, if_pos h]

/-- **status < 400 returns** -/
theorem status_lt_400_returns (code : Nat) (h : code < 400) : checkStatus code = .ok () := by
  unfold checkStatus
  rw [error_threshold.1, if_neg (by omega)]

example : checkStatus 400 = .error PyErr.osError ∧ checkStatus 399 = .ok () ∧ checkStatus 599 = .error PyErr.osError ∧
    checkStatus 202 = .ok () := ⟨rfl, rfl, rfl, rfl⟩

/-- the whole handler: the opener's answer decides; an exception raised inside urllib reaches the caller -/
theorem handler_outcome (r : Request β τ) (base : Str) (opener : Wire β τ → Except PyErr Nat) :
    (∀ code, opener (makeRequest r base) = .ok code → 400 ≤ code → makeHandler r base opener = .error PyErr.osError) ∧
    (∀ code, opener (makeRequest r base) = .ok code → code < 400 → makeHandler r base opener = .ok ()) ∧
    (∀ e, opener (makeRequest r base) = .error e → makeHandler r base opener = .error e) := by
  refine ⟨?_, ?_, ?_⟩
  · intro code ho hc
    unfold makeHandler
    rw [ho]
    exact status_ge_400_raises code hc
  · intro code ho hc
    unfold makeHandler
    rw [ho]
    exact status_lt_400_returns code hc
  · intro e ho
    unfold makeHandler
    rw [ho]
    rfl

example : makeHandler (β := Nat) (τ := Nat) ⟨[], [], 0, [], 0⟩ [] (fun _ => .ok 404) = .error PyErr.osError := rfl
example : makeHandler (β := Nat) (τ := Nat) ⟨[], [], 0, [], 0⟩ [] (fun _ => .ok 202) = .ok () := rfl
example : makeHandler (β := Nat) (τ := Nat) ⟨[], [], 0, [], 0⟩ [] (fun _ => .error .timeout) = .error .timeout := rfl

/-! ### the three public functions through the DEFAULT handler -/

variable (g job : Str) (expo empty : β) (gk : List (Str × Str)) (t : τ) (base : Str)

/-- **`push_to_gateway` on the wire**: PUT, the URL of `_use_gateway`, the single text content type, the bytes of
`generate_latest(registry)`, the caller's time-out, for every base handler (`HTTPHandler` for the default one) -/
theorem push_on_the_wire :
    makeRequest (pushToGateway g job expo empty gk t) base =
      ⟨buildUrl g job gk, "PUT".toList, [("Content-Type".toList, "text/plain; version=0.0.4; charset=utf-8".toList)],
        expo, .given t, base⟩ := by
  rw [sends_exactly, (C19.push_body_is_exposition g job expo empty gk t).1, (C19.methods g job expo empty gk t).1]
  show Wire.mk _ _ (useGateway methodPut g job expo empty gk t).headers _ _ _ = _
  rw [C19.content_type_is_text]
  have hp : "PUT".toList = ['P', 'U', 'T'] := by decide
  rw [hp]; rfl

/-- **`pushadd_to_gateway` on the wire**: POST, otherwise the same -/
theorem pushadd_on_the_wire :
    makeRequest (pushaddToGateway g job expo empty gk t) base =
      ⟨buildUrl g job gk, "POST".toList, [("Content-Type".toList, "text/plain; version=0.0.4; charset=utf-8".toList)],
        expo, .given t, base⟩ := by
  rw [sends_exactly, (C19.push_body_is_exposition g job expo empty gk t).2, (C19.methods g job expo empty gk t).2.1]
  show Wire.mk _ _ (useGateway methodPost g job expo empty gk t).headers _ _ _ = _
  rw [C19.content_type_is_text]
  have hp : "POST".toList = ['P', 'O', 'S', 'T'] := by decide
  rw [hp]; rfl

/-- **`delete_from_gateway` on the wire**: DELETE, an empty body -/
theorem delete_on_the_wire :
    makeRequest (deleteFromGateway g job expo empty gk t) base =
      ⟨buildUrl g job gk, "DELETE".toList, [("Content-Type".toList, "text/plain; version=0.0.4; charset=utf-8".toList)],
        empty, .given t, base⟩ := by
  rw [sends_exactly, C19.delete_body_empty g job expo empty gk t, (C19.methods g job expo empty gk t).2.2]
  show Wire.mk _ _ (useGateway methodDelete g job expo empty gk t).headers _ _ _ = _
  rw [C19.content_type_is_text]
  have hp : "DELETE".toList = ['D', 'E', 'L', 'E', 'T', 'E'] := by decide
  rw [hp]; rfl

/-- the URL on the wire still decodes (Pushgateway reading) to the job and the sorted grouping key -/
theorem wire_url_decodes (h : LegacyNames gk) :
    decodeUrlGo (gatewayBase g) (makeRequest (pushToGateway g job expo empty gk t) defaultBase).url
      = some ((['j', 'o', 'b'], job) :: sortByKey gk) := by
  rw [sends_exactly]
  exact C19.url_decodes_go g job gk h

end

example : makeRequest (pushToGateway "h:1/".toList "a b".toList (some 5) none [] (30 : Nat)) defaultBase =
    ⟨"http://h:1/metrics/job/a%20b".toList, "PUT".toList,
      [("Content-Type".toList, "text/plain; version=0.0.4; charset=utf-8".toList)], some 5, .given 30, "HTTPHandler".toList⟩ := by
  decide +kernel
example : (makeRequest (deleteFromGateway "h".toList "j".toList (some 5) none [] (30 : Nat)) defaultBase).body = none ∧
    (makeRequest (deleteFromGateway "h".toList "j".toList (some 5) none [] (30 : Nat)) defaultBase).method = "DELETE".toList := by
  decide +kernel

/-! ### `registry is None` -/

/-- `registry=None` is accepted and means the default `REGISTRY` for push / pushadd; delete never looks at it -/
theorem registry_none_is_default {β ρ : Type} (dflt : ρ) (gen : ρ → β) (empty : β) (reg : Option ρ) :
    bodyOf methodPut none dflt gen empty = gen dflt ∧ bodyOf methodPost none dflt gen empty = gen dflt ∧
    (∀ r, bodyOf methodPut (some r) dflt gen empty = gen r ∧ bodyOf methodPost (some r) dflt gen empty = gen r) ∧
    bodyOf methodDelete reg dflt gen empty = empty := by
  have h1 : methodPut ≠ deleteLit := by decide
  have h2 : methodPost ≠ deleteLit := by decide
  have h3 : ¬ (methodDelete ≠ deleteLit) := by decide
  unfold bodyOf
  simp only [if_pos h1, if_pos h2, if_neg h3]
  exact ⟨trivial, trivial, fun _ => ⟨trivial, trivial⟩, trivial⟩

example : bodyOf (ρ := Nat) methodPost none 7 (fun n => n + 1) 0 = 8 := by decide

/-! ### `basic_auth_handler` -/

section
variable {β τ : Type}

/-- **exactly one header is added, after the given ones: `Authorization: Basic base64(user:password)`**; URL,
method, body, time-out and base handler are those of the default handler -/
theorem basic_auth_wire (r : Request β τ) (u p : Str) (opener : Wire β τ → Except PyErr Nat) :
    basicAuthHandler r (some u) (some p) opener =
      statusOf (opener ⟨r.url, r.method,
          r.headers ++ [("Authorization".toList, "Basic ".toList ++ b64encodeStd (utf8 (u ++ [':'] ++ p)))],
          r.data, .given r.timeout, defaultBase⟩) := by
  have h1 : "Authorization".toList = authHeaderName := by decide +kernel
  have h2 : "Basic ".toList = authPrefix := by decide +kernel
  have h3 : [':'] = authSep := by decide
  unfold basicAuthHandler basicAuthRequest
  rw [default_handler_eq, h1, h2, h3]
  rfl

/-- without a user name or without a password it IS the default handler -/
theorem basic_auth_none_is_default (r : Request β τ) (u p : Option Str) (opener : Wire β τ → Except PyErr Nat)
    (h : u = none ∨ p = none) : basicAuthHandler r u p opener = defaultHandler r opener := by
  unfold basicAuthHandler basicAuthRequest
  rcases h with rfl | rfl
  · rfl
  · cases u <;> rfl

/-- the token is the standard-alphabet spelling of the URL-safe encoding -/
def urlChar (c : Char) : Char := if c = '+' then '-' else if c = '/' then '_' else c

/-- **the token decodes to `user:password`** (UTF-8): translate `+/` back to `-_` and use the base64 round trip -/
theorem basic_auth_token_decodes (u p : Str) :
    b64decode ((b64encodeStd (utf8 (u ++ [':'] ++ p))).map urlChar) = some (utf8 (u ++ [':'] ++ p)) := by
  have hmap : ∀ bs : List UInt8, (b64encodeStd bs).map urlChar = b64encode bs := by
    intro bs
    unfold b64encodeStd
    rw [List.map_map]
    have : ∀ c ∈ b64encode bs, (urlChar ∘ stdChar) c = c := by
      intro c hc
      have hne := C19.b64_alphabet_no_slash bs c hc
      simp only [Function.comp, urlChar, stdChar]
      by_cases h1 : c = '-'
      · subst h1; decide
      · by_cases h2 : c = '_'
        · subst h2; decide
        · simp [h1, h2, hne.1, hne.2.1]
    rw [List.map_congr_left this, List.map_id']
  rw [hmap]
  exact C19.b64_roundtrip _

example : authValue "usér".toList "p:w".toList = "Basic dXPDqXI6cDp3".toList := by decide +kernel
example : b64encodeStd [0xfb, 0xff, 0xfe] = "+//+".toList := by decide +kernel
example : authHeaders [("a".toList, "b".toList)] (some []) none = [("a".toList, "b".toList)] := by decide +kernel

/-! ### redirects (`_PrometheusRedirectHandler.redirect_request`) -/

/-- **a followed redirect is re-sent with the same method, the same body, the same headers and the same
time-out**, to the new URL with spaces escaped -/
theorem redirect_resends_same (w w' : Wire β τ) (code : Nat) (newurl : Str)
    (h : redirectRequest w code newurl = .ok w') :
    w'.method = w.method ∧ w'.body = w.body ∧ w'.headers = w.headers ∧ w'.timeout = w.timeout ∧
    w'.url = replaceChar ' ' "%20".toList newurl := by
  unfold redirectRequest at h
  split at h
  · injection h with h
    subst h
    refine ⟨rfl, rfl, rfl, rfl, ?_⟩
    show escapeNewUrl newurl = _
    have : "%20".toList = redirSpaceTo := by decide
    rw [this]; rfl
  · cases h

/-- which redirects are followed: 301/302/303/307 for GET/HEAD, 301/302/303 for POST/PUT; everything else raises
`HTTPError` (an `OSError`) -/
theorem redirect_followed_iff (w : Wire β τ) (code : Nat) (newurl : Str) :
    (∃ w', redirectRequest w code newurl = .ok w') ↔
      ((code ∈ [301, 302, 303, 307] ∧ w.method ∈ ["GET".toList, "HEAD".toList]) ∨
       (code ∈ [301, 302, 303] ∧ w.method ∈ ["POST".toList, "PUT".toList])) := by
  have hs : redirSafeCodes = [301, 302, 303, 307] := by decide
  have hu : redirUnsafeCodes = [301, 302, 303] := by decide
  have hsm : redirSafeMethods = ["GET".toList, "HEAD".toList] := by decide +kernel
  have hum : redirUnsafeMethods = ["POST".toList, "PUT".toList] := by decide +kernel
  have hall : redirectAllowed code w.method = true ↔
      ((code ∈ [301, 302, 303, 307] ∧ w.method ∈ ["GET".toList, "HEAD".toList]) ∨
       (code ∈ [301, 302, 303] ∧ w.method ∈ ["POST".toList, "PUT".toList])) := by
    unfold redirectAllowed
    rw [hs, hu, hsm, hum]
    simp only [Bool.or_eq_true, Bool.and_eq_true, List.contains_iff_mem]
  unfold redirectRequest
  constructor
  · rintro ⟨w', h⟩
    split at h
    · next ha => exact hall.mp ha
    · cases h
  · intro h
    rw [if_pos (hall.mpr h)]
    exact ⟨_, rfl⟩

theorem redirect_refused_is_oserror (w : Wire β τ) (code : Nat) (newurl : Str)
    (h : redirectAllowed code w.method = false) : redirectRequest w code newurl = .error PyErr.osError := by
  unfold redirectRequest
  rw [if_neg (by simp [h])]
  have : errOfClass redirErrorClass = PyErr.osError := by decide
  rw [this]

variable (g job : Str) (expo empty : β) (gk : List (Str × Str)) (t : τ)

/-- **push / pushadd after 301, 302, 303**: PUT stays PUT, POST stays POST, the exposition and the content type are
sent again, with the caller's time-out -/
theorem push_redirect_resent (code : Nat) (hc : code ∈ [301, 302, 303]) (newurl : Str) :
    redirectRequest (makeRequest (pushToGateway g job expo empty gk t) redirectBase) code newurl =
      .ok ⟨replaceChar ' ' "%20".toList newurl, "PUT".toList,
        [("Content-Type".toList, "text/plain; version=0.0.4; charset=utf-8".toList)], expo, .given t, redirectBase⟩ ∧
    redirectRequest (makeRequest (pushaddToGateway g job expo empty gk t) redirectBase) code newurl =
      .ok ⟨replaceChar ' ' "%20".toList newurl, "POST".toList,
        [("Content-Type".toList, "text/plain; version=0.0.4; charset=utf-8".toList)], expo, .given t, redirectBase⟩ := by
  have h20 : "%20".toList = redirSpaceTo := by decide
  have esc : escapeNewUrl newurl = replaceChar ' ' "%20".toList newurl := by rw [h20]; rfl
  have hput : redirectAllowed code "PUT".toList = true := by
    simp only [List.mem_cons, List.mem_nil_iff, or_false] at hc
    rcases hc with rfl | rfl | rfl <;> decide +kernel
  have hpost : redirectAllowed code "POST".toList = true := by
    simp only [List.mem_cons, List.mem_nil_iff, or_false] at hc
    rcases hc with rfl | rfl | rfl <;> decide +kernel
  refine ⟨?_, ?_⟩
  · rw [push_on_the_wire g job expo empty gk t redirectBase]
    simp only [redirectRequest, hput, esc, ↓reduceIte]
  · rw [pushadd_on_the_wire g job expo empty gk t redirectBase]
    simp only [redirectRequest, hpost, esc, ↓reduceIte]

/-- **Candidate finding (model of the code that exists): a DELETE is never re-sent** — whatever the redirect code,
`delete_from_gateway` through the passthrough handler raises `HTTPError` -/
theorem delete_redirect_refused (code : Nat) (newurl : Str) :
    redirectRequest (makeRequest (deleteFromGateway g job expo empty gk t) redirectBase) code newurl =
      .error PyErr.osError := by
  apply redirect_refused_is_oserror
  rw [sends_exactly]
  show redirectAllowed code methodDelete = false
  unfold redirectAllowed
  have h1 : redirSafeMethods.contains methodDelete = false := by decide +kernel
  have h2 : redirUnsafeMethods.contains methodDelete = false := by decide +kernel
  rw [h1, h2]
  simp

/-- **… and 307 / 308 (the method-preserving redirects) are refused for PUT and POST** -/
theorem put_post_307_308_refused (code : Nat) (hc : code = 307 ∨ code = 308) (newurl : Str) :
    redirectRequest (makeRequest (pushToGateway g job expo empty gk t) redirectBase) code newurl = .error PyErr.osError ∧
    redirectRequest (makeRequest (pushaddToGateway g job expo empty gk t) redirectBase) code newurl = .error PyErr.osError := by
  refine ⟨?_, ?_⟩
  · apply redirect_refused_is_oserror
    rw [sends_exactly]
    show redirectAllowed code methodPut = false
    rcases hc with rfl | rfl <;> decide +kernel
  · apply redirect_refused_is_oserror
    rw [sends_exactly]
    show redirectAllowed code methodPost = false
    rcases hc with rfl | rfl <;> decide +kernel

end

example : redirectRequest (β := Nat) (τ := Nat) ⟨"u".toList, "PUT".toList, [("k".toList, "v".toList)], 3, .given 7, []⟩ 302 "http://h/a b".toList
    = .ok ⟨"http://h/a%20b".toList, "PUT".toList, [("k".toList, "v".toList)], 3, .given 7, []⟩ := by rfl
example : redirectRequest (β := Nat) (τ := Nat) ⟨"u".toList, "DELETE".toList, [], 0, .given 7, []⟩ 302 "x".toList
    = .error PyErr.osError := by rfl
example : redirectRequest (β := Nat) (τ := Nat) ⟨"u".toList, "PUT".toList, [], 0, .given 7, []⟩ 307 "x".toList
    = .error PyErr.osError := by rfl

end PromVerif.Props.C19Handlers
