/-
C07, continued — the three BUILT-IN custom collectors of the default `REGISTRY` (`GCCollector`, `PlatformCollector`,
`ProcessCollector`) satisfy the precondition `ClaimsCover` of `restricted_is_filter`, and what exactly they yield.

Theorems are about `Model/Builtins.lean` (which constructor calls are made, with which literals, is extracted from the
three source files: `Generated/Builtins.lean`), over EVERY environment reading: any `gc.get_stats()` list, any platform
strings, any outcome of every file access of `ProcessCollector.collect` (value, `OSError`, other exception), any
namespace, legacy validation on or off.

The registry model assumes `collect()` of a registered collector yields the same families at registration (when the
claims are computed under `auto_describe`) and later: a `ProcessCollector` whose `/proc` reads fail at one time and not at
another is outside that assumption (its family NAMES are fixed — `process_collect_exact` — but which of them appear is not).
-/
import PromVerif.Lemmas.Builtins
import PromVerif.Props.C07Families

set_option autoImplicit false

namespace PromVerif.Props.C07Builtins
open PromVerif.Py PromVerif.Model.Families PromVerif.Model.Builtins
open PromVerif.Generated.Builtins PromVerif.Generated.Families
open PromVerif.Model.Registry (Name MType Collector Op SamplesCovered)
open PromVerif.Props.C07Families (FamilyCollector)

variable {α : Type}

/-- the extractor found the three collectors in the expected shape: only `*MetricFamily` constructor calls (of the eight
classes) and `add_metric`, literal names, no `add_sample` -/
theorem extract_ok : PromVerif.Generated.Builtins.extractOk = true := by decide

/-! ### names used below -/

private def sGeneration : Name := ['g', 'e', 'n', 'e', 'r', 'a', 't', 'i', 'o', 'n']
private def nCollected : Name := ['p', 'y', 't', 'h', 'o', 'n', '_', 'g', 'c', '_', 'o', 'b', 'j', 'e', 'c', 't', 's', '_', 'c', 'o', 'l', 'l', 'e', 'c', 't', 'e', 'd']
private def nUncollectable : Name := ['p', 'y', 't', 'h', 'o', 'n', '_', 'g', 'c', '_', 'o', 'b', 'j', 'e', 'c', 't', 's', '_', 'u', 'n', 'c', 'o', 'l', 'l', 'e', 'c', 't', 'a', 'b', 'l', 'e']
private def nCollections : Name := ['p', 'y', 't', 'h', 'o', 'n', '_', 'g', 'c', '_', 'c', 'o', 'l', 'l', 'e', 'c', 't', 'i', 'o', 'n', 's']
private def kCollected : Name := ['c', 'o', 'l', 'l', 'e', 'c', 't', 'e', 'd']
private def kUncollectable : Name := ['u', 'n', 'c', 'o', 'l', 'l', 'e', 'c', 't', 'a', 'b', 'l', 'e']
private def kCollections : Name := ['c', 'o', 'l', 'l', 'e', 'c', 't', 'i', 'o', 'n', 's']
private def sTotal : Name := ['_', 't', 'o', 't', 'a', 'l']
private def nPythonInfo : Name := ['p', 'y', 't', 'h', 'o', 'n', '_', 'i', 'n', 'f', 'o']
private def kVersion : Name := ['v', 'e', 'r', 's', 'i', 'o', 'n']
private def kImplementation : Name := ['i', 'm', 'p', 'l', 'e', 'm', 'e', 'n', 't', 'a', 't', 'i', 'o', 'n']
private def kMajor : Name := ['m', 'a', 'j', 'o', 'r']
private def kMinor : Name := ['m', 'i', 'n', 'o', 'r']
private def kPatchlevel : Name := ['p', 'a', 't', 'c', 'h', 'l', 'e', 'v', 'e', 'l']
private def kJvmVersion : Name := ['j', 'v', 'm', '_', 'v', 'e', 'r', 's', 'i', 'o', 'n']
private def kJvmRelease : Name := ['j', 'v', 'm', '_', 'r', 'e', 'l', 'e', 'a', 's', 'e']
private def kJvmVendor : Name := ['j', 'v', 'm', '_', 'v', 'e', 'n', 'd', 'o', 'r']
private def kJvmName : Name := ['j', 'v', 'm', '_', 'n', 'a', 'm', 'e']
private def sVmem : Name := ['v', 'i', 'r', 't', 'u', 'a', 'l', '_', 'm', 'e', 'm', 'o', 'r', 'y', '_', 'b', 'y', 't', 'e', 's']
private def sRss : Name := ['r', 'e', 's', 'i', 'd', 'e', 'n', 't', '_', 'm', 'e', 'm', 'o', 'r', 'y', '_', 'b', 'y', 't', 'e', 's']
private def sStart : Name := ['s', 't', 'a', 'r', 't', '_', 't', 'i', 'm', 'e', '_', 's', 'e', 'c', 'o', 'n', 'd', 's']
private def sCpu : Name := ['c', 'p', 'u', '_', 's', 'e', 'c', 'o', 'n', 'd', 's']
private def sOpenFds : Name := ['o', 'p', 'e', 'n', '_', 'f', 'd', 's']
private def sMaxFds : Name := ['m', 'a', 'x', '_', 'f', 'd', 's']
private def vVmem : Name := ['v', 'm', 'e', 'm']
private def vRss : Name := ['r', 's', 's']
private def vStart : Name := ['s', 't', 'a', 'r', 't', '_', 't', 'i', 'm', 'e']
private def vCpu : Name := ['c', 'p', 'u']
private def sProcess : Name := ['p', 'r', 'o', 'c', 'e', 's', 's', '_']
private def sNsProcess : Name := ['_', 'p', 'r', 'o', 'c', 'e', 's', 's', '_']

/-! ### (a) everything the built-in collectors yield is built by a modelled constructor -/

/-- `fams` is what `collect()` of one of the three built-in collectors returns, for some environment -/
inductive Yields {α : Type} (env : Env) : List (Fam α) → Prop
  | gc (stats : List (Name → α)) (fams : List (Fam α)) (h : gcCollect env stats = .ok fams) : Yields env fams
  | platform (ofNat : Nat → α) (p : PlatformEnv) (metrics : List (Fam α)) (h : platformInit env ofNat p = .ok metrics) :
      Yields env (platformCollect metrics)
  | process (p : ProcEnv α) (fams : List (Fam α)) (h : processCollect env p = .ok fams) : Yields env fams

private theorem tryOSError_ok {b : Except BErr (List (Fam α))} {r : List (Fam α)} (h : tryOSError b = .ok r) :
    r = [] ∨ b = .ok r := by
  unfold tryOSError at h
  split at h
  · split at h
    · cases h; exact Or.inl rfl
    · cases h
  · exact Or.inr h

private theorem statBody_built {env : Env} {pfx : Name} {st : PyM (Name → α)} {r : List (Fam α)}
    (h : statBody env pfx st = .ok r) (f : Fam α) (hf : f ∈ r) : Built env f := by
  unfold statBody at h
  split at h
  · cases h
  · split at h
    · cases h
    · next fams hm =>
      have := pick_mem _ _ _ h f hf
      simp only [List.mem_map, Option.some.injEq] at this
      obtain ⟨g, hg, rfl⟩ := this
      obtain ⟨s, _, hs⟩ := mapE_ok_mem _ _ _ hm g hg
      exact build_built hs

private theorem fdBody_built {env : Env} {pfx : Name} {lim : PyM (Option α)} {fds : PyM α} {r : List (Fam α)}
    (h : fdBody env pfx lim fds = .ok r) (f : Fam α) (hf : f ∈ r) : Built env f := by
  unfold fdBody at h
  split at h
  · cases h
  · next l =>
    split at h
    · cases h
    · next maxFds hmax =>
      split at h
      · cases h
      · split at h
        · cases h
        · next openFds ho =>
          have := pick_mem _ _ _ h f hf
          simp only [List.mem_cons, Option.some.injEq, List.not_mem_nil, or_false] at this
          rcases this with h1 | rfl
          · subst h1
            cases l with
            | none => simp at hmax
            | some v =>
              simp only at hmax
              split at hmax
              · cases hmax
              · next g hg => cases hmax; exact build_built hg
          · exact build_built ho

/-- **Every family a built-in collector yields is constructed by a modelled `*MetricFamily` constructor** (and
`add_metric` calls): for every environment in which `collect()` returns. -/
theorem builtin_families_built (env : Env) (fams : List (Fam α)) (h : Yields env fams) : ∀ f, f ∈ fams → Built env f := by
  intro f hf
  cases h with
  | gc stats _ h =>
    unfold gcCollect at h
    split at h
    · cases h
    · next fams0 hm =>
      have := pick_mem _ _ _ h f hf
      simp only [List.mem_map, Option.some.injEq] at this
      obtain ⟨g, hg, rfl⟩ := this
      obtain ⟨s, _, hs⟩ := mapE_ok_mem _ _ _ hm g hg
      exact build_built hs
  | platform ofNat p metrics h =>
    unfold platformInit at h
    split at h
    · cases h
    · next g hg =>
      cases h
      simp only [platformCollect, List.mem_singleton] at hf
      subst hf
      exact build_built hg
  | process p _ h =>
    unfold processCollect at h
    split at h
    · cases h; simp at hf
    · split at h
      · cases h
      · next r1 h1 =>
        split at h
        · cases h
        · next r2 h2 =>
          cases h
          rcases List.mem_append.1 hf with hf1 | hf2
          · rcases tryOSError_ok h1 with rfl | hb
            · simp at hf1
            · exact statBody_built hb f hf1
          · rcases tryOSError_ok h2 with rfl | hb
            · simp at hf2
            · exact fdBody_built hb f hf2

/-- a registered built-in collector: no `describe()` (none of the three classes defines one), `collect()` as modelled -/
def BuiltinCollector (env : Env) (c : Collector) : Prop :=
  c.describe = none ∧ ∃ (α : Type) (fams : List (Fam α)), Yields env fams ∧ c.families = fams.map toFamily

/-- **`ClaimsCover` holds for the three built-in collectors under `auto_describe`** (the default `REGISTRY` is
`CollectorRegistry(auto_describe=True)`): every sample name they emit is among the names `_get_names` records. -/
theorem builtin_collectors_claims_cover (env : Env) (c : Collector) (h : BuiltinCollector env c) :
    FamilyCollector env true c ∧ SamplesCovered true c := by
  obtain ⟨hd, β, fams, hy, hc⟩ := h
  exact ⟨⟨β, fams, builtin_families_built env fams hy, hc, Or.inl ⟨hd, rfl⟩⟩,
    PromVerif.Props.C07Families.family_ctor_claims_cover env true c fams (builtin_families_built env fams hy) hc
      (Or.inl ⟨hd, rfl⟩)⟩

/-- **The filter theorem applies to the default registry's content without hypothesis**: after any history of an
auto-describing registry whose registered collectors are built-in collectors, collectors written against the family
constructors, or any other collector covering its claims (every built-in metric class does:
`C07.builtin_claims_cover`), `restricted_registry(names).collect()` is the per-sample-name filter of `collect()`. -/
theorem restricted_is_filter_default_registry (env : Env) (ti : Option PromVerif.Model.Registry.Labels)
    (ops : List Op) (names : List Name)
    (h : ∀ c, Op.register c ∈ ops → BuiltinCollector env c ∨ FamilyCollector env true c ∨ SamplesCovered true c) :
    (PromVerif.Model.Registry.restrictedCollect names (PromVerif.Model.Registry.run (PromVerif.Model.Registry.init true ti) ops).1).families.Perm
      ((PromVerif.Model.Registry.collect (PromVerif.Model.Registry.run (PromVerif.Model.Registry.init true ti) ops).1).families.filterMap
        (PromVerif.Spec.Registry.restrictTo names)) := by
  refine PromVerif.Props.C07.restricted_is_filter_covered true ti ops names ?_
  intro c hc
  rcases h c hc with hb | hf | hs
  · exact (builtin_collectors_claims_cover env c hb).2
  · obtain ⟨β, fams, hb, hf, hd⟩ := hf
    exact PromVerif.Props.C07Families.family_ctor_claims_cover env true c fams hb hf hd
  · exact hs

/-! ### (b) what exactly each collector yields -/

private theorem valid_of_both {env : Env} {n : Name} (h : ∀ b, PromVerif.Model.Validation.validateMetricName b n = .ok ()) :
    PromVerif.Model.Validation.validateMetricName env.legacy n = .ok () := h env.legacy

/-- one family of the gc collector: a counter named `n` with label `generation`, one `<n>_total` sample per generation
labelled `generation=str(i)`, carrying `stat[key]` -/
def gcFam (n d key : Name) (stats : List (Name → α)) : Fam α :=
  { cls := .counter, name := n, documentation := d, typ := .counter, unit := [], labelnames := [sGeneration],
    samples := stats.zipIdx.map fun sg => ⟨n ++ sTotal, [(sGeneration, natStr sg.2)], .obj (sg.1 key), none, none⟩ }

private theorem gcFamily_exact (env : Env) (stats : List (Name → α)) (s : Site) (hcls : s.cls = 1)
    (hp : s.prefixed = false) (hl : s.labels = some [sGeneration]) (hn : counterName s.name = s.name)
    (hv : PromVerif.Model.Validation.validateMetricName env.legacy s.name = .ok ()) :
    gcFamily env stats s = .ok (gcFam s.name s.doc s.key stats) := by
  unfold gcFamily
  have hc : siteCtor s [] s.labels (none : Option α) = .ok (.counter s.name s.doc none (some [sGeneration]) none [] none) := by
    simp [siteCtor, hcls, hp, hl, clsOfIdx]
  have hr : (Ctor.counter s.name s.doc (none : Option α) (some [sGeneration]) none [] none).run env
      = .ok (emptyFam .counter .counter s.name s.doc [sGeneration]) := by
    rw [counter_labels_run, hn, hv]
  rw [build_simple env s [] s.labels none _ _ _ hc hr (Or.inr (Or.inl rfl))]
  simp [gcFam, emptyFam, simpleSample, simpleSuffix, zipDict, mkDict, PromVerif.Model.Registry.dSet,
    PromVerif.Model.Registry.dHas, sTotal, counterTotal, Function.comp_def]

/-- **`GCCollector.collect()`**: for every `gc.get_stats()` list (any number of generations) exactly the three counter
families `python_gc_objects_collected`, `python_gc_objects_uncollectable`, `python_gc_collections`, in this order, each
with one `<name>_total` sample per generation labelled `generation="0"`, `"1"`, … carrying that generation's
`collected` / `uncollectable` / `collections` entry; it never raises. -/
theorem gc_collect_exact (env : Env) (stats : List (Name → α)) :
    gcCollect env stats = .ok
      [gcFam nCollected (gcSites.getD 0 default).doc kCollected stats,
       gcFam nUncollectable (gcSites.getD 1 default).doc kUncollectable stats,
       gcFam nCollections (gcSites.getD 2 default).doc kCollections stats] := by
  have h0 := gcFamily_exact env stats (gcSites.getD 0 default) rfl rfl rfl (by decide)
    (valid_of_both (by intro b; cases b <;> rfl))
  have h1 := gcFamily_exact env stats (gcSites.getD 1 default) rfl rfl rfl (by decide)
    (valid_of_both (by intro b; cases b <;> rfl))
  have h2 := gcFamily_exact env stats (gcSites.getD 2 default) rfl rfl rfl (by decide)
    (valid_of_both (by intro b; cases b <;> rfl))
  unfold gcCollect
  show (match mapE (gcFamily env stats) [gcSites.getD 0 default, gcSites.getD 1 default, gcSites.getD 2 default] with
    | .error e => Except.error (BErr.py e)
    | .ok fams => pick (fams.map some) gcReturn) = _
  simp only [mapE, h0, h1, h2]
  rfl

private def exEnv : Env := ⟨true, fun _ => some true⟩

/-- two generations: `[{collected: 10, uncollectable: 0, collections: 3}, {collected: 7, …: 1, …: 2}]` -/
private def exStats : List (Name → Nat) :=
  [fun k => if k = kCollected then 10 else if k = kUncollectable then 0 else 3,
   fun k => if k = kCollected then 7 else if k = kUncollectable then 1 else 2]

example : ((gcFam nCollected [] kCollected exStats).samples.map fun s => (s.name, s.labels, s.value)) =
    [(nCollected ++ sTotal, [(sGeneration, ['0'])], .obj 10), (nCollected ++ sTotal, [(sGeneration, ['1'])], .obj 7)] := by
  decide

example : ∃ fams, gcCollect exEnv exStats = .ok fams ∧ fams.map (·.name) = [nCollected, nUncollectable, nCollections] ∧
    fams.map (fun f => f.samples.length) = [2, 2, 2] :=
  ⟨_, gc_collect_exact exEnv exStats, by decide, by decide⟩

/-- the `python_info` family: a GAUGE (not an info family) named `python_info` whose label names are the keys and whose one
sample, value `1`, carries the key/value pairs -/
def pythonInfoFam (doc : Name) (one : α) (data : List (Name × Name)) : Fam α :=
  { cls := .gauge, name := nPythonInfo, documentation := doc, typ := .gauge, unit := [],
    labelnames := data.map Prod.fst, samples := [⟨nPythonInfo, data, .obj one, none, none⟩] }

private theorem zip_fst_snd (data : List (Name × Name)) : (data.map Prod.fst).zip (data.map Prod.snd) = data := by
  induction data with
  | nil => rfl
  | cons a l ih => simp [ih]

private theorem platform_of_data (env : Env) (ofNat : Nat → α) (p : PlatformEnv) (data : List (Name × Name))
    (hd : platformData p = data) (hn : (data.map Prod.fst).Nodup) :
    platformInit env ofNat p = .ok [pythonInfoFam platformSite.doc (ofNat 1) data] := by
  have hz : zipDict (data.map Prod.fst) (data.map Prod.snd) = data := by
    unfold zipDict; rw [zip_fst_snd, mkDict_of_nodup _ hn]
  unfold platformInit
  rw [hd]
  have hc : siteCtor platformSite [] (some (data.map Prod.fst)) (none : Option α)
      = .ok (.gauge nPythonInfo platformSite.doc none (some (data.map Prod.fst)) []) := rfl
  have hr : (Ctor.gauge nPythonInfo platformSite.doc (none : Option α) (some (data.map Prod.fst)) []).run env
      = .ok (emptyFam .gauge .gauge nPythonInfo platformSite.doc (data.map Prod.fst)) := by
    rw [gauge_labels_run, valid_of_both (by intro b; cases b <;> rfl)]
  rw [build_simple env platformSite [] _ none _ _ _ hc hr (Or.inr (Or.inr rfl))]
  simp [pythonInfoFam, emptyFam, simpleSample, simpleSuffix, hz, gaugeSample, platformValue]

/-- **`PlatformCollector`** (system is not `"Java"`): for every answer of the platform object, `collect()` returns one
gauge family `python_info` with the label names `version, implementation, major, minor, patchlevel` and ONE sample
`python_info{version=…, implementation=…, major=…, minor=…, patchlevel=…} 1`. -/
theorem platform_python_info (env : Env) (ofNat : Nat → α) (p : PlatformEnv) (hj : p.java = none) :
    platformInit env ofNat p = .ok [pythonInfoFam platformSite.doc (ofNat 1)
      [(kVersion, p.info kVersion), (kImplementation, p.info kImplementation), (kMajor, p.info kMajor),
       (kMinor, p.info kMinor), (kPatchlevel, p.info kPatchlevel)]] := by
  obtain ⟨info, java⟩ := p
  simp only at hj
  subst hj
  exact platform_of_data env ofNat ⟨info, none⟩ _ rfl (by simp only [List.map_cons, List.map_nil]; decide)

/-- … and on Jython (`system() == "Java"`) the four `jvm_*` labels follow. -/
theorem platform_python_info_java (env : Env) (ofNat : Nat → α) (p : PlatformEnv) (j : Name → Name)
    (hj : p.java = some j) :
    platformInit env ofNat p = .ok [pythonInfoFam platformSite.doc (ofNat 1)
      [(kVersion, p.info kVersion), (kImplementation, p.info kImplementation), (kMajor, p.info kMajor),
       (kMinor, p.info kMinor), (kPatchlevel, p.info kPatchlevel), (kJvmVersion, j kJvmVersion),
       (kJvmRelease, j kJvmRelease), (kJvmVendor, j kJvmVendor), (kJvmName, j kJvmName)]] := by
  obtain ⟨info, java⟩ := p
  simp only at hj
  subst hj
  refine platform_of_data env ofNat ⟨info, some j⟩ _ ?_ (by simp only [List.map_cons, List.map_nil]; decide)
  unfold platformData
  simp only
  rw [mkDict_of_nodup _ (by simp [platformInfoKeys])]
  exact foldl_dSet_nodup _ _ (by simp [platformInfoKeys, platformJavaKeys])

private def exPlatform : PlatformEnv :=
  ⟨fun k => if k = kVersion then ['3', '.', '1', '2'] else if k = kMajor then ['3'] else ['x'], none⟩

example : ∃ f, (platformInit exEnv (fun n => n) exPlatform) = .ok [f] ∧ f.typ = .gauge ∧
    f.samples.map (fun s => (s.name, s.labels.map Prod.fst, s.value)) =
      [(nPythonInfo, [kVersion, kImplementation, kMajor, kMinor, kPatchlevel], .obj 1)] :=
  ⟨_, platform_python_info exEnv (fun n => n) exPlatform rfl, by decide, by decide⟩

/-! `ProcessCollector` -/

/-- the families of the first `try` (from `<pid>/stat`), for the prefix `pfx` -/
def statFams (pfx : Name) (vals : Name → α) : List (Fam α) :=
  [gaugeValueFam (pfx ++ sVmem) (processStatSites.getD 0 default).doc (vals vVmem),
   gaugeValueFam (pfx ++ sRss) (processStatSites.getD 1 default).doc (vals vRss),
   gaugeValueFam (pfx ++ sStart) (processStatSites.getD 2 default).doc (vals vStart),
   counterValueFam (pfx ++ sCpu) (processStatSites.getD 3 default).doc (vals vCpu)]

/-- the families of the second `try` (from `<pid>/limits` and `<pid>/fd`) -/
def fdFams (pfx : Name) (maxFds openFds : α) : List (Fam α) :=
  [gaugeValueFam (pfx ++ sOpenFds) (processFdSites.getD 1 default).doc openFds,
   gaugeValueFam (pfx ++ sMaxFds) (processFdSites.getD 0 default).doc maxFds]

/-- `process_` or `<namespace>_process_` -/
def processPrefix (ns : Name) : Name := if ns.isEmpty then sProcess else ns ++ sNsProcess

private theorem mapE_cons_ok {β γ ε : Type} {f : β → Except ε γ} {b : β} {bs : List β} {r : List γ}
    (h : mapE f (b :: bs) = .ok r) : ∃ c cs, f b = .ok c ∧ mapE f bs = .ok cs ∧ r = c :: cs := by
  simp only [mapE] at h
  split at h
  · cases h
  · next c hc =>
    split at h
    · cases h
    · next cs hcs => cases h; exact ⟨c, cs, hc, hcs, rfl⟩

private theorem validate_cases (b : Bool) (n : Name) :
    PromVerif.Model.Validation.validateMetricName b n = .ok () ∨ PromVerif.Model.Validation.validateMetricName b n = .error .valueError := by
  unfold PromVerif.Model.Validation.validateMetricName
  split
  · exact Or.inr rfl
  · split
    · exact Or.inr rfl
    · exact Or.inl rfl

private theorem build_gauge_eq (env : Env) (s : Site) (pfx : Name) (v : α) (hcls : s.cls = 2) (hp : s.prefixed = true) :
    build env s pfx none (some v) [] =
      (match PromVerif.Model.Validation.validateMetricName env.legacy (pfx ++ s.name) with
       | .error e => .error e
       | .ok () => .ok (gaugeValueFam (pfx ++ s.name) s.doc v)) := by
  have hc : siteCtor s pfx none (some v) = .ok (.gauge (pfx ++ s.name) s.doc (some v) none []) := by
    simp [siteCtor, hcls, hp, clsOfIdx]
  cases hv : PromVerif.Model.Validation.validateMetricName env.legacy (pfx ++ s.name) with
  | error e =>
    have hr : (Ctor.gauge (pfx ++ s.name) s.doc (some v) none []).run env = .error e := by
      rw [gauge_value_run, hv]
    unfold build
    simp [hc, hr]
  | ok u =>
    have hr : (Ctor.gauge (pfx ++ s.name) s.doc (some v) none []).run env = .ok (gaugeValueFam (pfx ++ s.name) s.doc v) := by
      rw [gauge_value_run, hv]
    rw [build_simple env s pfx none (some v) [] _ _ hc hr (Or.inr (Or.inr rfl))]
    simp [gaugeValueFam]

private theorem build_counter_eq (env : Env) (s : Site) (pfx : Name) (v : α) (hcls : s.cls = 1) (hp : s.prefixed = true) :
    build env s pfx none (some v) [] =
      (match PromVerif.Model.Validation.validateMetricName env.legacy (counterName (pfx ++ s.name)) with
       | .error e => .error e
       | .ok () => .ok (counterValueFam (counterName (pfx ++ s.name)) s.doc v)) := by
  have hc : siteCtor s pfx none (some v) = .ok (.counter (pfx ++ s.name) s.doc (some v) none none [] none) := by
    simp [siteCtor, hcls, hp, clsOfIdx]
  cases hv : PromVerif.Model.Validation.validateMetricName env.legacy (counterName (pfx ++ s.name)) with
  | error e =>
    have hr : (Ctor.counter (pfx ++ s.name) s.doc (some v) none none [] none).run env = .error e := by
      rw [counter_value_run, hv]
    unfold build
    simp [hc, hr]
  | ok u =>
    have hr : (Ctor.counter (pfx ++ s.name) s.doc (some v) none none [] none).run env
        = .ok (counterValueFam (counterName (pfx ++ s.name)) s.doc v) := by
      rw [counter_value_run, hv]
    rw [build_simple env s pfx none (some v) [] _ _ hc hr (Or.inr (Or.inl rfl))]
    simp [counterValueFam]

private theorem cpu_name (pfx : Name) : counterName (pfx ++ (processStatSites.getD 3 default).name) = pfx ++ sCpu := by
  have : pfx ++ (processStatSites.getD 3 default).name = (pfx ++ sCpu) ++ counterStrip := by
    rw [List.append_assoc]; rfl
  rw [this, counterName_total]

/-- with `<pid>/stat` read, the first `try` body yields its four families, or a constructor raises `ValueError` (the
namespace makes an invalid metric name) — never an `OSError` -/
private theorem statBody_cases (env : Env) (pfx : Name) (vals : Name → α) :
    statBody env pfx (.ok vals) = .ok (statFams pfx vals) ∨ statBody env pfx (.ok vals) = .error (.py .valueError) := by
  have hX : statBody env pfx (.ok vals) = (match mapE (fun s => build env s pfx none (some (vals s.key)) [])
        [processStatSites.getD 0 default, processStatSites.getD 1 default, processStatSites.getD 2 default,
         processStatSites.getD 3 default] with
    | .error e => Except.error (BErr.py e)
    | .ok fams => pick (fams.map some) processStatExtend) := rfl
  rw [hX]
  simp only [mapE, build_gauge_eq env (processStatSites.getD 0 default) pfx _ rfl rfl,
    build_gauge_eq env (processStatSites.getD 1 default) pfx _ rfl rfl,
    build_gauge_eq env (processStatSites.getD 2 default) pfx _ rfl rfl,
    build_counter_eq env (processStatSites.getD 3 default) pfx _ rfl rfl, cpu_name]
  rcases validate_cases env.legacy (pfx ++ (processStatSites.getD 0 default).name) with h0 | h0
  · rcases validate_cases env.legacy (pfx ++ (processStatSites.getD 1 default).name) with h1 | h1
    · rcases validate_cases env.legacy (pfx ++ (processStatSites.getD 2 default).name) with h2 | h2
      · rcases validate_cases env.legacy (pfx ++ sCpu) with h3 | h3
        · left; simp only [h0, h1, h2, h3]; rfl
        · right; simp only [h0, h1, h2, h3]
      · right; simp only [h0, h1, h2]
    · right; simp only [h0, h1]
  · right; simp only [h0]

/-- with `limits` and `fd` read: the two families when a `Max open file` line was found; `UnboundLocalError` when not
(`max_fds` was never bound); or a constructor's `ValueError` — never an `OSError` -/
private theorem fdBody_cases (env : Env) (pfx : Name) (lim : Option α) (n : α) :
    (∃ m, lim = some m ∧ fdBody env pfx (.ok lim) (.ok n) = .ok (fdFams pfx m n)) ∨
    fdBody env pfx (.ok lim) (.ok n) = .error (.py .valueError) ∨
    (lim = none ∧ fdBody env pfx (.ok lim) (.ok n) = .error .unboundLocal) := by
  unfold fdBody
  simp only [build_gauge_eq env (processFdSites.getD 0 default) pfx _ rfl rfl,
    build_gauge_eq env (processFdSites.getD 1 default) pfx _ rfl rfl]
  cases lim with
  | none =>
    rcases validate_cases env.legacy (pfx ++ (processFdSites.getD 1 default).name) with h1 | h1
    · right; right; simp only [h1]; exact ⟨trivial, rfl⟩
    · right; left; simp only [h1]
  | some m =>
    rcases validate_cases env.legacy (pfx ++ (processFdSites.getD 0 default).name) with h0 | h0
    · rcases validate_cases env.legacy (pfx ++ (processFdSites.getD 1 default).name) with h1 | h1
      · left; refine ⟨m, rfl, ?_⟩; simp only [h0, h1]; rfl
      · right; left; simp only [h0, h1]
    · right; left; simp only [h0]

/-- **`ProcessCollector.collect()`, whenever it returns**: nothing when `/proc` was not readable at construction
(`_btime` is 0); otherwise `process_virtual_memory_bytes`, `process_resident_memory_bytes`,
`process_start_time_seconds` (gauges) and `process_cpu_seconds` (counter, sample `process_cpu_seconds_total`) exactly when
`<pid>/stat` could be read — all four or none —, followed by `process_open_fds`, `process_max_fds` (gauges, in this
order) exactly when `<pid>/limits` and `<pid>/fd` could both be read — both or none.  Every family carries one
label-less sample with the value read; with a namespace EVERY name starts with `<namespace>_process_`.
An `OSError` of a read drops exactly the families of ITS `try` statement: what the other statement computed is still
returned (a failing `limits` keeps the four `stat` families; a failing `stat` still yields the two fd families). -/
theorem process_collect_exact (env : Env) (p : ProcEnv α) (fams : List (Fam α)) (h : processCollect env p = .ok fams) :
    fams =
      if p.btime then
        (match p.stat with
         | .ok vals => statFams (prefixOf p.ns) vals
         | .error _ => []) ++
        (match p.limits, p.fds with
         | .ok (some m), .ok n => fdFams (prefixOf p.ns) m n
         | _, _ => [])
      else [] := by
  unfold processCollect at h
  cases hb : p.btime with
  | false => simp [hb] at h; simp [h]
  | true =>
    simp only [hb, Bool.not_true, Bool.false_eq_true, if_false, if_true] at h ⊢
    split at h
    · cases h
    · next r1 h1 =>
      split at h
      · cases h
      · next r2 h2 =>
        cases h
        congr 1
        · cases hs : p.stat with
          | error e =>
            rw [hs] at h1
            rcases tryOSError_ok h1 with rfl | hb1
            · rfl
            · simp [statBody] at hb1
          | ok vals =>
            rw [hs] at h1
            rcases statBody_cases env (prefixOf p.ns) vals with hc | hc
            · rw [hc] at h1; simp only [tryOSError, Except.ok.injEq] at h1; exact h1.symm
            · rw [hc] at h1; simp [tryOSError, caught] at h1
        · cases hl : p.limits with
          | error e =>
            rw [hl] at h2
            rcases tryOSError_ok h2 with rfl | hb2
            · rfl
            · simp [fdBody] at hb2
          | ok lim =>
            cases hf : p.fds with
            | error e =>
              rw [hl, hf] at h2
              rcases tryOSError_ok h2 with rfl | hb2
              · cases lim <;> rfl
              · exfalso
                unfold fdBody at hb2
                simp only at hb2
                split at hb2
                · cases hb2
                · cases hb2
            | ok n =>
              rw [hl, hf] at h2
              rcases fdBody_cases env (prefixOf p.ns) lim n with ⟨m, rfl, hc⟩ | hc | ⟨rfl, hc⟩
              · rw [hc] at h2; simp only [tryOSError, Except.ok.injEq] at h2; exact h2.symm
              · rw [hc] at h2; simp [tryOSError, caught] at h2
              · rw [hc] at h2; simp [tryOSError] at h2

/-- `ProcessCollector(namespace='ns')`: `stat` readable (values 1, 2, 3, 4 by variable), `limits` missing (`FileNotFoundError`) -/
private def exProc : ProcEnv Nat :=
  { ns := ['n', 's'], btime := true,
    stat := .ok fun k => if k = vVmem then 1 else if k = vRss then 2 else if k = vStart then 3 else 4,
    limits := .error .fileNotFound, fds := .ok 5 }

-- the failing `limits` read drops the two fd families and keeps the four of `stat`, all prefixed `ns_process_`
example : ∃ fams, processCollect exEnv exProc = .ok fams ∧
    fams.map (fun f => (f.name, f.typ, f.samples.map fun s => (s.name, s.value))) =
      [(['n', 's', '_', 'p', 'r', 'o', 'c', 'e', 's', 's', '_', 'v', 'i', 'r', 't', 'u', 'a', 'l', '_', 'm', 'e', 'm', 'o', 'r', 'y', '_', 'b', 'y', 't', 'e', 's'], .gauge, [(['n', 's', '_', 'p', 'r', 'o', 'c', 'e', 's', 's', '_', 'v', 'i', 'r', 't', 'u', 'a', 'l', '_', 'm', 'e', 'm', 'o', 'r', 'y', '_', 'b', 'y', 't', 'e', 's'], .obj 1)]),
       (['n', 's', '_', 'p', 'r', 'o', 'c', 'e', 's', 's', '_', 'r', 'e', 's', 'i', 'd', 'e', 'n', 't', '_', 'm', 'e', 'm', 'o', 'r', 'y', '_', 'b', 'y', 't', 'e', 's'], .gauge, [(['n', 's', '_', 'p', 'r', 'o', 'c', 'e', 's', 's', '_', 'r', 'e', 's', 'i', 'd', 'e', 'n', 't', '_', 'm', 'e', 'm', 'o', 'r', 'y', '_', 'b', 'y', 't', 'e', 's'], .obj 2)]),
       (['n', 's', '_', 'p', 'r', 'o', 'c', 'e', 's', 's', '_', 's', 't', 'a', 'r', 't', '_', 't', 'i', 'm', 'e', '_', 's', 'e', 'c', 'o', 'n', 'd', 's'], .gauge, [(['n', 's', '_', 'p', 'r', 'o', 'c', 'e', 's', 's', '_', 's', 't', 'a', 'r', 't', '_', 't', 'i', 'm', 'e', '_', 's', 'e', 'c', 'o', 'n', 'd', 's'], .obj 3)]),
       (['n', 's', '_', 'p', 'r', 'o', 'c', 'e', 's', 's', '_', 'c', 'p', 'u', '_', 's', 'e', 'c', 'o', 'n', 'd', 's'], .counter, [(['n', 's', '_', 'p', 'r', 'o', 'c', 'e', 's', 's', '_', 'c', 'p', 'u', '_', 's', 'e', 'c', 'o', 'n', 'd', 's', '_', 't', 'o', 't', 'a', 'l'], .obj 4)])] :=
  ⟨_, rfl, by decide⟩

-- everything readable, no namespace: six families, `open_fds` before `max_fds`
example : ∃ fams, processCollect exEnv { exProc with ns := [], limits := .ok (some 9) } = .ok fams ∧
    fams.map (·.name) = [sProcess ++ sVmem, sProcess ++ sRss, sProcess ++ sStart, sProcess ++ sCpu, sProcess ++ sOpenFds,
      sProcess ++ sMaxFds] :=
  ⟨_, rfl, by decide⟩

/-- the prefix is the extracted one -/
theorem process_prefix (ns : Name) : prefixOf ns = processPrefix ns := rfl

/-! ### (c) `ProcessCollector`: failing reads -/

/-- `/proc` unavailable at construction (`_btime` falsy): `collect()` returns `[]`, whatever the reads would give -/
theorem process_unavailable (env : Env) (p : ProcEnv α) (h : p.btime = false) : processCollect env p = .ok [] := by
  simp [processCollect, h]

/-- **A failing read yields exactly what the other `try` statement computes.**  An `OSError` while reading
`<pid>/stat` is swallowed: `collect()` goes on and returns (only) the fd families — or raises what the second
statement raises. -/
theorem process_stat_oserror (env : Env) (p : ProcEnv α) (e : PyErr) (hb : p.btime = true) (hs : p.stat = .error e)
    (hc : caught e = true) :
    processCollect env p =
      (match tryOSError (fdBody env (prefixOf p.ns) p.limits p.fds) with
       | .error e => .error e
       | .ok r2 => .ok r2) := by
  have h1 : tryOSError (statBody env (prefixOf p.ns) p.stat) = .ok [] := by simp [hs, statBody, tryOSError, hc]
  unfold processCollect
  simp only [hb, Bool.not_true, Bool.false_eq_true, if_false, h1]
  cases tryOSError (fdBody env (prefixOf p.ns) p.limits p.fds) with
  | error e => rfl
  | ok r => simp

/-- an `OSError` on `limits`, or on listing `fd` after `limits` was scanned (and `max_fds`, if bound, constructed),
keeps exactly the families the first `try` computed -/
theorem process_fd_oserror (env : Env) (p : ProcEnv α) (e : PyErr) (hb : p.btime = true) (hc : caught e = true)
    (hl : p.limits = .error e ∨ (p.limits = .ok none ∧ p.fds = .error e)) :
    processCollect env p = tryOSError (statBody env (prefixOf p.ns) p.stat) := by
  have h2 : tryOSError (fdBody env (prefixOf p.ns) p.limits p.fds) = .ok [] := by
    rcases hl with hl | ⟨hl, hf⟩
    · simp [fdBody, hl, tryOSError, hc]
    · simp [fdBody, hl, hf, tryOSError, hc]
  unfold processCollect
  simp only [hb, Bool.not_true, Bool.false_eq_true, if_false, h2]
  cases tryOSError (statBody env (prefixOf p.ns) p.stat) with
  | error e => rfl
  | ok r => simp

/-- any other exception of a read (`ValueError` / `IndexError` from `float(parts[20])` on a corrupt `stat`, …) is NOT
swallowed: it leaves `collect()` and nothing is returned -/
theorem process_other_exception_propagates (env : Env) (p : ProcEnv α) (e : PyErr) (hb : p.btime = true)
    (hs : p.stat = .error e) (hc : caught e = false) : processCollect env p = .error (.py e) := by
  simp [processCollect, hb, hs, statBody, tryOSError, hc]

/-- **Observation (the code as it is)**: when `limits` is readable but has no `Max open file` line, `max_fds` is never
bound and `result.extend([open_fds, max_fds])` raises `UnboundLocalError` — not an `OSError`, so `collect()` raises
although the four `stat` families were computed. -/
theorem process_no_limit_line_unbound_local :
    processCollect exEnv { exProc with limits := .ok none } = .error .unboundLocal := by rfl

end PromVerif.Props.C07Builtins
