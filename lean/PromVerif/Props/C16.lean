/-
C16 — timing, in-progress and exception-counting wrappers are transparent and balanced.

Protocol part: theorems about `exec` on call trees of unbounded nesting and recursion depth, any stack of
wrappers on any callable, any exception class (incl. `BaseException` subclasses outside `Exception`), any
scripted clock (readings are arbitrary integers: the clock may stand still or step backwards).  The flags
`Generated/Wrappers.lean` reads from context_managers.py on every run are unfolded by the lemmas these theorems
rest on, so the theorems are about the source as it is now.

"Nesting" in the property is nesting through decorators (`Timer.__call__` enters a fresh Timer per call) and
through separate `with metric.time():` blocks (a Timer per block).  Entering ONE Timer object again while it is
active overwrites `_start`; `timer_exact` excludes exactly that mode and `shared_timer_overwrites_start` shows
what the code does there.  Count and sign of the observations hold in every mode.

Signature part: `bind` is CPython's argument binding, `wrapperSpec`/`forward` what decorator.py 4.0.10
generates.  `FunctionMaker` takes the parameter names from `getfullargspec(func).args`, which does not
distinguish positional-only parameters, and never emits `/`: in the wrapper they are positional-or-keyword.
Hence the `_partial` theorems (finding F13 and its relatives), each with a kernel-checked counter-example.
-/
import PromVerif.Model.Wrappers
import PromVerif.Spec.Wrappers
import PromVerif.Lemmas.Wrappers
import PromVerif.Lemmas.WrappersSig

namespace PromVerif.Props.C16
open PromVerif.Py PromVerif.Model.Wrappers PromVerif.Spec.Wrappers PromVerif.Generated.Wrappers
open PromVerif.Lemmas.Wrappers PromVerif.Lemmas.WrappersSig

/-- every site of context_managers.py, of the three factory methods and of decorator.py has the shape the
extractor understands -/
theorem extract_ok : extractOk = true := by decide

/-- what else the theorems read from the source: `Gauge.time()` hands `Timer` the callback `set`, `Summary.time()`
and `Histogram.time()` hand it `observe` (hence the two `TimeKind`s and which metric each applies to);
`ExceptionCounter.__call__` and `InprogressTracker.__call__` enter `self` (decorator use = context-manager use);
`count_exceptions()` / `track_inprogress()` refuse a labelled parent when the wrapper is created, `time()` does not
(`Timer.labels()` exists for late labelling — a timed call on a still unlabelled parent fails inside `__exit__`; metric
ids in the model stand for observable metrics); the generated `def` never contains `/` -/
theorem source_facts :
    kindOfCallback gaugeTimeCallback = some .set ∧ kindOfCallback summaryTimeCallback = some .observe ∧
    kindOfCallback histogramTimeCallback = some .observe ∧
    excCallWithSelf = true ∧ inprogressCallWithSelf = true ∧
    countExcChecksObservable = true ∧ trackInprogressChecksObservable = true ∧ timeChecksObservable = false ∧
    posonlyMarkerEmitted = false := by decide

/-! ### transparency -/

mutual
  private theorem outcome_strip_call : ∀ c : Call, outcomeCall (stripCall c) = outcomeCall c
    | .mk _ b => by simp only [stripCall, outcomeCall]; exact outcome_strip_body b
  private theorem outcome_strip_body : ∀ b : Body, outcomeBody (stripBody b) = outcomeBody b
    | .out _ => rfl
    | .nest cs sw o => by simp only [stripBody, outcomeBody]; exact outcome_strip_seq cs sw o
    | .recurse _ _ => rfl
  private theorem outcome_strip_seq : ∀ (cs : Calls) (sw : Bool) (o : Outcome),
      outcomeSeq (stripCalls cs) sw o = outcomeSeq cs sw o
    | .nil, _, _ => rfl
    | .cons c cs, sw, o => by
      simp only [stripCalls, outcomeSeq, outcome_strip_call c, outcome_strip_seq cs sw o]
end

/-- **Callers observe what the undecorated program does**: same returned object, same exception object
(identity and class), for every call tree, clock and metric state — the wrapped and the stripped program may
even start from different states. -/
theorem transparent (c : Call) (s s' : St) : (exec c s).1 = (exec (strip c) s').1 := by
  rw [(call_sound c s).1, (call_sound (stripCall c) s').1, outcome_strip_call]

/-- … and that outcome is the one the spec computes without looking at any wrapper -/
theorem transparent_spec (c : Call) (s : St) : (exec c s).1 = outcomeCall c := (call_sound c s).1

example : (exec (.mk [.countExc 0 [.exception], .inprogress 0, .time 0 .observe (.decorator 0)]
    (.nest (.cons (.mk [.inprogress 0] (.out (.raise ⟨7, .keyboardInterrupt⟩))) .nil) false (.ret 3)))
    ⟨⟨[5, 3], 0⟩, [], fun _ => 0, fun _ => 0, fun _ => 0⟩).1 = .raise ⟨7, .keyboardInterrupt⟩ := by decide

/-! ### the in-progress gauge -/

/-- **Balanced**: after the call every gauge is back at its prior value — any nesting, recursion depth,
exception class — provided the program does not also `set()` that gauge through `gauge.time()`. -/
theorem inprogress_balanced (c : Call) (g : Nat) (h : setsCall g c = false) (s : St) :
    (exec c s).2.gauge g = s.gauge g := (call_sound c s).2.2.2 g h

/-- while the body runs the gauge is one up -/
theorem inprogress_during (g : Nat) (body : St → Outcome × St) (s : St) :
    wrapOne (.inprogress g) body s
      = ((body { s with gauge := upd s.gauge g (s.gauge g + 1) }).1,
         let r := body { s with gauge := upd s.gauge g (s.gauge g + 1) }
         { r.2 with gauge := upd r.2.gauge g (r.2.gauge g - 1) }) := by
  simp only [wrapOne, inprogressExit_eq, inprogressEnter_eq]

example : (exec (.mk [.inprogress 1] (.recurse 3 (.raise ⟨1, .generatorExit⟩)))
    ⟨⟨[], 0⟩, [], fun _ => 5, fun _ => 0, fun _ => 0⟩).2.gauge 1 = 5 := by decide

/-! ### durations -/

/-- **One observation per call, never negative**: the observations a program adds are, per timed metric, as
many as calls of callables timed on it were entered (`timedCall`: also when the body raises; `n` levels of
recursion are `n + 1` calls), and each is `≥ 0` whatever the clock readings. -/
theorem one_observation_per_call (c : Call) (s : St) :
    ∃ new, (exec c s).2.obs = new ++ s.obs ∧ (∀ x ∈ new, 0 ≤ x.dur) ∧
      ∀ m k, countObs m k new = timedCall m k c := (call_sound c s).2.2.1

/-- the clamp is `max(now − start, 0)` -/
theorem duration_is_clamped (now start : Int) : duration now start = max (now - start) 0 ∧ 0 ≤ duration now start :=
  ⟨by rw [duration_eq_ideal]; rfl, duration_nonneg now start⟩

/-- a decorated call uses a Timer of its own -/
theorem decorator_timer_is_fresh (tid : Nat) : (TimerMode.decorator tid).fresh = true := by
  show (timerCallFresh && newTimerIsNew) = true
  decide

/-- **Exact duration**: a timed call — decorator or `with metric.time():` — reads the clock once on entry, once
on exit (also when the body raises) and observes `max(exit − entry, 0)` of *its own* two readings, whatever
happens in between (nested or recursive timed calls on the same metric included). -/
theorem timer_exact (m : Nat) (k : TimeKind) (mode : TimerMode) (hmode : ∀ tid, mode ≠ .withShared tid)
    (body : St → Outcome × St) (s : St) :
    wrapOne (.time m k mode) body s
      = ((body { s with clock := s.clock.tick.2 }).1,
         let r := body { s with clock := s.clock.tick.2 }
         callback { r.2 with clock := r.2.clock.tick.2 } m k (idealDuration s.clock.tick.1 r.2.clock.tick.1)) := by
  have hf : mode.fresh = true := by
    cases mode with
    | decorator t => exact decorator_timer_is_fresh t
    | withNew => rfl
    | withShared t => exact absurd rfl (hmode t)
  simp only [wrapOne, timerExit_eq, timerEnter, timerStart, hf, if_true, duration_eq_ideal]

/-- readings 0, 10, 11, 20 around a function that recurses once: the outer call observes 20, the inner 1 -/
example : (exec (.mk [.time 0 .observe (.decorator 0)] (.recurse 1 (.ret 1)))
    ⟨⟨[0, 10, 11, 20], 0⟩, [], fun _ => 0, fun _ => 0, fun _ => 0⟩).2.obs
    = [⟨0, .observe, 20⟩, ⟨0, .observe, 1⟩] := by decide

/-- one Timer object entered twice: the inner `__enter__` overwrites `_start`, the outer block observes 10,
not 20 (what the code does; outside the property) -/
theorem shared_timer_overwrites_start :
    (exec (.mk [.time 0 .observe (.withShared 0)] (.recurse 1 (.ret 1)))
      ⟨⟨[0, 10, 11, 20], 0⟩, [], fun _ => 0, fun _ => 0, fun _ => 0⟩).2.obs
      = [⟨0, .observe, 10⟩, ⟨0, .observe, 1⟩] := by decide

/-- a clock stepping backwards -/
example : (exec (.mk [.time 2 .set .withNew] (.out (.raise ⟨1, .systemExit⟩)))
    ⟨⟨[9, 4], 0⟩, [], fun _ => 7, fun _ => 0, fun _ => 0⟩).2.gauge 2 = 0 := by decide

/-! ### the exception counter -/

/-- **Counted iff an instance escapes**: counter `k` goes up by the number of calls guarded by
`k.count_exceptions(classes)` out of which an instance of `classes` escapes — no more, no less. -/
theorem exception_counted_iff (c : Call) (k : Nat) (s : St) :
    (exec c s).2.counter k = s.counter k + escCall k c := (call_sound c s).2.1 k

/-- one guarded call: `+1` exactly when what escapes is an instance of the configured classes -/
theorem exception_counted_once (k : Nat) (classes : List ExcClass) (b : Body) (s : St) :
    (exec (.mk [.countExc k classes] b) s).2.counter k
      = s.counter k + (if escapes classes (outcomeBody b) then 1 else 0) + escBody k [.countExc k classes] b := by
  rw [exception_counted_iff]
  simp only [escCall, escOn]
  by_cases h : escapes classes (outcomeBody b) = true <;> simp [h] <;> omega

/-- the hierarchy: `isinstance` is the subclass test along `__mro__`; the default `Exception` counts neither
`KeyboardInterrupt` nor `SystemExit` nor `GeneratorExit`; a tuple counts instances of any member -/
theorem hierarchy_facts :
    (∀ c : ExcClass, isSubclass c .baseException = true) ∧
    (∀ c : ExcClass, isSubclass c .exception = true ↔
      c ≠ .baseException ∧ c ≠ .keyboardInterrupt ∧ c ≠ .systemExit ∧ c ≠ .generatorExit ∧
      c ≠ .baseExceptionGroup) ∧
    (∀ c : ExcClass, isSubclass c .lookupError = true ↔ c = .lookupError ∨ c = .keyError) ∧
    (∀ c d e : ExcClass, isSubclass c d = true → isSubclass d e = true → isSubclass c e = true) ∧
    (∀ i, escapes [.exception] (.raise ⟨i, .keyboardInterrupt⟩) = false) ∧
    (∀ i, escapes [.valueError, .lookupError] (.raise ⟨i, .keyError⟩) = true) ∧
    (∀ i, escapes [.valueError, .lookupError] (.raise ⟨i, .exception⟩) = false) := by
  refine ⟨?_, ?_, ?_, ?_, fun _ => rfl, fun _ => rfl, fun _ => rfl⟩
  · intro c; cases c <;> decide
  · intro c; cases c <;> decide
  · intro c; cases c <;> decide
  · intro c d e; cases c <;> cases d <;> cases e <;> decide

/-- `count_exceptions()` without argument counts instances of `Exception`: any `Exception` subclass, but not
`KeyboardInterrupt`, `SystemExit`, `GeneratorExit` or a bare `BaseException` -/
theorem count_exceptions_default :
    defaultClasses = [.exception] ∧
    (∀ i c, escapes defaultClasses (.raise ⟨i, c⟩) = true ↔
      c ≠ .baseException ∧ c ≠ .keyboardInterrupt ∧ c ≠ .systemExit ∧ c ≠ .generatorExit ∧
      c ≠ .baseExceptionGroup) := by
  have hd : defaultClasses = [.exception] := by decide
  refine ⟨hd, ?_⟩
  intro i c
  rw [hd]
  cases c <;> simp [escapes, ExcClass.mro]

/-- **Exception groups** (Python 3.11+): `ExceptionCounter.__exit__` tests `isinstance(value, …)` on the escaping
object only, so a group is counted exactly when the *group object* is an instance of the configured classes — never
because of a leaf it contains (an exception object in the model has identity and class, no leaves: the source does
not look at them; the harness raises groups with matching and non-matching leaves).  `ExceptionGroup('g',
[ValueError()])` is not counted by `count_exceptions(ValueError)` but is by the default (`ExceptionGroup ⊂
Exception`); `BaseExceptionGroup` is counted by neither; `class ValueGroup(ExceptionGroup, ValueError)` by both. -/
theorem exception_groups_by_instance_only :
    (∀ i, escapes [.valueError] (.raise ⟨i, .exceptionGroup⟩) = false) ∧
    (∀ i, escapes [.exception] (.raise ⟨i, .exceptionGroup⟩) = true) ∧
    (∀ i, escapes [.exception] (.raise ⟨i, .baseExceptionGroup⟩) = false) ∧
    (∀ i, escapes [.valueError, .lookupError] (.raise ⟨i, .baseExceptionGroup⟩) = false) ∧
    (∀ i, escapes [.exceptionGroup] (.raise ⟨i, .valueError⟩) = false) ∧
    (∀ i, escapes [.baseExceptionGroup] (.raise ⟨i, .exceptionGroup⟩) = true) ∧
    (∀ i, escapes [.valueError] (.raise ⟨i, .valueGroup⟩) = true) ∧
    (∀ k i s, (exec (.mk [.countExc k [.valueError]] (.out (.raise ⟨i, .exceptionGroup⟩))) s).2.counter k = s.counter k) :=
  ⟨fun _ => rfl, fun _ => rfl, fun _ => rfl, fun _ => rfl, fun _ => rfl, fun _ => rfl, fun _ => rfl,
   fun k i s => by
     rw [exception_counted_iff]
     simp [escCall, escOn, escBody, outcomeBody, escapes, ExcClass.mro]⟩

example : (exec (.mk [.countExc 0 [.exception]] (.nest
      (.cons (.mk [.countExc 0 [.exception]] (.out (.raise ⟨1, .keyError⟩)))
        (.cons (.mk [.countExc 0 [.exception]] (.out (.raise ⟨2, .keyboardInterrupt⟩))) .nil)) true (.ret 1)))
    ⟨⟨[], 0⟩, [], fun _ => 0, fun _ => 4, fun _ => 0⟩).2.counter 0 = 5 := by decide

/-! ### signature forwarding -/

/-- `def name(<signature>)` as generated declares the original's names in the original's order, with the
original's `*args`, keyword-only names and `**kw`; positional-only parameters come out positional-or-keyword -/
theorem wrapper_signature (s : ArgSpec) (wid : Nat) :
    (wrapperSpec s wid).posonly = [] ∧ (wrapperSpec s wid).pos = s.posonly ++ s.pos ∧
    (wrapperSpec s wid).varargs = s.varargs ∧ (wrapperSpec s wid).kwonly = s.kwonly ∧
    (wrapperSpec s wid).varkw = s.varkw := by
  rw [wrapperSpec_eq]; simp

/-- whatever the wrapper bound, the original called with the forwarded arguments binds the same environment:
every named parameter to the same object, the same `*args`, the same `**kw` -/
theorem forward_roundtrip (s : ArgSpec) (wid : Nat) (wf : WF s) (ca : CallArgs) (env : Env)
    (h : bind (wrapperSpec s wid) ca = .ok env) : bind s (forward s env) = .ok env :=
  bind_forward_shape wf (shape_of_wrapper (bind_ok_shape h))

/-
Full statement (FALSE for the code as it is — see the counter-examples below):
  theorem forward_binds_same (s ca env) : bind (wrapperSpec s) ca = .ok env → bind s (forward s env) = .ok env ∧ bind s ca = .ok env
Missing: calls in which a keyword names a positional-only parameter (`NoPosOnlyKwClash`).  The generated
wrapper has no `/`, so such a keyword binds the parameter in the wrapper, while the original lets `**kw`
capture it (or rejects it when there is no `**kw`).
-/
/-- **Same binding** when no keyword of the call names a positional-only parameter: a call the wrapper binds
is bound identically by the original, directly and through the forwarded arguments. -/
theorem forward_binds_same_partial (s : ArgSpec) (wid : Nat) (wf : WF s) (ca : CallArgs) (env : Env)
    (h : bind (wrapperSpec s wid) ca = .ok env) (hc : NoPosOnlyKwClash s ca) :
    bind s (forward s env) = .ok env ∧ bind s ca = .ok env :=
  ⟨forward_roundtrip s wid wf ca env h, by rw [← bind_wrapper_eq s wid ca hc]; exact h⟩

/-
Full statement (FALSE): a call rejected by the original is rejected by the wrapper, and a call the original
binds is bound by the wrapper.  Missing: the same `NoPosOnlyKwClash` calls.
-/
/-- **Same rejections**: under the same hypothesis original and wrapper agree on `TypeError` both ways. -/
theorem rejects_same_partial (s : ArgSpec) (wid : Nat) (ca : CallArgs) (hc : NoPosOnlyKwClash s ca) :
    (∀ e, bind s ca = .error e → bind (wrapperSpec s wid) ca = .error e) ∧
    (∀ env, bind s ca = .ok env → bind (wrapperSpec s wid) ca = .ok env) := by
  rw [bind_wrapper_eq s wid ca hc]; exact ⟨fun _ h => h, fun _ h => h⟩

/-- every binding failure is `TypeError` -/
theorem bind_error_is_typeError (s : ArgSpec) (ca : CallArgs) (e : PyErr) (h : bind s ca = .error e) :
    e = .typeError := by
  have hp : ∀ (kw : Kw) (ps : List Param) (vs : List Val) (e : PyErr), bindPos kw ps vs = .error e → e = .typeError := by
    intro kw ps
    induction ps with
    | nil => intro vs e h; simp [bindPos] at h
    | cons p ps ih =>
      intro vs e h
      cases vs with
      | nil =>
        simp only [bindPos] at h
        split at h
        · split at h
          · cases h
          · next e' he => cases h; exact ih _ _ he
        · split at h
          · split at h
            · cases h
            · next e' he => cases h; exact ih _ _ he
          · cases h; rfl
      | cons v vs =>
        simp only [bindPos] at h
        split at h
        · cases h; rfl
        · split at h
          · cases h
          · next e' he => cases h; exact ih _ _ he
  have hk : ∀ (kw kd : Kw) (ks : List Name) (e : PyErr), bindKwonly kw kd ks = .error e → e = .typeError := by
    intro kw kd ks
    induction ks with
    | nil => intro e h; simp [bindKwonly] at h
    | cons k ks ih =>
      intro e h
      simp only [bindKwonly] at h
      split at h
      · split at h
        · cases h
        · next e' he => cases h; exact ih _ he
      · cases h; rfl
  unfold Model.Wrappers.bind at h
  simp only at h
  split at h
  · cases h; rfl
  · split at h
    · cases h; rfl
    · split at h
      · next e' he => cases h; exact hp _ _ _ _ he
      · split at h
        · next e' he => cases h; exact hk _ _ _ _ he
        · cases h

/-
Full statement (FALSE): callThrough s ca = bind s ca for every s, ca.
Missing: (1) `NoPosOnlyKwClash s ca` as above; (2) `shadows s = false`: a keyword-only parameter named `_call_`
or `_func_` passes `FunctionMaker.make`'s reserved-name check (its `shortsignature` entry is `_call_=_call_`)
and hides the global of that name in the generated body.
(A third hole — a forwarded keyword called `func` colliding with the first parameter of the library's own
`wrapped(func, *args, **kwargs)` — was repaired in /repo 85bde09 by making that parameter positional-only; the proof
below reads the flag `callerFuncPosOnly` from the source, so reverting the repair breaks it.)
-/
/-- decidable equality of binding results, so that the counter-examples below are closed by kernel evaluation -/
instance c16ExceptDecEq {ε α : Type} [DecidableEq ε] [DecidableEq α] : DecidableEq (Except ε α)
  | .ok a, .ok b => if h : a = b then isTrue (by rw [h]) else isFalse (by intro e; injection e with e; exact h e)
  | .error a, .error b => if h : a = b then isTrue (by rw [h]) else isFalse (by intro e; injection e with e; exact h e)
  | .ok _, .error _ => isFalse (by intro e; cases e)
  | .error _, .ok _ => isFalse (by intro e; cases e)

instance (s : ArgSpec) : Decidable (WF s) := by unfold WF; infer_instance

/-- **A call through the wrapper is the call**: the original function receives arguments that bind exactly as
the caller's arguments would have bound, or both raise `TypeError`. -/
theorem call_through_wrapper_partial (s : ArgSpec) (wf : WF s) (ca : CallArgs)
    (hc : NoPosOnlyKwClash s ca) (hs : shadows s = false) : callThrough s ca = bind s ca := by
  unfold callThrough
  rw [bind_wrapper_eq s 0 ca hc]
  cases h : bind s ca with
  | error e => rfl
  | ok env =>
    simp only [hs, callerClash_false, Bool.false_eq_true, if_false]
    exact bind_forward_shape wf (bind_ok_shape h)

private def nm (s : String) : Name := s.toList

/-- `def f(a, /, **kw)` -/
def specF13 : ArgSpec :=
  { name := nm "f", posonly := [nm "a"], pos := [], defaults := [], varargs := none, kwonly := [], kwdefaults := [],
    varkw := some (nm "kw"), annotations := [], doc := none, qualname := nm "f", module := nm "m", dict := [],
    wrapped := none, fid := 1 }

/-- **F13** `def f(a, /, **kw)`; `f(1, a=2)`: the original binds `a=1, kw={'a': 2}`, the wrapper raises
`TypeError` (multiple values for `a`) -/
theorem posonly_kw_clash_counterexample :
    WF specF13 ∧ ¬ NoPosOnlyKwClash specF13 ⟨[1], [(nm "a", 2)]⟩ ∧
    bind specF13 ⟨[1], [(nm "a", 2)]⟩ = .ok ⟨[(nm "a", 1)], [], [(nm "a", 2)]⟩ ∧
    callThrough specF13 ⟨[1], [(nm "a", 2)]⟩ = .error .typeError := by decide

/-- `def g(a=7, /, **kw)` -/
def specG : ArgSpec := { specF13 with defaults := [7] }
/-- `def h(a, /)` -/
def specH : ArgSpec := { specF13 with varkw := none }
/-- `def k(*, _call_)` -/
def specK : ArgSpec := { specF13 with posonly := [], varkw := none, kwonly := [nm "_call_"] }

/-- `def g(a=7, /, **kw)`; `g(a=5)`: the original binds `a=7, kw={'a': 5}`; through the wrapper it binds
`a=5, kw={}` — no error, different arguments -/
theorem posonly_kw_rebinds_counterexample :
    bind specG ⟨[], [(nm "a", 5)]⟩ = .ok ⟨[(nm "a", 7)], [], [(nm "a", 5)]⟩ ∧
    callThrough specG ⟨[], [(nm "a", 5)]⟩ = .ok ⟨[(nm "a", 5)], [], []⟩ := by decide

/-- `def h(a, /)`; `h(a=1)`: the original raises `TypeError`, the wrapper accepts the call -/
theorem posonly_keyword_accepted_counterexample :
    bind specH ⟨[], [(nm "a", 1)]⟩ = .error .typeError ∧
    callThrough specH ⟨[], [(nm "a", 1)]⟩ = .ok ⟨[(nm "a", 1)], [], []⟩ := by decide

/-- `def k(*, _call_)`: decorating succeeds, every call through the wrapper fails -/
theorem kwonly_shadow_counterexample :
    decorate specK = .ok (wrapperSpec specK) ∧ NoPosOnlyKwClash specK ⟨[], [(nm "_call_", 3)]⟩ ∧
    bind specK ⟨[], [(nm "_call_", 3)]⟩ = .ok ⟨[(nm "_call_", 3)], [], []⟩ ∧
    callThrough specK ⟨[], [(nm "_call_", 3)]⟩ = .error .typeError := by decide

/-- `def q(**kw)` -/
def specQ : ArgSpec := { specF13 with posonly := [] }

/-- `def q3(*, func)` -/
def specQ3 : ArgSpec := { specF13 with posonly := [], varkw := none, kwonly := [nm "func"] }

/-- regression for the repaired `func` collision (fixed in /repo 85bde09): `def q(**kw)`; `q(func=1)` and
`def q3(*, func)`; `q3(func=1)` reach the original through the wrapper with exactly the caller's binding -/
theorem keyword_named_func_regression :
    callThrough specQ ⟨[], [(nm "func", 1)]⟩ = .ok ⟨[], [], [(nm "func", 1)]⟩ ∧
    callThrough specQ ⟨[], [(nm "func", 1)]⟩ = bind specQ ⟨[], [(nm "func", 1)]⟩ ∧
    callThrough specQ3 ⟨[], [(nm "func", 1)]⟩ = .ok ⟨[(nm "func", 1)], [], []⟩ ∧
    callThrough specQ3 ⟨[], [(nm "func", 1)]⟩ = bind specQ3 ⟨[], [(nm "func", 1)]⟩ := by decide

/-- a positional parameter, `*args`, `**kw` or the function itself named `_call_`/`_func_` is refused at
decoration time (`NameError`) -/
theorem reserved_name_rejected :
    decorate { specF13 with posonly := [], pos := [nm "_func_"] } = .error .nameError ∧
    decorate { specF13 with name := nm "_call_" } = .error .nameError ∧
    decorate { specF13 with varkw := some (nm "_func_") } = .error .nameError := by decide

-- non-vacuity of the `_partial` hypotheses: all parameter kinds, defaults, a call using each way of passing
private def specAll : ArgSpec :=
  { specF13 with posonly := [nm "a", nm "b"], pos := [nm "c", nm "d"], defaults := [10, 11], varargs := some (nm "args"),
                 kwonly := [nm "k", nm "l"], kwdefaults := [(nm "l", 12)] }
example : WF specAll ∧ NoPosOnlyKwClash specAll ⟨[1, 2, 3, 4, 5], [(nm "z", 6), (nm "k", 7)]⟩ ∧ shadows specAll = false ∧
    callThrough specAll ⟨[1, 2, 3, 4, 5], [(nm "z", 6), (nm "k", 7)]⟩
      = .ok ⟨[(nm "a", 1), (nm "b", 2), (nm "c", 3), (nm "d", 4), (nm "k", 7), (nm "l", 12)], [5], [(nm "z", 6)]⟩ := by decide
example : NoPosOnlyKwClash specAll ⟨[1, 2], [(nm "d", 6), (nm "k", 7)]⟩ ∧
    callThrough specAll ⟨[1, 2], [(nm "d", 6), (nm "k", 7)]⟩
      = .ok ⟨[(nm "a", 1), (nm "b", 2), (nm "c", 10), (nm "d", 6), (nm "k", 7), (nm "l", 12)], [], []⟩ := by decide
example : callThrough specAll ⟨[1, 2], [(nm "d", 6)]⟩ = .error .typeError ∧
    bind specAll ⟨[1, 2], [(nm "d", 6)]⟩ = .error .typeError := by decide

/-! ### metadata -/

/-
Full statement (FALSE): the wrapper's `__name__` is the original's.  Missing: `s.name ≠ '<lambda>'` —
`FunctionMaker` renames lambdas to `_lambda_` (the generated `def` needs an identifier).
-/
/-- **Metadata**: `__doc__`, `__defaults__`, `__kwdefaults__`, `__annotations__`, `__qualname__`, `__module__`,
`__dict__` entries are the original's objects, `__wrapped__` is the original; `__name__` too unless it is
`<lambda>`. -/
theorem metadata_preserved_partial (s w : ArgSpec) (wid : Nat) (h : decorate s wid = .ok w) :
    w.doc = s.doc ∧ w.defaults = s.defaults ∧ w.kwdefaults = s.kwdefaults ∧ w.annotations = s.annotations ∧
    w.qualname = s.qualname ∧ w.module = s.module ∧ w.dict = s.dict ∧ w.wrapped = some s.fid ∧
    (s.name ≠ lambdaName → w.name = s.name) := by
  unfold decorate at h
  split at h
  · cases h
  · cases h
    rw [wrapperSpec_eq]
    refine ⟨rfl, rfl, rfl, rfl, rfl, rfl, rfl, rfl, ?_⟩
    intro hn
    simp [makerName, hn]

/-
Full statement (FALSE): the wrapper's own signature (`inspect.signature(w, follow_wrapped=False)`) is the
original's.  Missing: `hp : s.posonly = []` — the generated `def` has no `/` (`posonly_marker_lost_counterexample`;
finding F13, signature `C16:posonly-marker-lost`) — and `hn : s.name ≠ '<lambda>'`.  (`inspect.signature(w)` itself
follows `__wrapped__` and is the original's by `metadata_preserved_partial`.)
-/
/-- with no positional-only parameter and a proper name the wrapper is, as far as modelled, the original
function with `__wrapped__` added -/
theorem signature_same_partial (s w : ArgSpec) (wid : Nat) (h : decorate s wid = .ok w)
    (hp : s.posonly = []) (hn : s.name ≠ lambdaName) : { w with wrapped := s.wrapped, fid := s.fid } = s := by
  unfold decorate at h
  split at h
  · cases h
  · cases h
    rw [wrapperSpec_eq]
    cases s
    simp_all [makerName]

/-- `def h(a, /)`: the wrapper's own signature is `(a)` — the `/` is lost (same root cause as F13), so
`signature_same_partial` cannot drop `hp` -/
theorem posonly_marker_lost_counterexample :
    specH.posonly = [nm "a"] ∧ decorate specH 9 = .ok (wrapperSpec specH 9) ∧
    (wrapperSpec specH 9).posonly = [] ∧ (wrapperSpec specH 9).pos = [nm "a"] ∧
    { wrapperSpec specH 9 with wrapped := specH.wrapped, fid := specH.fid } ≠ specH := by decide

/-- **Domain**: only functions can be wrapped.  For every other kind of callable `decorate` raises before a
wrapper exists — `AttributeError` when the object has no `__name__` (callable instance, `functools.partial`),
`TypeError('You are decorating a non function')` otherwise (builtin, bound method, class, staticmethod object) — so
"any synchronous callable" in the property is, for this code, "any synchronous Python function". -/
theorem decorate_domain (k : CallableKind) (s w : ArgSpec) (wid : Nat) :
    decorateCallable k s wid = .ok w ↔ k = .function ∧ decorate s wid = .ok w := by
  cases k <;> simp [decorateCallable, CallableKind.hasName, makerReadsDunderName, makerRefusesNonFunctions]

theorem non_function_refused_counterexample :
    decorateCallable .callableInstance specQ = .error .attributeError ∧
    decorateCallable .partialObject specQ = .error .attributeError ∧
    decorateCallable .builtin specQ = .error .typeError ∧
    decorateCallable .boundMethod specQ = .error .typeError ∧
    decorateCallable .cls specQ = .error .typeError ∧
    decorateCallable .staticmethodObject specQ = .error .typeError ∧
    decorateCallable .function specQ = .ok (wrapperSpec specQ) := by decide

theorem lambda_renamed_counterexample :
    (wrapperSpec { specF13 with name := nm "<lambda>" }).name = nm "_lambda_" := by decide

example : ∃ w, decorate specAll 9 = .ok w ∧ w.name = nm "f" ∧ w.wrapped = some 1 := ⟨_, rfl, by decide, rfl⟩

/-! ### `Timer.labels`: late labelling of a timer on a labelled parent (part (c) of the model)

`with HISTOGRAM.time() as t: …; t.labels('a')`.  The block theorems quantify over ARBITRARY bodies (`body : … → LSt →
Outcome × LSt`: any nesting, any further timers, any exceptions); what they need from the body is only the value of THIS
Timer's `_metric` when the body is done. -/

/-- what the theorems below read from `Timer.labels`, `Timer.__init__`, `_new_timer` and `__enter__` -/
theorem timer_labels_source_facts :
    timerLabelsRebindsSelf = true ∧ timerLabelsForwardsArgs = true ∧ timerLabelsForwardsKw = true ∧
    timerLabelsReturnsNone = true ∧ newTimerCopiesMetric = true ∧ timerEnterReturnsSelf = true ∧
    timerInitStoresMetric = true := by decide

private theorem fwd_eq (a : LArgs) :
    (⟨if timerLabelsForwardsArgs then a.pos else [], if timerLabelsForwardsKw then a.kw else []⟩ : LArgs) = a := by
  cases a; rfl

/-- **`labels()` re-binds the Timer it is called on**: `t.labels(*args, **kw)` hands ALL its arguments to
`t._metric.labels`; when that returns child `c`, `t._metric` is `c` afterwards, nothing else changes and the call returns
`None`; when it raises, the `ValueError` comes out of `t.labels(…)` (an exception of the body) and `t` is untouched. -/
theorem timer_labels_rebinds (tid : Nat) (a : LArgs) (s : LSt) :
    timerLabels tid a s =
      match metricLabels (s.timers tid).metric a with
      | .ok c => (.ret noneVal, { s with timers := upd s.timers tid { s.timers tid with metric := c } })
      | .error _ => (.raise libValueError, s) := by
  unfold timerLabels
  simp only [fwd_eq]
  cases metricLabels (s.timers tid).metric a <;> simp [timerLabelsRebindsSelf]

/-- … and no other Timer object, no observation, no clock reading: in particular labelling a per-call / per-block Timer
never changes the decorator-level Timer it was copied from, nor the other way round -/
theorem timer_labels_is_frame (tid : Nat) (a : LArgs) (s : LSt) :
    (timerLabels tid a s).2.obs = s.obs ∧ (timerLabels tid a s).2.clock = s.clock ∧
    (timerLabels tid a s).2.next = s.next ∧ (timerLabels tid a s).2.log = s.log ∧
    ((timerLabels tid a s).2.timers tid).cb = (s.timers tid).cb ∧
    ∀ t, t ≠ tid → (timerLabels tid a s).2.timers t = s.timers t := by
  rw [timer_labels_rebinds]
  cases metricLabels (s.timers tid).metric a <;> simp [upd]
  intro t ht; simp [ht]

/-- which child: by position the values in order, by keyword the values in the order of the label NAMES; wrong count, wrong
names, both kinds at once, a metric without label names and a child ("can not chain calls to .labels()") raise -/
theorem metric_labels_cases (m : Nat) (n : Nat) (ns : List Nat) (a : LArgs) :
    metricLabels (.plain m) a = .error .valueError ∧ (∀ vs, metricLabels (.child m vs) a = .error .valueError) ∧
    (a.kw = [] → a.pos.length = (n :: ns).length → metricLabels (.parent m (n :: ns)) a = .ok (.child m a.pos)) ∧
    (a.kw = [] → a.pos.length ≠ (n :: ns).length → metricLabels (.parent m (n :: ns)) a = .error .valueError) ∧
    (a.kw ≠ [] → a.pos ≠ [] → metricLabels (.parent m (n :: ns)) a = .error .valueError) := by
  refine ⟨rfl, fun _ => rfl, ?_, ?_, ?_⟩
  · intro hk hl; simp [metricLabels, hk, hl]
  · intro hk hl; simp [metricLabels, hk]; simpa using hl
  · intro hk hp; simp [metricLabels, hk, hp]

example : metricLabels (.parent 3 [0, 1]) ⟨[], [(1, 8), (0, 7)]⟩ = .ok (.child 3 [7, 8]) ∧
    metricLabels (.parent 3 [0, 1]) ⟨[7, 8], []⟩ = .ok (.child 3 [7, 8]) ∧
    metricLabels (.parent 3 [0, 1]) ⟨[], [(1, 8), (2, 7)]⟩ = .error .valueError ∧
    metricLabels (.parent 3 [0, 1]) ⟨[], [(1, 8)]⟩ = .error .valueError := by decide

private theorem metricLabels_ok_child {r : MRef} {a : LArgs} {c : MRef} (hm : metricLabels r a = .ok c) :
    ∃ m vs, c = .child m vs := by
  cases r with
  | plain m => cases hm
  | child m vs => cases hm
  | parent m names =>
    simp only [metricLabels] at hm
    split at hm
    · cases hm
    · split at hm
      · cases hm
      · split at hm
        · split at hm
          · cases hm; exact ⟨_, _, rfl⟩
          · cases hm
        · split at hm
          · cases hm; exact ⟨_, _, rfl⟩
          · cases hm

/-
Statement asked for ("the observation goes to the child addressed by the LAST labels() call inside the block") is FALSE
for the code as it is: `MetricWrapperBase.labels` refuses a child, so after one successful `t.labels(…)` every further
`t.labels(…)` raises ValueError inside the body and leaves `t._metric` where it is — the FIRST successful call decides.
-/
/-- **At most one successful `labels()` per Timer**: once `t.labels(…)` has returned, any further `t.labels(…)` raises
`ValueError` and changes nothing. -/
theorem timer_labels_twice_raises (tid : Nat) (a a' : LArgs) (s : LSt) (h : (timerLabels tid a s).1 = .ret noneVal) :
    timerLabels tid a' (timerLabels tid a s).2 = (.raise libValueError, (timerLabels tid a s).2) := by
  have h1 := timer_labels_rebinds tid a s
  cases hm : metricLabels (s.timers tid).metric a with
  | error e => simp only [hm] at h1; rw [h1] at h; cases h
  | ok c =>
    obtain ⟨m, vs, rfl⟩ := metricLabels_ok_child hm
    simp only [hm] at h1
    rw [h1, timer_labels_rebinds]
    simp [upd, metricLabels]

private theorem labelledExit_observable (tid : Nat) (start : Int) (rb : Outcome × LSt)
    (h : (rb.2.timers tid).metric.observable = true) :
    labelledExit tid start rb
      = (rb.1, { rb.2 with clock := rb.2.clock.tick.2,
                           obs := ⟨(rb.2.timers tid).metric, (rb.2.timers tid).cb,
                                   idealDuration start rb.2.clock.tick.1⟩ :: rb.2.obs }) := by
  unfold labelledExit
  simp only [h, if_true, duration_eq_ideal, timerCallbackWhen, whenHolds, timerExitSuppresses, suppress,
    Bool.false_and, Bool.false_eq_true, if_false]

private theorem labelledExit_unobservable (tid : Nat) (start : Int) (rb : Outcome × LSt)
    (h : (rb.2.timers tid).metric.observable = false) :
    labelledExit tid start rb = (.raise libValueError, { rb.2 with clock := rb.2.clock.tick.2 }) := by
  unfold labelledExit
  simp only [h, timerCallbackWhen, whenHolds, if_true, Bool.false_eq_true, if_false]

/-- `with r.time() as t: body(t)` — the state the body starts in: a new Timer object `s.next` holding `(r, k)`, one
clock reading consumed -/
def blockStart (r : MRef) (k : TimeKind) (s : LSt) : LSt :=
  { s with next := s.next + 1, timers := upd s.timers s.next ⟨r, k⟩, clock := s.clock.tick.2 }

/-- **Exactly one observation, on the child chosen inside the block**: when the block's Timer refers to an observable
metric at the end of the body — a labelled parent that the body labelled, or a plain metric / child from the start — the
`with` statement adds exactly one observation AFTER everything the body observed, on the metric the Timer refers to THEN,
with the Timer's own callback (`Gauge.set` / `Summary.observe` / `Histogram.observe`) and duration `max(exit reading −
entry reading, 0)`; it reads the clock once on entry and once on exit; and the body's returned object / exception object
comes out unchanged. -/
theorem labelled_block_exact (r : MRef) (k : TimeKind) (body : Nat → LSt → Outcome × LSt) (s : LSt)
    (hobs : ((body s.next (blockStart r k s)).2.timers s.next).metric.observable = true) :
    withTime r k body s
      = ((body s.next (blockStart r k s)).1,
         let rb := body s.next (blockStart r k s)
         { rb.2 with clock := rb.2.clock.tick.2,
                     obs := ⟨(rb.2.timers s.next).metric, (rb.2.timers s.next).cb,
                             idealDuration s.clock.tick.1 rb.2.clock.tick.1⟩ :: rb.2.obs }) := by
  show labelledExit s.next s.clock.tick.1 (body s.next (blockStart r k s)) = _
  rw [labelledExit_observable _ _ _ hobs]

/-
Transparency ("same return value, same exception object") is FALSE on a labelled parent that is never labelled: forced
hypothesis `hobs` above; the real code was run at the excluded point (harness signature C16:timer-labels-unlabelled-parent).
-/
/-- **A labelled parent never labelled inside the block**: `__exit__` raises `ValueError` out of the `with` statement —
whatever the body did: a returned value is lost, an exception the body raised is replaced — and the block records
nothing (the observations are the body's; the clock was still read). -/
theorem unlabelled_parent_raises_at_exit (r : MRef) (k : TimeKind) (body : Nat → LSt → Outcome × LSt) (s : LSt)
    (hobs : ((body s.next (blockStart r k s)).2.timers s.next).metric.observable = false) :
    withTime r k body s
      = (.raise libValueError,
         let rb := body s.next (blockStart r k s)
         { rb.2 with clock := rb.2.clock.tick.2 }) := by
  show labelledExit s.next s.clock.tick.1 (body s.next (blockStart r k s)) = _
  rw [labelledExit_unobservable _ _ _ hobs]

/-- kernel-checked witness that the model exhibits both failures: body returns 5 / raises KeyError#7 on a never labelled
parent — `ValueError` comes out, nothing is recorded -/
theorem unlabelled_parent_counterexample :
    let s0 : LSt := ⟨⟨[1, 4], 0⟩, [], fun _ => ⟨.plain 0, .observe⟩, 0, []⟩
    (execStmt [] (.block (.withTime (.parent 1 [0]) .observe) .nil (.ret 5) false) s0).1 = .raise libValueError ∧
    (execStmt [] (.block (.withTime (.parent 1 [0]) .observe) .nil (.raise ⟨7, .keyError⟩) false) s0).1
      = .raise libValueError ∧
    (execStmt [] (.block (.withTime (.parent 1 [0]) .observe) .nil (.ret 5) false) s0).2.obs = [] := by decide

/-- entry 1, exit 4: `with P.time() as t: t.labels('a'); t.labels('b')` — the second call raises inside the body, the block
still observes 3 on child `a` and the body's ValueError comes out -/
example :
    let s0 : LSt := ⟨⟨[1, 4], 0⟩, [], fun _ => ⟨.plain 0, .observe⟩, 0, []⟩
    let r := execStmt [] (.block (.withTime (.parent 1 [0]) .observe)
      (.cons (.labels 0 ⟨[10], []⟩) (.cons (.labels 0 ⟨[11], []⟩) .nil)) (.ret 5) false) s0
    r.1 = .raise libValueError ∧ r.2.obs = [⟨.child 1 [10], .observe, 3⟩] := by decide

/-- nesting: the inner block labels the OUTER timer (`up = 1`) by keyword and itself by position; clock 0, 10, 9, 30 -/
example :
    let s0 : LSt := ⟨⟨[0, 10, 9, 30], 0⟩, [], fun _ => ⟨.plain 0, .observe⟩, 0, []⟩
    let r := execStmt [] (.block (.withTime (.parent 1 [0]) .observe)
      (.cons (.block (.withTime (.parent 2 [0, 1]) .set)
        (.cons (.labels 1 ⟨[], [(0, 7)]⟩) (.cons (.labels 0 ⟨[8, 9], []⟩) .nil)) (.raise ⟨3, .keyboardInterrupt⟩) true) .nil)
      (.ret 5) false) s0
    r.1 = .ret 5 ∧ r.2.obs = [⟨.child 1 [7], .observe, 30⟩, ⟨.child 2 [8, 9], .set, 0⟩] ∧
    r.2.log = [.ret 5, .raise ⟨3, .keyboardInterrupt⟩] := by decide

/-- a decorated call starts in: a new Timer object `s.next`, a copy of the decorator-level Timer `d` as it is NOW -/
def callStart (d : Nat) (s : LSt) : LSt :=
  { s with next := s.next + 1, timers := upd s.timers s.next (s.timers d), clock := s.clock.tick.2 }

private theorem callDeco_eq (d : Nat) (body : LSt → Outcome × LSt) (s : LSt) :
    callDeco d body s = labelledExit s.next s.clock.tick.1 (body (callStart d s)) := by
  unfold callDeco
  simp only [timerCallFresh, newTimerIsNew, Bool.and_self, if_true]
  rfl

/-- **A decorated call observes on what the decorator-level Timer referred to AT CALL TIME**: `Timer.__call__` enters
`self._new_timer()`, a new object built from the current `self._metric`.  Whatever the body does to the decorator-level
Timer `d` — e.g. `T.labels(…)` — the running call is not affected: given only that the body does not touch the per-call
object (it cannot reach it: the `with` has no `as`), the call adds exactly one observation, after the body's, on
`(s.timers d).metric` with `d`'s callback and the ideal duration, and hands on the body's outcome. -/
theorem decorated_call_observes_ref_at_call_time (d : Nat) (body : LSt → Outcome × LSt) (s : LSt)
    (hframe : (body (callStart d s)).2.timers s.next = (callStart d s).timers s.next)
    (hobs : (s.timers d).metric.observable = true) :
    callDeco d body s
      = ((body (callStart d s)).1,
         let rb := body (callStart d s)
         { rb.2 with clock := rb.2.clock.tick.2,
                     obs := ⟨(s.timers d).metric, (s.timers d).cb, idealDuration s.clock.tick.1 rb.2.clock.tick.1⟩ :: rb.2.obs }) := by
  have hc : (callStart d s).timers s.next = s.timers d := by simp [callStart, upd]
  rw [callDeco_eq, labelledExit_observable _ _ _ (by rw [hframe, hc]; exact hobs), hframe, hc]

/-- … on a labelled parent not labelled BEFORE the call, the call raises `ValueError` at exit and records nothing — also
when the body itself labels the decorator-level Timer (too late for this call, in time for the next) -/
theorem decorated_call_on_unlabelled_parent_raises (d : Nat) (body : LSt → Outcome × LSt) (s : LSt)
    (hframe : (body (callStart d s)).2.timers s.next = (callStart d s).timers s.next)
    (hobs : (s.timers d).metric.observable = false) :
    callDeco d body s
      = (.raise libValueError, let rb := body (callStart d s); { rb.2 with clock := rb.2.clock.tick.2 }) := by
  have hc : (callStart d s).timers s.next = s.timers d := by simp [callStart, upd]
  rw [callDeco_eq, labelledExit_unobservable _ _ _ (by rw [hframe, hc]; exact hobs)]

/-- **The call itself writes no Timer object** but the new one: every Timer, the decorator-level one included, is after
the call what the body left; together with `timer_labels_is_frame` (labelling object `t` changes only `t`): labelling
per-call Timers never re-binds the decorator-level Timer, labelling the decorator-level Timer re-binds exactly the calls
that START later (`decorated_call_observes_ref_at_call_time` with `timer_labels_rebinds`). -/
theorem decorated_call_writes_no_timer (d : Nat) (body : LSt → Outcome × LSt) (s : LSt) :
    (callDeco d body s).2.timers = (body (callStart d s)).2.timers ∧
    ∀ t, t ≠ s.next → (callStart d s).timers t = s.timers t := by
  refine ⟨?_, fun t ht => by simp [callStart, upd, ht]⟩
  rw [callDeco_eq]
  cases h : ((body (callStart d s)).2.timers s.next).metric.observable
  · rw [labelledExit_unobservable _ _ _ h]
  · rw [labelledExit_observable _ _ _ h]

/-- decorator-level Timer 0 on labelled parent 1: call (raises ValueError, nothing recorded) ; `T.labels(l=7)` ; call
(observes on child 7) ; a call whose body calls `T.labels(8)` (raises inside the body: already labelled; the call still
observes on child 7 and hands on that ValueError) -/
example :
    let s0 : LSt := ⟨⟨[0, 1, 10, 12, 20, 25], 0⟩, [], fun _ => ⟨.parent 1 [0], .observe⟩, 1, []⟩
    let r := execProg [] (.cons (.block (.callDeco 0) .nil (.ret 1) true)
      (.cons (.labelsDeco 0 ⟨[], [(0, 7)]⟩) (.cons (.block (.callDeco 0) .nil (.raise ⟨2, .systemExit⟩) true)
      (.cons (.block (.callDeco 0) (.cons (.labelsDeco 0 ⟨[8], []⟩) .nil) (.ret 3) true) .nil)))) (.ret 9) s0
    r.1 = .ret 9 ∧ r.2.obs = [⟨.child 1 [7], .observe, 5⟩, ⟨.child 1 [7], .observe, 2⟩] ∧
    r.2.log = [.raise libValueError, .raise ⟨2, .systemExit⟩, .raise libValueError] := by decide

/-- the body of the FIRST call labels the decorator-level Timer: that call still fails at exit, the next one observes -/
example :
    let s0 : LSt := ⟨⟨[0, 1, 10, 12], 0⟩, [], fun _ => ⟨.parent 1 [0], .set⟩, 1, []⟩
    let r := execProg [] (.cons (.block (.callDeco 0) (.cons (.labelsDeco 0 ⟨[7], []⟩) .nil) (.ret 1) true)
      (.cons (.block (.callDeco 0) .nil (.ret 2) false) .nil)) (.ret 9) s0
    r.2.obs = [⟨.child 1 [7], .set, 2⟩] ∧ r.2.log = [.ret 2, .raise libValueError] := by decide

end PromVerif.Props.C16
