/-
C08 — multiprocess collection equals the per-mode aggregate over all worker histories.

Model M: `Model/Multiprocess.lean` (`merge` = `_read_metrics` then `_accumulate_metrics` on a directory listing,
`markProcessDead`).  Spec S: `Spec/Multiprocess.lean` (`value`: per family and series the aggregate the property names).
All theorems quantify over listings of any length with any number of entries per file; values are an abstract type
(`VOps`), bounds an abstract type with decidable equality (`BOps`).  Nothing is assumed about `add`/`lt` except where
a hypothesis says so; `Int` discharges every such hypothesis (non-vacuity examples).

Hypotheses that are genuine restrictions of the input (each probed on the real code):
* `WFInput.no_pid_label`: no gauge has a label NAMED `pid`.  Without it the real collector overwrites (mode all) or
  drops (other modes) the user's label — candidate finding, see `pid_label_collides` below for M exhibiting it.
* `WFInput.one_type/one_mode`: one metric name is written with one type and, for gauges, one mode by all processes.
* `hk` (histograms): the rendered bucket keys of one family are pairwise different, i.e. `floatToGoString` is injective
  on the bounds that occur (C13) — otherwise two bounds would be reported under one `le`.
-/
import PromVerif.Lemmas.MultiprocessCompose

namespace PromVerif.Props.C08
open PromVerif.Py PromVerif.Generated.Multiprocess
open PromVerif.Model.Multiprocess PromVerif.Spec.Multiprocess
set_option autoImplicit false

/-- the extractor found every site of multiprocess.py / values.py / metrics.Gauge in the shape it understands -/
theorem extract_ok : extractOk = true := by decide

variable {V B : Type}



/-- **C08, main statement** (`accumulate_eq_spec_partial`; `_partial`: the property as stated — "label sets are preserved and no
    series is duplicated or dropped" for EVERY gauge — is false on the real code for a gauge that has a label NAMED `pid`
    (`pid_label_collides`); what is missing is exactly that case, excluded by `WFInput.no_pid_label`).
     For every listing of well-formed files, `merge` succeeds; it reports exactly the families
    that have a contribution, each once (`families`, `Nodup`); each family carries the help text and type of its
    contributions; its samples are the conversion of a dict `ss` whose keys are pairwise different (no series
    duplicated) and whose value at EVERY key `k` is the spec's `value` — in particular a key is present iff the spec
    gives it a value (no series dropped, none invented). -/
theorem accumulate_eq_spec_partial (vo : VOps V) (bo : BOps B) [DecidableEq B] (fs : List (SFile V)) (h : WFInput bo fs)
    (hk : ∀ mn, typOf fs mn = histogramType → (AL.keys (bucketSeries vo bo mn (contribs fs mn))).Nodup) :
    ∃ out, merge vo bo (fs.map toFile) = .ok out ∧
      out.map (·.name) = families fs ∧ (families fs).Nodup ∧
      ∀ om ∈ out, om.doc = helpOf fs om.name ∧ om.typ = typOf fs om.name ∧
        ∃ ss, om.samples = convert ss ∧ (AL.keys ss).Nodup ∧ ∀ k, AL.get? ss k = value vo bo fs om.name k := by
  unfold merge
  rw [readMetrics_ok fs h.files]
  simp only [bind, Except.bind]
  have hkeys := read_keys (allContribs fs)
  have hnd : (AL.keys ((allContribs fs).foldl readStep [])).Nodup := by rw [hkeys]; exact nodup_distinct _
  obtain ⟨ys, h1, h2, h3⟩ := mapM_spec (fun (nm : Str × Metric V) => accumulateMetric vo bo nm.2)
    (fun nm om => om.name = nm.1 ∧ om.doc = helpOf fs nm.1 ∧ om.typ = typOf fs nm.1 ∧
      ∃ ss, om.samples = convert ss ∧ (AL.keys ss).Nodup ∧ ∀ k, AL.get? ss k = value vo bo fs nm.1 k)
    (·.name) (·.1) ((allContribs fs).foldl readStep [])
    (by
      intro nm hnm
      have hget := AL.get?_of_mem _ hnd nm.1 nm.2 hnm
      rw [read_get?] at hget
      cases hcs : (allContribs fs).filter (fun c => c.key.metric = nm.1) with
      | nil => rw [hcs] at hget; cases hget
      | cons c cs =>
        have hc : contribs fs nm.1 = c :: cs := hcs
        have htyp : typOf fs nm.1 = c.typ := by simp [typOf, hc]
        obtain ⟨m, ss, e1, e2, e3, e4, e5, e6, e7⟩ := family_eq_spec vo bo fs h nm.1 c cs hc
          (fun hh => hk nm.1 (htyp.trans hh))
        rw [hcs, e1] at hget
        have hm : nm.2 = m := (Option.some.inj hget).symm
        refine ⟨⟨m.name, m.doc, m.typ, convert ss⟩, ?_, ⟨e2, e3, e4, ss, rfl, e6, e7⟩, e2⟩
        unfold accumulateMetric
        rw [hm, e5]
        rfl)
  refine ⟨ys, h1, ?_, nodup_distinct _, ?_⟩
  · rw [h2]
    have : ((allContribs fs).foldl readStep []).map (·.1) = AL.keys ((allContribs fs).foldl readStep []) := rfl
    rw [this, hkeys]
    rfl
  · intro om hom
    obtain ⟨nm, _, q1, q2, q3, q4⟩ := h3 om hom
    rw [q1]
    exact ⟨q2, q3, q4⟩

/-! ### histograms: merged per bound, then cumulative; `_count` is the `+Inf` bucket -/

/-- **histogram_merge_cumulative.**  For a histogram family, label set `L` and position `i` in `L`'s bounds sorted
    increasingly: the reported `_bucket` sample with `le = floatToGoString(bound i)` is the sum of the merged counts of
    the bounds up to and including position `i`, where the merged count of a bound (`Spec.merged`) is the sum over ALL
    contributions — every process, dead or alive — to that `(L, bound)`. -/
theorem histogram_merge_cumulative (vo : VOps V) (bo : BOps B) [DecidableEq B] (mn doc : Str) (mode : Option Str)
    (cs : List (Contrib V)) (hty : ∀ c ∈ cs, c.typ ≠ gaugeType)
    (hp : ∀ c ∈ cs, ∀ t, leText c = some t → (bo.parse t).isSome = true)
    (hk : (AL.keys (bucketSeries vo bo mn cs)).Nodup)
    (L : Labels) (hL : L ∈ groups (bucketContribs bo cs)) (i : Nat) (b : B) (m : V)
    (hi : (mergedSorted vo bo (bucketContribs bo cs) L)[i]? = some (b, m)) :
    ∃ ss, accumulateSamples vo bo ⟨mn, doc, histogramType, mode, cs.map toRSample⟩ = .ok ss ∧
      AL.get? ss (mn ++ "_bucket".toList, L ++ [("le".toList, bo.fmt b)])
        = some ((((mergedSorted vo bo (bucketContribs bo cs) L).take (i + 1)).map (·.2)).foldl vo.add vo.zero) := by
  refine ⟨_, family_hist vo bo mn doc mode cs hty hp, ?_⟩
  rw [AL.get?_setAll _ _ hk]
  have hlen : i < (mergedSorted vo bo (bucketContribs bo cs) L).length := by
    obtain ⟨h, _⟩ := List.getElem?_eq_some_iff.mp hi; exact h
  have hv := cumulate_get vo vo.zero (mergedSorted vo bo (bucketContribs bo cs) L) i hlen
  have hf := congrArg (fun l => l[i]?) (cumulate_fst vo vo.zero (mergedSorted vo bo (bucketContribs bo cs) L))
  simp only [List.getElem?_map, hi, Option.map_some] at hf
  cases hc : (cumulate vo vo.zero (mergedSorted vo bo (bucketContribs bo cs) L))[i]? with
  | none => rw [hc] at hf; cases hf
  | some bv =>
    rw [hc] at hf hv
    simp only [Option.map_some, Option.some.injEq] at hf hv
    have hmem : ((mn ++ "_bucket".toList, L ++ [("le".toList, bo.fmt bv.1)]), bv.2)
        ∈ groupSeries vo bo mn (bucketContribs bo cs) L := by
      unfold groupSeries
      apply List.mem_append_left
      exact List.mem_map.mpr ⟨bv, List.mem_iff_getElem?.mpr ⟨i, hc⟩, rfl⟩
    have := AL.get?_of_mem _ hk _ _ (mem_bucketSeries vo bo mn cs L hL _ hmem)
    rw [hf] at this
    rw [this, hv]

/-- **count_eq_inf_bucket.**  `_count` of label set `L` is the grand total of the merged buckets, and it equals the
    reported bucket of the greatest bound; when a bound `top` is above every other bound of `L` (`+Inf`), that is the
    `le = floatToGoString(top)` bucket. -/
theorem count_eq_inf_bucket (vo : VOps V) (bo : BOps B) [DecidableEq B] (mn doc : Str) (mode : Option Str)
    (cs : List (Contrib V)) (hty : ∀ c ∈ cs, c.typ ≠ gaugeType)
    (hp : ∀ c ∈ cs, ∀ t, leText c = some t → (bo.parse t).isSome = true)
    (hk : (AL.keys (bucketSeries vo bo mn cs)).Nodup)
    (L : Labels) (hL : L ∈ groups (bucketContribs bo cs)) (top : B)
    (htop : top ∈ boundsOf (bucketContribs bo cs) L)
    (hbelow : ∀ y ∈ boundsOf (bucketContribs bo cs) L, y ≠ top → bo.lt y top = true)
    (habove : ∀ y ∈ boundsOf (bucketContribs bo cs) L, bo.lt top y = false) :
    ∃ ss, accumulateSamples vo bo ⟨mn, doc, histogramType, mode, cs.map toRSample⟩ = .ok ss ∧
      AL.get? ss (mn ++ "_count".toList, L) = some (countOf vo bo (bucketContribs bo cs) L) ∧
      AL.get? ss (mn ++ "_bucket".toList, L ++ [("le".toList, bo.fmt top)]) = AL.get? ss (mn ++ "_count".toList, L) := by
  refine ⟨_, family_hist vo bo mn doc mode cs hty hp, ?_⟩
  rw [AL.get?_setAll _ _ hk, AL.get?_setAll _ _ hk]
  have hcount : ((mn ++ "_count".toList, L), countOf vo bo (bucketContribs bo cs) L)
      ∈ groupSeries vo bo mn (bucketContribs bo cs) L := by
    unfold groupSeries
    exact List.mem_append_right _ (List.mem_singleton.mpr rfl)
  have h1 := AL.get?_of_mem _ hk _ _ (mem_bucketSeries vo bo mn cs L hL _ hcount)
  have hlast := sortBounds_last bo.lt top (boundsOf (bucketContribs bo cs) L) htop (nodup_distinct _) hbelow habove
  have hms : (mergedSorted vo bo (bucketContribs bo cs) L).getLast?
      = some (top, merged vo (bucketContribs bo cs) L top) := by
    unfold mergedSorted
    rw [List.getLast?_map, hlast]; rfl
  have hcl := cumulate_last vo vo.zero (mergedSorted vo bo (bucketContribs bo cs) L) _ hms
  have hb : ((mn ++ "_bucket".toList, L ++ [("le".toList, bo.fmt top)]), countOf vo bo (bucketContribs bo cs) L)
      ∈ groupSeries vo bo mn (bucketContribs bo cs) L := by
    unfold groupSeries
    apply List.mem_append_left
    refine List.mem_map.mpr ⟨_, List.mem_of_getLast? hcl, rfl⟩
  have h2 := AL.get?_of_mem _ hk _ _ (mem_bucketSeries vo bo mn cs L hL _ hb)
  rw [h1, h2]
  exact ⟨rfl, rfl⟩

/-! ### gauges: what the reported value is -/

/-- min / max / mostrecent: the reported value is extremal / most recent among the contributions to the series, for any
    strict order that is irreflexive and transitive (IEEE `<` is, NaN included; so is `<` on `Int`).
    Ties (equal values, `-0.0` vs `0.0`, equal set-times) are not decided by the statement. -/
theorem gauge_value_declarative (vo : VOps V) (hirr : ∀ a, vo.lt a a = false)
    (htr : ∀ a b c, vo.lt a b = true → vo.lt b c = true → vo.lt a c = true) (cs : List (Contrib V)) (k : SKey) (r : V) :
    (gaugeValue vo .gaugeMin cs k = some r → IsMinimal vo.lt (valuesFor plainKey cs k) r) ∧
    (gaugeValue vo .gaugeMax cs k = some r → IsMaximal vo.lt (valuesFor plainKey cs k) r) ∧
    (gaugeValue vo .gaugeMostRecent cs k = some r →
      IsMostRecent vo ((cs.filter (fun c => plainKey c = k)).map (fun c => (c.value, c.ts))) r) ∧
    (gaugeValue vo .gaugeMostRecent cs k = none →
      ∀ c ∈ cs, plainKey c = k → vo.lt vo.zero (normTs vo c.ts) = false) := by
  refine ⟨aggMin_minimal vo hirr htr _ r, aggMax_maximal vo hirr htr _ r, ?_, ?_⟩
  · exact (aggMostRecent_spec vo hirr htr _).1 r
  · intro h c hc hk
    exact (aggMostRecent_spec vo hirr htr _).2 h (c.value, c.ts)
      (List.mem_map.mpr ⟨c, List.mem_filter.mpr ⟨hc, by simpa using hk⟩, rfl⟩)

/-! ### no series dropped, none invented; labels come from the contributions -/

/-- **help_labels_bounds_preserved** (with `accumulate_eq_spec_partial`, which gives help text and type): a series has a value
    exactly when some contribution belongs to it, and its name and label set are that contribution's — for sums
    `(name, labels)`, for `all`/`liveall` gauges `labels + {pid}`, for `min`/`max`/`sum` gauges `(name, labels)`; a
    mostrecent series exists only if some contribution to it has a positive set-time. -/
theorem help_labels_bounds_preserved (vo : VOps V) (cs : List (Contrib V)) (k : SKey) :
    ((sumValue vo cs k).isSome = true ↔ ∃ c ∈ cs, plainKey c = k) ∧
    ((gaugeValue vo .gaugeMin cs k).isSome = true ↔ ∃ c ∈ cs, plainKey c = k) ∧
    ((gaugeValue vo .gaugeMax cs k).isSome = true ↔ ∃ c ∈ cs, plainKey c = k) ∧
    ((gaugeValue vo .gaugeSum cs k).isSome = true ↔ ∃ c ∈ cs, plainKey c = k) ∧
    ((gaugeValue vo .gaugeAll cs k).isSome = true ↔ ∃ c ∈ cs, pidKey c = k) := by
  have hs : (sumValue vo cs k).isSome = true ↔ ∃ c ∈ cs, plainKey c = k := by
    rw [← valuesFor_ne_nil]
    unfold sumValue
    cases valuesFor plainKey cs k <;> simp
  have hpick : ∀ better : V → V → Bool, (aggPick better (valuesFor plainKey cs k)).isSome = true ↔
      ∃ c ∈ cs, plainKey c = k := by
    intro better
    rw [← valuesFor_ne_nil]
    cases valuesFor plainKey cs k <;> simp [aggPick]
  refine ⟨hs, hpick _, hpick _, hs, ?_⟩
  rw [← valuesFor_ne_nil]
  simp only [gaugeValue, aggLast]
  cases h : valuesFor pidKey cs k with
  | nil => simp
  | cons v r =>
    simp only [ne_eq, reduceCtorEq, not_false_eq_true, iff_true]
    cases hl : (v :: r).getLast? with
    | none => simp at hl
    | some x => rfl

/-- histogram series come from the contributions too: every bucket/count key carries a contributed label set (without
    `le`) and, for buckets, `le = floatToGoString(b)` for a bound `b` some contribution's `le` text parses to — so if
    `float(floatToGoString(b)) = b` (C13) the reported bound IS the contributed bound -/
theorem bucket_bounds_preserved (vo : VOps V) (bo : BOps B) [DecidableEq B] (mn : Str) (cs : List (Contrib V))
    (k : SKey) (hk : k ∈ AL.keys (bucketSeries vo bo mn cs)) :
    ∃ c ∈ cs, ∃ t b, leText c = some t ∧ bo.parse t = some b ∧
      ((k = (mn ++ "_count".toList, withoutLe c)) ∨
       (∃ c' ∈ cs, ∃ t' b', leText c' = some t' ∧ bo.parse t' = some b' ∧ withoutLe c' = withoutLe c ∧
          k = (mn ++ "_bucket".toList, withoutLe c ++ [("le".toList, bo.fmt b')]))) := by
  unfold bucketSeries AL.keys at hk
  obtain ⟨kv, hkv, rfl⟩ := List.mem_map.mp hk
  obtain ⟨L, hL, hg⟩ := List.mem_flatMap.mp hkv
  -- the group comes from a contribution
  have hLc : ∃ c ∈ cs, ∃ t b, leText c = some t ∧ bo.parse t = some b ∧ withoutLe c = L := by
    have := (mem_distinct _ _).mp hL
    obtain ⟨x, hx, hx1⟩ := List.mem_map.mp this
    obtain ⟨c, hc, t, b, ht, hb, e⟩ := mem_bucketContribs bo cs x hx
    exact ⟨c, hc, t, b, ht, hb, by rw [← hx1, e]⟩
  obtain ⟨c, hc, t, b, ht, hb, hcL⟩ := hLc
  refine ⟨c, hc, t, b, ht, hb, ?_⟩
  unfold groupSeries at hg
  rcases List.mem_append.mp hg with h | h
  · right
    obtain ⟨bv, hbv, rfl⟩ := List.mem_map.mp h
    have hfst : bv.1 ∈ (cumulate vo vo.zero (mergedSorted vo bo (bucketContribs bo cs) L)).map (·.1) :=
      List.mem_map.mpr ⟨bv, hbv, rfl⟩
    rw [cumulate_fst] at hfst
    unfold mergedSorted at hfst
    rw [List.map_map] at hfst
    obtain ⟨b', hb', e⟩ := List.mem_map.mp hfst
    simp only [Function.comp] at e
    have hb2 := (mem_distinct _ _).mp ((mem_sortBounds _ _ _).mp hb')
    obtain ⟨x, hx, hx1⟩ := List.mem_map.mp hb2
    have hxm := List.mem_filter.mp hx
    obtain ⟨c', hc', t', b'', ht', hbp, e'⟩ := mem_bucketContribs bo cs x hxm.1
    have hxL : x.1 = L := by simpa using hxm.2
    refine ⟨c', hc', t', b'', ht', hbp, ?_, ?_⟩
    · rw [hcL, ← hxL, e']
    · rw [hcL, ← e, ← hx1, e']
  · left
    simp only [List.mem_singleton] at h
    rw [h, hcL]

/-! ### `mark_process_dead` -/

/-- **live_modes_ignore_dead.**  `mark_process_dead(pid)` removes exactly the files of gauges in a `live*` mode written
    under `pid` and nothing else: afterwards the listing is `afterDeath pid` of the old one — every counter, summary,
    histogram and non-live gauge file of the dead process is still there (so `accumulate_eq_spec_partial` on the new listing
    sums dead processes for those and ranges over live processes only for `live*` gauges). -/
theorem live_modes_ignore_dead (pid : Str) (hp : '_' ∉ pid) (fs : List (SFile V)) (hf : ∀ f ∈ fs, WFFile f)
    (hm : ∀ f ∈ fs, f.typ = gaugeType → f.mode ∈ gaugeModes) :
    markProcessDead pid (fs.map toFile) = (afterDeath pid fs).map toFile := by
  unfold markProcessDead afterDeath
  rw [List.filter_map]
  congr 1
  apply List.filter_congr
  intro f hfm
  simp only [Function.comp]
  congr 1
  rw [Bool.eq_iff_iff, dead_pred f (hf f hfm) pid hp]
  simp only [Bool.and_eq_true, decide_eq_true_eq]
  have e : gaugeType = "gauge".toList := by decide
  constructor
  · rintro ⟨h1, h2, h3⟩
    exact ⟨⟨e ▸ h1, ((liveModes_spec f.mode).mp h2).2⟩, h3⟩
  · rintro ⟨⟨h1, h2⟩, h3⟩
    have hg : f.typ = gaugeType := e ▸ h1
    exact ⟨hg, (liveModes_spec f.mode).mpr ⟨hm f hfm hg, h2⟩, h3⟩

theorem afterDeath_keeps (pid : Str) (fs : List (SFile V)) (f : SFile V) (hf : f ∈ fs)
    (h : f.typ ≠ "gauge".toList ∨ "live".toList.isPrefixOf f.mode = false ∨ f.pid ≠ pid) : f ∈ afterDeath pid fs := by
  unfold afterDeath
  rw [List.mem_filter]
  refine ⟨hf, ?_⟩
  rcases h with h | h | h
  · rw [decide_eq_false h]; rfl
  · rw [h]; simp
  · rw [decide_eq_false h]; simp

/-! ### independence of the listing order -/

/-- **accumulate_perm** (`_partial`: order-independence is proved for every value that is a sum and for the admissible
    answers of min/max; NOT proved: equality of the whole output, which would need (i) a total order on bounds to make
    the sorted bucket list canonical and (ii) fails anyway for mostrecent/min/max ties, which the property leaves open).
     In a commutative semigroup every value that is a SUM — counter, summary and plain histogram
    series, `sum`/`livesum` gauges, and the merged count of every histogram bucket — does not depend on the order in
    which the directory is listed; for `min`/`max` the set of admissible answers (`IsMinimal`/`IsMaximal`) does not. -/
theorem accumulate_perm_partial (vo : VOps V) (hcomm : ∀ a b, vo.add a b = vo.add b a)
    (hassoc : ∀ a b c, vo.add (vo.add a b) c = vo.add a (vo.add b c))
    (fs fs' : List (SFile V)) (h : fs.Perm fs') (mn : Str) (k : SKey) :
    sumValue vo (contribs fs mn) k = sumValue vo (contribs fs' mn) k ∧
    gaugeValue vo .gaugeSum (contribs fs mn) k = gaugeValue vo .gaugeSum (contribs fs' mn) k ∧
    (∀ r, IsMinimal vo.lt (valuesFor plainKey (contribs fs mn) k) r ↔
          IsMinimal vo.lt (valuesFor plainKey (contribs fs' mn) k) r) ∧
    (∀ r, IsMaximal vo.lt (valuesFor plainKey (contribs fs mn) k) r ↔
          IsMaximal vo.lt (valuesFor plainKey (contribs fs' mn) k) r) := by
  have hp : (valuesFor plainKey (contribs fs mn) k).Perm (valuesFor plainKey (contribs fs' mn) k) := by
    unfold valuesFor
    exact ((contribs_perm fs fs' h mn).filter _).map _
  have hs : sumValue vo (contribs fs mn) k = sumValue vo (contribs fs' mn) k := by
    unfold sumValue
    cases h1 : valuesFor plainKey (contribs fs mn) k with
    | nil =>
      rw [h1] at hp
      rw [List.Perm.nil_eq hp]
    | cons v r =>
      cases h2 : valuesFor plainKey (contribs fs' mn) k with
      | nil => rw [h1, h2] at hp; exact absurd hp.symm.nil_eq (by simp)
      | cons v' r' =>
        simp only
        rw [← h1, ← h2, aggSum_perm vo hcomm hassoc _ _ hp]
  refine ⟨hs, hs, ?_, ?_⟩
  · intro r
    unfold IsMinimal
    constructor
    · rintro ⟨h1, h2⟩; exact ⟨hp.mem_iff.mp h1, fun v hv => h2 v (hp.mem_iff.mpr hv)⟩
    · rintro ⟨h1, h2⟩; exact ⟨hp.mem_iff.mpr h1, fun v hv => h2 v (hp.mem_iff.mp hv)⟩
  · intro r
    unfold IsMaximal
    constructor
    · rintro ⟨h1, h2⟩; exact ⟨hp.mem_iff.mp h1, fun v hv => h2 v (hp.mem_iff.mpr hv)⟩
    · rintro ⟨h1, h2⟩; exact ⟨hp.mem_iff.mpr h1, fun v hv => h2 v (hp.mem_iff.mp hv)⟩

/-- the merged count of a histogram bucket is order-independent as well -/
theorem merged_perm (vo : VOps V) (bo : BOps B) [DecidableEq B] (hcomm : ∀ a b, vo.add a b = vo.add b a)
    (hassoc : ∀ a b c, vo.add (vo.add a b) c = vo.add a (vo.add b c))
    (fs fs' : List (SFile V)) (h : fs.Perm fs') (mn : Str) (L : Labels) (b : B) :
    merged vo (bucketContribs bo (contribs fs mn)) L b = merged vo (bucketContribs bo (contribs fs' mn)) L b := by
  unfold merged
  apply aggSum_perm vo hcomm hassoc
  unfold bucketContribs
  exact (((contribs_perm fs fs' h mn).filterMap _).filter _).map _

/-! ### non-vacuity, and the counter-example behind `no_pid_label` -/

/-- `Int` values (a commutative monoid with a strict order), natural-number bounds read from decimal digits and rendered in unary (injective, structurally recursive) -/
def intV : VOps Int := ⟨0, (· + ·), (fun a b => decide (a < b)), (fun a b => decide (a ≤ b)), (fun x => x != 0)⟩

def natB : BOps Nat := ⟨fun s => some (parseDigits s), (fun a b => decide (a < b)), fun n => List.replicate n '|'⟩

def kC : Key := ⟨"c".toList, "c_total".toList, [], "counts".toList⟩

def kG : Key := ⟨"g".toList, "g".toList, [("l".toList, "x".toList)], "a gauge".toList⟩

def kHb (le : String) : Key := ⟨"h".toList, "h_bucket".toList, [("le".toList, le.toList)], "a histogram".toList⟩

def kHs : Key := ⟨"h".toList, "h_sum".toList, [], "a histogram".toList⟩

/-- two processes; process 1 is listed first; a counter, a `livemin` gauge with a tie-free pair of values, and a
    histogram whose bounds arrive in different orders in the two files -/
def demoFiles : List (SFile Int) :=
  [⟨"counter".toList, [], "1".toList, [(kC, 2, 0)]⟩,
   ⟨"gauge".toList, "livemin".toList, "1".toList, [(kG, 5, 0)]⟩,
   ⟨"histogram".toList, [], "1".toList, [(kHs, 7, 0), (kHb "1", 1, 0), (kHb "5", 2, 0), (kHb "100", 0, 0)]⟩,
   ⟨"counter".toList, [], "2".toList, [(kC, 3, 0)]⟩,
   ⟨"gauge".toList, "livemin".toList, "2".toList, [(kG, -1, 0)]⟩,
   ⟨"histogram".toList, [], "2".toList, [(kHb "100", 4, 0), (kHs, 1, 0), (kHb "5", 1, 0), (kHb "1", 0, 0)]⟩]

theorem demo_wf : WFInput natB demoFiles := by
  refine ⟨?_, by decide, by decide, by decide, by decide, fun _ _ _ _ _ => rfl⟩
  intro f hf
  simp only [demoFiles, List.mem_cons, List.not_mem_nil, or_false] at hf
  rcases hf with h | h | h | h | h | h <;> subst h <;> exact ⟨by decide, by decide, by decide, by decide⟩

theorem demo_keys : ∀ mn, typOf demoFiles mn = histogramType →
    (AL.keys (bucketSeries intV natB mn (contribs demoFiles mn))).Nodup := by
  intro mn h
  obtain ⟨c, hc, hct⟩ := typOf_mem demoFiles mn _ h (by decide)
  have hm := mem_contribs hc
  have : ∀ c ∈ allContribs demoFiles, c.typ = histogramType → c.key.metric = "h".toList := by decide
  have e : mn = "h".toList := by rw [← hm.2]; exact this c hm.1 hct
  subst e
  decide

/-- the hypotheses of `accumulate_eq_spec_partial` are satisfiable by a non-trivial listing -/
example : ∃ out, merge intV natB (demoFiles.map toFile) = .ok out ∧
    out.map (·.name) = families demoFiles ∧ (families demoFiles).Nodup ∧
    ∀ om ∈ out, om.doc = helpOf demoFiles om.name ∧ om.typ = typOf demoFiles om.name ∧
      ∃ ss, om.samples = convert ss ∧ (AL.keys ss).Nodup ∧ ∀ k, AL.get? ss k = value intV natB demoFiles om.name k :=
  accumulate_eq_spec_partial intV natB demoFiles demo_wf demo_keys

/-- … and what it computes there: counter 2+3, livemin min(5,-1), buckets 1|5|100 merged to 1|3|4 then cumulated to
    1|4|8, `_count` 8, `_sum` 8 -/
example : value intV natB demoFiles "c".toList ("c_total".toList, []) = some 5 := by decide

example : value intV natB demoFiles "g".toList ("g".toList, [("l".toList, "x".toList)]) = some (-1) := by decide

example : value intV natB demoFiles "h".toList ("h_bucket".toList, [("le".toList, natB.fmt 5)]) = some 4 := by decide

example : value intV natB demoFiles "h".toList ("h_bucket".toList, [("le".toList, natB.fmt 100)]) = some 8 := by decide

example : value intV natB demoFiles "h".toList ("h_count".toList, []) = some 8 := by decide

example : value intV natB demoFiles "h".toList ("h_sum".toList, []) = some 8 := by decide

/-- after process 2 is marked dead its `livemin` file is gone (min becomes 5) while its counter still counts -/
example : value intV natB (afterDeath "2".toList demoFiles) "g".toList ("g".toList, [("l".toList, "x".toList)]) = some 5 := by
  decide

example : value intV natB (afterDeath "2".toList demoFiles) "c".toList ("c_total".toList, []) = some 5 := by decide

/-- the `+Inf`-like bound 100 satisfies the hypotheses of `count_eq_inf_bucket` -/
example : (100 : Nat) ∈ boundsOf (bucketContribs natB (contribs demoFiles "h".toList)) [] ∧
    (∀ y ∈ boundsOf (bucketContribs natB (contribs demoFiles "h".toList)) [], y ≠ 100 → natB.lt y 100 = true) ∧
    (∀ y ∈ boundsOf (bucketContribs natB (contribs demoFiles "h".toList)) [], natB.lt 100 y = false) := by decide

/-- `Int` meets the order and monoid hypotheses of `gauge_value_declarative`, `accumulate_perm` -/
example : (∀ a : Int, intV.lt a a = false) ∧ (∀ a b : Int, intV.add a b = intV.add b a) ∧
    (∀ a b c : Int, intV.add (intV.add a b) c = intV.add a (intV.add b c)) :=
  ⟨fun a => by simp [intV], fun a b => Int.add_comm a b, fun a b c => Int.add_assoc a b c⟩

example : ∀ a b c : Int, intV.lt a b = true → intV.lt b c = true → intV.lt a c = true := by
  intro a b c h1 h2
  simp only [intV, decide_eq_true_eq] at *
  omega

/-- **the counter-example behind `no_pid_label`** (M exhibits the candidate finding): a gauge in mode `all` whose own
    label is NAMED `pid`, two children in one process: the collector reports the same series `g{pid="1"}` twice (the
    user's label value is overwritten by the process id) -/
def pidDemo : List (SFile Int) :=
  [⟨"gauge".toList, "all".toList, "1".toList,
    [(⟨"g".toList, "g".toList, [("pid".toList, "a".toList)], "gh".toList⟩, 1, 0),
     (⟨"g".toList, "g".toList, [("pid".toList, "b".toList)], "gh".toList⟩, 2, 0)]⟩]

def pidDemoOut : List (List (Str × Labels × Int)) :=
  match merge intV natB (pidDemo.map toFile) with
  | .ok out => out.map (fun m => m.samples.map (fun s => (s.name, s.labels, s.value)))
  | .error _ => []

set_option synthInstance.maxSize 1000 in
theorem pid_label_collides :
    pidDemoOut = [[("g".toList, [("pid".toList, "1".toList)], 1), ("g".toList, [("pid".toList, "1".toList)], 2)]] := by
  decide

end PromVerif.Props.C08
