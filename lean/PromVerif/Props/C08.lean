/-
C08 — multiprocess collection equals the per-mode aggregate (work in progress: theorems are being added).
-/
import PromVerif.Model.Multiprocess
import PromVerif.Spec.Multiprocess

namespace PromVerif.Props.C08
open PromVerif.Generated.Multiprocess

/-- the extractor found every site of multiprocess.py / values.py / metrics.Gauge in the shape it understands -/
theorem extract_ok : extractOk = true := by decide

end PromVerif.Props.C08
