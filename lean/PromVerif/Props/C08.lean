/-
C08 — multiprocess collection equals the per-mode aggregate over all worker histories.

Model M: `Model/Multiprocess.lean` (`merge` = `_read_metrics` then `_accumulate_metrics` on a directory listing,
`markProcessDead`).  Spec S: `Spec/Multiprocess.lean` (`value`: per family and series the aggregate the property names).
All theorems quantify over listings of any length with any number of entries per file; values are an abstract type
(`VOps`), bounds an abstract type with decidable equality (`BOps`).  Nothing is assumed about `add`/`lt` except where
a hypothesis says so; `Int` discharges every such hypothesis (non-vacuity examples).

Hypotheses that are genuine restrictions of the input (each probed on the real code):
* `WFInput.no_pid_label`: no gauge has a label NAMED `pid`.  Without it the real collector overwrites (mode all) or
  drops (other modes) the user's label — candidate finding, see `pid_label_collides` below for M exhibiting it.
* `WFInput.one_type/one_mode`: one metric name is written with one type and, for gauges, one mode by all processes.
* `hk` (histograms): the rendered bucket keys of one family are pairwise different, i.e. `floatToGoString` is injective
  on the bounds that occur (C13) — otherwise two bounds would be reported under one `le`.
-/
import PromVerif.Lemmas.MultiprocessFamily
import PromVerif.Lemmas.MultiprocessSpec

namespace PromVerif.Props.C08
open PromVerif.Py PromVerif.Generated.Multiprocess
open PromVerif.Model.Multiprocess PromVerif.Spec.Multiprocess
set_option autoImplicit false

/-- the extractor found every site of multiprocess.py / values.py / metrics.Gauge in the shape it understands -/
theorem extract_ok : extractOk = true := by decide

variable {V B : Type}

/-- what the writer side guarantees about a directory listing (see the file header for the genuine restrictions) -/
structure WFInput (bo : BOps B) (fs : List (SFile V)) : Prop where
  files : ∀ f ∈ fs, WFFile f
  one_type : ∀ c ∈ allContribs fs, ∀ c' ∈ allContribs fs, c.key.metric = c'.key.metric → c'.typ = c.typ
  one_mode : ∀ c ∈ allContribs fs, ∀ c' ∈ allContribs fs, c.key.metric = c'.key.metric → c.typ = gaugeType →
    c'.mode = c.mode
  modes : ∀ c ∈ allContribs fs, c.typ = gaugeType → c.mode ∈ gaugeModes
  no_pid_label : ∀ c ∈ allContribs fs, c.typ = gaugeType → ∀ l ∈ c.key.labels, l.1 ≠ pidLabel
  bounds_parse : ∀ c ∈ allContribs fs, c.typ = histogramType → ∀ t, leText c = some t → (bo.parse t).isSome = true

theorem mem_contribs {fs : List (SFile V)} {mn : Str} {c : Contrib V} (h : c ∈ contribs fs mn) :
    c ∈ allContribs fs ∧ c.key.metric = mn := by
  unfold contribs at h
  have := List.mem_filter.mp h
  exact ⟨this.1, by simpa using this.2⟩

theorem kind_gauge (mode : Str) (h : mode ∈ gaugeModes) :
    ∀ (vo : VOps V) (bo : BOps B) [DecidableEq B] (mn : Str) (cs : List (Contrib V)) (k : SKey),
      (match kindOf gaugeType mode with
        | .plainSum => sumValue vo cs k
        | .histogram => histValue vo bo mn cs k
        | kind => gaugeValue vo kind cs k) = gaugeValue vo (kindOf gaugeType mode) cs k := by
  intro vo bo _ mn cs k
  rcases rule_kind mode h with ⟨_, hk⟩ | ⟨_, hk⟩ | ⟨_, hk⟩ | ⟨_, hk⟩ | ⟨_, hk⟩ <;> rw [hk]

theorem kind_hist (mode : Str) : kindOf histogramType mode = .histogram := by
  have h1 : histogramType ≠ "gauge".toList := by decide
  have h2 : histogramType = "histogram".toList := by decide
  unfold kindOf
  rw [if_neg h1, if_pos h2]

theorem kind_plain (typ mode : Str) (hg : typ ≠ gaugeType) (hh : typ ≠ histogramType) : kindOf typ mode = .plainSum := by
  have e1 : gaugeType = "gauge".toList := by decide
  have e2 : histogramType = "histogram".toList := by decide
  unfold kindOf
  rw [if_neg (e1 ▸ hg), if_neg (e2 ▸ hh)]

/-- one family: the record built by the reader, accumulated, is the spec's value function as a finite map -/
theorem family_eq_spec (vo : VOps V) (bo : BOps B) [DecidableEq B] (fs : List (SFile V)) (h : WFInput bo fs)
    (mn : Str) (c : Contrib V) (cs : List (Contrib V)) (hc : contribs fs mn = c :: cs)
    (hk : c.typ = histogramType → (AL.keys (bucketSeries vo bo mn (contribs fs mn))).Nodup) :
    ∃ m ss, (c :: cs).foldl famStep none = some m ∧ m.name = mn ∧ m.doc = helpOf fs mn ∧ m.typ = typOf fs mn ∧
      accumulateSamples vo bo m = .ok ss ∧ (AL.keys ss).Nodup ∧ ∀ k, AL.get? ss k = value vo bo fs mn k := by
  have hmem : ∀ c' ∈ c :: cs, c' ∈ allContribs fs ∧ c'.key.metric = mn := fun c' hc' => mem_contribs (hc ▸ hc')
  have hc0 := hmem c List.mem_cons_self
  have hty : ∀ c' ∈ cs, c'.typ = c.typ := fun c' hc' =>
    h.one_type c hc0.1 c' (hmem c' (List.mem_cons_of_mem _ hc')).1 (hc0.2.trans (hmem c' (List.mem_cons_of_mem _ hc')).2.symm)
  have hmo : c.typ = gaugeType → ∀ c' ∈ cs, c'.mode = c.mode := fun hg c' hc' =>
    h.one_mode c hc0.1 c' (hmem c' (List.mem_cons_of_mem _ hc')).1
      (hc0.2.trans (hmem c' (List.mem_cons_of_mem _ hc')).2.symm) hg
  have hrec := famStep_fold c cs hty hmo
  have hhelp : helpOf fs mn = c.key.help := by simp [helpOf, hc]
  have htyp : typOf fs mn = c.typ := by simp [typOf, hc]
  have hmode : modeOf fs mn = c.mode := by simp [modeOf, hc]
  have hall : ∀ c' ∈ c :: cs, c'.typ = c.typ := by
    intro c' hc'
    rcases List.mem_cons.mp hc' with e | e
    · rw [e]
    · exact hty c' e
  have main : ∃ ss, accumulateSamples vo bo (⟨c.key.metric, c.key.help, c.typ,
        if c.typ = gaugeType then some c.mode else none, (c :: cs).map toRSample⟩ : Metric V) = .ok ss ∧
      (AL.keys ss).Nodup ∧ ∀ k, AL.get? ss k = value vo bo fs mn k := by
    by_cases hg : c.typ = gaugeType
    · -- gauge
      have hm := h.modes c hc0.1 hg
      obtain ⟨ss, h1, h2, h3⟩ := family_gauge vo bo c.key.metric c.key.help c.mode (c :: cs) hm
        (fun c' hc' => (hall c' hc').trans hg)
        (fun c' hc' => h.no_pid_label c' (hmem c' hc').1 ((hall c' hc').trans hg))
      refine ⟨ss, ?_, h2, ?_⟩
      · rw [if_pos hg, hg]; exact h1
      · intro k
        rw [h3 k]
        unfold value
        simp only [hc, htyp, hmode, hg]
        exact (kind_gauge c.mode hm vo bo mn (c :: cs) k).symm
    · by_cases hh : c.typ = histogramType
      · -- histogram
        have hkk := hk hh
        rw [hc] at hkk
        obtain ⟨ss, h1, h2, h3⟩ := family_hist_get? vo bo mn c.key.help (if c.typ = gaugeType then some c.mode else none)
          (c :: cs) (fun c' hc' => by rw [hall c' hc']; exact hg)
          (fun c' hc' => h.bounds_parse c' (hmem c' hc').1 ((hall c' hc').trans hh)) hkk
        refine ⟨ss, ?_, h2, ?_⟩
        · rw [hc0.2, hh]; exact h1
        · intro k
          rw [h3 k]
          unfold value
          simp only [hc, htyp, hmode, hh, kind_hist]
      · -- counter, summary, …
        obtain ⟨ss, h1, h2, h3⟩ := family_plain vo bo c.key.metric c.key.help c.typ
          (if c.typ = gaugeType then some c.mode else none) (c :: cs) hg hh
          (fun c' hc' => by rw [hall c' hc']; exact hg)
        refine ⟨ss, h1, h2, ?_⟩
        intro k
        rw [h3 k]
        unfold value
        simp only [hc, htyp, hmode, kind_plain c.typ c.mode hg hh]
  obtain ⟨ss, h1, h2, h3⟩ := main
  exact ⟨_, ss, hrec, hc0.2, hhelp.symm, htyp.symm, h1, h2, h3⟩

theorem mapM_spec {α β γ : Type} (fE : α → PyM β) (Q : α → β → Prop) (g : β → γ) (g' : α → γ) (xs : List α)
    (h : ∀ x ∈ xs, ∃ y, fE x = .ok y ∧ Q x y ∧ g y = g' x) :
    ∃ ys, xs.mapM fE = .ok ys ∧ ys.map g = xs.map g' ∧ ∀ y ∈ ys, ∃ x ∈ xs, Q x y := by
  induction xs with
  | nil => exact ⟨[], rfl, rfl, fun y hy => by cases hy⟩
  | cons x r ih =>
    obtain ⟨y, h1, h2, h3⟩ := h x List.mem_cons_self
    obtain ⟨ys, i1, i2, i3⟩ := ih (fun z hz => h z (List.mem_cons_of_mem _ hz))
    refine ⟨y :: ys, ?_, ?_, ?_⟩
    · rw [List.mapM_cons, h1, i1]; rfl
    · simp [h3, i2]
    · intro z hz
      rcases List.mem_cons.mp hz with e | e
      · exact ⟨x, List.mem_cons_self, e ▸ h2⟩
      · obtain ⟨w, hw, hq⟩ := i3 z e
        exact ⟨w, List.mem_cons_of_mem _ hw, hq⟩

/-- **C08, main statement.**  For every listing of well-formed files, `merge` succeeds; it reports exactly the families
    that have a contribution, each once (`families`, `Nodup`); each family carries the help text and type of its
    contributions; its samples are the conversion of a dict `ss` whose keys are pairwise different (no series
    duplicated) and whose value at EVERY key `k` is the spec's `value` — in particular a key is present iff the spec
    gives it a value (no series dropped, none invented). -/
theorem accumulate_eq_spec (vo : VOps V) (bo : BOps B) [DecidableEq B] (fs : List (SFile V)) (h : WFInput bo fs)
    (hk : ∀ mn, typOf fs mn = histogramType → (AL.keys (bucketSeries vo bo mn (contribs fs mn))).Nodup) :
    ∃ out, merge vo bo (fs.map toFile) = .ok out ∧
      out.map (·.name) = families fs ∧ (families fs).Nodup ∧
      ∀ om ∈ out, om.doc = helpOf fs om.name ∧ om.typ = typOf fs om.name ∧
        ∃ ss, om.samples = convert ss ∧ (AL.keys ss).Nodup ∧ ∀ k, AL.get? ss k = value vo bo fs om.name k := by
  unfold merge
  rw [readMetrics_ok fs h.files]
  simp only [bind, Except.bind]
  have hkeys := read_keys (allContribs fs)
  have hnd : (AL.keys ((allContribs fs).foldl readStep [])).Nodup := by rw [hkeys]; exact nodup_distinct _
  obtain ⟨ys, h1, h2, h3⟩ := mapM_spec (fun (nm : Str × Metric V) => accumulateMetric vo bo nm.2)
    (fun nm om => om.name = nm.1 ∧ om.doc = helpOf fs nm.1 ∧ om.typ = typOf fs nm.1 ∧
      ∃ ss, om.samples = convert ss ∧ (AL.keys ss).Nodup ∧ ∀ k, AL.get? ss k = value vo bo fs nm.1 k)
    (·.name) (·.1) ((allContribs fs).foldl readStep [])
    (by
      intro nm hnm
      have hget := AL.get?_of_mem _ hnd nm.1 nm.2 hnm
      rw [read_get?] at hget
      cases hcs : (allContribs fs).filter (fun c => c.key.metric = nm.1) with
      | nil => rw [hcs] at hget; cases hget
      | cons c cs =>
        have hc : contribs fs nm.1 = c :: cs := hcs
        have htyp : typOf fs nm.1 = c.typ := by simp [typOf, hc]
        obtain ⟨m, ss, e1, e2, e3, e4, e5, e6, e7⟩ := family_eq_spec vo bo fs h nm.1 c cs hc
          (fun hh => hk nm.1 (htyp.trans hh))
        rw [hcs, e1] at hget
        have hm : nm.2 = m := (Option.some.inj hget).symm
        refine ⟨⟨m.name, m.doc, m.typ, convert ss⟩, ?_, ⟨e2, e3, e4, ss, rfl, e6, e7⟩, e2⟩
        unfold accumulateMetric
        rw [hm, e5]
        rfl)
  refine ⟨ys, h1, ?_, nodup_distinct _, ?_⟩
  · rw [h2]
    have : ((allContribs fs).foldl readStep []).map (·.1) = AL.keys ((allContribs fs).foldl readStep []) := rfl
    rw [this, hkeys]
    rfl
  · intro om hom
    obtain ⟨nm, _, q1, q2, q3, q4⟩ := h3 om hom
    rw [q1]
    exact ⟨q2, q3, q4⟩

end PromVerif.Props.C08
