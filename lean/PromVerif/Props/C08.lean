/-
C08 — multiprocess collection equals the per-mode aggregate over all worker histories.

Model M: `Model/Multiprocess.lean` (`merge` = `_read_metrics` then `_accumulate_metrics` on a directory listing,
`markProcessDead`).  Spec S: `Spec/Multiprocess.lean` (`value`: per family and series the aggregate the property names).
All theorems quantify over listings of any length with any number of entries per file; values are an abstract type
(`VOps`), bounds an abstract type with decidable equality (`BOps`).  Nothing is assumed about `add`/`lt` except where
a hypothesis says so; `Int` discharges every such hypothesis (non-vacuity examples).

Hypotheses that are genuine restrictions of the input (each probed on the real code):
* `WFInput.no_pid_label`: no gauge has a label NAMED `pid`.  Without it the real collector overwrites (mode all) or
  drops (other modes) the user's label — candidate finding, see `pid_label_collides` below for M exhibiting it.
* `WFInput.one_type/one_mode`: one metric name is written with one type and, for gauges, one mode by all processes.
* `hk` (histograms): the rendered bucket keys of one family are pairwise different, i.e. `floatToGoString` is injective
  on the bounds that occur (C13) — otherwise two bounds would be reported under one `le`.
-/
import PromVerif.Lemmas.MultiprocessCollect
import PromVerif.Lemmas.MultiprocessOutput
import PromVerif.Lemmas.MultiprocessSums

namespace PromVerif.Props.C08
open PromVerif.Py PromVerif.Generated.Multiprocess
open PromVerif.Model.Multiprocess PromVerif.Spec.Multiprocess
set_option autoImplicit false

/-- the extractor found every site of multiprocess.py / values.py / metrics.Gauge in the shape it understands -/
theorem extract_ok : extractOk = true := by decide

variable {V B : Type}



/-- **C08, main statement** (`accumulate_eq_spec_partial`; `_partial`: the property as stated — "label sets are preserved and no
    series is duplicated or dropped" for EVERY gauge — is false on the real code for a gauge that has a label NAMED `pid`
    (`pid_label_collides`); what is missing is exactly that case, excluded by `WFInput.no_pid_label`).
     For every listing of well-formed files, `merge` succeeds; it reports exactly the families
    that have a contribution, each once (`families`, `Nodup`); each family carries the help text and type of its
    contributions; its OUTPUT samples have pairwise different (name, label set) (no series duplicated —
    the final `dict(labels)` conversion is the identity here, `Lemmas/MultiprocessOutput.convert_id`) and are exactly the
    entries of a dict `ss` whose value at EVERY key `k` is the spec's `value` — in particular a key is present iff the spec
    gives it a value (no series dropped, none invented). -/
theorem accumulate_eq_spec_partial (vo : VOps V) (bo : BOps B) [DecidableEq B] (fs : List (SFile V)) (h : WFInput bo fs)
    (hk : ∀ mn, typOf fs mn = histogramType → (AL.keys (bucketSeries vo bo mn (contribs fs mn))).Nodup) :
    ∃ out, merge vo bo (fs.map toFile) = .ok out ∧
      out.map (·.name) = families fs ∧ (families fs).Nodup ∧
      ∀ om ∈ out, om.doc = helpOf fs om.name ∧ om.typ = typOf fs om.name ∧
        (om.samples.map (fun s => (s.name, s.labels))).Nodup ∧
        ∃ ss, om.samples = ss.map (fun kv => (⟨kv.1.1, kv.1.2, kv.2⟩ : OutSample V)) ∧ (AL.keys ss).Nodup ∧
          ∀ k, AL.get? ss k = value vo bo fs om.name k := by
  obtain ⟨out, h1, h2, h3, h4⟩ := accumulate_eq_dict vo bo fs h hk
  refine ⟨out, h1, h2, h3, ?_⟩
  intro om hom
  obtain ⟨q1, q2, ss, e1, e2, e3⟩ := h4 om hom
  have hlab : ∀ kv ∈ ss, (kv.1.2.map (·.1)).Nodup := by
    intro kv hkv
    have hg := AL.get?_of_mem ss e2 kv.1 kv.2 hkv
    rw [e3] at hg
    exact value_key_labels_nodup vo bo fs h om.name kv.1 kv.2 hg
  have hconv := convert_id ss hlab
  refine ⟨q1, q2, ?_, ss, e1.trans hconv, e2, e3⟩
  rw [e1, hconv, List.map_map]
  exact e2

/-! ### histograms: merged per bound, then cumulative; `_count` is the `+Inf` bucket -/

/-- **histogram_merge_cumulative.**  For a histogram family, label set `L` and position `i` in `L`'s bounds sorted
    increasingly: the reported `_bucket` sample with `le = floatToGoString(bound i)` is the sum of the merged counts of
    the bounds up to and including position `i`, where the merged count of a bound (`Spec.merged`) is the sum over ALL
    contributions — every process, dead or alive — to that `(L, bound)`. -/
theorem histogram_merge_cumulative (vo : VOps V) (bo : BOps B) [DecidableEq B] (mn doc : Str) (mode : Option Str)
    (cs : List (Contrib V)) (hty : ∀ c ∈ cs, c.typ ≠ gaugeType)
    (hp : ∀ c ∈ cs, ∀ t, leText c = some t → (bo.parse t).isSome = true)
    (hk : (AL.keys (bucketSeries vo bo mn cs)).Nodup)
    (L : Labels) (hL : L ∈ groups (bucketContribs bo cs)) (i : Nat) (b : B) (m : V)
    (hi : (mergedSorted vo bo (bucketContribs bo cs) L)[i]? = some (b, m)) :
    ∃ ss, accumulateSamples vo bo ⟨mn, doc, histogramType, mode, cs.map toRSample⟩ = .ok ss ∧
      AL.get? ss (mn ++ "_bucket".toList, L ++ [("le".toList, bo.fmt b)])
        = some ((((mergedSorted vo bo (bucketContribs bo cs) L).take (i + 1)).map (·.2)).foldl vo.add vo.zero) := by
  refine ⟨_, family_hist vo bo mn doc mode cs hty hp, ?_⟩
  rw [AL.get?_setAll _ _ hk]
  have hlen : i < (mergedSorted vo bo (bucketContribs bo cs) L).length := by
    obtain ⟨h, _⟩ := List.getElem?_eq_some_iff.mp hi; exact h
  have hv := cumulate_get vo vo.zero (mergedSorted vo bo (bucketContribs bo cs) L) i hlen
  have hf := congrArg (fun l => l[i]?) (cumulate_fst vo vo.zero (mergedSorted vo bo (bucketContribs bo cs) L))
  simp only [List.getElem?_map, hi, Option.map_some] at hf
  cases hc : (cumulate vo vo.zero (mergedSorted vo bo (bucketContribs bo cs) L))[i]? with
  | none => rw [hc] at hf; cases hf
  | some bv =>
    rw [hc] at hf hv
    simp only [Option.map_some, Option.some.injEq] at hf hv
    have hmem : ((mn ++ "_bucket".toList, L ++ [("le".toList, bo.fmt bv.1)]), bv.2)
        ∈ groupSeries vo bo mn (bucketContribs bo cs) L := by
      unfold groupSeries
      apply List.mem_append_left
      exact List.mem_map.mpr ⟨bv, List.mem_iff_getElem?.mpr ⟨i, hc⟩, rfl⟩
    have := AL.get?_of_mem _ hk _ _ (mem_bucketSeries vo bo mn cs L hL _ hmem)
    rw [hf] at this
    rw [this, hv]

/-- **count_eq_inf_bucket.**  `_count` of label set `L` is the grand total of the merged buckets, and it equals the
    reported bucket of the greatest bound; when a bound `top` is above every other bound of `L` (`+Inf`), that is the
    `le = floatToGoString(top)` bucket. -/
theorem count_eq_inf_bucket (vo : VOps V) (bo : BOps B) [DecidableEq B] (mn doc : Str) (mode : Option Str)
    (cs : List (Contrib V)) (hty : ∀ c ∈ cs, c.typ ≠ gaugeType)
    (hp : ∀ c ∈ cs, ∀ t, leText c = some t → (bo.parse t).isSome = true)
    (hk : (AL.keys (bucketSeries vo bo mn cs)).Nodup)
    (L : Labels) (hL : L ∈ groups (bucketContribs bo cs)) (top : B)
    (htop : top ∈ boundsOf (bucketContribs bo cs) L)
    (hbelow : ∀ y ∈ boundsOf (bucketContribs bo cs) L, y ≠ top → bo.lt y top = true)
    (habove : ∀ y ∈ boundsOf (bucketContribs bo cs) L, bo.lt top y = false) :
    ∃ ss, accumulateSamples vo bo ⟨mn, doc, histogramType, mode, cs.map toRSample⟩ = .ok ss ∧
      AL.get? ss (mn ++ "_count".toList, L) = some (countOf vo bo (bucketContribs bo cs) L) ∧
      AL.get? ss (mn ++ "_bucket".toList, L ++ [("le".toList, bo.fmt top)]) = AL.get? ss (mn ++ "_count".toList, L) := by
  refine ⟨_, family_hist vo bo mn doc mode cs hty hp, ?_⟩
  rw [AL.get?_setAll _ _ hk, AL.get?_setAll _ _ hk]
  have hcount : ((mn ++ "_count".toList, L), countOf vo bo (bucketContribs bo cs) L)
      ∈ groupSeries vo bo mn (bucketContribs bo cs) L := by
    unfold groupSeries
    exact List.mem_append_right _ (List.mem_singleton.mpr rfl)
  have h1 := AL.get?_of_mem _ hk _ _ (mem_bucketSeries vo bo mn cs L hL _ hcount)
  have hlast := sortBounds_last bo.lt top (boundsOf (bucketContribs bo cs) L) htop (nodup_distinct _) hbelow habove
  have hms : (mergedSorted vo bo (bucketContribs bo cs) L).getLast?
      = some (top, merged vo (bucketContribs bo cs) L top) := by
    unfold mergedSorted
    rw [List.getLast?_map, hlast]; rfl
  have hcl := cumulate_last vo vo.zero (mergedSorted vo bo (bucketContribs bo cs) L) _ hms
  have hb : ((mn ++ "_bucket".toList, L ++ [("le".toList, bo.fmt top)]), countOf vo bo (bucketContribs bo cs) L)
      ∈ groupSeries vo bo mn (bucketContribs bo cs) L := by
    unfold groupSeries
    apply List.mem_append_left
    refine List.mem_map.mpr ⟨_, List.mem_of_getLast? hcl, rfl⟩
  have h2 := AL.get?_of_mem _ hk _ _ (mem_bucketSeries vo bo mn cs L hL _ hb)
  rw [h1, h2]
  exact ⟨rfl, rfl⟩

/-! ### gauges: what the reported value is -/

/-- min / max / mostrecent: the reported value is extremal / most recent among the contributions to the series, for any
    strict order that is irreflexive and transitive (IEEE `<` is, NaN included; so is `<` on `Int`).
    Ties (equal values, `-0.0` vs `0.0`, equal set-times) are not decided by the statement. -/
theorem gauge_value_declarative (vo : VOps V) (hirr : ∀ a, vo.lt a a = false)
    (htr : ∀ a b c, vo.lt a b = true → vo.lt b c = true → vo.lt a c = true) (cs : List (Contrib V)) (k : SKey) (r : V) :
    (gaugeValue vo .gaugeMin cs k = some r → IsMinimal vo.lt (valuesFor plainKey cs k) r) ∧
    (gaugeValue vo .gaugeMax cs k = some r → IsMaximal vo.lt (valuesFor plainKey cs k) r) ∧
    (gaugeValue vo .gaugeMostRecent cs k = some r →
      IsMostRecent vo ((cs.filter (fun c => plainKey c = k)).map (fun c => (c.value, c.ts))) r) ∧
    (gaugeValue vo .gaugeMostRecent cs k = none →
      ∀ c ∈ cs, plainKey c = k → vo.lt vo.zero (normTs vo c.ts) = false) := by
  refine ⟨aggMin_minimal vo hirr htr _ r, aggMax_maximal vo hirr htr _ r, ?_, ?_⟩
  · exact (aggMostRecent_spec vo hirr htr _).1 r
  · intro h c hc hk
    exact (aggMostRecent_spec vo hirr htr _).2 h (c.value, c.ts)
      (List.mem_map.mpr ⟨c, List.mem_filter.mpr ⟨hc, by simpa using hk⟩, rfl⟩)

/-! ### no series dropped, none invented; labels come from the contributions -/

/-- **help_type_preserved.**  The type `merge` reports for a family (`accumulate_eq_spec_partial`: `typOf`) is the type of
    EVERY contribution to it, and the help text it reports (`helpOf`, the first contribution's) is the help text of every
    contribution as soon as the contributions agree on it (one definition of the metric in all processes; when they
    disagree the library reports the first one listed — the property does not say which). -/
theorem help_type_preserved (bo : BOps B) (fs : List (SFile V)) (hwf : WFInput bo fs) (mn : Str) (c : Contrib V)
    (hc : c ∈ contribs fs mn) :
    typOf fs mn = c.typ ∧ ((∀ c' ∈ contribs fs mn, c'.key.help = c.key.help) → helpOf fs mn = c.key.help) := by
  unfold typOf helpOf
  cases hcs : contribs fs mn with
  | nil => rw [hcs] at hc; cases hc
  | cons c0 r =>
    have h0 : c0 ∈ contribs fs mn := hcs ▸ List.mem_cons_self
    have m0 := mem_contribs h0
    have m1 := mem_contribs hc
    simp only [List.head?_cons, Option.map_some, Option.getD_some]
    refine ⟨(hwf.one_type c0 m0.1 c m1.1 (m0.2.trans m1.2.symm)).symm, ?_⟩
    intro hall
    exact hall c0 (hcs ▸ h0)

/-- **labels_preserved** (label sets; help text and type: `help_type_preserved`; bucket bounds: `bucket_bounds_preserved`): a series has a value
    exactly when some contribution belongs to it, and its name and label set are that contribution's — for sums
    `(name, labels)`, for `all`/`liveall` gauges `labels + {pid}`, for `min`/`max`/`sum` gauges `(name, labels)`; a
    mostrecent series exists only if some contribution to it has a positive set-time. -/
theorem labels_preserved (vo : VOps V) (cs : List (Contrib V)) (k : SKey) :
    ((sumValue vo cs k).isSome = true ↔ ∃ c ∈ cs, plainKey c = k) ∧
    ((gaugeValue vo .gaugeMin cs k).isSome = true ↔ ∃ c ∈ cs, plainKey c = k) ∧
    ((gaugeValue vo .gaugeMax cs k).isSome = true ↔ ∃ c ∈ cs, plainKey c = k) ∧
    ((gaugeValue vo .gaugeSum cs k).isSome = true ↔ ∃ c ∈ cs, plainKey c = k) ∧
    ((gaugeValue vo .gaugeAll cs k).isSome = true ↔ ∃ c ∈ cs, pidKey c = k) := by
  have hs : (sumValue vo cs k).isSome = true ↔ ∃ c ∈ cs, plainKey c = k := by
    rw [← valuesFor_ne_nil]
    unfold sumValue
    cases valuesFor plainKey cs k <;> simp
  have hpick : ∀ better : V → V → Bool, (aggPick better (valuesFor plainKey cs k)).isSome = true ↔
      ∃ c ∈ cs, plainKey c = k := by
    intro better
    rw [← valuesFor_ne_nil]
    cases valuesFor plainKey cs k <;> simp [aggPick]
  refine ⟨hs, hpick _, hpick _, hs, ?_⟩
  rw [← valuesFor_ne_nil]
  simp only [gaugeValue, aggLast]
  cases h : valuesFor pidKey cs k with
  | nil => simp
  | cons v r =>
    simp only [ne_eq, reduceCtorEq, not_false_eq_true, iff_true]
    cases hl : (v :: r).getLast? with
    | none => simp at hl
    | some x => rfl

/-- histogram series come from the contributions too: every bucket/count key carries a contributed label set (without
    `le`) and, for buckets, `le = floatToGoString(b)` for a bound `b` some contribution's `le` text parses to — so if
    `float(floatToGoString(b)) = b` (C13) the reported bound IS the contributed bound -/
theorem bucket_bounds_preserved (vo : VOps V) (bo : BOps B) [DecidableEq B] (mn : Str) (cs : List (Contrib V))
    (k : SKey) (hk : k ∈ AL.keys (bucketSeries vo bo mn cs)) :
    ∃ c ∈ cs, ∃ t b, leText c = some t ∧ bo.parse t = some b ∧
      ((k = (mn ++ "_count".toList, withoutLe c)) ∨
       (∃ c' ∈ cs, ∃ t' b', leText c' = some t' ∧ bo.parse t' = some b' ∧ withoutLe c' = withoutLe c ∧
          k = (mn ++ "_bucket".toList, withoutLe c ++ [("le".toList, bo.fmt b')]))) := by
  unfold bucketSeries AL.keys at hk
  obtain ⟨kv, hkv, rfl⟩ := List.mem_map.mp hk
  obtain ⟨L, hL, hg⟩ := List.mem_flatMap.mp hkv
  -- the group comes from a contribution
  have hLc : ∃ c ∈ cs, ∃ t b, leText c = some t ∧ bo.parse t = some b ∧ withoutLe c = L := by
    have := (mem_distinct _ _).mp hL
    obtain ⟨x, hx, hx1⟩ := List.mem_map.mp this
    obtain ⟨c, hc, t, b, ht, hb, e⟩ := mem_bucketContribs bo cs x hx
    exact ⟨c, hc, t, b, ht, hb, by rw [← hx1, e]⟩
  obtain ⟨c, hc, t, b, ht, hb, hcL⟩ := hLc
  refine ⟨c, hc, t, b, ht, hb, ?_⟩
  unfold groupSeries at hg
  rcases List.mem_append.mp hg with h | h
  · right
    obtain ⟨bv, hbv, rfl⟩ := List.mem_map.mp h
    have hfst : bv.1 ∈ (cumulate vo vo.zero (mergedSorted vo bo (bucketContribs bo cs) L)).map (·.1) :=
      List.mem_map.mpr ⟨bv, hbv, rfl⟩
    rw [cumulate_fst] at hfst
    unfold mergedSorted at hfst
    rw [List.map_map] at hfst
    obtain ⟨b', hb', e⟩ := List.mem_map.mp hfst
    simp only [Function.comp] at e
    have hb2 := (mem_distinct _ _).mp ((mem_sortBounds _ _ _).mp hb')
    obtain ⟨x, hx, hx1⟩ := List.mem_map.mp hb2
    have hxm := List.mem_filter.mp hx
    obtain ⟨c', hc', t', b'', ht', hbp, e'⟩ := mem_bucketContribs bo cs x hxm.1
    have hxL : x.1 = L := by simpa using hxm.2
    refine ⟨c', hc', t', b'', ht', hbp, ?_, ?_⟩
    · rw [hcL, ← hxL, e']
    · rw [hcL, ← e, ← hx1, e']
  · left
    simp only [List.mem_singleton] at h
    rw [h, hcL]

/-! ### `mark_process_dead` -/

/-- **live_modes_ignore_dead.**  `mark_process_dead(pid)` removes exactly the files of gauges in a `live*` mode written
    under `pid` and nothing else: afterwards the listing is `afterDeath pid` of the old one — every counter, summary,
    histogram and non-live gauge file of the dead process is still there (so `accumulate_eq_spec_partial` on the new listing
    sums dead processes for those and ranges over live processes only for `live*` gauges). -/
theorem live_modes_ignore_dead (pid : Str) (hp : '_' ∉ pid) (fs : List (SFile V)) (hf : ∀ f ∈ fs, WFFile f)
    (hm : ∀ f ∈ fs, f.typ = gaugeType → f.mode ∈ gaugeModes) :
    markProcessDead pid (fs.map toFile) = (afterDeath pid fs).map toFile := by
  unfold markProcessDead afterDeath
  rw [List.filter_map]
  congr 1
  apply List.filter_congr
  intro f hfm
  simp only [Function.comp]
  congr 1
  rw [Bool.eq_iff_iff, dead_pred f (hf f hfm) pid hp]
  simp only [Bool.and_eq_true, decide_eq_true_eq]
  have e : gaugeType = "gauge".toList := by decide
  constructor
  · rintro ⟨h1, h2, h3⟩
    exact ⟨⟨e ▸ h1, ((liveModes_spec f.mode).mp h2).2⟩, h3⟩
  · rintro ⟨⟨h1, h2⟩, h3⟩
    have hg : f.typ = gaugeType := e ▸ h1
    exact ⟨hg, (liveModes_spec f.mode).mpr ⟨hm f hfm hg, h2⟩, h3⟩

theorem afterDeath_keeps (pid : Str) (fs : List (SFile V)) (f : SFile V) (hf : f ∈ fs)
    (h : f.typ ≠ "gauge".toList ∨ "live".toList.isPrefixOf f.mode = false ∨ f.pid ≠ pid) : f ∈ afterDeath pid fs := by
  unfold afterDeath
  rw [List.mem_filter]
  refine ⟨hf, ?_⟩
  rcases h with h | h | h
  · rw [decide_eq_false h]; rfl
  · rw [h]; simp
  · rw [decide_eq_false h]; simp

/-! ### independence of the listing order -/

/-- **accumulate_perm** (`_partial`: order-independence is proved for every value that is a sum and for the admissible
    answers of min/max; NOT proved: equality of the whole output, which would need (i) a total order on bounds to make
    the sorted bucket list canonical and (ii) fails anyway for mostrecent/min/max ties, which the property leaves open).
     In a commutative semigroup every value that is a SUM — counter, summary and plain histogram
    series, `sum`/`livesum` gauges, and the merged count of every histogram bucket — does not depend on the order in
    which the directory is listed; for `min`/`max` the set of admissible answers (`IsMinimal`/`IsMaximal`) does not. -/
theorem accumulate_perm_partial (vo : VOps V) (hcomm : ∀ a b, vo.add a b = vo.add b a)
    (hassoc : ∀ a b c, vo.add (vo.add a b) c = vo.add a (vo.add b c))
    (fs fs' : List (SFile V)) (h : fs.Perm fs') (mn : Str) (k : SKey) :
    sumValue vo (contribs fs mn) k = sumValue vo (contribs fs' mn) k ∧
    gaugeValue vo .gaugeSum (contribs fs mn) k = gaugeValue vo .gaugeSum (contribs fs' mn) k ∧
    (∀ r, IsMinimal vo.lt (valuesFor plainKey (contribs fs mn) k) r ↔
          IsMinimal vo.lt (valuesFor plainKey (contribs fs' mn) k) r) ∧
    (∀ r, IsMaximal vo.lt (valuesFor plainKey (contribs fs mn) k) r ↔
          IsMaximal vo.lt (valuesFor plainKey (contribs fs' mn) k) r) := by
  have hp : (valuesFor plainKey (contribs fs mn) k).Perm (valuesFor plainKey (contribs fs' mn) k) := by
    unfold valuesFor
    exact ((contribs_perm fs fs' h mn).filter _).map _
  have hs : sumValue vo (contribs fs mn) k = sumValue vo (contribs fs' mn) k := by
    unfold sumValue
    cases h1 : valuesFor plainKey (contribs fs mn) k with
    | nil =>
      rw [h1] at hp
      rw [List.Perm.nil_eq hp]
    | cons v r =>
      cases h2 : valuesFor plainKey (contribs fs' mn) k with
      | nil => rw [h1, h2] at hp; exact absurd hp.symm.nil_eq (by simp)
      | cons v' r' =>
        simp only
        rw [← h1, ← h2, aggSum_perm vo hcomm hassoc _ _ hp]
  refine ⟨hs, hs, ?_, ?_⟩
  · intro r
    unfold IsMinimal
    constructor
    · rintro ⟨h1, h2⟩; exact ⟨hp.mem_iff.mp h1, fun v hv => h2 v (hp.mem_iff.mpr hv)⟩
    · rintro ⟨h1, h2⟩; exact ⟨hp.mem_iff.mpr h1, fun v hv => h2 v (hp.mem_iff.mp hv)⟩
  · intro r
    unfold IsMaximal
    constructor
    · rintro ⟨h1, h2⟩; exact ⟨hp.mem_iff.mp h1, fun v hv => h2 v (hp.mem_iff.mpr hv)⟩
    · rintro ⟨h1, h2⟩; exact ⟨hp.mem_iff.mpr h1, fun v hv => h2 v (hp.mem_iff.mp hv)⟩

/-- the merged count of a histogram bucket is order-independent as well -/
theorem merged_perm (vo : VOps V) (bo : BOps B) [DecidableEq B] (hcomm : ∀ a b, vo.add a b = vo.add b a)
    (hassoc : ∀ a b c, vo.add (vo.add a b) c = vo.add a (vo.add b c))
    (fs fs' : List (SFile V)) (h : fs.Perm fs') (mn : Str) (L : Labels) (b : B) :
    merged vo (bucketContribs bo (contribs fs mn)) L b = merged vo (bucketContribs bo (contribs fs' mn)) L b := by
  unfold merged
  apply aggSum_perm vo hcomm hassoc
  unfold bucketContribs
  exact (((contribs_perm fs fs' h mn).filterMap _).filter _).map _

theorem head_typ_perm (bo : BOps B) (fs fs' : List (SFile V)) (h : fs.Perm fs') (hwf : WFInput bo fs) (mn : Str) :
    typOf fs mn = typOf fs' mn ∧ modeOf fs mn = modeOf fs' mn ∨
    (typOf fs mn = typOf fs' mn ∧ typOf fs mn ≠ gaugeType) := by
  have hp := contribs_perm fs fs' h mn
  unfold typOf modeOf
  cases h1 : contribs fs mn with
  | nil =>
    rw [h1] at hp
    rw [List.Perm.nil_eq hp]
    exact Or.inl ⟨rfl, rfl⟩
  | cons c r =>
    cases h2 : contribs fs' mn with
    | nil => rw [h1, h2] at hp; exact absurd hp.symm.nil_eq (by simp)
    | cons c' r' =>
      have hc : c ∈ contribs fs mn := h1 ▸ List.mem_cons_self
      have hc' : c' ∈ contribs fs mn := hp.mem_iff.mpr (h2 ▸ List.mem_cons_self)
      have m1 := mem_contribs hc
      have m2 := mem_contribs hc'
      have ht := hwf.one_type c m1.1 c' m2.1 (m1.2.trans m2.2.symm)
      simp only [List.head?_cons, Option.map_some, Option.getD_some]
      by_cases hg : c.typ = gaugeType
      · exact Or.inl ⟨ht.symm, (hwf.one_mode c m1.1 c' m2.1 (m1.2.trans m2.2.symm) hg).symm⟩
      · exact Or.inr ⟨ht.symm, hg⟩

/-- **value_perm** (task: whole-output equality under permutation of the listing; `_partial`): for a well-formed listing
    and any permutation of it, the value the spec (hence the collector, by `accumulate_eq_spec_partial`) assigns to EVERY
    series key of a family is the same, when the family is a counter/summary/other sum-valued type or a `sum`/`livesum`
    gauge (commutative semigroup), or a `min`/`max` gauge whose contributed values are strictly totally ordered by
    `lt`.  Not covered (hence `_partial`): histograms — the bucket list is sorted by insertion sort, canonical only for
    a total order on bounds, not proved; `mostrecent` and `all`, and min/max with ties (`-0.0`/`0.0`, NaN), where the
    result genuinely depends on the listing order and the property allows any admissible answer. -/
theorem value_perm_partial (vo : VOps V) (bo : BOps B) [DecidableEq B] (hcomm : ∀ a b, vo.add a b = vo.add b a)
    (hassoc : ∀ a b c, vo.add (vo.add a b) c = vo.add a (vo.add b c))
    (hirr : ∀ a, vo.lt a a = false) (htr : ∀ a b c, vo.lt a b = true → vo.lt b c = true → vo.lt a c = true)
    (fs fs' : List (SFile V)) (h : fs.Perm fs') (hwf : WFInput bo fs) (mn : Str) (k : SKey)
    (hkind : kindOf (typOf fs mn) (modeOf fs mn) = .plainSum ∨ kindOf (typOf fs mn) (modeOf fs mn) = .gaugeSum ∨
      ((kindOf (typOf fs mn) (modeOf fs mn) = .gaugeMin ∨ kindOf (typOf fs mn) (modeOf fs mn) = .gaugeMax) ∧
        ∀ a ∈ valuesFor plainKey (contribs fs mn) k, ∀ b ∈ valuesFor plainKey (contribs fs mn) k, a ≠ b →
          vo.lt a b = true ∨ vo.lt b a = true)) :
    value vo bo fs mn k = value vo bo fs' mn k := by
  have hk : kindOf (typOf fs mn) (modeOf fs mn) = kindOf (typOf fs' mn) (modeOf fs' mn) := by
    rcases head_typ_perm bo fs fs' h hwf mn with ⟨e1, e2⟩ | ⟨e1, hng⟩
    · rw [e1, e2]
    · rw [← e1]
      have e : gaugeType = "gauge".toList := by decide
      have hng' : typOf fs mn ≠ "gauge".toList := by rw [← e]; exact hng
      unfold kindOf
      rw [if_neg hng', if_neg hng']
  have hperm := accumulate_perm_partial vo hcomm hassoc fs fs' h mn k
  have hp : (valuesFor plainKey (contribs fs mn) k).Perm (valuesFor plainKey (contribs fs' mn) k) := by
    unfold valuesFor
    exact ((contribs_perm fs fs' h mn).filter _).map _
  unfold value
  simp only
  rw [← hk]
  rcases hkind with hk1 | hk1 | ⟨hk1 | hk1, htot⟩ <;> rw [hk1]
  · exact hperm.1
  · exact hperm.2.1
  · simp only [gaugeValue, aggMin]
    exact aggPick_perm_total vo.lt hirr htr _ _ hp htot
  · simp only [gaugeValue, aggMax]
    exact aggPick_perm_total (fun x c => vo.lt c x) hirr (fun a b c h1 h2 => htr c b a h2 h1) _ _ hp
      (fun a ha b hb hne => (htot a ha b hb hne).symm)

/-! ### the statement about WORKER HISTORIES: writer (C09) composed with reader (C08) -/

open PromVerif.Model.Values in
/-- bounds reach the collector as parsed `le` texts -/
theorem bound_is_parsed (bo : BOps B) [DecidableEq B] (cs : List (Contrib V)) (L : Labels) (b : B)
    (hb : b ∈ boundsOf (bucketContribs bo cs) L) : ∃ t, bo.parse t = some b := by
  have := (mem_distinct _ _).mp hb
  obtain ⟨x, hx, rfl⟩ := List.mem_map.mp this
  obtain ⟨c, _, t, b', _, hp, e⟩ := mem_bucketContribs bo cs x (List.mem_filter.mp hx).1
  exact ⟨t, by rw [hp, e]⟩

open PromVerif.Model.Values in
/-- **collect_workers** (`mpCollect (files (runWorkers hs)) = aggregate (perProcessValues hs)`; `_partial`, see below).
    Take ANY world history from an empty directory: any number of worker generations (`spawn`), each performing any
    sequence of value-level calls with identity changes at any points (`op`), `mark_process_dead` at any points (`dead`),
    pids reused at will.  Let `D` be the directory it leaves.  Then the collector, run on the listing of `D`,
    * succeeds, reports each family once with the help text and type of its contributions, and for every series key the
      per-mode aggregate `Spec.value` over the contributions (as `accumulate_eq_spec_partial`), where
    * every contribution is ONE identity's entry of ONE series — `c.key = mmap_key` of a constructed value object `q`, in
      the file `<prefix of q>_<c.pid>.db` — and its `(value, set-time)` is the fold, over the world's log, of the updates
      issued UNDER `c.pid` (increments add, sets replace; whichever generation issued them) and of the deaths of `c.pid`
      (which wipe it iff the file is a live-gauge file).
    So counters, summaries and histogram cells sum, over all identities dead or alive, everything ever incremented
    (`worker_sums_partial` below makes the sum explicit); `all` gauges show each identity's own last value; min/max/sum/
    mostrecent range over the identities' own values; live modes only over identities not marked dead since they wrote.
    Remaining hypotheses (`_partial`): `hu` — every INCREMENT goes through a FRESH value object (`wFresh`: nothing else has written
    its entry since it last read or wrote it; all objects are fresh after an identity change and after construction; an
    update through one object makes the others on its key stale) — this covers dropped children after `remove()`/`clear()`
    and a kept old handle used again after an identity change; the real code loses updates when two objects on one key
    are incremented alternately inside one identity epoch: `C09.two_objects_lose_updates`; `GoodPS.no_pid_label` (known finding F24);
    `GoodPS.consistent` — one type and gauge mode per metric name; identities free of `_`; `hfmt` — the bound formatter is
    injective on parsed bounds (C13: `Props.C13Injective.go_injective_texts` via `fmt_injective_of_repr`).  Simultaneously running workers are represented by
    listing each worker's calls contiguously: they have distinct identities, hence touch disjoint files
    (`C09.writes_only_own_files`) and commute — this commutation is argued, not proved. -/
theorem collect_workers_partial (vo : VOps V) (bo : BOps B) [DecidableEq B] (PS : List Params) (hPS : GoodPS bo PS)
    (p0 : Str) (hp0 : '_' ∉ p0) (evs : List (Ev V)) (hev : evsIdOK evs) (hkn : ∀ e ∈ evs, evKnown PS e)
    (hu : wFresh vo (St.init p0) (fun _ => true) evs = true)
    (hfmt : ∀ t t' b b', bo.parse t = some b → bo.parse t' = some b' → bo.fmt b = bo.fmt b' → b = b') :
    let D := (wrun vo (St.init p0) evs).disk
    ∃ out, merge vo bo (listing D) = .ok out ∧
      out.map (·.name) = families (sfiles D) ∧ (families (sfiles D)).Nodup ∧
      (∀ om ∈ out, om.doc = helpOf (sfiles D) om.name ∧ om.typ = typOf (sfiles D) om.name ∧
        (om.samples.map (fun s => (s.name, s.labels))).Nodup ∧
        ∃ ss, om.samples = ss.map (fun kv => (⟨kv.1.1, kv.1.2, kv.2⟩ : OutSample V)) ∧ (AL.keys ss).Nodup ∧
          ∀ k, AL.get? ss k = value vo bo (sfiles D) om.name k) ∧
      (∀ c ∈ allContribs (sfiles D), ∃ q ∈ PS, c.typ = q.typ ∧ (c.typ = gaugeType → c.mode = q.mode) ∧
        c.key = mmapKey q ∧ '_' ∉ c.pid ∧
        (c.value, c.ts) = (wLog vo (filePrefix q) (mmapKey q) p0 p0 [] evs).foldl
          (wOwnStep vo (isLiveFileOf c.pid (fileName (filePrefix q) c.pid)) c.pid) (vo.zero, vo.zero)) := by
  intro D
  have hw := wrun_diskOK vo PS evs (St.init p0) (bound_init p0) ⟨hp0, hp0⟩
    ⟨diskOK_nil PS, fun v hv => by cases hv⟩ hev hkn
  have hdisk : DiskOK PS D := hw.1.disk
  have hwf := wfinput_sfiles bo PS hPS D hdisk
  have hk : ∀ mn, typOf (sfiles D) mn = histogramType →
      (AL.keys (bucketSeries vo bo mn (contribs (sfiles D) mn))).Nodup := by
    intro mn _
    apply bucketSeries_keys_nodup
    intro L _ b hb b' hb' e
    obtain ⟨t, ht⟩ := bound_is_parsed bo _ L b hb
    obtain ⟨t', ht'⟩ := bound_is_parsed bo _ L b' hb'
    exact hfmt t t' b b' ht ht' e
  obtain ⟨out, h1, h2, h3, h4⟩ := accumulate_eq_spec_partial vo bo (sfiles D) hwf hk
  refine ⟨out, ?_, h2, h3, h4, ?_⟩
  · rw [listing_eq PS hPS.good D hdisk]; exact h1
  · intro c hc
    obtain ⟨q, hq, e1, e2, e3, e4, e5⟩ := contrib_char PS hPS.good D hdisk c hc
    refine ⟨q, hq, e1, e2, e3, e4, ?_⟩
    have := wrun_cell_fresh vo (filePrefix q) (mmapKey q) c.pid e4 evs (St.init p0) _ (bound_init p0) (freshInv_init vo p0 _)
      ⟨hp0, hp0⟩ hev hu
    have hcv : cellVal vo (wrun vo (St.init p0) evs).disk (fileName (filePrefix q) c.pid) (mmapKey q) = (c.value, c.ts) := by
      unfold cellVal
      rw [← e3]
      show (cellGet D _ _).getD _ = _
      rw [e5]; rfl
    rw [hcv] at this
    exact this

open PromVerif.Model.Values in
/-- **worker_sums** (`_partial`, same hypotheses as `collect_workers_partial`): for a counter, summary or histogram
    value object `q` and ANY selection of keys that singles out `q`'s key among the constructed value objects (e.g. "this
    sample name and label set of this family", or "this label set and this parsed bucket bound"), the sum the collector
    forms over the selected contributions — all files, all identities, dead or alive, reused or not — equals the sum of
    ALL increments ever issued to that series by all worker generations, in a commutative monoid, provided the series
    is only incremented.  `pids`: any duplicate-free list of `_`-free identities containing those that incremented. -/
theorem worker_sums_partial (vo : VOps V) (bo : BOps B) (hcomm : ∀ a b, vo.add a b = vo.add b a)
    (hassoc : ∀ a b c, vo.add (vo.add a b) c = vo.add a (vo.add b c)) (hzero : ∀ a, vo.add vo.zero a = a)
    (PS : List Params) (hPS : GoodPS bo PS) (p0 : Str) (hp0 : '_' ∉ p0) (evs : List (Ev V)) (hev : evsIdOK evs)
    (hkn : ∀ e ∈ evs, evKnown PS e) (hu : wFresh vo (St.init p0) (fun _ => true) evs = true)
    (q : Params) (hq : q ∈ PS) (hng : q.typ ≠ gaugeType)
    (sel : Key → Bool) (hK : sel (mmapKey q) = true)
    (hsel : ∀ q' ∈ PS, sel (mmapKey q') = true → mmapKey q' = mmapKey q)
    (pids : List Str) (hnd : pids.Nodup) (hpids : ∀ p ∈ pids, '_' ∉ p)
    (hinc : ∀ u ∈ wUpds (wLog vo q.typ (mmapKey q) p0 p0 [] evs), ∃ r a, u = Upd.inc r a ∧ r ∈ pids) :
    aggSum vo (((allContribs (sfiles (wrun vo (St.init p0) evs).disk)).filter (fun c => sel c.key)).map (·.value))
      = incTotal vo (wUpds (wLog vo q.typ (mmapKey q) p0 p0 [] evs)) := by
  have hw := wrun_diskOK vo PS evs (St.init p0) (bound_init p0) ⟨hp0, hp0⟩
    ⟨diskOK_nil PS, fun v hv => by cases hv⟩ hev hkn
  have hdisk := hw.1.disk
  have hpre : filePrefix q = q.typ := by unfold filePrefix; rw [if_neg hng]
  have hgq := hPS.good q hq
  -- entries with a selected key have q's key, and sit in files of q's prefix only
  have hentry : ∀ f ∈ (wrun vo (St.init p0) evs).disk, ∀ e ∈ f.2, sel e.1 = true → e.1 = mmapKey q := by
    intro f hf e he hs
    obtain ⟨q0, _, pid, _, _, hst⟩ := hdisk.files f hf
    obtain ⟨q', hq', hk, _⟩ := hst.2 e he
    rw [hk] at hs ⊢
    exact hsel q' hq' hs
  rw [selected_values vo hcomm hzero _ hdisk.names
    (fun f hf => by obtain ⟨_, _, _, _, _, hst⟩ := hdisk.files f hf; exact hst.1) sel (mmapKey q) hK hentry]
  have hC : (pids.map (fileName q.typ)).Nodup := by
    apply nodup_map_on _ _ hnd
    intro a ha b hb e
    exact (fileName_inj _ _ _ _ (hpids a ha) (hpids b hb) e).2
  rw [aggSum_support vo hcomm hassoc hzero _ (pids.map (fileName q.typ)) hdisk.names hC]
  · rw [List.map_map]
    exact world_sum vo hcomm hassoc hzero p0 hp0 evs hev hu q.typ (mmapKey q) pids hnd hpids
      (fun p hp => nonlive_prefix q.typ hgq.typ p p (hpids p hp) (hpids p hp)) hinc
  · -- a file of the directory that is not `<typ>_<p>.db` for a listed p holds nothing (or zero) under q's key
    intro fn hfn hnc
    obtain ⟨f, hf, rfl⟩ := List.mem_map.mp hfn
    obtain ⟨q0, hq0, pid, hpid, hn, hst⟩ := hdisk.files f hf
    cases hg : AL.get? f.2 (mmapKey q) with
    | none =>
      unfold cellVal cellGet
      rw [AL.getD_eq, AL.get?_of_mem _ hdisk.names f.1 f.2 hf, Option.getD_some, hg]; rfl
    | some vt =>
      have hmem := AL.mem_of_get? _ _ _ hg
      obtain ⟨q', hq', hk, hpp⟩ := hst.2 _ hmem
      have hmet : q.metric = q'.metric := by have := congrArg Key.metric hk; simpa [mmapKey] using this
      have hty := (hPS.consistent q hq q' hq' hmet).1
      have hpre0 : filePrefix q0 = q.typ := by
        rw [← hpp]; unfold filePrefix; rw [hty, if_neg hng]
      rw [hn, hpre0] at hnc ⊢
      have hp' : pid ∉ pids := fun h => hnc (List.mem_map.mpr ⟨pid, h, rfl⟩)
      rw [wrun_cell_fresh vo q.typ (mmapKey q) pid hpid evs (St.init p0) _ (bound_init p0) (freshInv_init vo p0 _)
          ⟨hp0, hp0⟩ hev hu,
        nonlive_prefix q.typ hgq.typ pid pid hpid hpid, foldl_wOwn_nonlive]
      show ((wUpds (wLog vo q.typ (mmapKey q) p0 p0 [] evs)).foldl (ownStep vo pid) _).1 = vo.zero
      rw [foldl_ownStep_foreign vo pid _ pids hp' hinc]
      rfl
  · intro fn hfn hna
    have : AL.get? (wrun vo (St.init p0) evs).disk fn = none := (AL.get?_eq_none_iff _ _).mpr hna
    unfold cellVal cellGet
    rw [AL.getD_eq, this]; rfl

open PromVerif.Model.Values in
/-- **collected_sum_is_all_increments** (`_partial`, as above): the value the spec — hence, by `collect_workers_partial`,
    the collector — assigns to the series `(sample name, labels)` of a counter / summary / histogram `_sum` value
    object `q` is the sum of all increments ever issued to it, over all worker generations and identities. -/
theorem collected_sum_is_all_increments_partial (vo : VOps V) (bo : BOps B)
    (hcomm : ∀ a b, vo.add a b = vo.add b a)
    (hassoc : ∀ a b c, vo.add (vo.add a b) c = vo.add a (vo.add b c)) (hzero : ∀ a, vo.add vo.zero a = a)
    (PS : List Params) (hPS : GoodPS bo PS) (p0 : Str) (hp0 : '_' ∉ p0) (evs : List (Ev V)) (hev : evsIdOK evs)
    (hkn : ∀ e ∈ evs, evKnown PS e) (hu : wFresh vo (St.init p0) (fun _ => true) evs = true)
    (q : Params) (hq : q ∈ PS) (hng : q.typ ≠ gaugeType)
    (hhelp : ∀ q' ∈ PS, q'.metric = q.metric → (mmapKey q').name = (mmapKey q).name →
      (mmapKey q').labels = (mmapKey q).labels → mmapKey q' = mmapKey q)
    (pids : List Str) (hnd : pids.Nodup) (hpids : ∀ p ∈ pids, '_' ∉ p)
    (hinc : ∀ u ∈ wUpds (wLog vo q.typ (mmapKey q) p0 p0 [] evs), ∃ r a, u = Upd.inc r a ∧ r ∈ pids) (r : V)
    (hr : sumValue vo (contribs (sfiles (wrun vo (St.init p0) evs).disk) q.metric)
      ((mmapKey q).name, (mmapKey q).labels) = some r) :
    r = incTotal vo (wUpds (wLog vo q.typ (mmapKey q) p0 p0 [] evs)) := by
  have hsum := worker_sums_partial vo bo hcomm hassoc hzero PS hPS p0 hp0 evs hev hkn hu q hq hng
    (fun key => decide (plainKey (⟨[], [], [], key, vo.zero, vo.zero⟩ : Contrib V) = ((mmapKey q).name, (mmapKey q).labels))
      && decide (key.metric = q.metric))
    (by simp [plainKey, mmapKey])
    (by
      intro q' hq' hs
      simp only [plainKey, Bool.and_eq_true, decide_eq_true_eq, Prod.mk.injEq] at hs
      exact hhelp q' hq' hs.2 hs.1.1 hs.1.2)
    pids hnd hpids hinc
  rw [← hsum]
  unfold sumValue valuesFor contribs at hr
  rw [List.filter_filter] at hr
  have hl : ((allContribs (sfiles (wrun vo (St.init p0) evs).disk)).filter (fun a =>
        decide (plainKey a = ((mmapKey q).name, (mmapKey q).labels)) && decide (a.key.metric = q.metric))).map (·.value)
      = ((allContribs (sfiles (wrun vo (St.init p0) evs).disk)).filter (fun c =>
        decide (plainKey (⟨[], [], [], c.key, vo.zero, vo.zero⟩ : Contrib V) = ((mmapKey q).name, (mmapKey q).labels))
          && decide (c.key.metric = q.metric))).map (·.value) := rfl
  rw [hl] at hr
  cases hv : ((allContribs (sfiles (wrun vo (St.init p0) evs).disk)).filter (fun c =>
      decide (plainKey (⟨[], [], [], c.key, vo.zero, vo.zero⟩ : Contrib V) = ((mmapKey q).name, (mmapKey q).labels))
        && decide (c.key.metric = q.metric))).map (·.value) with
  | nil => rw [hv] at hr; cases hr
  | cons v vs => rw [hv] at hr; exact (Option.some.inj hr).symm

open PromVerif.Model.Values in
/-- **series_present_iff** (which series exist; no uniqueness assumption).  After any world history, the collector reads a
    contribution of identity `p` to the series of value object `q` — for an `all`/`liveall` gauge: exposes the series
    `q.name{…, pid="p"}` (`labels_preserved`, `gaugeAll`); for min/max/sum: counts `p`'s value in — EXACTLY when
    `wPresent`: while `p` was the acting identity some call constructed a value object on `q`'s (prefix, key) or re-bound
    one (the first call after an identity change re-binds every value object of the worker, creating its entry at zero),
    and, for a live mode, `p` was not marked dead afterwards.  So there is one `pid=` series per identity that HELD the
    child, including zero-valued entries created by re-binding; none is dropped and none appears otherwise. -/
theorem series_present_iff (vo : VOps V) (bo : BOps B) (PS : List Params) (hPS : GoodPS bo PS)
    (p0 : Str) (hp0 : '_' ∉ p0) (evs : List (Ev V)) (hev : evsIdOK evs) (hkn : ∀ e ∈ evs, evKnown PS e)
    (q : Params) (hq : q ∈ PS) (p : Str) (hp : '_' ∉ p) :
    (∃ c ∈ allContribs (sfiles (wrun vo (St.init p0) evs).disk),
        c.key = mmapKey q ∧ c.pid = p ∧ c.typ = q.typ ∧ (q.typ = gaugeType → c.mode = q.mode))
    ↔ wPresent (filePrefix q) (mmapKey q) p (isLiveFileOf p (fileName (filePrefix q) p)) p0 p0 [] evs false = true := by
  have hw := wrun_diskOK vo PS evs (St.init p0) (bound_init p0) ⟨hp0, hp0⟩
    ⟨diskOK_nil PS, fun v hv => by cases hv⟩ hev hkn
  have hdisk := hw.1.disk
  have hpres : has (wrun vo (St.init p0) evs).disk (fileName (filePrefix q) p) (mmapKey q)
      = wPresent (filePrefix q) (mmapKey q) p (isLiveFileOf p (fileName (filePrefix q) p)) p0 p0 [] evs false :=
    wrun_has vo (filePrefix q) (mmapKey q) p hp evs (St.init p0) (bound_init p0) ⟨hp0, hp0⟩ hev
  rw [← hpres]
  constructor
  · rintro ⟨c, hc, e1, e2, e3, e4⟩
    obtain ⟨q', hq', t1, t2, k1, _, hcell⟩ := contrib_char PS hPS.good _ hdisk c hc
    have hpre : filePrefix q' = filePrefix q := by
      unfold filePrefix
      have ht : q'.typ = q.typ := by rw [← t1, e3]
      by_cases hg : q.typ = gaugeType
      · have hm : q'.mode = q.mode := by rw [← t2 (e3.trans hg), e4 hg]
        rw [ht, hm]
      · rw [ht, if_neg hg, if_neg hg]
    rw [hpre, e2, e1] at hcell
    unfold has
    rw [hcell]; rfl
  · intro h
    exact contrib_of_cell PS hPS.good _ hdisk q hq p hp h

/-! ### non-vacuity, and the counter-example behind `no_pid_label` -/

/-- `Int` values (a commutative monoid with a strict order), natural-number bounds read from decimal digits and rendered in unary (injective, structurally recursive) -/
def intV : VOps Int := ⟨0, (· + ·), (fun a b => decide (a < b)), (fun a b => decide (a ≤ b)), (fun x => x != 0)⟩

def natB : BOps Nat := ⟨fun s => some (parseDigits s), (fun a b => decide (a < b)), fun n => List.replicate n '|'⟩

def kC : Key := ⟨"c".toList, "c_total".toList, [], "counts".toList⟩

def kG : Key := ⟨"g".toList, "g".toList, [("l".toList, "x".toList)], "a gauge".toList⟩

def kHb (le : String) : Key := ⟨"h".toList, "h_bucket".toList, [("le".toList, le.toList)], "a histogram".toList⟩

def kHs : Key := ⟨"h".toList, "h_sum".toList, [], "a histogram".toList⟩

/-- two processes; process 1 is listed first; a counter, a `livemin` gauge with a tie-free pair of values, and a
    histogram whose bounds arrive in different orders in the two files -/
def demoFiles : List (SFile Int) :=
  [⟨"counter".toList, [], "1".toList, [(kC, 2, 0)]⟩,
   ⟨"gauge".toList, "livemin".toList, "1".toList, [(kG, 5, 0)]⟩,
   ⟨"histogram".toList, [], "1".toList, [(kHs, 7, 0), (kHb "1", 1, 0), (kHb "5", 2, 0), (kHb "100", 0, 0)]⟩,
   ⟨"counter".toList, [], "2".toList, [(kC, 3, 0)]⟩,
   ⟨"gauge".toList, "livemin".toList, "2".toList, [(kG, -1, 0)]⟩,
   ⟨"histogram".toList, [], "2".toList, [(kHb "100", 4, 0), (kHs, 1, 0), (kHb "5", 1, 0), (kHb "1", 0, 0)]⟩]

theorem demo_wf : WFInput natB demoFiles := by
  refine ⟨?_, by decide, by decide, by decide, by decide, fun _ _ _ _ _ => rfl, by decide⟩
  intro f hf
  simp only [demoFiles, List.mem_cons, List.not_mem_nil, or_false] at hf
  rcases hf with h | h | h | h | h | h <;> subst h <;> exact ⟨by decide, by decide, by decide, by decide⟩

theorem demo_keys : ∀ mn, typOf demoFiles mn = histogramType →
    (AL.keys (bucketSeries intV natB mn (contribs demoFiles mn))).Nodup := by
  intro mn h
  obtain ⟨c, hc, hct⟩ := typOf_mem demoFiles mn _ h (by decide)
  have hm := mem_contribs hc
  have : ∀ c ∈ allContribs demoFiles, c.typ = histogramType → c.key.metric = "h".toList := by decide
  have e : mn = "h".toList := by rw [← hm.2]; exact this c hm.1 hct
  subst e
  decide

/-- the hypotheses of `accumulate_eq_spec_partial` are satisfiable by a non-trivial listing -/
example : ∃ out, merge intV natB (demoFiles.map toFile) = .ok out ∧
    out.map (·.name) = families demoFiles ∧ (families demoFiles).Nodup ∧
    ∀ om ∈ out, om.doc = helpOf demoFiles om.name ∧ om.typ = typOf demoFiles om.name ∧
      (om.samples.map (fun s => (s.name, s.labels))).Nodup ∧
      ∃ ss, om.samples = ss.map (fun kv => (⟨kv.1.1, kv.1.2, kv.2⟩ : OutSample Int)) ∧ (AL.keys ss).Nodup ∧
        ∀ k, AL.get? ss k = value intV natB demoFiles om.name k :=
  accumulate_eq_spec_partial intV natB demoFiles demo_wf demo_keys

/-- … and what it computes there: counter 2+3, livemin min(5,-1), buckets 1|5|100 merged to 1|3|4 then cumulated to
    1|4|8, `_count` 8, `_sum` 8 -/
example : value intV natB demoFiles "c".toList ("c_total".toList, []) = some 5 := by decide

example : value intV natB demoFiles "g".toList ("g".toList, [("l".toList, "x".toList)]) = some (-1) := by decide

example : value intV natB demoFiles "h".toList ("h_bucket".toList, [("le".toList, natB.fmt 5)]) = some 4 := by decide

example : value intV natB demoFiles "h".toList ("h_bucket".toList, [("le".toList, natB.fmt 100)]) = some 8 := by decide

example : value intV natB demoFiles "h".toList ("h_count".toList, []) = some 8 := by decide

example : value intV natB demoFiles "h".toList ("h_sum".toList, []) = some 8 := by decide

/-- after process 2 is marked dead its `livemin` file is gone (min becomes 5) while its counter still counts -/
example : value intV natB (afterDeath "2".toList demoFiles) "g".toList ("g".toList, [("l".toList, "x".toList)]) = some 5 := by
  decide

example : value intV natB (afterDeath "2".toList demoFiles) "c".toList ("c_total".toList, []) = some 5 := by decide

/-- the `+Inf`-like bound 100 satisfies the hypotheses of `count_eq_inf_bucket` -/
example : (100 : Nat) ∈ boundsOf (bucketContribs natB (contribs demoFiles "h".toList)) [] ∧
    (∀ y ∈ boundsOf (bucketContribs natB (contribs demoFiles "h".toList)) [], y ≠ 100 → natB.lt y 100 = true) ∧
    (∀ y ∈ boundsOf (bucketContribs natB (contribs demoFiles "h".toList)) [], natB.lt 100 y = false) := by decide

/-- `Int` meets the order and monoid hypotheses of `gauge_value_declarative`, `accumulate_perm` -/
example : (∀ a : Int, intV.lt a a = false) ∧ (∀ a b : Int, intV.add a b = intV.add b a) ∧
    (∀ a b c : Int, intV.add (intV.add a b) c = intV.add a (intV.add b c)) :=
  ⟨fun a => by simp [intV], fun a b => Int.add_comm a b, fun a b c => Int.add_assoc a b c⟩

example : ∀ a b c : Int, intV.lt a b = true → intV.lt b c = true → intV.lt a c = true := by
  intro a b c h1 h2
  simp only [intV, decide_eq_true_eq] at *
  omega

/-! a world history satisfying every hypothesis of `collect_workers_partial` / `worker_sums_partial` -/
section WorldDemo
open PromVerif.Model.Values

def wC : Params := ⟨"counter".toList, "c".toList, "c_total".toList, ["l".toList], ["x".toList], "counts".toList, []⟩
def wL : Params := ⟨"gauge".toList, "gl".toList, "gl".toList, [], [], "live".toList, "livesum".toList⟩
def wS : Params := ⟨"gauge".toList, "gs".toList, "gs".toList, [], [], "sum".toList, "sum".toList⟩

/-- worker 1 (pid 5, changing identity to 6 and back), death of 5 with `mark_process_dead`, a new worker reusing pid 5 -/
def demoWorld : List (Ev Int) :=
  [.op (.construct wC), .op (.inc 0 2), .op (.construct wL), .op (.set 1 10 none), .op (.setPid "6".toList),
   .op (.inc 0 4), .op (.setPid "5".toList), .op (.construct wS), .op (.set 2 20 none), .dead "5".toList,
   .spawn "5".toList, .op (.construct wC), .op (.inc 0 3), .op (.construct wL), .op (.inc 1 1),
   .op (.construct wS), .op (.inc 2 1)]

theorem demoPS_good : GoodPS natB [wC, wL, wS] :=
  ⟨by intro q hq
      simp only [List.mem_cons, List.not_mem_nil, or_false] at hq
      rcases hq with h | h | h <;> subst h <;> exact ⟨by decide, by decide⟩,
   by decide, by decide, by decide⟩

theorem demoWorld_ids : evsIdOK demoWorld := by
  intro e he
  simp only [demoWorld, List.mem_cons, List.not_mem_nil, or_false] at he
  rcases he with h | h | h | h | h | h | h | h | h | h | h | h | h | h | h | h | h <;> subst h <;>
    first | trivial | (show '_' ∉ _; decide)

theorem demoWorld_known : ∀ e ∈ demoWorld, evKnown [wC, wL, wS] e := by
  intro e he
  simp only [demoWorld, List.mem_cons, List.not_mem_nil, or_false] at he
  rcases he with h | h | h | h | h | h | h | h | h | h | h | h | h | h | h | h | h <;> subst h <;>
    first | trivial | (show _ ∈ [wC, wL, wS]; decide)

theorem natB_fmt_inj : ∀ t t' b b', natB.parse t = some b → natB.parse t' = some b' → natB.fmt b = natB.fmt b' → b = b' := by
  intro _ _ b b' _ _ h
  have := congrArg List.length h
  simpa [natB] using this

/-- `collect_workers_partial` applies -/
example := collect_workers_partial intV natB [wC, wL, wS] demoPS_good "5".toList (by decide) demoWorld demoWorld_ids
  demoWorld_known (by decide) natB_fmt_inj

/-- … and on this history the collector's counter series is 2 + 4 + 3 = 9 over the files `counter_5.db` (5) and
    `counter_6.db` (4); the live gauge of the dead-and-reused pid restarted (1), the non-live one continued (21) -/
example : value intV natB (sfiles (wrun intV (St.init "5".toList) demoWorld).disk) "c".toList
    ("c_total".toList, [("l".toList, "x".toList)]) = some 9 := by decide
example : value intV natB (sfiles (wrun intV (St.init "5".toList) demoWorld).disk) "gl".toList ("gl".toList, []) = some 1 := by
  decide
example : value intV natB (sfiles (wrun intV (St.init "5".toList) demoWorld).disk) "gs".toList ("gs".toList, []) = some 21 := by
  decide
example : incTotal intV (wUpds (wLog intV "counter".toList (mmapKey wC) "5".toList "5".toList [] demoWorld)) = 9 := by decide

end WorldDemo

/-- **the counter-example behind `no_pid_label`** (M exhibits the candidate finding): a gauge in mode `all` whose own
    label is NAMED `pid`, two children in one process: the collector reports the same series `g{pid="1"}` twice (the
    user's label value is overwritten by the process id) -/
def pidDemo : List (SFile Int) :=
  [⟨"gauge".toList, "all".toList, "1".toList,
    [(⟨"g".toList, "g".toList, [("pid".toList, "a".toList)], "gh".toList⟩, 1, 0),
     (⟨"g".toList, "g".toList, [("pid".toList, "b".toList)], "gh".toList⟩, 2, 0)]⟩]

def pidDemoOut : List (List (Str × Labels × Int)) :=
  match merge intV natB (pidDemo.map toFile) with
  | .ok out => out.map (fun m => m.samples.map (fun s => (s.name, s.labels, s.value)))
  | .error _ => []

set_option synthInstance.maxSize 1000 in
theorem pid_label_collides :
    pidDemoOut = [[("g".toList, [("pid".toList, "1".toList)], 1), ("g".toList, [("pid".toList, "1".toList)], 2)]] := by
  decide

end PromVerif.Props.C08
