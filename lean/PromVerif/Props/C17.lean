/-
C17 — HTTP front-ends serve a body that matches the negotiated headers, and agree.

All theorems are about the executable model `Model/Http.lean`, whose literals, comparison operators, item call
chains, encoder/content-type pairing, compression condition and WSGI dispatch table are re-extracted from the source
(`Generated/Http.lean`).  Header values are quantified as renderings of UNBOUNDED item lists of the grammar in
`Spec/Http.lean` (any tokens without ',' ';' and without leading/trailing whitespace — so every near-miss token —,
any whitespace strings over Python's 29 `isspace` code points around them, any parameters); `grammar_total` shows the
grammar generates every string, and `om_iff_lists` / `gzip_iff_lists` restate the two matching theorems for ALL strings.

Scope decisions (also in the harness and the report):
* A request carries AT MOST ONE `Accept` and one `Accept-Encoding` field line (the property speaks of "any Accept,
  Accept-Encoding and query string" — one value each or absent).  Repeated field lines are OUT OF SCOPE of
  `frontends_agree`; the model still describes them (ASGI joins all values with ',', as wsgiref does for WSGI;
  `MetricsHandler` reads only the first), see `duplicate_field_lines_differ`.
* Header names/values and the query string are BYTES at the front-end boundary (`Req`).  asgi.py decodes them itself
  (modelled; the codec is extracted, latin-1 since commit 34b1cbd); wsgiref and http.server decode them as latin-1
  before the modelled code runs (trusted presentation `Req.environ` / `Req.handler`).
* SCOPE LIMIT: the request target contains no raw '#' (not a valid RFC 3986 path/query character; clients send %23).
  With a raw '#', `urlparse` (MetricsHandler) cuts the target there while wsgiref / ASGI servers split at the first '?'
  only, so MetricsHandler can differ from the other two: `raw_hash_in_target_differs`.
* The property quantifies over Accept, Accept-Encoding and query string, not over the path: `GET /favicon.ico` (WSGI
  answers 200 with an empty body, by design) is excluded by hypothesis `hfav`.

History: findings F12 (the ASGI app called `parse_qs` on the `bytes` query string, got `bytes` keys and never restricted)
and F12b (the same call raised UnicodeEncodeError on non-ASCII escapes such as `?lang=%C3%A9`) were confirmed by this
check and repaired in /repo (asgi.py now decodes the query string as latin-1 before `parse_qs`; the extractor reports
that as `asgiQueryDecoded = true`).  `frontends_agree` and `wsgi_asgi_agree` are therefore stated at full strength; they
stop checking if the decode is removed again, and the harness keeps both failure classes as ordinary VIOLATIONs.
A third defect (asgi.py decoded header bytes as UTF-8 and raised on e.g. a latin-1 NBSP, review finding) was repaired in
commit 34b1cbd; reverting it changes `Generated.Http.asgiHeaderCodec` and breaks `frontends_agree`.
-/
import PromVerif.Model.Http
import PromVerif.Spec.Http
import PromVerif.Lemmas.Http

namespace PromVerif.Props.C17
open PromVerif.Py (PyM PyErr)
open PromVerif.Model.Http PromVerif.Spec.Http PromVerif.Lemmas.Http

/-- the extractor found every site of exposition.py / asgi.py in the shape it understands -/
theorem extract_ok : Generated.Http.extractOk = true := by decide

/-- the literals in the source are the ones the property names -/
theorem literals_ok :
    Generated.Http.omMediaType = omMediaType ∧ Generated.Http.gzipCoding = gzipCoding ∧
    Generated.Http.nameKey = nameKey ∧
    Generated.Http.contentTypeText = contentType .text ∧ Generated.Http.contentTypeOM = contentType .om ∧
    Generated.Http.contentTypeHeader = contentTypeName ∧ Generated.Http.contentEncodingHeader = contentEncoding ∧
    Generated.Http.bakeStatus = statusOK ∧
    Generated.Http.wsgiOptionsHeaders = [allow] ∧ Generated.Http.wsgi405Headers = [allow] ∧
    Generated.Http.wsgiOptionsStatus = statusOK ∧ Generated.Http.wsgi405Status = status405 := by decide

/-! ## Accept: OpenMetrics exactly when the media type is listed -/

private theorem omListed_eq (accept : Option Str) :
    omListed accept = (tokensOf (accept.getD [])).any (fun t => t == omMediaType) := by
  simp only [omListed, tokensOf, List.any_map]
  rfl

private theorem chooseEncoder_eq (accept : Option Str) :
    chooseEncoder accept = if omListed accept then (Fmt.om, contentType .om) else (Fmt.text, contentType .text) := by
  unfold chooseEncoder
  split <;> rfl

private theorem choose_om_iff (accept : Option Str) : (chooseEncoder accept).1 = Fmt.om ↔ omListed accept = true := by
  rw [chooseEncoder_eq]
  cases omListed accept <;> simp

/-- **om_iff_listed.**  For every well-formed item list — any length, any tokens (near misses included), any
whitespace, any parameters — the OpenMetrics encoder is chosen iff some item's media type IS
`application/openmetrics-text`. -/
theorem om_iff_listed (items : List Item) (hwf : ∀ it ∈ items, it.WF) :
    (chooseEncoder (some (render items))).1 = Fmt.om ↔ omMediaType ∈ items.map Item.media := by
  rw [choose_om_iff, omListed_eq]
  simp only [Option.getD_some]
  rw [any_tokens_render _ (by decide) items hwf, List.any_eq_true]
  constructor
  · rintro ⟨t, ht, he⟩
    have : t = omMediaType := by simpa using he
    exact this ▸ ht
  · intro hm
    exact ⟨_, hm, by simp⟩

/-- non-vacuity: a three-item header with whitespace, parameters and two near-miss tokens -/
def exItems : List Item :=
  [ { pre := " ".toList, media := "application/openmetrics-text-foo".toList, post := [], params := ["q=0.9".toList] },
    { pre := [Char.ofNat 0xa0, '\t'], media := "xapplication/openmetrics-text".toList, post := " ".toList, params := [] },
    { pre := [Char.ofNat 0x2003], media := "application/openmetrics-text".toList, post := "\t ".toList,
      params := [" version=1.0.0".toList, "q=0.5 ".toList] } ]

theorem exItems_wf : ∀ it ∈ exItems, it.WF := by
  intro it hit
  simp only [exItems, List.mem_cons, List.not_mem_nil, or_false] at hit
  rcases hit with rfl | rfl | rfl <;>
    exact ⟨by decide, by decide, by decide, by decide, by intro c h; cases h; decide,
           by intro c h; cases h; decide, by decide, by decide⟩

example : (chooseEncoder (some (render exItems))).1 = Fmt.om :=
  (om_iff_listed exItems exItems_wf).mpr (by decide)
example : (chooseEncoder (some (render (exItems.take 2)))).1 = Fmt.text := by decide

/-- the same over ALL header strings: the grammar generates every string (`grammar_total`) -/
theorem om_iff_lists (hdr : Str) : (chooseEncoder (some hdr)).1 = Fmt.om ↔ lists omMediaType hdr := by
  constructor
  · intro h
    obtain ⟨items, hwf, hr⟩ := grammar_total hdr
    exact ⟨items, hwf, hr, (om_iff_listed items hwf).mp (hr ▸ h)⟩
  · rintro ⟨items, hwf, hr, hm⟩
    exact hr ▸ (om_iff_listed items hwf).mpr hm

/-- an absent Accept header selects the text format -/
theorem om_absent : (chooseEncoder none).1 = Fmt.text := by decide

/-- the format is always one of the two, and text exactly when OpenMetrics is not listed -/
theorem text_iff_not_listed (items : List Item) (hwf : ∀ it ∈ items, it.WF) :
    (chooseEncoder (some (render items))).1 = Fmt.text ↔ omMediaType ∉ items.map Item.media := by
  rw [← om_iff_listed items hwf]
  cases (chooseEncoder (some (render items))).1 <;> simp

/-- **content type pairing**: the content type returned with an encoder is that encoder's -/
theorem choose_content_type (accept : Option Str) :
    (chooseEncoder accept).2 = contentType (chooseEncoder accept).1 := by
  rw [chooseEncoder_eq]; split <;> rfl

/-! ## Accept-Encoding: gzip listed up to ASCII case -/

private theorem gzipListed_eq (ae : Option Str) :
    gzipListed ae = (tokensOf (ae.getD [])).any (fun t => lower t == gzipCoding) := by
  simp only [gzipListed, tokensOf, List.any_map]
  rfl

private theorem gzipAccepted_eq (ae : Option Str) : gzipAccepted ae = gzipListed ae := by
  unfold gzipAccepted
  cases gzipListed ae <;> rfl

private theorem lower_gzip_iff (t : Str) : (lower t == gzipCoding) = true ↔ ciEq t gzipCoding := by
  rw [beq_iff_eq, lower_eq_iff gzipCoding (by decide) t]
  unfold ciEq
  have : gzipCoding.map foldAscii = gzipCoding := by decide
  rw [this]

/-- `gzip_accepted` on every well-formed coding list: true iff some coding equals `gzip` up to ASCII case.  Over ALL
Unicode tokens: U+212A KELVIN SIGN and U+0130, whose Python lower-case forms contain ASCII letters, are covered
(`Lemmas.Http.lower_eq_iff`). -/
theorem gzip_accepted_iff (items : List Item) (hwf : ∀ it ∈ items, it.WF) :
    gzipAccepted (some (render items)) = true ↔ ∃ m ∈ items.map Item.media, ciEq m gzipCoding := by
  rw [gzipAccepted_eq, gzipListed_eq]
  simp only [Option.getD_some]
  rw [any_tokens_render _ (by decide) items hwf, List.any_eq_true]
  constructor
  · rintro ⟨t, ht, he⟩; exact ⟨t, ht, (lower_gzip_iff t).mp he⟩
  · rintro ⟨t, ht, he⟩; exact ⟨t, ht, (lower_gzip_iff t).mpr he⟩

theorem gzip_iff_lists (hdr : Str) : gzipAccepted (some hdr) = true ↔ listsCI gzipCoding hdr := by
  constructor
  · intro h
    obtain ⟨items, hwf, hr⟩ := grammar_total hdr
    exact ⟨items, hwf, hr, (gzip_accepted_iff items hwf).mp (hr ▸ h)⟩
  · rintro ⟨items, hwf, hr, hm⟩
    exact hr ▸ (gzip_accepted_iff items hwf).mpr hm

theorem gzip_absent : gzipAccepted none = false := by decide

/-- non-vacuity: mixed case is accepted; `x-gzip`, `gzipx` and the Kelvin-sign look-alike `Kzip` are not -/
def exCodings : List Item :=
  [ { pre := [], media := "x-gzip".toList, post := [], params := [] },
    { pre := " ".toList, media := "gzipx".toList, post := [], params := ["q=1".toList] },
    { pre := " ".toList, media := [Char.ofNat 0x212A, 'z', 'i', 'p'], post := [], params := [] },
    { pre := "\t".toList, media := "GZip".toList, post := " ".toList, params := ["q=0.5".toList] } ]

theorem exCodings_wf : ∀ it ∈ exCodings, it.WF := by
  intro it hit
  simp only [exCodings, List.mem_cons, List.not_mem_nil, or_false] at hit
  rcases hit with rfl | rfl | rfl | rfl <;>
    exact ⟨by decide, by decide, by decide, by decide, by intro c h; cases h; decide,
           by intro c h; cases h; decide, by decide, by decide⟩

example : gzipAccepted (some (render exCodings)) = true :=
  (gzip_accepted_iff exCodings exCodings_wf).mpr ⟨"GZip".toList, by decide, by decide⟩
example : gzipAccepted (some (render (exCodings.take 3))) = false := by decide

/-! ## `_bake_output` -/

variable {B : Type}

/-- the uncompressed body `_bake_output` computes: the chosen format's exposition of the registry, restricted to
`params['name[]']` when that (`str`) key is present -/
def plainBody (env : Env B) (accept : Option Str) (params : Params) : B :=
  env.expo (chooseEncoder accept).1 (params.lookup (PyKey.str nameKey))

/-- normal form of `_bake_output` in the spec's vocabulary -/
theorem bake_eq (env : Env B) (accept ae : Option Str) (params : Params) (d : Bool) :
    bakeOutput env accept ae params d =
      if (!d && gzipAccepted ae) = true then
        ⟨statusOK, [(contentTypeName, contentType (chooseEncoder accept).1), contentEncoding],
          env.gzip (plainBody env accept params), true⟩
      else
        ⟨statusOK, [(contentTypeName, contentType (chooseEncoder accept).1)], plainBody env accept params, true⟩ := by
  have h1 : Generated.Http.compressNeedsEnabled = true := by decide
  have h2 : Generated.Http.compressNeedsAccepted = true := by decide
  -- the values of name[] reach `restricted_registry` as they are: no splitting on ',' or anything else
  have h3 : ∀ o : Option (List PyKey), o.map restrictionNames = o := by
    have hs : Generated.Http.nameValueSplit = [] := by decide
    intro o
    cases o with
    | none => rfl
    | some vs => simp only [Option.map_some, restrictionNames, hs]
  unfold bakeOutput plainBody
  simp only [choose_content_type, h1, h2, h3, Bool.not_true, Bool.false_or]
  split <;> rfl

private theorem ce_name_ne : contentEncoding.1 ≠ contentTypeName := by decide
private theorem ce_ne_ct (v : Str) : contentEncoding ≠ (contentTypeName, v) :=
  fun h => ce_name_ne (congrArg Prod.fst h)

/-- **gzip_iff.**  For every coding list, compression switch, Accept header and parameter dict: the body is the
compressed exposition AND a `Content-Encoding: gzip` header is present when compression is enabled and gzip is listed
(case-insensitively); otherwise the body is the plain exposition and no `Content-Encoding` header of any value exists. -/
theorem gzip_iff (env : Env B) (accept : Option Str) (items : List Item) (hwf : ∀ it ∈ items, it.WF)
    (params : Params) (d : Bool) :
    let r := bakeOutput env accept (some (render items)) params d
    let listed := ∃ m ∈ items.map Item.media, ciEq m gzipCoding
    ((d = false ∧ listed) → r.body = env.gzip (plainBody env accept params) ∧ contentEncoding ∈ r.headers) ∧
    (¬ (d = false ∧ listed) → r.body = plainBody env accept params ∧ ∀ v, (contentEncoding.1, v) ∉ r.headers) := by
  intro r listed
  have hr : r = bakeOutput env accept (some (render items)) params d := rfl
  rw [bake_eq] at hr
  have hiff := gzip_accepted_iff items hwf
  constructor
  · rintro ⟨hd, hl⟩
    have : (!d && gzipAccepted (some (render items))) = true := by simp [hd, hiff.mpr hl]
    rw [if_pos this] at hr
    rw [hr]; simp
  · intro hn
    have : ¬ (!d && gzipAccepted (some (render items))) = true := by
      intro hc
      simp only [Bool.and_eq_true, Bool.not_eq_true'] at hc
      exact hn ⟨hc.1, hiff.mp hc.2⟩
    rw [if_neg this] at hr
    rw [hr]
    refine ⟨rfl, ?_⟩
    intro v hv
    simp only [List.mem_singleton, Prod.mk.injEq] at hv
    exact absurd hv.1 (by decide)

/-- the header is present iff the body is the compressed one (compression never returns its input) -/
theorem gzip_header_iff_body (env : Env B) (hne : ∀ b, env.gzip b ≠ b) (accept ae : Option Str) (params : Params)
    (d : Bool) :
    let r := bakeOutput env accept ae params d
    (contentEncoding ∈ r.headers ↔ r.body = env.gzip (plainBody env accept params)) ∧
    (contentEncoding ∈ r.headers ↔ (d = false ∧ gzipAccepted ae = true)) := by
  intro r
  have hr : r = bakeOutput env accept ae params d := rfl
  rw [bake_eq] at hr
  by_cases h : (!d && gzipAccepted ae) = true
  · rw [if_pos h] at hr
    simp only [Bool.and_eq_true, Bool.not_eq_true'] at h
    rw [hr]; simp [h]
  · rw [if_neg h] at hr
    have h' : ¬ (d = false ∧ gzipAccepted ae = true) := by
      intro hc; apply h; simp [hc.1, hc.2]
    rw [hr]
    refine ⟨⟨fun hm => ?_, fun hb => ?_⟩, ⟨fun hm => ?_, fun hc => absurd hc h'⟩⟩
    · simp only [List.mem_singleton] at hm; exact absurd hm (ce_ne_ct _)
    · exact absurd hb.symm (hne _)
    · simp only [List.mem_singleton] at hm; exact absurd hm (ce_ne_ct _)

example : ∃ env : Env (List Nat), ∀ b, env.gzip b ≠ b :=
  ⟨⟨fun _ _ => [1], fun b => 0 :: b, [], fun _ _ => [2]⟩, by intro b h; simpa using congrArg List.length h⟩

/-- **content_type_matches_body.**  For every request reaching `_bake_output`: status 200, collected, exactly one
`Content-Type` header, and it is the content type of the format `f` whose encoder produced the body. -/
theorem content_type_matches_body (env : Env B) (accept ae : Option Str) (params : Params) (d : Bool) :
    let r := bakeOutput env accept ae params d
    let f := (chooseEncoder accept).1
    let e := env.expo f (params.lookup (PyKey.str nameKey))
    r.status = statusOK ∧ r.collected = true ∧
    (r.body = e ∨ r.body = env.gzip e) ∧
    (contentTypeName, contentType f) ∈ r.headers ∧ (∀ v, (contentTypeName, v) ∈ r.headers → v = contentType f) := by
  intro r f e
  have hr : r = bakeOutput env accept ae params d := rfl
  rw [bake_eq] at hr
  split at hr <;> (rw [hr]; refine ⟨rfl, rfl, ?_, ?_, ?_⟩)
  · right; rfl
  · simp [f]
  · intro v hv
    simp only [List.mem_cons, Prod.mk.injEq, List.not_mem_nil, or_false] at hv
    rcases hv with hv | hv
    · exact hv.2
    · exact absurd (congrArg Prod.fst hv).symm ce_name_ne
  · left; rfl
  · simp [f]
  · intro v hv
    simp only [List.mem_singleton, Prod.mk.injEq] at hv
    exact hv.2

/-- **body_is_restricted_exposition.**  The body, decoded as its own headers say, is the chosen format's exposition of
the registry restricted to `params['name[]']` when the `str` key `name[]` is present, of the whole registry otherwise;
with an injective compression the decoding is unique. -/
theorem body_is_restricted_exposition (env : Env B) (accept ae : Option Str) (params : Params) (d : Bool) :
    let r := bakeOutput env accept ae params d
    let f := (chooseEncoder accept).1
    (∀ names, params.lookup (PyKey.str nameKey) = some names →
        r.body = if contentEncoding ∈ r.headers then env.gzip (env.expo f (some names)) else env.expo f (some names)) ∧
    (params.lookup (PyKey.str nameKey) = none →
        r.body = if contentEncoding ∈ r.headers then env.gzip (env.expo f none) else env.expo f none) ∧
    ((∀ a b, env.gzip a = env.gzip b → a = b) → ∀ x, contentEncoding ∈ r.headers → r.body = env.gzip x →
        x = env.expo f (params.lookup (PyKey.str nameKey))) := by
  intro r f
  have hr : r = bakeOutput env accept ae params d := rfl
  rw [bake_eq] at hr
  have hin : contentEncoding ∈ [(contentTypeName, contentType f), contentEncoding] := by simp
  have hnin : contentEncoding ∉ [(contentTypeName, contentType f)] := by
    simp only [List.mem_singleton]; exact ce_ne_ct _
  split at hr <;> rw [hr]
  · refine ⟨fun names hn => ?_, fun hn => ?_, fun hinj x _ hx => ?_⟩
    · simp only [plainBody, hn]; rw [if_pos hin]
    · simp only [plainBody, hn]; rw [if_pos hin]
    · exact (hinj _ _ hx).symm
  · refine ⟨fun names hn => ?_, fun hn => ?_, fun _ x hx _ => absurd hx hnin⟩
    · simp only [plainBody, hn]; rw [if_neg hnin]
    · simp only [plainBody, hn]; rw [if_neg hnin]

/-! ## typing of `parse_qs`: which front-ends can see `name[]` -/

theorem lookup_strParams (l : List (Str × List Str)) (k : Str) :
    (strParams l).lookup (PyKey.str k) = (l.lookup k).map (fun vs => vs.map PyKey.str) := by
  induction l with
  | nil => rfl
  | cons kv rest ih =>
    by_cases h : k = kv.1
    · subst h; simp [strParams, List.lookup]
    · have h' : (PyKey.str k == PyKey.str kv.1) = false := by simp [h]
      have h'' : (k == kv.1) = false := by simp [h]
      simp only [strParams, List.map_cons, List.lookup, h', h''] at ih ⊢
      exact ih

/-- a `str` key never finds an entry of a `bytes`-keyed dict -/
theorem lookup_bytesParams (l : List (Bytes × List Bytes)) (k : Str) :
    (bytesParams l).lookup (PyKey.str k) = none := by
  induction l with
  | nil => rfl
  | cons kv rest ih =>
    have h' : (PyKey.str k == PyKey.bytes kv.1) = false := by simp
    simp only [bytesParams, List.map_cons, List.lookup, h'] at ih ⊢
    exact ih

theorem lookup_none_of_not_mem (l : List (Str × List Str)) (k : Str) (h : k ∉ l.map Prod.fst) : l.lookup k = none := by
  induction l with
  | nil => rfl
  | cons kv rest ih =>
    simp only [List.map_cons, List.mem_cons, not_or] at h
    have h' : (k == kv.1) = false := by simp [h.1]
    simp only [List.lookup, h']
    exact ih h.2

/-! ## WSGI method dispatch -/

/-- **wsgi_options.**  OPTIONS: 200, `Allow: OPTIONS,GET`, empty body, nothing collected — whatever the headers,
query string, path and compression switch. -/
theorem wsgi_options (env : Env B) (parseQs : Str → List (Str × List Str)) (d : Bool) (e : Environ)
    (hm : e.requestMethod = "OPTIONS".toList) :
    wsgiApp env parseQs d e = .ok ⟨statusOK, [allow], env.empty, false⟩ := by
  unfold wsgiApp
  have : e.requestMethod = Generated.Http.wsgiOptionsMethod := by rw [hm]; decide
  rw [if_pos this]
  rfl

/-- **wsgi_405_no_collect.**  Every method other than `OPTIONS` and `GET` — HEAD, POST, PUT, DELETE, PATCH, lower-case
`get`, the empty string, anything — gets 405 with the `Allow` header and nothing is collected. -/
theorem wsgi_405_no_collect (env : Env B) (parseQs : Str → List (Str × List Str)) (d : Bool) (e : Environ)
    (h1 : e.requestMethod ≠ "OPTIONS".toList) (h2 : e.requestMethod ≠ "GET".toList) :
    wsgiApp env parseQs d e = .ok ⟨status405, [allow], env.errBody status405 e.requestMethod, false⟩ := by
  unfold wsgiApp
  have hn : ¬ e.requestMethod = Generated.Http.wsgiOptionsMethod := by
    intro h; apply h1; rw [h]; decide
  have hc : Generated.Http.wsgiGetMethods.contains e.requestMethod = false := by
    have : Generated.Http.wsgiGetMethods = ["GET".toList] := by decide
    rw [this]
    simp only [List.contains_cons, List.contains_nil, Bool.or_false]
    exact beq_eq_false_iff_ne.mpr h2
  have hg : (!(Generated.Http.wsgiGetMethods.contains e.requestMethod)) = true := by rw [hc]; rfl
  rw [if_neg hn, if_pos hg]
  rfl

example : ("HEAD".toList ≠ "OPTIONS".toList ∧ "HEAD".toList ≠ "GET".toList) ∧
          ("get".toList ≠ "OPTIONS".toList ∧ "get".toList ≠ "GET".toList) ∧
          ("POST".toList ≠ "OPTIONS".toList ∧ "POST".toList ≠ "GET".toList) := by decide

/-- GET (any path but the favicon) is `_bake_output` on the environ's values -/
theorem wsgi_get (env : Env B) (parseQs : Str → List (Str × List Str)) (d : Bool) (e : Environ) (p : Str)
    (hm : e.requestMethod = "GET".toList) (hp : e.pathInfo = some p) (hfav : p ≠ "/favicon.ico".toList) :
    wsgiApp env parseQs d e =
      .ok (bakeOutput env e.httpAccept e.httpAcceptEncoding (strParams (parseQs (e.queryString.getD []))) d) := by
  unfold wsgiApp
  have hn : ¬ e.requestMethod = Generated.Http.wsgiOptionsMethod := by rw [hm]; decide
  have hg : ¬ (!(Generated.Http.wsgiGetMethods.contains e.requestMethod)) = true := by rw [hm]; decide
  have hf : ¬ p = Generated.Http.faviconPath := by
    intro h; apply hfav; rw [h]; decide
  rw [if_neg hn, if_neg hg, hp]
  simp only [if_neg hf]

/-- GET /favicon.ico: 200, empty body, nothing collected (a deliberate WSGI-only special case) -/
theorem wsgi_favicon (env : Env B) (parseQs : Str → List (Str × List Str)) (d : Bool) (e : Environ)
    (hm : e.requestMethod = "GET".toList) (hp : e.pathInfo = some "/favicon.ico".toList) :
    ∃ hs, wsgiApp env parseQs d e = .ok ⟨statusOK, hs, env.empty, false⟩ := by
  unfold wsgiApp
  have hn : ¬ e.requestMethod = Generated.Http.wsgiOptionsMethod := by rw [hm]; decide
  have hg : ¬ (!(Generated.Http.wsgiGetMethods.contains e.requestMethod)) = true := by rw [hm]; decide
  rw [if_neg hn, if_neg hg, hp]
  exact ⟨_, rfl⟩

/-! ## the three front-ends on one request -/

/-- a GET request as it is on the wire, as far as the property quantifies it: the raw path part of the request target
(the text before the first '?'), the query BYTES after it, an Accept and an Accept-Encoding field value (BYTES; each
present once or absent), and any other header fields (name and value BYTES) before and after them -/
structure Req where
  path : Str
  query : Bytes
  accept : Option Bytes
  acceptEnc : Option Bytes
  before : List (Bytes × Bytes)
  after : List (Bytes × Bytes)

def optHeader {α : Type} (name : α) : Option α → List (α × α)
  | none => []
  | some v => [(name, v)]

def l1p (h : Bytes × Bytes) : Str × Str := (latin1 h.1, latin1 h.2)

/-- the field lines of the request as bytes, with the given spellings of the two names -/
def Req.fieldsB (r : Req) (an aen : Bytes) : List (Bytes × Bytes) :=
  r.before ++ (optHeader an r.accept ++ (optHeader aen r.acceptEnc ++ r.after))

/-- TRUSTED presentation (outside the model): what each server makes of the same bytes.
* wsgiref (PEP 3333): header values and QUERY_STRING are the bytes decoded as latin-1; PATH_INFO is `unq path`
  (`unq` = `urllib.parse.unquote(…, 'iso-8859-1')`);
* an ASGI server: the raw bytes;
* http.server (`http.client.parse_headers`): header names and values decoded as latin-1; `self.path` is the target. -/
def Req.environ (r : Req) (method : Str) (unq : Str → Str) : Environ :=
  ⟨r.accept.map latin1, r.acceptEnc.map latin1, some (latin1 r.query), method, some (unq r.path)⟩
def Req.scope (r : Req) (an aen : Bytes) : Scope := ⟨r.fieldsB an aen, some r.query⟩
def Req.handler (r : Req) (an aen : Bytes) : HandlerReq :=
  ⟨(r.fieldsB an aen).map l1p, r.path ++ '?' :: latin1 r.query⟩

/-- other fields are neither Accept nor Accept-Encoding (case-insensitively) -/
def Req.OthersOk (r : Req) : Prop :=
  ∀ h ∈ r.before ++ r.after, lower (latin1 h.1) ≠ "accept".toList ∧ lower (latin1 h.1) ≠ "accept-encoding".toList

theorem Req.othersOk_of_all (r : Req)
    (h : (r.before ++ r.after).all (fun h => lower (latin1 h.1) != "accept".toList &&
      lower (latin1 h.1) != "accept-encoding".toList) = true) :
    r.OthersOk := by
  intro x hx
  have := List.all_eq_true.mp h x hx
  simpa using this

private theorem filter_others (hs : List (Str × Str)) (lit : Str) (h : ∀ x ∈ hs, lower x.1 ≠ lit) :
    hs.filter (fun x => lower x.1 == lit) = [] := by
  rw [List.filter_eq_nil_iff]
  intro x hx
  simp [h x hx]

private theorem find_others (hs rest : List (Str × Str)) (lit : Str) (h : ∀ x ∈ hs, lower x.1 ≠ lit) :
    (hs ++ rest).find? (fun x => lower x.1 == lit) = rest.find? (fun x => lower x.1 == lit) := by
  induction hs with
  | nil => rfl
  | cons y ys ih =>
    have hy : (lower y.1 == lit) = false := by simp [h y (by simp)]
    simp only [List.cons_append, List.find?, hy]
    exact ih (fun x hx => h x (by simp [hx]))

private theorem filter_opt_hit (name lit : Str) (v : Option Str) (h : lower name = lit) :
    ((optHeader name v).filter (fun x => lower x.1 == lit)).map (·.2) = v.toList := by
  cases v <;> simp [optHeader, h]

private theorem filter_opt_miss (name lit : Str) (v : Option Str) (h : lower name ≠ lit) :
    (optHeader name v).filter (fun x => lower x.1 == lit) = [] := by
  cases v <;> simp [optHeader, h]

private theorem find_opt_miss (name lit : Str) (v : Option Str) (rest : List (Str × Str)) (h : lower name ≠ lit) :
    (optHeader name v ++ rest).find? (fun x => lower x.1 == lit) = rest.find? (fun x => lower x.1 == lit) := by
  cases v <;> simp [optHeader, h]

private theorem find_opt_hit (name lit : Str) (v : Option Str) (rest : List (Str × Str)) (h : lower name = lit)
    (hrest : rest.find? (fun x => lower x.1 == lit) = none) :
    ((optHeader name v ++ rest).find? (fun x => lower x.1 == lit)).map (·.2) = v := by
  cases v with
  | none => simp only [optHeader, List.nil_append, hrest]; rfl
  | some w => simp [optHeader, h]

private theorem find_none_of_others (hs : List (Str × Str)) (lit : Str) (h : ∀ x ∈ hs, lower x.1 ≠ lit) :
    hs.find? (fun x => lower x.1 == lit) = none := by
  rw [List.find?_eq_none]; intro x hx; simp [h x hx]

private theorem joinWith_toList (v : Option Str) : joinWith [','] v.toList = v.getD [] := by
  cases v <;> rfl

/-- the text view of the field lines -/
private theorem fields_text (r : Req) (an aen : Bytes) :
    (r.fieldsB an aen).map l1p = r.before.map l1p ++ (optHeader (latin1 an) (r.accept.map latin1) ++
      (optHeader (latin1 aen) (r.acceptEnc.map latin1) ++ r.after.map l1p)) := by
  unfold Req.fieldsB
  cases r.accept <;> cases r.acceptEnc <;> simp [optHeader, l1p]

/-- asgi.py decodes header names and values as latin-1 (extracted codec), so its comprehension never raises and is the
text-level filter on the latin-1 view -/
private theorem asgiCollect_latin1 (lit : Str) (hs : List (Bytes × Bytes)) :
    asgiCollect lit hs = .ok (((hs.map l1p).filter fun h => lower h.1 == lit).map (·.2)) := by
  have hc : decodeWith Generated.Http.asgiHeaderCodec = fun b => .ok (latin1 b) := by
    funext b; rfl
  have hl : Generated.Http.asgiNameLowered = true := by decide
  induction hs with
  | nil => rfl
  | cons h rest ih =>
    obtain ⟨n, v⟩ := h
    unfold asgiCollect
    simp only [hc, hl, if_true, ih, List.map_cons, l1p]
    by_cases hm : (lower (latin1 n) == lit) = true
    · simp [hm, Except.map]
    · simp [hm]

private theorem others_text (r : Req) (hok : r.OthersOk) :
    (∀ x ∈ r.before.map l1p, lower x.1 ≠ "accept".toList) ∧ (∀ x ∈ r.before.map l1p, lower x.1 ≠ "accept-encoding".toList) ∧
    (∀ x ∈ r.after.map l1p, lower x.1 ≠ "accept".toList) ∧ (∀ x ∈ r.after.map l1p, lower x.1 ≠ "accept-encoding".toList) := by
  refine ⟨?_, ?_, ?_, ?_⟩ <;>
  · intro x hx
    obtain ⟨y, hy, rfl⟩ := List.mem_map.mp hx
    first
      | exact (hok y (by simp [hy])).1
      | exact (hok y (by simp [hy])).2

/-- ASGI's joined header value: the one value (latin-1 text), or `''` when the header is absent; never an exception -/
private theorem asgiHeader_fields (r : Req) (an aen : Bytes) (hok : r.OthersOk)
    (han : lower (latin1 an) = "accept".toList) (haen : lower (latin1 aen) = "accept-encoding".toList) :
    asgiHeader Generated.Http.asgiAcceptName (r.fieldsB an aen) = .ok ((r.accept.map latin1).getD []) ∧
    asgiHeader Generated.Http.asgiAcceptEncodingName (r.fieldsB an aen) = .ok ((r.acceptEnc.map latin1).getD []) := by
  obtain ⟨hb1, hb2, ha1, ha2⟩ := others_text r hok
  have e1 : Generated.Http.asgiAcceptName = "accept".toList := by decide
  have e2 : Generated.Http.asgiAcceptEncodingName = "accept-encoding".toList := by decide
  have e4 : Generated.Http.asgiJoin = [','] := by decide
  have hx1 : lower (latin1 aen) ≠ "accept".toList := by rw [haen]; decide
  have hx2 : lower (latin1 an) ≠ "accept-encoding".toList := by rw [han]; decide
  unfold asgiHeader
  rw [e1, e2, e4, asgiCollect_latin1, asgiCollect_latin1, fields_text]
  simp only [Except.map]
  constructor
  · rw [List.filter_append, List.filter_append, List.filter_append, filter_others _ _ hb1, filter_others _ _ ha1,
      filter_opt_miss _ _ _ hx1, List.nil_append, List.nil_append, List.append_nil, filter_opt_hit _ _ _ han,
      joinWith_toList]
  · rw [List.filter_append, List.filter_append, List.filter_append, filter_others _ _ hb2, filter_others _ _ ha2,
      filter_opt_miss _ _ _ hx2, List.nil_append, List.nil_append, List.append_nil, filter_opt_hit _ _ _ haen,
      joinWith_toList]

/-- `headers.get`: the one value (latin-1 text), or `None` -/
private theorem headersGet_fields (r : Req) (an aen : Bytes) (hok : r.OthersOk)
    (han : lower (latin1 an) = "accept".toList) (haen : lower (latin1 aen) = "accept-encoding".toList) :
    headersGet Generated.Http.handlerAcceptName ((r.fieldsB an aen).map l1p) = r.accept.map latin1 ∧
    headersGet Generated.Http.handlerAcceptEncodingName ((r.fieldsB an aen).map l1p) = r.acceptEnc.map latin1 := by
  obtain ⟨hb1, hb2, ha1, ha2⟩ := others_text r hok
  have e1 : lower Generated.Http.handlerAcceptName = "accept".toList := by decide
  have e2 : lower Generated.Http.handlerAcceptEncodingName = "accept-encoding".toList := by decide
  have hx1 : lower (latin1 aen) ≠ "accept".toList := by rw [haen]; decide
  have hx2 : lower (latin1 an) ≠ "accept-encoding".toList := by rw [han]; decide
  unfold headersGet
  rw [e1, e2, fields_text]
  constructor
  · rw [find_others _ _ _ hb1]
    apply find_opt_hit _ _ _ _ han
    rw [find_opt_miss _ _ _ _ hx1]
    exact find_none_of_others _ _ ha1
  · rw [find_others _ _ _ hb2, find_opt_miss _ _ _ _ hx2]
    exact find_opt_hit _ _ _ _ haen (find_none_of_others _ _ ha2)

private theorem bake_absent_eq_empty (env : Env B) (a ae : Option Str) (params : Params) (d : Bool) :
    bakeOutput env (some (a.getD [])) (some (ae.getD [])) params d = bakeOutput env a ae params d := by
  cases a <;> cases ae <;> rfl

/-- the ASGI app on the presented request: it never raises and is `_bake_output` on the latin-1 text of the same bytes -/
private theorem asgi_eq (env : Env B) (parseQs : Str → List (Str × List Str))
    (parseQsAlt : Str → List (Str × List Str)) (parseQsB : Bytes → PyM (List (Bytes × List Bytes))) (r : Req) (an aen : Bytes) (d : Bool)
    (han : lower (latin1 an) = "accept".toList) (haen : lower (latin1 aen) = "accept-encoding".toList) (hok : r.OthersOk) :
    asgiApp env parseQs parseQsAlt parseQsB d (r.scope an aen)
      = .ok (bakeOutput env (r.accept.map latin1) (r.acceptEnc.map latin1) (strParams (parseQs (latin1 r.query))) d) := by
  obtain ⟨ha1, ha2⟩ := asgiHeader_fields r an aen hok han haen
  have hq : Generated.Http.asgiQueryDecoded = true := by decide
  -- asgi.py calls `parse_qs` with the default percent-decoding, i.e. the same function as the other two front-ends
  have hd : Generated.Http.asgiParseDefault = true := by decide
  have hc : decodeWith Generated.Http.asgiQueryCodec r.query = .ok (latin1 r.query) := rfl
  unfold asgiApp asgiParams Req.scope
  simp only [ha1, ha2, Option.getD_some, hq, hd, if_true, hc, Except.map, bake_absent_eq_empty]

/-- **frontends_agree.**  For EVERY GET request given as BYTES — any Accept value or none, any Accept-Encoding value or
none (any bytes, also ≥ 0x80), any other header fields, any spelling of the two field names, any query bytes (`name[]`
values, percent-escapes, non-ASCII included) — the three front-ends return the same status, the same header list (so
the same Content-Type and the same Content-Encoding presence), the same body (so the same format, restriction and
compression) and the same `collected` flag, and none of them raises.  Compression is enabled, since MetricsHandler
cannot disable it (`d = false`).

No library law is assumed: `urlparse(target).query` is modelled (`Model.Http.urlQuery`, compared with the real function
by the harness) and asgi.py's decoding is modelled with the extracted codec.  The hypotheses are
* well-formedness of the presentation: `han`, `haen`, `hok` (which fields are the Accept / Accept-Encoding lines), `hp`
  (`path` is the part of the target before the first '?');
* `hfav`: not WSGI's `/favicon.ico` special case (the property does not quantify over the path);
* **SCOPE LIMIT `hph`, `hqh`: the request target contains no raw '#'.**  A raw '#' is not a valid character of an
  RFC 3986 path or query (clients send `%23`).  With one, the theorem is FALSE: `urlparse` cuts the target at '#', wsgiref
  and ASGI servers do not — see `raw_hash_in_target_differs`.  `wsgi_asgi_agree` does not need this limit. -/
theorem frontends_agree (env : Env B) (parseQs : Str → List (Str × List Str))
    (parseQsAlt : Str → List (Str × List Str)) (parseQsB : Bytes → PyM (List (Bytes × List Bytes))) (unq : Str → Str) (r : Req) (an aen : Bytes)
    (han : lower (latin1 an) = "accept".toList) (haen : lower (latin1 aen) = "accept-encoding".toList) (hok : r.OthersOk)
    (hp : '?' ∉ r.path) (hph : '#' ∉ r.path) (hqh : '#' ∉ latin1 r.query)
    (hfav : unq r.path ≠ "/favicon.ico".toList) :
    wsgiApp env parseQs false (r.environ "GET".toList unq)
        = asgiApp env parseQs parseQsAlt parseQsB false (r.scope an aen) ∧
    asgiApp env parseQs parseQsAlt parseQsB false (r.scope an aen)
        = .ok (handlerGet env parseQs (r.handler an aen)) := by
  have hw := wsgi_get env parseQs false (r.environ "GET".toList unq) (unq r.path) rfl rfl hfav
  obtain ⟨hh1, hh2⟩ := headersGet_fields r an aen hok han haen
  have hasgi := asgi_eq env parseQs parseQsAlt parseQsB r an aen false han haen hok
  have hhand : handlerGet env parseQs (r.handler an aen)
      = bakeOutput env (r.accept.map latin1) (r.acceptEnc.map latin1) (strParams (parseQs (latin1 r.query))) false := by
    unfold handlerGet Req.handler
    simp only [hh1, hh2, urlQuery_target _ _ hp hph hqh]
    rfl
  constructor
  · rw [hw, hasgi]; rfl
  · rw [hasgi, hhand]

/-- **wsgi_asgi_agree.**  WSGI and ASGI agree on every GET request (bytes, as above) for either setting of
`disable_compression`; no scope limit on '#'. -/
theorem wsgi_asgi_agree (env : Env B) (parseQs : Str → List (Str × List Str))
    (parseQsAlt : Str → List (Str × List Str)) (parseQsB : Bytes → PyM (List (Bytes × List Bytes))) (unq : Str → Str) (r : Req) (an aen : Bytes) (d : Bool)
    (han : lower (latin1 an) = "accept".toList) (haen : lower (latin1 aen) = "accept-encoding".toList) (hok : r.OthersOk)
    (hfav : unq r.path ≠ "/favicon.ico".toList) :
    wsgiApp env parseQs d (r.environ "GET".toList unq) = asgiApp env parseQs parseQsAlt parseQsB d (r.scope an aen) := by
  rw [wsgi_get env parseQs d (r.environ "GET".toList unq) (unq r.path) rfl rfl hfav,
    asgi_eq env parseQs parseQsAlt parseQsB r an aen d han haen hok]
  rfl

/-- WSGI and MetricsHandler agree on every GET request whose target has no raw '#' -/
theorem wsgi_handler_agree (env : Env B) (parseQs : Str → List (Str × List Str)) (unq : Str → Str)
    (r : Req) (an aen : Bytes)
    (han : lower (latin1 an) = "accept".toList) (haen : lower (latin1 aen) = "accept-encoding".toList) (hok : r.OthersOk)
    (hp : '?' ∉ r.path) (hph : '#' ∉ r.path) (hqh : '#' ∉ latin1 r.query)
    (hfav : unq r.path ≠ "/favicon.ico".toList) :
    wsgiApp env parseQs false (r.environ "GET".toList unq) = .ok (handlerGet env parseQs (r.handler an aen)) := by
  have hw := wsgi_get env parseQs false (r.environ "GET".toList unq) (unq r.path) rfl rfl hfav
  obtain ⟨hh1, hh2⟩ := headersGet_fields r an aen hok han haen
  rw [hw]
  unfold handlerGet Req.handler
  simp only [hh1, hh2, urlQuery_target _ _ hp hph hqh]
  rfl

/-- every front-end restricts to the `name[]` values `parse_qs` found in the `str` query string: the body of the common
answer is the exposition restricted to `(parseQs q).lookup 'name[]'` -/
theorem frontends_restrict (env : Env B) (parseQs : Str → List (Str × List Str)) (a ae : Option Str) (q : Str) (d : Bool) :
    let r := bakeOutput env a ae (strParams (parseQs q)) d
    let e := env.expo (chooseEncoder a).1 (((parseQs q).lookup nameKey).map fun vs => vs.map PyKey.str)
    r.body = e ∨ r.body = env.gzip e := by
  intro r e
  have := (content_type_matches_body env a ae (strParams (parseQs q)) d).2.2.1
  rw [lookup_strParams] at this
  exact this

/-! ### non-vacuity, and the documented limits -/

/-- a concrete environment: a body records format, restriction and whether it was compressed -/
def exEnv : Env (Fmt × Option (List PyKey) × Bool) :=
  { expo := fun f r => (f, r, false), gzip := fun b => (b.1, b.2.1, true), empty := (.text, none, false),
    errBody := fun _ _ => (.text, none, false) }

/-- `parse_qs` on the query strings used below -/
def exParseQs (q : Str) : List (Str × List Str) :=
  if q = "name[]=a".toList then [("name[]".toList, ["a".toList])]
  else if q = "name[]=up#x".toList then [("name[]".toList, ["up#x".toList])]
  else if q = "name[]=up".toList then [("name[]".toList, ["up".toList])]
  else if q = "lang=%C3%A9".toList then [("lang".toList, [[Char.ofNat 0xe9]])]
  else []
/-- `parse_qs(…, encoding='latin-1')`: a different function (never reached while asgi.py uses the default decoding) -/
def exParseQsAlt (_ : Str) : List (Str × List Str) := [("name[]".toList, ["mojibake".toList])]
/-- latin-1 encode -/
def exEnc (s : Str) : Bytes := s.map fun c => UInt8.ofNat c.toNat
/-- `parse_qs` on `bytes` as the standard library behaves (no longer reached by asgi.py) -/
def exParseQsB (q : Bytes) : PyM (List (Bytes × List Bytes)) :=
  if q = exEnc "lang=%C3%A9".toList then .error .unicodeError else .ok []

/-- `Accept: text/plain;q=0.5, application/openmetrics-text<0xA0>; version=1.0.0` — the byte 0xA0 (NBSP in latin-1, not
valid UTF-8 on its own) sits directly behind the token — and `Accept-Encoding: br, GZip;q=0.9` -/
def exReq (q : String) : Req :=
  { path := "/metrics".toList, query := exEnc q.toList,
    accept := some (exEnc "text/plain;q=0.5, application/openmetrics-text".toList ++ [0xA0] ++ exEnc "; version=1.0.0".toList),
    acceptEnc := some (exEnc "br, GZip;q=0.9".toList),
    before := [(exEnc "Host".toList, exEnc "x".toList)], after := [(exEnc "User-Agent".toList, [0xFF, 0x74])] }

/-- the hypotheses of `frontends_agree` hold for the two former counter-example requests (`?name[]=a`, `?lang=%C3%A9`)
with a header byte ≥ 0x80; the common answer is the gzip-compressed OpenMetrics exposition, restricted to `['a']` in the
first case -/
example :
    (asgiApp exEnv exParseQs exParseQsAlt exParseQsB false
        ((exReq "name[]=a").scope (exEnc "accept".toList) (exEnc "accept-encoding".toList))).toOption.map (fun r => (r.status, r.body))
      = some (statusOK, (Fmt.om, some [PyKey.str "a".toList], true)) ∧
    (asgiApp exEnv exParseQs exParseQsAlt exParseQsB false
        ((exReq "lang=%C3%A9").scope (exEnc "accept".toList) (exEnc "accept-encoding".toList))).toOption.map (fun r => (r.status, r.body))
      = some (statusOK, (Fmt.om, none, true)) := by
  constructor <;> decide +kernel

example :
    wsgiApp exEnv exParseQs false ((exReq "name[]=a").environ "GET".toList id)
      = asgiApp exEnv exParseQs exParseQsAlt exParseQsB false ((exReq "name[]=a").scope (exEnc "ACCEPT".toList) (exEnc "Accept-Encoding".toList))
    ∧ asgiApp exEnv exParseQs exParseQsAlt exParseQsB false ((exReq "name[]=a").scope (exEnc "ACCEPT".toList) (exEnc "Accept-Encoding".toList))
      = .ok (handlerGet exEnv exParseQs ((exReq "name[]=a").handler (exEnc "ACCEPT".toList) (exEnc "Accept-Encoding".toList))) :=
  frontends_agree exEnv exParseQs exParseQsAlt exParseQsB id (exReq "name[]=a") _ _ (by decide +kernel) (by decide +kernel)
    (Req.othersOk_of_all _ (by decide +kernel)) (by decide +kernel) (by decide +kernel) (by decide +kernel)
    (by decide +kernel)

/-- **DOCUMENTED SCOPE LIMIT (raw '#' in the request target).**  On `GET /metrics?name[]=up#x` the WSGI and ASGI apps
restrict to `['up#x']` (wsgiref and ASGI servers split the target at the first '?' only) while MetricsHandler restricts
to `['up']` (`urlparse` cuts the fragment off).  A raw '#' is not a valid RFC 3986 query character, so this is outside the
scope of `frontends_agree` (hypotheses `hph`, `hqh`), not a finding. -/
theorem raw_hash_in_target_differs :
    (wsgiApp exEnv exParseQs false ((exReq "name[]=up#x").environ "GET".toList id)).toOption.map (·.body)
        = some (Fmt.om, some [PyKey.str "up#x".toList], true) ∧
    (asgiApp exEnv exParseQs exParseQsAlt exParseQsB false
        ((exReq "name[]=up#x").scope (exEnc "accept".toList) (exEnc "accept-encoding".toList))).toOption.map (·.body)
        = some (Fmt.om, some [PyKey.str "up#x".toList], true) ∧
    (handlerGet exEnv exParseQs ((exReq "name[]=up#x").handler (exEnc "Accept".toList) (exEnc "Accept-Encoding".toList))).body
        = (Fmt.om, some [PyKey.str "up".toList], true) := by
  refine ⟨?_, ?_, ?_⟩ <;> decide +kernel

/-- OUT OF SCOPE of `frontends_agree`, recorded for the reader: with two `Accept` field lines the ASGI app (joining all
values, like wsgiref does for WSGI) chooses OpenMetrics while MetricsHandler, reading only the first line, chooses
text. -/
theorem duplicate_field_lines_differ :
    let fields := [(exEnc "accept".toList, exEnc "text/plain".toList),
                   (exEnc "accept".toList, exEnc "application/openmetrics-text".toList)]
    (asgiApp exEnv exParseQs exParseQsAlt exParseQsB false ⟨fields, none⟩).toOption.map (·.body) = some (Fmt.om, none, false) ∧
    (handlerGet exEnv exParseQs ⟨fields.map l1p, "/metrics".toList⟩).body = (Fmt.text, none, false) := by
  constructor <;> decide +kernel

end PromVerif.Props.C17
