/-
C02 — no lost update, error or deadlock under any thread interleaving.

What is proved here is the LOCK PROTOCOL, for any number of threads, any number of calls per thread, any objects and any
schedule: the lock skeletons extracted from the source (T1, `Generated/Locks.lean`) are well locked (`decide`d), and every
system of threads whose calls use well-locked skeletons enjoys mutual exclusion, linearisable updates (no lost update),
held-value / monotone reads, one shared child, no "changed size during iteration" error and freedom from deadlock.

What is NOT proved (runtime facts, sampled by the bytecode scheduler `harness/sched.py`, T2): that a thread switch happens
only between bytecodes, that each `load` / `store` of the model is what the bytecode does, that the skeletons list every
shared access, that `threading.Lock` is a non-re-entrant mutex, that a subscript store / `list.append` is one indivisible
bytecode, and `mmap` visibility between threads.  The theorems are statements about the extracted skeletons run by the
interleaving semantics of `Model/Conc.lean`.
-/
import PromVerif.Lemmas.ConcSpec
import PromVerif.Lemmas.ConcLog
import PromVerif.Lemmas.ConcFile
import PromVerif.Generated.Registry

set_option linter.unusedSectionVars false

namespace PromVerif.Props.C02
open PromVerif.Generated.Locks PromVerif.Model.Conc PromVerif.Spec.Conc

/-- the extractor found every listed method in a shape it understands -/
theorem extract_ok : extractOk = true := by decide

/-! ## The generated skeletons are well locked -/

/-- `WellLocked` for every extracted method skeleton of both value back-ends: each read / write / rmw / copy / iterate of a
shared attribute lies inside `with <its guard>`, iteration is over a snapshot or inside the guard, acquisitions respect
registry < parent < value/global, no lock is acquired while held, all scopes are closed -/
theorem generated_well_locked : ∀ bk, (skeletonsOf bk).all (wellLockedB bk) = true := by
  intro bk; cases bk <;> decide

/-- the collect paths (`registry.collect`, `RestrictedRegistry.collect`, `_multi_samples`) call no user code and yield
nothing while a lock is held -/
theorem collect_paths_release_before_user_code : collectPaths.all noUserInLock = true := by decide

/-- what a collect hands out by reference (an `Info`'s label dict, the target-info dict) is only ever rebound to a fresh object,
never mutated in place — so a snapshot taken by `collect()` cannot change under the scraper that is still reading it -/
theorem handed_out_values_are_rebound_not_mutated : noInPlaceOnHandedOut inPlace = true := by decide +kernel

/-- a call of a generated method on consistently bound objects is a good call -/
theorem call_of_generated {U : Type} (bk : Backend) (sk : List Sk) (hsk : sk ∈ skeletonsOf bk)
    (lobj : LockId → Nat) (vobj : Var → Nat) (lab : Var → U) :
    wellLockedCode bk (Call.ofSk bk sk lobj vobj lab).bl0 (Call.ofSk bk sk lobj vobj lab).code0 = true := by
  have h := generated_well_locked bk
  rw [List.all_eq_true] at h
  exact h sk hsk

/-! ## Meta-theorems: any threads, any calls of well-locked skeletons, any schedule -/

section Generic
variable {U V : Type} (ap : U → V → V → V) (blind : U → Bool)

/-- the initial state: thread `i` runs the concatenated code of its calls -/
def world (c0 : ICell → V) (threads : List (List (Call U))) : St ILock ICell U V :=
  init c0 (threads.map progOf)

/-- all updates to cell `X0` the threads will issue, in program order -/
def allStores (c0 : ICell → V) (threads : List (List (Call U))) (X0 : ICell) : List U :=
  pending X0 (world c0 threads).threads

theorem progs_ok (bk : Backend) (threads : List (List (Call U))) (hg : GoodThreads bk blind threads) (X0 : ICell) :
    ∀ p ∈ threads.map progOf,
      disc (guardOf bk X0) X0 blind p .out = true ∧ discIt (guardOf bk X0) X0 p false false = true ∧
      wf (rankOrder irank) p [] = true := by
  intro p hp
  obtain ⟨calls, hc, rfl⟩ := List.mem_map.mp hp
  exact prog_ok bk blind calls (hg calls hc) X0

/-- MUTUAL EXCLUSION.  In every reachable state a lock is on the held stack of at most one thread; the held stack of a
thread is exactly the stack of `with` scopes its continuation is inside of (`wf … t.pc t.held`), and it agrees with the lock
table. -/
theorem mutual_exclusion (bk : Backend) (threads : List (List (Call U))) (hg : GoodThreads bk blind threads)
    (c0 : ICell → V) (sched : List Tid) :
    let s := run ap (world c0 threads) sched
    (∀ (i j : Tid) (ti tj : Thread ILock ICell U V) (l : ILock),
        s.threads[i]? = some ti → s.threads[j]? = some tj → l ∈ ti.held → l ∈ tj.held → i = j) ∧
    (∀ i t, s.threads[i]? = some t →
        wf (rankOrder irank) t.pc t.held = true ∧ ∀ l, l ∈ t.held ↔ s.owner l = some i) := by
  intro s
  have inv : LockInv (rankOrder irank) s :=
    lockInv_run c0 _ (fun p hp => (progs_ok blind bk threads hg (.value, 0) p hp).2.2) sched
  refine ⟨fun i j ti tj l hi hj hli hlj => lockInv_exclusive inv hi hj hli hlj, ?_⟩
  intro i t ht
  exact ⟨(inv.thr i t ht).1, (inv.thr i t ht).2.2⟩

/-- NO LOST UPDATE.  For every cell `X0`, in every reachable state: the ghost log of `X0` is a linearisation (`LogOk`: each
logged store applied its update to the fold of the earlier ones, each logged load returned that fold), the cell holds the
fold of ALL applied updates in the order the critical sections were entered, and applied ++ still-pending updates is a
permutation of the updates the programs issue — so when all threads have finished, every issued update has been applied
exactly once. -/
theorem no_lost_update (hblind : ∀ u, blind u = true → ∀ a b c, ap u a c = ap u b c)
    (bk : Backend) (threads : List (List (Call U))) (hg : GoodThreads bk blind threads)
    (c0 : ICell → V) (sched : List Tid) (X0 : ICell) :
    let s := run ap (world c0 threads) sched
    s.cell X0 = (applied (s.log X0)).foldr (lin ap) (c0 X0) ∧
    LogOk (lin ap) (c0 X0) (s.log X0) ∧
    (applied (s.log X0) ++ pending X0 s.threads).Perm (allStores c0 threads X0) ∧
    (finished s → (applied (s.log X0)).Perm (allStores c0 threads X0)) := by
  intro s
  have inv := dataInv_run (g := guardOf bk X0) (x := X0) (blind := blind) hblind c0 (threads.map progOf)
    (fun p hp => (progs_ok blind bk threads hg X0 p hp).1) sched
  refine ⟨inv.cellEq, inv.logOk, inv.perm, ?_⟩
  intro hf
  have hp := inv.perm
  have he : pending X0 (run ap (init c0 (List.map progOf threads)) sched).threads = [] := pending_finished X0 hf
  rw [he, List.append_nil] at hp
  exact hp

/-- increments and register-independent stores: `some a` adds `a` to what the thread loaded, `none` stands for a store that
does not depend on it (here: leaves the tracked value alone, as the bookkeeping stores of the mmap back-end do) -/
def incAp {M : Type} (add : M → M → M) : Option M → M → M → M
  | some a, r, _ => add r a
  | none, _, c => c

def incBlind {M : Type} : Option M → Bool := fun u => u.isNone

theorem incAp_blind {M : Type} (add : M → M → M) :
    ∀ u, incBlind u = true → ∀ a b c : M, incAp add u a c = incAp add u b c := by
  intro u hu a b c
  cases u with
  | none => rfl
  | some x => cases hu

/-- corollary for a commutative monoid of increments: when all threads have finished the cell equals the initial value plus
ALL increments issued, whatever the number of threads, of increments and the schedule -/
theorem no_lost_update_sum {M : Type} (add : M → M → M) (assoc : ∀ a b c, add (add a b) c = add a (add b c))
    (comm : ∀ a b, add a b = add b a)
    (bk : Backend) (threads : List (List (Call (Option M)))) (hg : GoodThreads bk incBlind threads)
    (c0 : ICell → M) (sched : List Tid) (X0 : ICell) :
    let s := run (incAp add) (world c0 threads) sched
    finished s → s.cell X0 = (allStores c0 threads X0).foldr (lin (incAp add)) (c0 X0) := by
  intro s hf
  obtain ⟨hc, _, _, hp⟩ := no_lost_update (incAp add) incBlind (incAp_blind add) bk threads hg c0 sched X0
  rw [hc]
  refine List.Perm.foldr_eq' (hp hf) ?_ _
  intro x _ y _ z
  cases x with
  | none => cases y <;> rfl
  | some a =>
    cases y with
    | none => rfl
    | some b =>
      show add (add z a) b = add (add z b) a
      rw [assoc, assoc, comm a b]

/-- READS ARE HELD VALUES.  Every value a load of `X0` returned is a value the cell held, and the held values are exactly
the prefix folds of the linearised updates (nothing else was ever visible). -/
theorem reads_are_held_values (hblind : ∀ u, blind u = true → ∀ a b c, ap u a c = ap u b c)
    (bk : Backend) (threads : List (List (Call U))) (hg : GoodThreads bk blind threads)
    (c0 : ICell → V) (sched : List Tid) (X0 : ICell) :
    let s := run ap (world c0 threads) sched
    (∀ v ∈ readsOf (s.log X0), v ∈ heldValues (c0 X0) (s.log X0)) ∧
    heldValues (c0 X0) (s.log X0) = prefixFolds (lin ap) (c0 X0) (applied (s.log X0)) := by
  intro s
  obtain ⟨_, hl, _, _⟩ := no_lost_update ap blind hblind bk threads hg c0 sched X0
  exact ⟨reads_mem_held _ _ _ hl, held_eq_prefixFolds _ _ _ hl⟩

/-- with updates that never decrease the value (non-negative increments) successive reads never see a decrease
(the read log is newest first) -/
theorem reads_monotone (hblind : ∀ u, blind u = true → ∀ a b c, ap u a c = ap u b c)
    (le : V → V → Prop) (hrefl : ∀ a, le a a) (htrans : ∀ a b c, le a b → le b c → le a c)
    (hinfl : ∀ u v, le v (ap u v v))
    (bk : Backend) (threads : List (List (Call U))) (hg : GoodThreads bk blind threads)
    (c0 : ICell → V) (sched : List Tid) (X0 : ICell) :
    let s := run ap (world c0 threads) sched
    (readsOf (s.log X0)).Pairwise (fun newer older => le older newer) := by
  intro s
  obtain ⟨_, hl, _, _⟩ := no_lost_update ap blind hblind bk threads hg c0 sched X0
  exact Model.Conc.reads_monotone le hrefl htrans (lin ap) hinfl _ _ hl

/-- NO ITERATION ERROR.  "dictionary changed size during iteration" (a store to `X0` by one thread while another has an
iteration over `X0` open) is unreachable. -/
theorem no_iteration_error (bk : Backend) (threads : List (List (Call U))) (hg : GoodThreads bk blind threads)
    (c0 : ICell → V) (sched : List Tid) (X0 : ICell) :
    (run ap (world c0 threads) sched).err X0 = false :=
  (iterInv_run (g := guardOf bk X0) (x := X0) c0 (threads.map progOf)
    (fun p hp => (progs_ok blind bk threads hg X0 p hp).2.1) sched).noerr

/-- DEADLOCK FREEDOM.  In every reachable state in which some thread has not finished, some thread can take a step. -/
theorem deadlock_free (bk : Backend) (threads : List (List (Call U))) (hg : GoodThreads bk blind threads)
    (c0 : ICell → V) (sched : List Tid) :
    let s := run ap (world c0 threads) sched
    ¬ finished s → ∃ i, (step ap s i).isSome = true := by
  intro s hnf
  have inv : LockInv (rankOrder irank) s :=
    lockInv_run c0 _ (fun p hp => (progs_ok blind bk threads hg (.value, 0) p hp).2.2) sched
  refine lockInv_progress inv 2 ?_ hnf
  intro l
  obtain ⟨k, n⟩ := l
  cases k <;> simp [irank, rank]

end Generic

/-! ## One shared child -/

theorem tbl_le_refl (a : Tbl) : Tbl.le a a := fun _ _ h => h
theorem tbl_le_trans (a b c : Tbl) (h1 : Tbl.le a b) (h2 : Tbl.le b c) : Tbl.le a c :=
  fun k v h => h2 k v (h1 k v h)

theorem ensure_infl (kc : Nat × Nat) (t : Tbl) : Tbl.le t (ensure kc t t) := by
  intro k c h
  unfold ensure
  split
  · exact h
  · next hn =>
    rw [List.lookup_cons]
    by_cases hk : k = kc.1
    · subst hk; rw [h] at hn; simp at hn
    · have hb : (k == kc.1) = false := by simpa using hk
      simp [hb, h]

theorem ensure_has (kc : Nat × Nat) (t : Tbl) : ((ensure kc t t).lookup kc.1).isSome = true := by
  unfold ensure
  split
  · next h => exact h
  · simp

/-- lookup-or-create (`some (k, c)`) and stores that leave the table alone (`none`: the bookkeeping stores of the child's
value constructor in the multiprocess store, which `labels()` runs under the parent lock) -/
def ensureO : Option (Nat × Nat) → Tbl → Tbl → Tbl
  | some kc, r, c => ensure kc r c
  | none, _, c => c

theorem ensureO_blind : ∀ u, incBlind u = true → ∀ a b c : Tbl, ensureO u a c = ensureO u b c := by
  intro u hu a b c
  cases u with
  | none => rfl
  | some x => cases hu

theorem ensureO_infl (u : Option (Nat × Nat)) (t : Tbl) : Tbl.le t (lin ensureO u t) := by
  cases u with
  | none => exact tbl_le_refl t
  | some kc => exact ensure_infl kc t

/-- ONE SHARED CHILD.  Scope: workloads whose stores to the child tables are lookup-or-create (`labels(k)`) — `remove` / `clear`
legitimately make a later `labels(k)` return a NEW child, so they are outside this theorem (the harness checks identity only on
programs without them).  The value a lookup-or-create leaves in the table is what the call returns its child from.  Any two
lookup-or-create calls for the same key `k` on the same parent `X0`, in any interleaving, in either back-end, return the same
child. -/
theorem one_shared_child (bk : Backend) (threads : List (List (Call (Option (Nat × Nat)))))
    (hg : GoodThreads bk incBlind threads) (c0 : ICell → Tbl) (sched : List Tid) (X0 : ICell) :
    let s := run ensureO (world c0 threads) sched
    ∀ e ∈ writesOf (s.log X0), ∀ e' ∈ writesOf (s.log X0), ∀ k c c', e.2.1 = some (k, c) → e'.2.1 = some (k, c') →
      (e.2.2.lookup k).isSome = true ∧ e.2.2.lookup k = e'.2.2.lookup k := by
  intro s e he e' he' k c c' hk hk'
  obtain ⟨_, hl, _, _⟩ := no_lost_update ensureO incBlind ensureO_blind bk threads hg c0 sched X0
  have hle := vals_le_cur Tbl.le tbl_le_refl tbl_le_trans (lin ensureO) ensureO_infl (c0 X0) _ hl
  obtain ⟨w, hw⟩ := writes_spec _ _ _ hl e he
  obtain ⟨w', hw'⟩ := writes_spec _ _ _ hl e' he'
  obtain ⟨ev, hev, hv⟩ := writesOf_sub _ e he
  obtain ⟨ev', hev', hv'⟩ := writesOf_sub _ e' he'
  have h1 : (e.2.2.lookup k).isSome = true := by rw [hw, hk]; exact ensure_has (k, c) _
  have h2 : (e'.2.2.lookup k).isSome = true := by rw [hw', hk']; exact ensure_has (k, c') _
  refine ⟨h1, ?_⟩
  cases ha : e.2.2.lookup k with
  | none => rw [ha] at h1; cases h1
  | some a =>
    cases hb : e'.2.2.lookup k with
    | none => rw [hb] at h2; cases h2
    | some b =>
      have ca := hle ev hev _ _ (by rw [hv]; exact ha)
      have cb := hle ev' hev' _ _ (by rw [hv']; exact hb)
      rw [ca] at cb
      exact cb

/-! ## Re-entrant collectors -/

/-- what a collector does from inside its `collect()` while the registry is being collected: register, unregister,
a restricted lookup, and a target-info lookup, all on the registry that is collecting it -/
def reentrantCb : Callee → List CMicro
  | .collect => canonCodeK 1 CollectorRegistry_register ++ canonCodeK 2 CollectorRegistry_unregister ++
                canonCodeK 3 RestrictedRegistry_collect ++ canonCodeK 4 CollectorRegistry_get_target_info
  | _ => []

/-- `registry.collect()` / `restricted.collect()` with such a collector: the callback code is spliced where the skeleton
calls `collector.collect()` -/
def reentrantCollect : List CMicro := compile (canon 0) reentrantCb CollectorRegistry_collect
def reentrantRestrictedCollect : List CMicro := compile (canon 0) reentrantCb RestrictedRegistry_collect

def reentrantBlind : CLabel → Bool
  | (x, 1) => blindSet .mutex CollectorRegistry_register (x, 0)
  | (x, 2) => blindSet .mutex CollectorRegistry_unregister (x, 0)
  | _ => false

/-- the composite calls are well locked: the collect skeletons release the registry lock BEFORE calling the collector, so
the collector's own registry calls find the lock free -/
theorem reentrant_collect_well_locked : ∀ bk,
    wellLockedCode bk reentrantBlind reentrantCollect = true ∧
    wellLockedCode bk reentrantBlind reentrantRestrictedCollect = true := by
  intro bk; cases bk <;> decide

/-- a call of `registry.collect()` whose collectors re-enter the registry -/
def reentrantCall {U : Type} (restricted : Bool) (lobj : LockId → Nat) (vobj : Var → Nat) (lab : CLabel → U) : Call U :=
  { code0 := if restricted then reentrantRestrictedCollect else reentrantCollect,
    bl0 := reentrantBlind, lobj := lobj, vobj := vobj, lab := lab }

/-- instance of `deadlock_free`: threads running any mix of generated methods and collects whose collectors register /
unregister / look up from inside `collect()` never block forever -/
theorem reentrant_collect_never_blocks {U V : Type} (ap : U → V → V → V) (blind : U → Bool) (bk : Backend)
    (threads : List (List (Call U)))
    (h : ∀ calls ∈ threads, ∀ c ∈ calls,
      ((∃ sk ∈ skeletonsOf bk, c.code0 = canonCode bk sk ∧ c.bl0 = blindSet bk sk) ∨
        (c.code0 = reentrantCollect ∧ c.bl0 = reentrantBlind) ∨
        (c.code0 = reentrantRestrictedCollect ∧ c.bl0 = reentrantBlind)) ∧
      c.Respects bk ∧ c.BlindOk blind)
    (c0 : ICell → V) (sched : List Tid) :
    let s := run ap (world c0 threads) sched
    ¬ finished s → ∃ i, (step ap s i).isSome = true := by
  apply deadlock_free ap blind bk threads
  intro calls hc c hcc
  obtain ⟨hk, hr, hb⟩ := h calls hc c hcc
  refine ⟨?_, hr, hb⟩
  rcases hk with ⟨sk, hsk, e1, e2⟩ | ⟨e1, e2⟩ | ⟨e1, e2⟩
  · rw [e1, e2]
    have := generated_well_locked bk
    rw [List.all_eq_true] at this
    exact this sk hsk
  · rw [e1, e2]; exact (reentrant_collect_well_locked bk).1
  · rw [e1, e2]; exact (reentrant_collect_well_locked bk).2

/-! ## Both value back-ends: calls of the generated methods, non-vacuity -/

theorem blindOk_ofSk {U : Type} (bk : Backend) (blind : U → Bool) (sk : List Sk) (lobj : LockId → Nat) (vobj : Var → Nat)
    (lab : Var → U) (h : ∀ v ∈ needBlind (flatList sk) [], blind (lab v) = true)
    (hc : bk = .mmap → (flatList sk).contains (.call false .childCtor) = true →
      ∀ v ∈ needBlind (flatList MmapedValue_init) [], blind (lab v) = true) :
    (Call.ofSk bk sk lobj vobj lab).BlindOk blind := by
  intro x hx
  obtain ⟨v, k⟩ := x
  simp only [Call.ofSk, blindSet] at hx ⊢
  match k, hx with
  | 0, hx => exact h v (by simpa [List.contains_iff_mem] using hx)
  | 1, hx =>
    cases bk with
    | mutex => simp at hx
    | mmap =>
      simp only [Bool.and_eq_true] at hx
      exact hc rfl hx.1 v (by simpa [List.contains_iff_mem] using hx.2)
  | (n + 2), hx => simp at hx

/-- objects: value object `o` (its own lock in memory, the global lock 0 in the multiprocess store) -/
def bindL (o : Nat) : LockId → Nat := fun l => if l = .global then 0 else o
def bindV (o : Nat) : Var → Nat := fun _ => o

theorem bind_respects {U : Type} (bk : Backend) (o : Nat) (c : Call U) (hl : c.lobj = bindL o) (hv : c.vobj = bindV o) :
    c.Respects bk := by
  intro x
  rw [hl, hv]
  cases bk <;> cases x <;> simp [bindL, bindV, guardOf, Spec.Conc.guard]

/-- `inc(a)` on value object `o` -/
def incCall (bk : Backend) (o a : Nat) : Call (Option Nat) :=
  Call.ofSk bk (match bk with | .mutex => MutexValue_inc | .mmap => MmapedValue_inc) (bindL o) (bindV o)
    (fun x => if x = .value then some a else none)

/-- `get()` on value object `o` -/
def getCall (bk : Backend) (o : Nat) : Call (Option Nat) :=
  Call.ofSk bk (match bk with | .mutex => MutexValue_get | .mmap => MmapedValue_get) (bindL o) (bindV o) (fun _ => none)

theorem incCall_good (bk : Backend) (o a : Nat) :
    wellLockedCode bk (incCall bk o a).bl0 (incCall bk o a).code0 = true ∧ (incCall bk o a).Respects bk ∧
    (incCall bk o a).BlindOk incBlind := by
  refine ⟨?_, bind_respects bk o _ rfl rfl, ?_⟩
  · cases bk
    · exact call_of_generated .mutex MutexValue_inc (by simp [skeletonsOf, mutexSet]) _ _ _
    · exact call_of_generated .mmap MmapedValue_inc (by simp [skeletonsOf, mmapSet]) _ _ _
  · cases bk
    · refine blindOk_ofSk _ _ _ _ _ _ ?_ (by intro h; cases h)
      intro v hv
      change v ∈ needBlind (flatList MutexValue_inc) [] at hv
      have h : needBlind (flatList MutexValue_inc) [] = [] := by decide
      rw [h] at hv; cases hv
    · have hne : ∀ l : List Var, (∀ v ∈ l, v ≠ Var.value) → ∀ v ∈ l,
          incBlind (if v = Var.value then some a else none) = true := by
        intro l hl v hv; simp [incBlind, hl v hv]
      refine blindOk_ofSk _ _ _ _ _ _ (hne _ (by decide)) (fun _ h => by
        have : (flatList MmapedValue_inc).contains (.call false .childCtor) = false := by decide
        rw [this] at h; cases h)

theorem getCall_good (bk : Backend) (o : Nat) :
    wellLockedCode bk (getCall bk o).bl0 (getCall bk o).code0 = true ∧ (getCall bk o).Respects bk ∧
    (getCall bk o).BlindOk incBlind := by
  refine ⟨?_, bind_respects bk o _ rfl rfl, ?_⟩
  · cases bk
    · exact call_of_generated .mutex MutexValue_get (by simp [skeletonsOf, mutexSet]) _ _ _
    · exact call_of_generated .mmap MmapedValue_get (by simp [skeletonsOf, mmapSet]) _ _ _
  · cases bk
    · exact blindOk_ofSk _ _ _ _ _ _ (by decide) (by intro h; cases h)
    · exact blindOk_ofSk _ _ _ _ _ _ (by intro v _; rfl) (by intro _ _ v _; rfl)

/-- COUNTERS, both back-ends, the statement C02 makes about final values — for the extracted lock protocol.
Full property: "for every interleaving at bytecode granularity of the real threads, the final value of each counter equals
the sum of all increments issued".  Proved: the same for the interleaving semantics of the extracted skeletons, any number
of threads, any number of `inc` / `get` calls per thread on any value objects, any schedule.  Missing (hence `_partial`):
the correspondence between the Python bytecode and the micro-steps (switches only between bytecodes; `+=` is
load/add/store; the skeleton lists every shared access; `threading.Lock` is a non-re-entrant mutex; mmap visibility) — that
part is sampled by the scheduler harness, not proved. -/
theorem counters_sum_partial (bk : Backend) (threads : List (List (Nat × Option Nat)))
    (c0 : ICell → Nat) (sched : List Tid) (X0 : ICell) :
    let calls := threads.map (fun t => t.map (fun (oa : Nat × Option Nat) =>
      match oa.2 with | some a => incCall bk oa.1 a | none => getCall bk oa.1))
    let s := run (incAp Nat.add) (world c0 calls) sched
    finished s → s.cell X0 = (allStores c0 calls X0).foldr (lin (incAp Nat.add)) (c0 X0) := by
  intro calls
  refine no_lost_update_sum Nat.add Nat.add_assoc Nat.add_comm bk calls ?_ c0 sched X0
  intro cs hcs c hc
  obtain ⟨t, _, rfl⟩ := List.mem_map.mp hcs
  obtain ⟨oa, _, rfl⟩ := List.mem_map.mp hc
  cases oa.2 with
  | none => exact getCall_good bk oa.1
  | some a => exact incCall_good bk oa.1 a

/-! ### The statement in terms of the PROGRAM SPEC: thread programs are lists of `(value object, amount)` increments -/

theorem stores_append {L X U : Type} [DecidableEq X] (x : X) (p q : List (Micro L X U)) :
    stores x (p ++ q) = stores x p ++ stores x q := by
  induction p with
  | nil => rfl
  | cons a r ih =>
    cases a <;> simp only [List.cons_append, stores, ih]
    split <;> simp

theorem stores_flatten {L X U : Type} [DecidableEq X] (x : X) (ps : List (List (Micro L X U))) :
    stores x ps.flatten = (ps.map (stores x)).flatten := by
  induction ps with
  | nil => rfl
  | cons p r ih => simp [stores_append, ih]

/-- the only update an `inc(a)` call on value object `o` issues to a value cell is `+a` to its own -/
theorem stores_incCall (bk : Backend) (o a o' : Nat) :
    stores ((.value, o') : ICell) (incCall bk o a).code = if o = o' then [some a] else [] := by
  cases bk
  · have h : canonCode .mutex MutexValue_inc =
        [.acquire .value, .load .value, .store .value (.value, 0), .release .value] := rfl
    simp only [incCall, Call.code, Call.ofSk, h, List.map, Micro.map, stores, bindV]
    by_cases ho : o = o' <;> simp [ho]
  · have h : canonCode .mmap MmapedValue_inc =
        [.acquire .global, .call false .processIdentifier, .load .pid, .load .value, .store .value (.value, 0),
         .store .timestamp (.timestamp, 0), .load .value, .load .timestamp, .store .file (.file, 0),
         .release .global] := rfl
    simp only [incCall, Call.code, Call.ofSk, h, List.map, Micro.map, stores, bindV]
    by_cases ho : o = o' <;> simp [ho]

/-- thread programs given by the spec -/
def incThreads (bk : Backend) (spec : List (List (Nat × Nat))) : List (List (Call (Option Nat))) :=
  spec.map (fun t => t.map (fun oa => incCall bk oa.1 oa.2))

/-- the amounts the spec issues to value object `o`, in program order -/
def issued (spec : List (List (Nat × Nat))) (o : Nat) : List Nat :=
  (spec.flatten.filter (fun oa => decide (oa.1 = o))).map (fun oa => oa.2)

theorem allStores_incThreads (bk : Backend) (spec : List (List (Nat × Nat))) (c0 : ICell → Nat) (o : Nat) :
    allStores c0 (incThreads bk spec) (.value, o) = (issued spec o).map some := by
  have hthread : ∀ t : List (Nat × Nat),
      stores ((.value, o) : ICell) (progOf (t.map (fun oa => incCall bk oa.1 oa.2))) =
        ((t.filter (fun oa => decide (oa.1 = o))).map (fun oa => oa.2)).map some := by
    intro t
    induction t with
    | nil => rfl
    | cons oa r ih =>
      have : progOf ((oa :: r).map (fun oa => incCall bk oa.1 oa.2)) =
          (incCall bk oa.1 oa.2).code ++ progOf (r.map (fun oa => incCall bk oa.1 oa.2)) := by
        simp [progOf]
      rw [this, stores_append, ih, stores_incCall]
      by_cases ho : oa.1 = o <;> simp [ho]
  unfold allStores world pending init issued incThreads
  simp only [List.map_map]
  induction spec with
  | nil => rfl
  | cons t r ih =>
    simp only [List.map_cons, List.flatten_cons, Function.comp, List.filter_append, List.map_append] at ih ⊢
    rw [ih]
    congr 1
    rw [hthread t, List.map_map]

theorem foldr_incs (c : Nat) (l : List Nat) : (l.map some).foldr (lin (incAp Nat.add)) c = c + l.sum := by
  induction l with
  | nil => rfl
  | cons a r ih =>
    simp only [List.map_cons, List.foldr_cons, ih, List.sum_cons]
    show Nat.add (c + r.sum) a = c + (a + r.sum)
    simp only [Nat.add_eq]; omega

/-- COUNTERS, both back-ends, in terms of the program spec: every thread runs the `inc` calls listed for it (any number of
threads, of calls, of value objects); when all threads have finished, every counter holds its initial value plus the sum of
ALL amounts the spec issues to it, whatever the schedule.
`_partial` for the same reason as above: proved of the extracted lock protocol under the interleaving semantics; the link to
the bytecode is sampled.  That the multiprocess store's FILE holds the same sum is `file_equals_sum_of_issued_partial` below (there the `write file`
step carries the value the thread holds); the real files are checked by the harness oracle `C02:lost-update-in-file`. -/
theorem counter_equals_sum_of_issued_partial (bk : Backend) (spec : List (List (Nat × Nat))) (c0 : ICell → Nat)
    (sched : List Tid) (o : Nat) :
    let s := run (incAp Nat.add) (world c0 (incThreads bk spec)) sched
    finished s → s.cell (.value, o) = c0 (.value, o) + (issued spec o).sum := by
  intro s hf
  have hg : GoodThreads bk incBlind (incThreads bk spec) := by
    intro cs hcs c hc
    obtain ⟨t, _, rfl⟩ := List.mem_map.mp hcs
    obtain ⟨oa, _, rfl⟩ := List.mem_map.mp hc
    exact incCall_good bk oa.1 oa.2
  have h := no_lost_update_sum Nat.add Nat.add_assoc Nat.add_comm bk (incThreads bk spec) hg c0 sched (.value, o) hf
  rw [h, allStores_incThreads, foldr_incs]

/-- non-vacuity: the spec 1,2 | 3,4 | 5,6 on object 7 issues 21 -/
example : (issued [[(7, 1), (7, 2)], [(7, 3), (9, 100), (7, 4)], [(7, 5), (7, 6)]] 7).sum = 21 := by decide

/-! ### The file-backed store: the FILE holds the sum -/

/-- the value attribute and its mmap file entry of value object `o` are the two components of the cell `(value, o)` -/
def fileVar (o : Nat) : Var → ICell := fun x => if x = .file then (.value, o) else (x, o)

/-- `inc(a)`: the store to `_value` adds `a` to what was loaded; the store to the file writes what the thread then holds -/
def fileLab {M : Type} (a : M) : CLabel → FU M := fun x =>
  match x.1 with
  | .value => .inc a
  | .file => .fileW
  | _ => .other

/-- the code of `MmapedValue.inc(a)` on value object `o`, from the extracted skeleton -/
def fileIncCode {M : Type} (sk : List Sk) (o : Nat) (a : M) : List (Micro ILock ICell (FU M)) :=
  (compile (canon 0) noCb sk).map (Micro.map (fun l => ((l, bindL o l) : ILock)) (fileVar o) (fileLab a))

theorem fileIncCode_eq {M : Type} (o : Nat) (a : M) :
    fileIncCode MmapedValue_inc o a =
      [.acquire (.global, 0), .call false .processIdentifier, .load (.pid, o), .load (.value, o),
       .store (.value, o) (.inc a), .store (.timestamp, o) .other, .load (.value, o), .load (.timestamp, o),
       .store (.value, o) .fileW, .release (.global, 0)] := by
  have h : compile (canon 0) noCb MmapedValue_inc =
      [.acquire .global, .call false .processIdentifier, .load .pid, .load .value, .store .value (.value, 0),
       .store .timestamp (.timestamp, 0), .load .value, .load .timestamp, .store .file (.file, 0),
       .release .global] := rfl
  simp [fileIncCode, h, Micro.map, fileVar, fileLab, bindL]

/-- the extracted order `rmw _value; write file` inside one `with lock` is what the file theorem rests on: for every target
value object the code of one `inc` is disciplined, in sync (the file write follows the increment before the lock is
released) and issues exactly `+a` and one file write to its own cell -/
theorem fileIncCode_facts {M : Type} (o o' : Nat) (a : M) :
    ClosedP (fun l : ILock => decide (l = (LockId.global, 0))) (fun y : ICell => decide (y = (Var.value, o'))) FU.blind
      (fileIncCode MmapedValue_inc o a) ∧
    sync ((.global, 0) : ILock) ((.value, o') : ICell) (fileIncCode MmapedValue_inc o a) false = true ∧
    stores ((.value, o') : ICell) (fileIncCode MmapedValue_inc o a) = if o = o' then [.inc a, .fileW] else [] := by
  rw [fileIncCode_eq]
  by_cases ho : o = o'
  · subst ho
    refine ⟨⟨?_, ?_⟩, ?_, ?_⟩ <;> simp [discP, endModeP, sync, stores, FU.blind]
  · refine ⟨⟨?_, ?_⟩, ?_, ?_⟩ <;> simp [discP, endModeP, sync, stores, FU.blind, ho]

/-- thread programs of the spec: lists of `(value object, amount)` increments -/
def filePrograms {M : Type} (spec : List (List (Nat × M))) : List (List (Micro ILock ICell (FU M))) :=
  spec.map (fun t => (t.map (fun oa => fileIncCode MmapedValue_inc oa.1 oa.2)).flatten)

def issuedM {M : Type} (spec : List (List (Nat × M))) (o : Nat) : List M :=
  (spec.flatten.filter (fun oa => decide (oa.1 = o))).map (fun oa => oa.2)

theorem incsOf_append {M : Type} (l₁ l₂ : List (FU M)) : incsOf (l₁ ++ l₂) = incsOf l₁ ++ incsOf l₂ := by
  induction l₁ with
  | nil => rfl
  | cons u r ih => cases u <;> simp [incsOf, ih]

theorem incsOf_filePrograms {M : Type} (spec : List (List (Nat × M))) (c0 : ICell → M × M) (o : Nat) :
    incsOf (pending ((.value, o) : ICell) (init c0 (filePrograms spec)).threads) = issuedM spec o := by
  have hthread : ∀ t : List (Nat × M),
      incsOf (stores ((.value, o) : ICell) ((t.map (fun oa => fileIncCode MmapedValue_inc oa.1 oa.2)).flatten)) =
        (t.filter (fun oa => decide (oa.1 = o))).map (fun oa => oa.2) := by
    intro t
    induction t with
    | nil => rfl
    | cons oa r ih =>
      rw [List.map_cons, List.flatten_cons, stores_append, incsOf_append, ih, (fileIncCode_facts oa.1 o oa.2).2.2]
      by_cases ho : oa.1 = o <;> simp [ho, incsOf]
  unfold pending init issuedM filePrograms
  simp only [List.map_map]
  induction spec with
  | nil => rfl
  | cons t r ih =>
    simp only [List.map_cons, List.flatten_cons, Function.comp, List.filter_append, List.map_append, incsOf_append] at ih ⊢
    rw [ih]
    congr 1
    exact hthread t

/-- THE FILE HOLDS THE SUM (file-backed back-end).  Threads run the `inc` calls the spec lists for them, on any value objects;
the file entry of every value starts equal to its in-memory value.  When all threads have finished, the FILE entry of every
value object `o` — and its in-memory value — equals the initial value plus ALL amounts the spec issues to `o`, for any number
of threads and any schedule, in any commutative monoid.  (The write to the file carries the value the thread holds after its
`+=`; the theorem holds because the extracted skeleton keeps `rmw _value; write file` inside one `with lock`: file = value
whenever the lock is free.)  This is the theorem the seeded mutant "write the file after releasing the lock" falsifies — see
`file_write_outside_lock_loses_update`.  `_partial` like the other instance theorems: it is about the extracted protocol under
the interleaving semantics; the harness oracle `C02:lost-update-in-file` checks the real files. -/
theorem file_equals_sum_of_issued_partial {M : Type} (add : M → M → M)
    (assoc : ∀ a b c, add (add a b) c = add a (add b c)) (comm : ∀ a b, add a b = add b a)
    (spec : List (List (Nat × M))) (c0 : ICell → M × M) (hc0 : ∀ o, (c0 (.value, o)).2 = (c0 (.value, o)).1)
    (sched : List Tid) (o : Nat) :
    let s := run (apF add) (init c0 (filePrograms spec)) sched
    finished s →
      (s.cell (.value, o)).2 = (issuedM spec o).foldr (fun a v => add v a) (c0 (.value, o)).1 ∧
      (s.cell (.value, o)).1 = (issuedM spec o).foldr (fun a v => add v a) (c0 (.value, o)).1 := by
  intro s hf
  have hpieces : ∀ p ∈ filePrograms spec,
      disc ((.global, 0) : ILock) ((.value, o) : ICell) FU.blind p .out = true ∧
      sync ((.global, 0) : ILock) ((.value, o) : ICell) p false = true := by
    intro p hp
    obtain ⟨t, _, rfl⟩ := List.mem_map.mp hp
    constructor
    · rw [disc_eq_discP]
      refine (closedP_flatten _ _ _ _ ?_).1
      intro q hq
      obtain ⟨oa, _, rfl⟩ := List.mem_map.mp hq
      exact (fileIncCode_facts oa.1 o oa.2).1
    · refine sync_flatten _ _ _ ?_
      intro q hq
      obtain ⟨oa, _, rfl⟩ := List.mem_map.mp hq
      exact (fileIncCode_facts oa.1 o oa.2).2.1
  obtain ⟨dinv, sinv⟩ := fileInv_run (add := add) c0 (hc0 o) (filePrograms spec)
    (fun p hp => (hpieces p hp).1) (fun p hp => (hpieces p hp).2) sched
  have hfile := syncInv_finished sinv hf
  have hval : (s.cell (.value, o)).1 = (issuedM spec o).foldr (fun a v => add v a) (c0 (.value, o)).1 := by
    have hc := dinv.cellEq
    have hp := dinv.perm
    have he : pending ((.value, o) : ICell) (run (apF add) (init c0 (filePrograms spec)) sched).threads = [] :=
      pending_finished _ hf
    rw [he, List.append_nil] at hp
    show ((run (apF add) (init c0 (filePrograms spec)) sched).cell (.value, o)).1 = _
    rw [hc]
    unfold cur
    rw [fold_value, ← incsOf_filePrograms spec c0 o]
    refine List.Perm.foldr_eq' (incsOf_perm hp) ?_ _
    intro x _ y _ z
    rw [assoc, assoc, comm x y]
  exact ⟨hfile.trans hval, hval⟩

/-- non-vacuity: 3 threads, spec 1,2 | 3,4 | 5,6 on object 7 (Nat): the run finishes with value = file = 21 -/
example :
    let s := run (apF Nat.add) (init (fun _ => (0, 0)) (filePrograms [[(7, 1), (7, 2)], [(7, 3), (7, 4)], [(7, 5), (7, 6)]]))
      (List.replicate 60 (List.range 3)).flatten
    finishedB s = true ∧ s.cell (.value, 7) = (21, 21) := by decide

/-- seeded mutant C02-1: `inc()` leaves the lock before `self._file.write_value(key, value, …)` -/
def mutFileOutside : List Sk :=
  [.withLock .global [.callLib .processIdentifier, .read .pid, .rmw .value, .write .timestamp, .read .value], .write .file]

/-- the counter-example the file theorem excludes: with the file write outside the scope the skeleton is not well locked, and
the schedule "t0 increments and is pre-empted before its file write; t1 increments and writes 3; t0 writes its stale 1" ends
with value 3 and FILE 1 — below the sum of the increments issued -/
theorem file_write_outside_lock_loses_update :
    wellLockedB .mmap mutFileOutside = false ∧
    (let s := run (apF Nat.add) (init (fun _ => (0, 0))
        [fileIncCode mutFileOutside 0 1, fileIncCode mutFileOutside 0 2])
        ([0, 0, 0, 0, 0, 0, 0, 0] ++ [1, 1, 1, 1, 1, 1, 1, 1, 1] ++ [0])
     finishedB s = true ∧ s.cell (.value, 0) = (3, 1)) := by decide

/-- three threads × two increments (1,2 | 3,4 | 5,6) on value object 7 -/
def demoThreads (bk : Backend) : List (List (Call (Option Nat))) :=
  [[incCall bk 7 1, incCall bk 7 2], [incCall bk 7 3, incCall bk 7 4], [incCall bk 7 5, incCall bk 7 6]]

theorem demo_good (bk : Backend) : GoodThreads bk incBlind (demoThreads bk) := by
  intro calls hc c hcc
  simp only [demoThreads, List.mem_cons, List.not_mem_nil, or_false] at hc
  rcases hc with rfl | rfl | rfl <;>
    (simp only [List.mem_cons, List.not_mem_nil, or_false] at hcc; rcases hcc with rfl | rfl <;> exact incCall_good bk 7 _)

/-- a round-robin schedule long enough to finish -/
def roundRobin (n k : Nat) : List Tid := (List.replicate k (List.range n)).flatten

/-- non-vacuity: the hypotheses of the meta-theorems are met by 3 threads × 2 increments, in both back-ends; the run finishes
and the cell holds 21 = 1+2+3+4+5+6 -/
example : GoodThreads .mutex incBlind (demoThreads .mutex) := demo_good .mutex
example : GoodThreads .mmap incBlind (demoThreads .mmap) := demo_good .mmap
example : finishedB (run (incAp Nat.add) (world (fun _ => 0) (demoThreads .mutex)) (roundRobin 3 20)) = true ∧
    (run (incAp Nat.add) (world (fun _ => 0) (demoThreads .mutex)) (roundRobin 3 20)).cell (.value, 7) = 21 := by
  decide
example : finishedB (run (incAp Nat.add) (world (fun _ => 0) (demoThreads .mmap)) (roundRobin 3 60)) = true ∧
    (run (incAp Nat.add) (world (fun _ => 0) (demoThreads .mmap)) (roundRobin 3 60)).cell (.value, 7) = 21 := by
  decide

/-- `labels(k)` on parent `o`, creating child `c` if the key is absent (in the multiprocess store the child's value
constructor runs under the parent lock and takes the global lock: the nested scope is part of the call's code) -/
def labelsCall (bk : Backend) (o k c : Nat) : Call (Option (Nat × Nat)) :=
  Call.ofSk bk MetricWrapperBase_labels (bindL o) (bindV o) (fun x => if x = .metrics then some (k, c) else none)

theorem labelsCall_good (bk : Backend) (o k c : Nat) :
    wellLockedCode bk (labelsCall bk o k c).bl0 (labelsCall bk o k c).code0 = true ∧ (labelsCall bk o k c).Respects bk ∧
    (labelsCall bk o k c).BlindOk incBlind := by
  have hne : ∀ l : List Var, (∀ v ∈ l, v ≠ Var.metrics) → ∀ v ∈ l,
      incBlind (if v = Var.metrics then some (k, c) else none) = true := by
    intro l hl v hv; simp [incBlind, hl v hv]
  refine ⟨?_, bind_respects bk o _ rfl rfl, ?_⟩
  · cases bk
    · exact call_of_generated .mutex MetricWrapperBase_labels (by simp [skeletonsOf, mutexSet]) _ _ _
    · exact call_of_generated .mmap MetricWrapperBase_labels (by simp [skeletonsOf, mmapSet]) _ _ _
  · exact blindOk_ofSk _ _ _ _ _ _ (hne _ (by decide)) (fun _ _ => hne _ (by decide))

/-- the nested acquisition is really there: in the multiprocess store the code of `labels()` acquires the global lock while
holding the parent lock, and `register()` acquires the parent and then the value / global lock while holding the registry
lock (worst-case library `describe`/`collect`) — `generated_well_locked` checks the rank order on these scopes -/
example : ((canonCode .mmap MetricWrapperBase_labels).map (fun m => match m with
      | .acquire l => some (true, l) | .release l => some (false, l) | _ => none)).filterMap id =
    [(true, .parent), (true, .global), (false, .global), (false, .parent)] := by decide
example : ((canonCode .mutex CollectorRegistry_register).map (fun m => match m with
      | .acquire l => some (true, l) | .release l => some (false, l) | _ => none)).filterMap id =
    [(true, .registry), (true, .parent), (false, .parent), (true, .value), (false, .value), (true, .value), (false, .value),
     (false, .registry)] := by decide

theorem labels_demo_good (bk : Backend) :
    GoodThreads bk incBlind [[labelsCall bk 3 5 101], [labelsCall bk 3 5 102], [labelsCall bk 3 5 103]] := by
  intro calls hc c hcc
  simp only [List.mem_cons, List.not_mem_nil, or_false] at hc
  rcases hc with rfl | rfl | rfl <;>
    (simp only [List.mem_cons, List.not_mem_nil, or_false] at hcc; subst hcc; exact labelsCall_good bk 3 5 _)

/-- non-vacuity of `one_shared_child`, both back-ends: three threads call `labels(5)` on parent 3 with three different fresh
children; under the round-robin schedule all three lookup-or-create stores are logged and every one of them left child 101
(the first creator's) in the table -/
example : GoodThreads .mutex incBlind [[labelsCall .mutex 3 5 101], [labelsCall .mutex 3 5 102], [labelsCall .mutex 3 5 103]] :=
  labels_demo_good .mutex
example : GoodThreads .mmap incBlind [[labelsCall .mmap 3 5 101], [labelsCall .mmap 3 5 102], [labelsCall .mmap 3 5 103]] :=
  labels_demo_good .mmap
example :
    (writesOf ((run ensureO (world (fun _ => [])
        [[labelsCall .mutex 3 5 101], [labelsCall .mutex 3 5 102], [labelsCall .mutex 3 5 103]]) (roundRobin 3 30)).log
          (.metrics, 3))).map (fun e => e.2.2.lookup 5) = [some 101, some 101, some 101] := by decide
example :
    (writesOf ((run ensureO (world (fun _ => [])
        [[labelsCall .mmap 3 5 101], [labelsCall .mmap 3 5 102], [labelsCall .mmap 3 5 103]]) (roundRobin 3 80)).log
          (.metrics, 3))).map (fun e => e.2.2.lookup 5) = [some 101, some 101, some 101] := by decide

/-! ## The model is not a tidied version of the code: the measured mutations flip `WellLocked`, and the semantics shows the
failure each one causes -/

/-- (a) `MutexValue.inc` without its lock -/
def mutA : List Sk := [.rmw .value]
/-- (b) `labels()` without `with self._lock` around child creation -/
def mutB : List Sk := [.read .metrics, .callLib .childCtor, .write .metrics, .read .metrics]
/-- (c) `_multi_samples` iterating `self._metrics` directly, outside the lock -/
def mutC : List Sk := [.iterate .metrics [.callUser .samples, .yield]]
/-- (d) `registry.collect` without `copy.copy`: the alias is iterated outside the lock -/
def mutD : List Sk :=
  [.withLock .registry [.read .collectorToNames, .read .targetInfo, .read .targetInfo], .yield,
   .iterate .collectorToNames [.callUser .collect, .yield]]
/-- (e) `MmapedValue.inc` without the global lock -/
def mutE : List Sk :=
  [.callLib .processIdentifier, .read .pid, .rmw .value, .write .timestamp, .read .file, .read .value, .read .timestamp]
/-- (f) `registry.collect` yielding from the collectors while still holding the lock -/
def mutF : List Sk :=
  [.withLock .registry [.copy .collectorToNames, .read .targetInfo, .read .targetInfo, .yield, .callUser .collect, .yield]]

theorem mutations_flip_well_locked :
    wellLockedB .mutex mutA = false ∧ wellLockedB .mutex mutB = false ∧ wellLockedB .mutex mutC = false ∧
    wellLockedB .mutex mutD = false ∧ wellLockedB .mmap mutE = false ∧ noUserInLock mutF = false := by decide

/-- (a) in the semantics: two threads, one unlocked `inc(1)` each; the schedule t0 load, t1 load, t0 store, t1 store loses an
update (final 1, two increments issued) -/
theorem unlocked_inc_loses_update :
    let c : Call (Option Nat) := Call.ofSk .mutex mutA (bindL 7) (bindV 7) (fun _ => some 1)
    let s := run (incAp Nat.add) (world (fun _ => 0) [[c], [c]]) [0, 1, 0, 1]
    finishedB s = true ∧ s.cell (.value, 7) = 1 := by decide

/-- (f) in the semantics: a collector that calls `register` from inside `collect()` while the registry still holds its lock
blocks forever (one thread is enough) -/
theorem yield_under_lock_deadlocks :
    let code : List CMicro := compile (canon 0) reentrantCb mutF
    let s := run (fun (_ : CLabel) (_ c : Nat) => c) (init (fun _ => 0) [code]) (List.replicate 40 0)
    finishedB s = false ∧ (step (fun (_ : CLabel) (_ c : Nat) => c) s 0).isNone = true := by decide

/-- (c) in the semantics: `clear()` by another thread while the unlocked iteration over the child table is open raises the
iteration error -/
theorem unlocked_iteration_errors :
    let it : Call (Option Nat) := Call.ofSk .mutex mutC (bindL 3) (bindV 3) (fun _ => none)
    let cl : Call (Option Nat) := Call.ofSk .mutex MetricWrapperBase_clear (bindL 3) (bindV 3) (fun _ => none)
    let s := run (incAp Nat.add) (world (fun _ => 0) [[it], [cl]]) [0, 1, 1, 1]
    s.err (.metrics, 3) = true := by decide

/-- NOT covered by the property statement, but real: `register()` calls `collector.describe()` (or `collect()` under
`auto_describe`) while HOLDING the registry lock; a collector whose `describe()` itself registers something blocks forever.
The skeleton shows it (`callUser descFunc` inside `withLock registry`), the composite call is not well locked, and the
semantics deadlocks.  The property's re-entrancy clause speaks only of `collect()` during `registry.collect()`. -/
def describeReenters : List CMicro :=
  compile (canon 0) (fun c => match c with | .descFunc => canonCodeK 1 CollectorRegistry_register | _ => [])
    CollectorRegistry_register

theorem register_reentrant_describe_deadlocks :
    wellLockedCode .mutex (fun _ => true) describeReenters = false ∧
    (let s := run (fun (_ : CLabel) (_ c : Nat) => c) (init (fun _ => 0) [describeReenters]) (List.replicate 40 0)
     finishedB s = false ∧ (step (fun (_ : CLabel) (_ c : Nat) => c) s 0).isNone = true) := by decide

/-- **A built-in metric is complete when it is published.**  `MetricWrapperBase.__init__` ends in `registry.register(self)`;
from that bytecode on a `collect()` in another thread can reach the object although the subclass constructor has not returned.
T1 (`Generated.Registry.ctorsPublishComplete`, read from `metrics.py`): no subclass constructor assigns, after the base
constructor returned, an attribute that `collect` / `describe` / `_samples` / `_child_samples` / `_multi_samples` read, and
(`ctorsRegisterLast`) none can raise there.  On a tree where e.g. `Enum.__init__` sets `_states` after `super().__init__`
(the unchanged tree did: finding F38, a concurrent collect raised AttributeError) the `decide` fails and the scheduler programs
`mk:T:a | colf / gen / rcn` of `harness/props/c02.py` exhibit the schedule. -/
theorem constructors_publish_complete :
    PromVerif.Generated.Registry.ctorsPublishComplete = true ∧ PromVerif.Generated.Registry.ctorsRegisterLast = true := by
  decide

end PromVerif.Props.C02
