/-
C15 — the OpenMetrics parser enforces each of its validation rules on every instance.

Each theorem: a rule predicate of `Spec/OMRules.lean` (written from the rule's wording, over the list of tokenised
lines, the offending line at an arbitrary position, everything else arbitrary) implies that the family state machine
`assemble` — the model of `text_fd_to_metric_families` on tokenised lines, `omParse = assemble ∘ map parseLine ∘
docLines` — raises.  The theorems are parametric in the number operations (`Params`).  After each theorem a
kernel-evaluated example: a concrete accepted document and its violating transform rejected (toy number instance).

Rules whose enforcement in the parser is narrower than the wording carry that side condition in the predicate; the
harness runs the real parser on the excluded instances (evidence key `exemptions`).
-/
import PromVerif.Spec.OMRules
import PromVerif.Lemmas.OMChecks
import PromVerif.Lemmas.OMToy

namespace PromVerif.Props.C15
open PromVerif.Py PromVerif.Model.ParseCore PromVerif.Model.OMParse PromVerif.Generated.OMParse
open PromVerif.Spec.OMRules PromVerif.Lemmas.OM PromVerif.Lemmas.OMToy

/-- the extractor found every site of the OpenMetrics parser in the shape it understands -/
theorem extract_ok : extractOk = true := by decide

/-- the suffix table the rules are worded with is the table in the source -/
theorem suffix_table_matches (t : Str) : (lookupTable t typeSuffixes).getD [[]] = specSuffixes t := lookup_spec t

/-! ## `# EOF`, blank lines -/

theorem stepLine_eof_false (P : Params) (st st' : St) (l : Line) (hl : l ≠ .eof) (h : stepLine P st l = .ok st') :
    st'.eof = st.eof := by
  obtain ⟨_, hc⟩ := stepLine_ok P st st' l h
  rcases hc with ⟨h0, _⟩ | ⟨kind, cand, rest, _, hm⟩ | ⟨nh, plain, s, isNh, _, _, hs⟩
  · exact absurd h0 hl
  · rcases stepMeta_ok P st st' _ _ _ hm with ⟨_, g, hd, _, _, rfl⟩ | ⟨_, hd, _, rfl⟩ <;> rfl
  · rcases stepSample_ok P st st' s isNh hs with ⟨_, g, hd, gr, _, _, _, rfl⟩ | ⟨_, gr, _, rfl⟩ <;> rfl

/-- missing `# EOF`: a document without an EOF line is rejected -/
theorem missing_eof (P : Params) (ls : List Line) (h : MissingEOF ls) : isError (assemble P ls) = true := by
  have key : ∀ st st', st.eof = false → run P st ls = .ok st' → st'.eof = false := by
    intro st st' hst
    refine run_invariant P (fun s => s.eof = false) (fun l => l ≠ .eof) ?_ ls (fun l hl e => h (e ▸ hl)) st hst st'
    intro s l s' hq hl hs
    rw [stepLine_eof_false P s s' l hl hs]; exact hq
  rw [assemble_eq]
  unfold finishRun
  cases hr : run P {} ls with
  | error e => rfl
  | ok st =>
    have := key {} st rfl hr
    simp only [finish]
    cases flush P st.glob st.hdr st.grp.samples with
    | error e => rfl
    | ok g => simp [this, isError]

example : isError (parseDoc "a 1\n# EOF\n") = false := by decide
example : errOf (parseDoc "a 1\n") = some .valueError := by decide

/-- content after `# EOF` (a second `# EOF` included) is rejected -/
theorem content_after_eof (P : Params) (ls : List Line) (h : ContentAfterEOF ls) : isError (assemble P ls) = true := by
  obtain ⟨pre, l, post, rfl⟩ := h
  apply isError_of_suffix
  intro st
  rw [finishRun_cons]
  cases hs : stepLine P st .eof with
  | error e => rfl
  | ok st1 =>
    simp only
    obtain ⟨_, hc⟩ := stepLine_ok P st st1 _ hs
    have h1 : st1.eof = true := by
      rcases hc with ⟨_, rfl⟩ | ⟨_, _, _, hl, _⟩ | ⟨_, _, _, _, hl, _⟩
      · rfl
      · cases hl
      · cases hl
    rw [finishRun_cons]
    simp [stepLine, h1, isError]

example : errOf (parseDoc "a 1\n# EOF\na 2\n") = some .valueError := by decide
example : errOf (parseDoc "a 1\n# EOF\n# EOF\n") = some .valueError := by decide

/-- a blank line anywhere is rejected -/
theorem blank_line (P : Params) (ls : List Line) (h : BlankLine ls) : isError (assemble P ls) = true := by
  obtain ⟨pre, post, rfl⟩ := List.append_of_mem h
  apply isError_of_suffix
  intro st
  apply isError_of_bad_line
  intro st
  unfold stepLine
  split <;> rfl

example : errOf (parseDoc "a 1\n\n# EOF\n") = some .valueError := by decide

/-! ## per-sample value and label rules -/

theorem mem_runChecks_pre (P : Params) (n : Str) (t : Option Str) (s : OSample) (c : PyM Unit)
    (hc : c ∈ [chkStatesetLabel n t s, chkLe P n s, chkBucketIntegral P n s, chkCountIntegral P n s, chkQuantile P n t s])
    (he : isError c = true) : isError (preChecks P n t s) = true :=
  runChecks_isError_of_mem _ c hc he

theorem mem_runChecks_post (P : Params) (n : Str) (t : Option Str) (s : OSample) (c : PyM Unit)
    (hc : c ∈ [chkStatesetValue P t s, chkInfoValue P t s, chkSummaryNeg P n t s, chkNaN P n s, chkNeg P n s, chkExemplar t s])
    (he : isError c = true) : isError (postChecks P n t s) = true :=
  runChecks_isError_of_mem _ c hc he

theorem info_names (n : Str) : familyNames n "info".toList = [n ++ "_info".toList] := by
  simp [familyNames, specSuffixes]

theorem stateset_names (n : Str) : familyNames n "stateset".toList = [n] := by
  simp [familyNames, specSuffixes]

theorem summary_names_self (n : Str) : n ∈ familyNames n "summary".toList := by
  simp [familyNames, specSuffixes]

/-- info values other than 1 are rejected — any family name, labels, position, lines before and after -/
theorem info_not_one (P : Params) (ls : List Line) (h : InfoNotOne P ls) : isError (assemble P ls) = true := by
  obtain ⟨n, s, v, hb, hname, hv, hne⟩ := h
  refine block_of_InBlock P ls n _ (smp s) hb ?_
  intro st hh heof
  refine smp_fails P st n _ s hh heof (by rw [info_names, hname]; exact List.mem_singleton.mpr rfl) (Or.inr ?_)
  refine mem_runChecks_post P n (some "info".toList) s (chkInfoValue P (some "info".toList) s) (by simp) ?_
  have : chkInfoValue P (some "info".toList) s = raiseIfM (.ok (!P.eq v (.int 1))) := by
    simp only [chkInfoValue, hv]; rfl
  rw [this, hne]; rfl

example : isError (parseDoc "# TYPE a info\na_info{x=\"y\"} 1\n# EOF\n") = false := by decide
example : errOf (parseDoc "# TYPE a info\na_info{x=\"y\"} 2\n# EOF\n") = some .valueError := by decide
example : errOf (parseDoc "# TYPE a info\n# HELP a h\na_info{x=\"y\"} 1\na_info{x=\"z\"} 0\n# EOF\n") = some .valueError := by decide

/-- stateset values outside {0, 1} are rejected -/
theorem stateset_bad_value (P : Params) (ls : List Line) (h : StatesetBadValue P ls) : isError (assemble P ls) = true := by
  obtain ⟨n, s, v, hb, hname, hv, h0, h1⟩ := h
  refine block_of_InBlock P ls n _ (smp s) hb ?_
  intro st hh heof
  refine smp_fails P st n _ s hh heof (by rw [stateset_names, hname]; exact List.mem_singleton.mpr rfl) (Or.inr ?_)
  refine mem_runChecks_post P n (some "stateset".toList) s (chkStatesetValue P (some "stateset".toList) s) (by simp) ?_
  have : chkStatesetValue P (some "stateset".toList) s = raiseIf true := by
    simp only [chkStatesetValue, hv, valueIn]
    have : statesetValues = [0, 1] := by decide
    simp [this, h0, h1]
    rfl
  rw [this]; rfl

example : isError (parseDoc "# TYPE a stateset\na{a=\"on\"} 1\na{a=\"off\"} 0\n# EOF\n") = false := by decide
example : errOf (parseDoc "# TYPE a stateset\na{a=\"on\"} 1\na{a=\"off\"} 2\n# EOF\n") = some .valueError := by decide

theorem dictHas_false_of (lbls : Labels) (n : Str) (h : ∀ kv ∈ lbls, kv.1 ≠ n) : dictHas lbls n = false := by
  unfold dictHas
  rw [List.any_eq_false]
  intro kv hkv
  simpa using h kv hkv

/-- a stateset sample without the state label is rejected -/
theorem stateset_no_label (P : Params) (ls : List Line) (h : StatesetNoLabel ls) : isError (assemble P ls) = true := by
  obtain ⟨n, s, lbls, hb, hname, hl, hno⟩ := h
  refine block_of_InBlock P ls n _ (smp s) hb ?_
  intro st hh heof
  refine smp_fails P st n _ s hh heof (by rw [stateset_names, hname]; exact List.mem_singleton.mpr rfl) (Or.inl ?_)
  refine mem_runChecks_pre P n (some "stateset".toList) s (chkStatesetLabel n (some "stateset".toList) s) (by simp) ?_
  have : chkStatesetLabel n (some "stateset".toList) s = raiseIf true := by
    simp only [chkStatesetLabel, labelsOrType, hl, dictHas_false_of lbls n hno]
    rfl
  rw [this]; rfl

example : errOf (parseDoc "# TYPE a stateset\na{a=\"on\"} 1\na{b=\"off\"} 0\n# EOF\n") = some .valueError := by decide

theorem counterLike_nan : ∀ suf ∈ counterLike, nanSuffixes.contains suf = true := by decide
theorem counterLike_neg : ∀ suf ∈ counterLikeNonNeg, negSuffixes.contains suf = true := by decide

/-- NaN counter-like samples (`_total _sum _count _bucket _gcount _gsum`) are rejected, whatever the family type -/
theorem counter_like_nan (P : Params) (ls : List Line) (h : CounterLikeNaN P ls) : isError (assemble P ls) = true := by
  obtain ⟨n, t, s, suf, b, hb, hname, hsuf, hmem, hv, hnan⟩ := h
  refine block_of_InBlock P ls n t (smp s) hb ?_
  intro st hh heof
  refine smp_fails P st n t s hh heof hmem (Or.inr ?_)
  refine mem_runChecks_post P n (some t) s (chkNaN P n s) (by simp) ?_
  have : chkNaN P n s = raiseIfM (.ok true) := by
    simp only [chkNaN, hname, drop_append_left, counterLike_nan suf hsuf, if_true, hv, mathIsNaN, hnan]
  rw [this]; rfl

example : isError (parseDoc "# TYPE a counter\na_total 1\n# EOF\n") = false := by decide
example : errOf (parseDoc "# TYPE a counter\na_total NaN\n# EOF\n") = some .valueError := by decide
example : errOf (parseDoc "# TYPE a gaugehistogram\na_bucket{le=\"+Inf\"} 1\na_gcount 1\na_gsum NaN\n# EOF\n") = some .valueError := by decide

/-- negative counter-like samples (`_total _sum _count _bucket _gcount`) are rejected -/
theorem counter_like_negative (P : Params) (ls : List Line) (h : CounterLikeNegative P ls) : isError (assemble P ls) = true := by
  obtain ⟨n, t, s, suf, v, hb, hname, hsuf, hmem, hv, hneg⟩ := h
  refine block_of_InBlock P ls n t (smp s) hb ?_
  intro st hh heof
  refine smp_fails P st n t s hh heof hmem (Or.inr ?_)
  refine mem_runChecks_post P n (some t) s (chkNeg P n s) (by simp) ?_
  have : chkNeg P n s = raiseIfM (.ok true) := by
    simp only [chkNeg, hname, drop_append_left, counterLike_neg suf hsuf, if_true, hv, Params.cmpOpt, Params.cmp, hneg]
  rw [this]; rfl

example : errOf (parseDoc "# TYPE a counter\na_total -1\n# EOF\n") = some .valueError := by decide
example : isError (parseDoc "# TYPE a summary\na_count 1\na_sum 2\n# EOF\n") = false := by decide
example : errOf (parseDoc "# TYPE a summary\na_count 1\na_sum -2\n# EOF\n") = some .valueError := by decide

/-- a summary quantile sample whose quantile is missing, not a number or outside [0, 1] is rejected -/
theorem quantile_out_of_range (P : Params) (ls : List Line) (h : QuantileOutOfRange P ls) : isError (assemble P ls) = true := by
  obtain ⟨n, s, lbls, hb, hname, hl, hq⟩ := h
  refine block_of_InBlock P ls n _ (smp s) hb ?_
  intro st hh heof
  refine smp_fails P st n _ s hh heof (by rw [hname]; exact summary_names_self n) (Or.inl ?_)
  refine mem_runChecks_pre P n (some "summary".toList) s (chkQuantile P n (some "summary".toList) s) (by simp) ?_
  have e1 : (some "summary".toList == some tSummary && n == s.name) = true := by
    rw [hname]; simp; decide
  simp only [chkQuantile, e1, if_true, labelsOrAttr, hl]
  have e2 : sQuantile = "quantile".toList := rfl
  rw [e2]
  cases hg : dictGet lbls "quantile".toList with
  | none => rfl
  | some q =>
    rw [hg] at hq
    simp only at hq ⊢
    unfold Params.floatE
    cases hf : P.pyFloat q with
    | none => rfl
    | some f =>
      rw [hf] at hq
      simp only at hq ⊢
      have : (!(P.le (.int 0) (.flt f) && P.le (.flt f) (.int 1))) = true := by
        cases h1 : P.le (.int 0) (.flt f) <;> cases h2 : P.le (.flt f) (.int 1) <;> simp_all
      rw [if_pos this]; rfl

example : isError (parseDoc "# TYPE a summary\na{quantile=\"0.5\"} 1\n# EOF\n") = false := by decide
example : errOf (parseDoc "# TYPE a summary\na{quantile=\"2\"} 1\n# EOF\n") = some .valueError := by decide
example : errOf (parseDoc "# TYPE a summary\na{quantile=\"0.5\"} 1\na{x=\"y\"} 1\n# EOF\n") = some .valueError := by decide

/-- non-integral bucket / count values are rejected -/
theorem count_not_integral (P : Params) (ls : List Line) (h : CountNotIntegral P ls) : isError (assemble P ls) = true := by
  obtain ⟨n, t, s, suf, b, hb, hname, hsuf, hmem, hv, hni⟩ := h
  refine block_of_InBlock P ls n t (smp s) hb ?_
  intro st hh heof
  refine smp_fails P st n t s hh heof hmem (Or.inl ?_)
  have hni' : raiseIfM (notIntegral P s.value) = raiseIfM (.ok true) := by simp [hv, notIntegral, hni]
  simp only [List.mem_cons, List.mem_singleton, List.not_mem_nil, or_false] at hsuf
  rcases hsuf with rfl | rfl | rfl
  · refine mem_runChecks_pre P n (some t) s (chkBucketIntegral P n s) (by simp) ?_
    have : chkBucketIntegral P n s = raiseIfM (.ok true) := by
      simp only [chkBucketIntegral, hname, hni']
      have : (n ++ sBucket == n ++ "_bucket".toList) = true := by simp [sBucket]
      rw [if_pos this]
    rw [this]; rfl
  · refine mem_runChecks_pre P n (some t) s (chkCountIntegral P n s) (by simp) ?_
    have : chkCountIntegral P n s = raiseIfM (.ok true) := by
      simp only [chkCountIntegral, hname, hni']
      have : (n ++ sCount == n ++ "_count".toList || n ++ sGcount == n ++ "_count".toList) = true := by simp [sCount]
      rw [if_pos this]
    rw [this]; rfl
  · refine mem_runChecks_pre P n (some t) s (chkCountIntegral P n s) (by simp) ?_
    have : chkCountIntegral P n s = raiseIfM (.ok true) := by
      simp only [chkCountIntegral, hname, hni']
      have : (n ++ sCount == n ++ "_gcount".toList || n ++ sGcount == n ++ "_gcount".toList) = true := by simp [sGcount]
      rw [if_pos this]
    rw [this]; rfl

example : isError (parseDoc "# TYPE a histogram\na_bucket{le=\"+Inf\"} 1\na_count 1\na_sum 1\n# EOF\n") = false := by decide
example : errOf (parseDoc "# TYPE a histogram\na_bucket{le=\"+Inf\"} 0.5\n# EOF\n") = some .valueError := by decide
example : errOf (parseDoc "# TYPE a summary\na_count 0.5\n# EOF\n") = some .valueError := by decide

/-- an exemplar on a sample that is neither a histogram / gauge-histogram bucket nor a counter total is rejected -/
theorem exemplar_ineligible (P : Params) (ls : List Line) (h : ExemplarIneligible ls) : isError (assemble P ls) = true := by
  obtain ⟨n, t, s, hb, hmem, hex, hne⟩ := h
  refine block_of_InBlock P ls n t (smp s) hb ?_
  intro st hh heof
  refine smp_fails P st n t s hh heof hmem (Or.inr ?_)
  refine mem_runChecks_post P n (some t) s (chkExemplar (some t) s) (by simp) ?_
  have : chkExemplar (some t) s = raiseIf true := by
    unfold chkExemplar
    congr 1
    rw [hex, Bool.true_and, Bool.not_eq_true']
    unfold exemplarEligible at hne
    by_cases c1 : t = "histogram".toList
    · subst c1
      have : endsWith "_bucket".toList s.name = false := by
        cases hE : endsWith "_bucket".toList s.name
        · rfl
        · exact absurd (Or.inl ⟨Or.inl rfl, hE⟩) hne
      simp [tHistogram, tGaugeHistogram, tCounter, sBucket, this]; decide
    · by_cases c2 : t = "gaugehistogram".toList
      · subst c2
        have : endsWith "_bucket".toList s.name = false := by
          cases hE : endsWith "_bucket".toList s.name
          · rfl
          · exact absurd (Or.inl ⟨Or.inr rfl, hE⟩) hne
        simp [tHistogram, tGaugeHistogram, tCounter, sBucket, this]; decide
      · by_cases c3 : t = "counter".toList
        · subst c3
          have : endsWith "_total".toList s.name = false := by
            cases hE : endsWith "_total".toList s.name
            · rfl
            · exact absurd (Or.inr ⟨rfl, hE⟩) hne
          simp [tHistogram, tGaugeHistogram, tCounter, sTotal, this]; decide
        · have e1 : (some t == some tHistogram) = false := by simpa [tHistogram] using c1
          have e2 : (some t == some tGaugeHistogram) = false := by simpa [tGaugeHistogram] using c2
          have e3 : (some t == some tCounter) = false := by simpa [tCounter] using c3
          simp [e1, e2, e3]
  rw [this]; rfl

example : isError (parseDoc "# TYPE a counter\na_total 1 # {t=\"x\"} 1\n# EOF\n") = false := by decide
example : errOf (parseDoc "# TYPE a counter\na_total 1\na_created 1 # {t=\"x\"} 1\n# EOF\n") = some .valueError := by decide
example : errOf (parseDoc "# TYPE a gauge\na 1 # {t=\"x\"} 1\n# EOF\n") = some .valueError := by decide

end PromVerif.Props.C15
