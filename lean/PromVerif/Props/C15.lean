/-
C15 — the OpenMetrics parser enforces each of its validation rules on every instance.

* `Props/C15Rules.lean` — the rules as predicates on the tokenised lines (Spec/OMRules.lean) and, per rule, the theorem
  that the family state machine rejects (the rule → theorem table is in that file's header);
* `Props/C15Text.lean`  — the rules enforced during tokenisation stated on text (`duplicate_label_*`,
  `exemplar_too_long_*`), the class of every rejection (`rule_violation_is_valueError`, `rejected_with_valueError`:
  composition with `C14OM.om_parser_total`), and a satisfying token list for every rule predicate.
Both files are in namespace `PromVerif.Props.C15`.
-/
import PromVerif.Props.C15Rules
import PromVerif.Props.C15Text
