/-
C15, part 2 — the rules that are enforced while a line is tokenised, stated on TEXT; the exception class of every
rejection; and, for each rule predicate of part 1, a concrete token list that satisfies it.
-/
import PromVerif.Props.C15Rules
import PromVerif.Lemmas.OMExLong
import PromVerif.Lemmas.OMFold4
import PromVerif.Lemmas.OMDupMixed

namespace PromVerif.Props.C15
open PromVerif.Py PromVerif.Model PromVerif.Model.ParseCore PromVerif.Model.OMParse PromVerif.Generated.OMParse
open PromVerif.Spec.OMRules PromVerif.Lemmas.OM PromVerif.Lemmas.OMToy
open PromVerif.Lemmas.OMRt PromVerif.Lemmas.TextParse PromVerif.Lemmas.Scanner PromVerif.Model.TextExpo

/-- the tokenised lines of a text -/
def linesOf (P : Params) (text : Str) : List Line := (docLines text).map (parseLine P)

theorem omParse_eq (P : Params) (text : Str) : omParse P text = assemble P (linesOf P text) := rfl

/-! ## the class of every rejection is ValueError (composition with C14) -/

/-- whatever makes the state machine fail on the lines of a text, the parser raises ValueError — for every text and
every choice of the number parameters (with the two interpreter facts of `C14OM.om_parser_total`) -/
theorem rule_violation_is_valueError (P : Params) (hnan : NaNLiteral P) (hd : DigitsNotSpace P) (text : Str)
    (h : isError (assemble P (linesOf P text)) = true) : omParse P text = .error .valueError := by
  rw [omParse_eq]
  cases hp : assemble P (linesOf P text) with
  | ok fams => rw [hp] at h; cases h
  | error e =>
    have := omParse_safe P hnan hd text e (by rw [omParse_eq]; exact hp)
    rw [this]

/-- … instantiated: a text whose lines violate a rule is rejected with ValueError -/
theorem rejected_with_valueError (P : Params) (hnan : NaNLiteral P) (hd : DigitsNotSpace P) (text : Str)
    (h : MissingEOF (linesOf P text) ∨ ContentAfterEOF (linesOf P text) ∨ BlankLine (linesOf P text) ∨
      RepeatedMetadata (linesOf P text) ∨ LateMetadata (linesOf P text) ∨ InterleavedFamilies (linesOf P text) ∨
      ClashingFamilies (linesOf P text) ∨ UnitNotSuffix (linesOf P text) ∨ UnitOnInfoOrStateset (linesOf P text) ∨
      InfoNotOne P (linesOf P text) ∨ StatesetBadValue P (linesOf P text) ∨ StatesetNoLabel (linesOf P text) ∨
      CounterLikeNaN P (linesOf P text) ∨ CounterLikeNegative P (linesOf P text) ∨ QuantileOutOfRange P (linesOf P text) ∨
      CountNotIntegral P (linesOf P text) ∨ BucketBoundNaN P (linesOf P text) ∨ ExemplarIneligible (linesOf P text) ∨
      TimestampBackwards P (linesOf P text) ∨ TimestampPartial (linesOf P text) ∨
      HistBoundsNotIncreasingDoc P (linesOf P text) ∨ HistCountsNotCumulativeDoc P (linesOf P text) ∨
      HistNoInfDoc P (linesOf P text) ∨ HistCountNeInfDoc P (linesOf P text)) :
    omParse P text = .error .valueError := by
  apply rule_violation_is_valueError P hnan hd text
  rcases h with h | h | h | h | h | h | h | h | h | h | h | h | h | h | h | h | h | h | h | h | h | h | h | h
  · exact missing_eof P _ h
  · exact content_after_eof P _ h
  · exact blank_line P _ h
  · exact repeated_metadata P _ h
  · exact late_metadata P _ h
  · exact interleaved_families P _ h
  · exact clashing_families P _ h
  · exact unit_not_suffix P _ h
  · exact unit_on_info_or_stateset P _ h
  · exact info_not_one P _ h
  · exact stateset_bad_value P _ h
  · exact stateset_no_label P _ h
  · exact counter_like_nan P _ h
  · exact counter_like_negative P _ h
  · exact quantile_out_of_range P _ h
  · exact count_not_integral P _ h
  · exact bucket_bound_nan P _ h
  · exact exemplar_ineligible P _ h
  · exact timestamp_backwards P _ h
  · exact timestamp_partial P _ h
  · exact hist_bounds_not_increasing P _ h
  · exact hist_counts_not_cumulative P _ h
  · exact hist_no_inf_document P _ h
  · exact hist_count_ne_inf_document P _ h

/-! ## duplicate label names -/

/-- **a label block that names one label twice is rejected**: for every list of (name, value) pairs whose names
`_validate_labelname` accepts (legacy names bare, others quoted and escaped) and whose values are arbitrary (escaped),
if a name occurs twice then `parse_labels(block, True)` raises ValueError -/
theorem duplicate_label_rejected (legacy : Bool) (kv : Str × Str) (r : List (Str × Str))
    (hok : ∀ x ∈ kv :: r, labelNameOK legacy x.1 = true) (hdup : ¬ ((kv :: r).map (·.1)).Nodup) :
    parseLabels legacy (exBlock (kv :: r)) true = .error .valueError :=
  parseLabels_om_dup kv r hok hdup

/-- … the sample line `name{block} rest` carrying it is rejected by `_parse_sample` … -/
theorem duplicate_label_line_rejected (P : Params) (n : Str) (hv : Validation.isValidLegacyMetricName n = true)
    (kv : Str × Str) (r : List (Str × Str)) (hok : ∀ x ∈ kv :: r, labelNameOK P.legacy x.1 = true)
    (hdup : ¬ ((kv :: r).map (·.1)).Nodup) (rest : Str) :
    parseSample P (n ++ '{' :: (exBlock (kv :: r) ++ '}' :: ' ' :: rest)) = .error .valueError :=
  parseSample_labels_dup P hv kv r hok hdup rest

/-- the shape of such a line: a legacy metric name, the block, and a remainder `value[ ts][ # {…} v[ ts]]` of number
tokens -/
def dupLine (n : Str) (L : List (Str × Str)) (vtok : Str) (ts : Option Str) (ex : Option (List (Str × Str) × Str × Option Str)) : Str :=
  n ++ '{' :: (exBlock L ++ '}' :: ' ' :: remText vtok ts ex)

theorem legacy_head (n : Str) (hv : Validation.isValidLegacyMetricName n = true) (rest : Str) :
    ∃ c t, n ++ rest = c :: t ∧ c ≠ '#' := by
  obtain ⟨hne, hc⟩ := legacyName_chars hv (legacyMetric_no_newline hv)
  cases n with
  | nil => exact absurd rfl hne
  | cons c t => exact ⟨c, t ++ rest, rfl, legacyChar_ne (hc c (by simp)) (by decide)⟩

/-- … and so is every DOCUMENT that contains such a line, wherever it stands, with ValueError -/
theorem duplicate_label_document (P : Params) (hnan : NaNLiteral P) (hd : DigitsNotSpace P) (text : Str)
    (n : Str) (hv : Validation.isValidLegacyMetricName n = true) (kv : Str × Str) (r : List (Str × Str))
    (hok : ∀ x ∈ kv :: r, labelNameOK P.legacy x.1 = true) (hdup : ¬ ((kv :: r).map (·.1)).Nodup)
    (vtok : Str) (ts : Option Str) (ex : Option (List (Str × Str) × Str × Option Str)) (ht : RemTok vtok ts ex)
    (hmem : dupLine n (kv :: r) vtok ts ex ∈ docLines text) : omParse P text = .error .valueError := by
  apply rule_violation_is_valueError P hnan hd text
  rw [← omParse_eq]
  apply omParse_bad_line P text _ hmem
  intro st
  obtain ⟨c, t, hl, hc⟩ := legacy_head n hv ('{' :: (exBlock (kv :: r) ++ '}' :: ' ' :: remText vtok ts ex))
  rw [parseLine_sample P (dupLine n (kv :: r) vtok ts ex) c t hl hc]
  have hplain : parseSample P (dupLine n (kv :: r) vtok ts ex) = .error .valueError :=
    parseSample_labels_dup P hv kv r hok hdup _
  have hnh : nhDetect (dupLine n (kv :: r) vtok ts ex) = .ok none := by
    obtain ⟨_, hcs⟩ := legacyName_chars hv (legacyMetric_no_newline hv)
    have hn : Pass spLbChs n := pass_plain (plainFor_legacy (fun c h => by
      simp [spLbChs, legacyChar_eq_false h (show isLegacyChar ' ' = false by decide),
        legacyChar_eq_false h (show isLegacyChar '{' = false by decide)]) hcs)
    have hB : Pass rbChs ('{' :: (labelItem kv ++ tailStr r)) := by
      have h2 : Pass rbChs ['{'] := pass_plain (by intro c hc; simp at hc; subst hc; exact ⟨by decide, by decide, by decide⟩)
      have h3 : Pass rbChs (labelItem kv) := item_pass rbChs_safe (by decide) (hok kv (by simp))
      have h4 : Pass rbChs (tailStr r) := tail_pass rbChs_safe (by decide) (by decide) r (fun x hx => hok x (by simp [hx]))
      have := pass_append h2 (pass_append h3 h4)
      simpa using this
    exact nhDetect_braced n (labelItem kv ++ tailStr r) hn hB ht
  rw [hplain, parseNhLine_none P _ hnh]
  exact stepLine_plain_error P st _

example : errOf (parseLabels false cs!"a=\"1\",b=\"2\",a=\"3\"" true) = some .valueError := by decide
example : errOf (parseDoc "# TYPE m gauge\nm{a=\"1\",b=\"2\",a=\"3\"} 1\n# EOF\n") = some .valueError := by decide

/-! ### … whatever the spelling of the two name tokens

`duplicate_label_rejected` speaks of rendered blocks, in which a name has ONE spelling (a legacy name bare, any other
quoted).  `parse_labels` compares the names AFTER `_unquote_unescape`, so `a="1","a"="2"` names `a` twice as well.  Below,
every item carries its own name token — the canonical one or the quoted one, chosen per item — and the hypothesis is on
the DECODED names. -/

/-- (token, decoded name, value): the token is the canonical spelling of the name or the quoted spelling `"name"` (for a
legacy name, the other spelling) -/
def Spelled (legacy : Bool) (x : STerm) : Prop :=
  labelNameOK legacy x.2.1 = true ∧ (x.1 = Model.Escape.escapeLabelName x.2.1 ∨ x.1 = qname x.2.1)

theorem spelled_ok {legacy : Bool} {x : STerm} (h : Spelled legacy x) : STermOK legacy x := by
  obtain ⟨tok, k, v⟩ := x
  obtain ⟨hk, e | e⟩ := h
  · simp only at e; subst e; exact tokOK_canonical hk
  · simp only at e; subst e; exact tokOK_quoted hk

/-- the block `tok1="v1",tok2="v2",…` -/
def mixBlock (L : List STerm) : Str := sBlock L

/-- **a label block in which one DECODED name occurs twice is rejected, whether the two occurrences are spelled alike or
not** (bare and quoted, quoted and bare, …): `parse_labels(block, True)` raises ValueError -/
theorem duplicate_label_mixed_rejected (legacy : Bool) (t : STerm) (r : List STerm) (hok : ∀ x ∈ t :: r, Spelled legacy x)
    (hdup : ¬ ((t :: r).map (fun x => x.2.1)).Nodup) :
    parseLabels legacy (mixBlock (t :: r)) true = .error .valueError := by
  unfold mixBlock
  rw [parseLabels_om_sitems t r (fun x hx => spelled_ok (hok x hx))]
  simp only [hdup, ↓reduceIte]

/-- … and with pairwise distinct decoded names the same block is accepted and yields the decoded pairs — so the
hypothesis above is exactly what makes the difference -/
theorem distinct_labels_mixed_accepted (legacy : Bool) (t : STerm) (r : List STerm) (hok : ∀ x ∈ t :: r, Spelled legacy x)
    (hnd : ((t :: r).map (fun x => x.2.1)).Nodup) :
    parseLabels legacy (mixBlock (t :: r)) true = .ok ((t :: r).map sDec) := by
  unfold mixBlock
  rw [parseLabels_om_sitems t r (fun x hx => spelled_ok (hok x hx))]
  simp only [hnd, ↓reduceIte]

/-- the rendered blocks of `duplicate_label_rejected` are the instance "every token canonical" -/
theorem exBlock_eq_mixBlock (L : List (Str × Str)) :
    exBlock L = mixBlock (L.map (fun kv => (Model.Escape.escapeLabelName kv.1, kv.1, kv.2))) := by
  have hi : ∀ kv : Str × Str, labelItem kv = sItem (Model.Escape.escapeLabelName kv.1, kv.1, kv.2) := fun kv => by
    rw [labelItem_eq]; rfl
  have ht : ∀ r : List (Str × Str), tailStr r = tailS (r.map (fun kv => (Model.Escape.escapeLabelName kv.1, kv.1, kv.2))) := by
    intro r
    induction r with
    | nil => rfl
    | cons kv r ih => rw [tailStr_cons, List.map_cons, tailS_cons, ih, hi]
  cases L with
  | nil => rfl
  | cons kv r => simp only [exBlock, mixBlock, sBlock, List.map_cons, hi, ht]

/-- … the sample line carrying such a block is rejected by `_parse_sample` … -/
theorem duplicate_label_mixed_line_rejected (P : Params) (n : Str) (hv : Validation.isValidLegacyMetricName n = true)
    (t : STerm) (r : List STerm) (hok : ∀ x ∈ t :: r, Spelled P.legacy x)
    (hdup : ¬ ((t :: r).map (fun x => x.2.1)).Nodup) (rest : Str) :
    parseSample P (n ++ '{' :: (mixBlock (t :: r) ++ '}' :: ' ' :: rest)) = .error .valueError :=
  parseSample_block_error P hv _ (sBlock_pass t r (fun x hx => spelled_ok (hok x hx)))
    (duplicate_label_mixed_rejected P.legacy t r hok hdup) rest

/-- … and so is every DOCUMENT that contains such a line, wherever it stands, with ValueError -/
theorem duplicate_label_mixed_document (P : Params) (hnan : NaNLiteral P) (hd : DigitsNotSpace P) (text : Str)
    (n : Str) (hv : Validation.isValidLegacyMetricName n = true) (t : STerm) (r : List STerm)
    (hok : ∀ x ∈ t :: r, Spelled P.legacy x) (hdup : ¬ ((t :: r).map (fun x => x.2.1)).Nodup)
    (vtok : Str) (ts : Option Str) (ex : Option (List (Str × Str) × Str × Option Str)) (ht : RemTok vtok ts ex)
    (hmem : n ++ '{' :: (mixBlock (t :: r) ++ '}' :: ' ' :: remText vtok ts ex) ∈ docLines text) :
    omParse P text = .error .valueError := by
  apply rule_violation_is_valueError P hnan hd text
  rw [← omParse_eq]
  apply omParse_bad_line P text _ hmem
  intro st
  have hB := sBlock_pass t r (fun x hx => spelled_ok (hok x hx))
  obtain ⟨c, t', hl, hc⟩ := legacy_head n hv ('{' :: (mixBlock (t :: r) ++ '}' :: ' ' :: remText vtok ts ex))
  rw [parseLine_sample P _ c t' hl hc]
  have hplain := duplicate_label_mixed_line_rejected P n hv t r hok hdup (remText vtok ts ex)
  have hnh : nhDetect (n ++ '{' :: (mixBlock (t :: r) ++ '}' :: ' ' :: remText vtok ts ex)) = .ok none := by
    obtain ⟨_, hcs⟩ := legacyName_chars hv (legacyMetric_no_newline hv)
    have hn : Pass spLbChs n := pass_plain (plainFor_legacy (fun c h => by
      simp [spLbChs, legacyChar_eq_false h (show isLegacyChar ' ' = false by decide),
        legacyChar_eq_false h (show isLegacyChar '{' = false by decide)]) hcs)
    have hB' : Pass rbChs ('{' :: mixBlock (t :: r)) := by
      have h2 : Pass rbChs ['{'] := pass_plain (by intro c hc; simp at hc; subst hc; exact ⟨by decide, by decide, by decide⟩)
      have := pass_append h2 hB
      simpa [mixBlock] using this
    exact nhDetect_braced n (mixBlock (t :: r)) hn hB' ht
  rw [hplain, parseNhLine_none P _ hnh]
  exact stepLine_plain_error P st _

-- the two spellings differ: `a` bare then quoted, quoted then bare; a quoted-only name; three items
example : mixBlock [(cs!"a", cs!"a", cs!"1"), (cs!"\"a\"", cs!"a", cs!"2")] = cs!"a=\"1\",\"a\"=\"2\"" := by decide
example : Spelled false (cs!"\"a\"", cs!"a", cs!"2") ∧ Spelled false (cs!"a", cs!"a", cs!"1") :=
  ⟨⟨by decide, Or.inr (by decide)⟩, ⟨by decide, Or.inl (by decide)⟩⟩
example : ¬ ([(cs!"a", cs!"a", cs!"1"), (cs!"\"a\"", cs!"a", cs!"2")].map (fun x : STerm => x.2.1)).Nodup := by decide
example : errOf (parseLabels false cs!"a=\"1\",\"a\"=\"2\"" true) = some .valueError := by decide
example : errOf (parseLabels false cs!"\"a\"=\"1\",a=\"1\"" true) = some .valueError := by decide
example : errOf (parseLabels true cs!"a=\"1\",b=\"x\",\"a\"=\"2\"" true) = some .valueError := by decide
-- two escape spellings of one quoted name (`\s` is no escape sequence: the backslash stays), and blanks around a token
example : errOf (parseLabels false cs!"\"b\\\\s\"=\"1\",\"b\\s\"=\"2\"" true) = some .valueError := by decide
example : errOf (parseLabels false cs!"a=\"1\", a =\"2\"" true) = some .valueError := by decide
-- … in the labels of a sample and of an exemplar, in a whole document
example : errOf (parseDoc "# TYPE m gauge\nm{a=\"1\",\"a\"=\"2\"} 1\n# EOF\n") = some .valueError := by decide
example : errOf (parseDoc "# TYPE m counter\nm_total 1 # {t=\"x\",\"t\"=\"y\"} 1\n# EOF\n") = some .valueError := by decide
example : errOf (parseDoc "# TYPE m counter\nm_total 1 # {\"t\"=\"x\",t=\"x\"} 1\n# EOF\n") = some .valueError := by decide
example : isOkDoc "# TYPE m counter\nm_total 1 # {\"t\"=\"x\",u=\"x\"} 1\n# EOF\n" = true := by decide

/-! ## exemplars over 128 characters -/

/-- **an exemplar whose label names and values total more than 128 characters is rejected**: for every label list
(names accepted by `_validate_labelname`, values arbitrary; lengths counted on the UNESCAPED names and values), the
remainder `value[ ts] # {block} evalue[ ets]` makes `_parse_remaining_text` raise -/
theorem exemplar_too_long_text (P : Params) (vtok : Str) (hv : NumTok vtok) (ts : Option Str) (hts : ∀ t, ts = some t → NumTok t)
    (kv : Str × Str) (r : List (Str × Str)) (hok : ∀ x ∈ kv :: r, labelNameOK P.legacy x.1 = true)
    (hnd : ((kv :: r).map (·.1)).Nodup) (etok : Str) (hetok : NumTok etok) (ets : Option Str) (hets : ∀ t, ets = some t → NumTok t)
    (hlen : 128 < ((kv :: r).map (fun x => x.1.length + x.2.length)).sum) :
    isError (parseRemainingText P (remText vtok ts (some (kv :: r, etok, ets)))) = true :=
  parseRemaining_ex_too_long P vtok hv ts hts kv r hok hnd etok hetok ets hets hlen

/-- … so the sample line `name value… # {block} …` is rejected by `_parse_sample` … -/
theorem exemplar_too_long_line (P : Params) (n : Str) (hvn : Validation.isValidLegacyMetricName n = true)
    (vtok : Str) (hv : NumTok vtok) (ts : Option Str) (hts : ∀ t, ts = some t → NumTok t)
    (kv : Str × Str) (r : List (Str × Str)) (hok : ∀ x ∈ kv :: r, labelNameOK P.legacy x.1 = true)
    (hnd : ((kv :: r).map (·.1)).Nodup) (etok : Str) (hetok : NumTok etok) (ets : Option Str) (hets : ∀ t, ets = some t → NumTok t)
    (hlen : 128 < ((kv :: r).map (fun x => x.1.length + x.2.length)).sum) :
    isError (parseSample P (n ++ ' ' :: remText vtok ts (some (kv :: r, etok, ets)))) = true := by
  have ht : RemTok vtok ts (some (kv :: r, etok, ets)) :=
    ⟨hv, hts, fun x hx => by cases hx; exact hetok, fun x hx t htt => by cases hx; exact hets t htt⟩
  rw [parseSample_bare P hvn ht]
  exact sampleOf_isError P n [] _ (parseRemaining_ex_too_long P vtok hv ts hts kv r hok hnd etok hetok ets hets hlen)

/-- … and every DOCUMENT containing such a line is rejected with ValueError -/
theorem exemplar_too_long_document (P : Params) (hnan : NaNLiteral P) (hd : DigitsNotSpace P) (text : Str)
    (n : Str) (hvn : Validation.isValidLegacyMetricName n = true)
    (vtok : Str) (hv : NumTok vtok) (ts : Option Str) (hts : ∀ t, ts = some t → NumTok t)
    (kv : Str × Str) (r : List (Str × Str)) (hok : ∀ x ∈ kv :: r, labelNameOK P.legacy x.1 = true)
    (hnd : ((kv :: r).map (·.1)).Nodup) (etok : Str) (hetok : NumTok etok) (ets : Option Str) (hets : ∀ t, ets = some t → NumTok t)
    (hlen : 128 < ((kv :: r).map (fun x => x.1.length + x.2.length)).sum)
    (hmem : n ++ ' ' :: remText vtok ts (some (kv :: r, etok, ets)) ∈ docLines text) :
    omParse P text = .error .valueError := by
  apply rule_violation_is_valueError P hnan hd text
  rw [← omParse_eq]
  apply omParse_bad_line P text _ hmem
  intro st
  have ht : RemTok vtok ts (some (kv :: r, etok, ets)) :=
    ⟨hv, hts, fun x hx => by cases hx; exact hetok, fun x hx t htt => by cases hx; exact hets t htt⟩
  obtain ⟨c, t, hl, hc⟩ := legacy_head n hvn (' ' :: remText vtok ts (some (kv :: r, etok, ets)))
  rw [parseLine_sample P _ c t hl hc, parseNhLine_none P _ (nhDetect_bare hvn ht)]
  have := exemplar_too_long_line P n hvn vtok hv ts hts kv r hok hnd etok hetok ets hets hlen
  cases hp : parseSample P (n ++ ' ' :: remText vtok ts (some (kv :: r, etok, ets))) with
  | ok s => rw [hp] at this; cases this
  | error e => exact stepLine_plain_error P st e

/-! ## every rule predicate is satisfiable: a concrete token list for each (non-vacuity of the PREDICATES; the
`parseDoc` literals next to the theorems show the same documents rejected end to end) -/

/-- a plain sample -/
def mkS (name : String) (labels : Labels) (value : Num) (ts : Option OTs := none) (ex : Option OExemplar := none) : OSample :=
  ⟨name.toList, some labels, some value, ts, ex, none⟩

def ty (n t : String) : Line := .metadata cs!"TYPE" n.toList t.toList

theorem inBlock_here (n t : Str) (bad : List Line) : InBlock (.metadata cs!"TYPE" n t :: bad) n t bad :=
  ⟨[], [], [], by simp, fun l hl => by cases hl⟩

example : MissingEOF [ty "a" "gauge", smp (mkS "a" [] (.int 1))] := by
  intro h; simp [ty, smp] at h
example : ContentAfterEOF [ty "a" "gauge", .eof, .blank] := ⟨[ty "a" "gauge"], .blank, [], rfl⟩
example : BlankLine [.blank, .eof] := by simp [BlankLine]
example : InfoNotOne toyP [ty "a" "info", smp (mkS "a_info" [] (.int 2))] :=
  ⟨cs!"a", mkS "a_info" [] (.int 2), .int 2, inBlock_here _ _ _, by decide, rfl, by decide⟩
example : StatesetBadValue toyP [ty "a" "stateset", smp (mkS "a" [(cs!"a", cs!"on")] (.int 2))] :=
  ⟨cs!"a", _, .int 2, inBlock_here _ _ _, by decide, rfl, by decide, by decide⟩
example : StatesetNoLabel [ty "a" "stateset", smp (mkS "a" [(cs!"b", cs!"on")] (.int 1))] :=
  ⟨cs!"a", _, [(cs!"b", cs!"on")], inBlock_here _ _ _, by decide, rfl, by decide⟩
example : CounterLikeNaN toyP [ty "a" "counter", smp (mkS "a_total" [] (.flt 0))] :=
  ⟨cs!"a", cs!"counter", _, cs!"_total", 0, inBlock_here _ _ _, by decide, by decide, by decide, rfl, by decide⟩
example : CounterLikeNegative toyP [ty "a" "summary", smp (mkS "a_sum" [] (.int (-1)))] :=
  ⟨cs!"a", cs!"summary", _, cs!"_sum", .int (-1), inBlock_here _ _ _, by decide, by decide, by decide, rfl, by decide⟩
example : QuantileOutOfRange toyP [ty "a" "summary", smp (mkS "a" [(cs!"quantile", cs!"2")] (.int 1))] :=
  ⟨cs!"a", _, [(cs!"quantile", cs!"2")], inBlock_here _ _ _, by decide, rfl, by
    simp [dictGet]; rw [show toyP.pyFloat ['2'] = some 5 from by decide]; decide⟩
example : CountNotIntegral toyP [ty "a" "histogram", smp (mkS "a_bucket" [(cs!"le", cs!"+Inf")] (.flt 2))] :=
  ⟨cs!"a", cs!"histogram", _, cs!"_bucket", 2, inBlock_here _ _ _, by decide, by decide, by decide, rfl, by decide⟩
example : BucketBoundNaN toyP [ty "a" "histogram", smp (mkS "a_bucket" [(cs!"le", cs!"NaN")] (.int 1))] :=
  ⟨cs!"a", cs!"histogram", _, [(cs!"le", cs!"NaN")], inBlock_here _ _ _, by decide, by decide, rfl, by
    simp [dictGet]; rw [show toyP.pyFloat ['N', 'a', 'N'] = some 0 from by decide]; decide⟩
example : ExemplarIneligible [ty "a" "gauge", smp (mkS "a" [] (.int 1) none (some ⟨[], .int 1, none⟩))] :=
  ⟨cs!"a", cs!"gauge", _, inBlock_here _ _ _, by decide, rfl, by unfold exemplarEligible; decide⟩
example : TimestampBackwards toyP [ty "a" "gauge", smp (mkS "a" [] (.int 1) (some (.stamp 5 0))), smp (mkS "a" [] (.int 1) (some (.stamp 4 999999999)))] :=
  ⟨cs!"a", cs!"gauge", _, _, .stamp 5 0, .stamp 4 999999999, inBlock_here _ _ _, by decide, by decide, by decide, by unfold SameGroup; decide, rfl, rfl,
    Or.inl (by decide)⟩
example : TimestampBackwards toyP [ty "a" "gauge", smp (mkS "a" [] (.int 1) (some (.flt 5))), smp (mkS "a" [] (.int 1) (some (.stamp 1 500000000)))] :=
  ⟨cs!"a", cs!"gauge", _, _, .flt 5, .stamp 1 500000000, inBlock_here _ _ _, by decide, by decide, by decide, by unfold SameGroup; decide, rfl, rfl,
    by simp [tsLater, toyP, xlt, xv]⟩
example : TimestampPartial [ty "a" "info", smp (mkS "a_info" [(cs!"x", cs!"1")] (.int 1) (some (.stamp 5 0))), smp (mkS "a_info" [(cs!"x", cs!"2")] (.int 1))] :=
  ⟨cs!"a", cs!"info", _, _, inBlock_here _ _ _, by decide, by decide, by unfold SameGroup; decide, by decide⟩
example : RepeatedMetadata [.metadata cs!"HELP" cs!"a" cs!"x", smp (mkS "b" [] (.int 1)), .metadata cs!"HELP" cs!"a" cs!"y"] :=
  ⟨[], cs!"HELP", cs!"a", cs!"x", [smp (mkS "b" [] (.int 1))], cs!"y", [], rfl, by decide⟩
example : LateMetadata [ty "a" "gauge", smp (mkS "a" [] (.int 1)), .metadata cs!"HELP" cs!"a" cs!"y"] :=
  ⟨[], cs!"TYPE", cs!"a", cs!"gauge", [smp (mkS "a" [] (.int 1))], cs!"HELP", cs!"y", [], rfl, by decide, _, _, List.mem_singleton.mpr rfl⟩
example : InterleavedFamilies [ty "a" "gauge", ty "b" "gauge", .metadata cs!"HELP" cs!"a" cs!"y"] :=
  ⟨[], cs!"TYPE", cs!"a", cs!"gauge", [], cs!"TYPE", cs!"b", cs!"gauge", [], cs!"HELP", cs!"y", [], rfl, by decide, by decide, by decide⟩
example : ClashingFamilies [ty "a" "counter", ty "a_total" "gauge"] :=
  ⟨[], cs!"a", cs!"counter", [], cs!"a_total", cs!"gauge", [], rfl, by decide, cs!"a_total", Or.inl (by decide), Or.inr rfl⟩
example : UnitNotSuffix [.metadata cs!"UNIT" cs!"a_seconds" cs!"bytes"] :=
  ⟨[], cs!"a_seconds", cs!"bytes", [], rfl, by decide, by decide⟩
example : UnitOnInfoOrStateset [.metadata cs!"UNIT" cs!"a_x" cs!"x", ty "a_x" "info"] :=
  ⟨[], cs!"a_x", cs!"x", cs!"info", [], [], by decide, Or.inl rfl, Or.inl rfl⟩

/-- the histogram predicates on a sample list -/
def bk (le : String) (v : Int) : OSample := mkS "a_bucket" [(cs!"le", le.toList)] (.int v)

theorem isBucket_bk (le : String) (v : Int) (b : Nat) (h : toyP.pyFloat le.toList = some b) : IsBucket toyP cs!"a" (bk le v) b [] :=
  ⟨rfl, rfl, by simp [bk, mkS, histGroupOf, dictHas], ⟨_, _, rfl, by simp [bk, mkS, dictGet], h⟩⟩

example : HistBoundsNotIncreasing toyP cs!"a" [bk "2" 1, bk "1" 1, bk "+Inf" 1] :=
  ⟨[], bk "2" 1, bk "1" 1, [bk "+Inf" 1], 5, 4, [], [], rfl, isBucket_bk "2" 1 5 (by decide), isBucket_bk "1" 1 4 (by decide),
    ⟨rfl, rfl⟩, by decide⟩
example : HistCountsNotCumulative toyP cs!"a" [bk "1" 3, bk "+Inf" 2] :=
  ⟨[], bk "1" 3, bk "+Inf" 2, [], 4, 1, [], [], .int 3, .int 2, rfl, isBucket_bk "1" 3 4 (by decide), isBucket_bk "+Inf" 2 1 (by decide),
    ⟨rfl, rfl⟩, rfl, rfl, by decide⟩
example : HistNoInf toyP cs!"a" [bk "1" 1, bk "2" 1, mkS "a_count" [] (.int 1), mkS "a_sum" [] (.int 1)] :=
  ⟨[bk "1" 1], bk "2" 1, [mkS "a_count" [] (.int 1), mkS "a_sum" [] (.int 1)], [], 5, [], by simp, isBucket_bk "2" 1 5 (by decide),
    by decide, by
      intro s hs
      simp only [List.mem_cons, List.not_mem_nil, or_false] at hs
      rcases hs with rfl | rfl
      · exact ⟨rfl, by decide, rfl, ⟨[], rfl, rfl⟩, fun h => absurd h (by decide)⟩
      · exact ⟨rfl, by decide, rfl, ⟨[], rfl, rfl⟩, fun h => absurd h (by decide)⟩,
    trivial⟩
/-- the canonical order `_bucket{+Inf}, _count, _sum, _created` with `_count` ≠ the +Inf bucket -/
example : HistCountNeInf toyP cs!"a" [bk "+Inf" 2, mkS "a_count" [] (.int 3), mkS "a_sum" [] (.int 1), mkS "a_created" [] (.int 1)] :=
  ⟨[], bk "+Inf" 2, [], mkS "a_count" [] (.int 3), [mkS "a_sum" [] (.int 1), mkS "a_created" [] (.int 1)], [], 1, [], .int 2, .int 3,
    by simp, isBucket_bk "+Inf" 2 1 (by decide), (by intro s hs; cases hs), Or.inl rfl,
    ⟨rfl, by decide, rfl, ⟨[], rfl, rfl⟩, fun h => absurd h (by decide)⟩,
    by
      intro s hs
      simp only [List.mem_cons, List.not_mem_nil, or_false] at hs
      rcases hs with rfl | rfl
      · exact ⟨⟨rfl, by decide, rfl, ⟨[], rfl, rfl⟩, fun h => absurd h (by decide)⟩, by decide, by decide⟩
      · exact ⟨⟨rfl, by decide, rfl, ⟨[], rfl, rfl⟩, fun h => absurd h (by decide)⟩, by decide, by decide⟩,
    rfl, rfl, by decide, trivial⟩

/-- the same two rules on the lines of a document: the group closed by `# EOF` … -/
example : HistNoInfDoc toyP [ty "a" "histogram", smp (bk "1" 1), smp (bk "2" 1), smp (mkS "a_count" [] (.int 1)), .eof] :=
  ⟨[], cs!"a", cs!"histogram", [smp (bk "1" 1)], [bk "2" 1, mkS "a_count" [] (.int 1)], [.eof], rfl, Or.inl rfl,
    (by intro l hl; simp only [List.mem_singleton] at hl; subst hl; intro s hs; cases hs; decide),
    (by intro s hs; simp only [List.mem_cons, List.not_mem_nil, or_false] at hs; rcases hs with rfl | rfl <;> decide),
    (by decide),
    (by
      intro nh s hs x hx
      simp only [List.mem_singleton, smp, Line.sample.injEq, Except.ok.injEq] at hs
      obtain ⟨_, rfl⟩ := hs
      simp only [List.mem_cons, List.not_mem_nil, or_false] at hx
      rcases hx with rfl | rfl <;> decide),
    bk "2" 1, [mkS "a_count" [] (.int 1)], 5, [], isBucket_bk "2" 1 5 (by decide), by decide,
    (by
      intro s hs
      simp only [List.mem_singleton] at hs
      subst hs
      exact ⟨rfl, by decide, rfl, ⟨[], rfl, rfl⟩, fun h => absurd h (by decide)⟩),
    rfl, Or.inl ⟨rfl, Or.inr ⟨.eof, [], rfl, Or.inl (fun _ _ h => by cases h)⟩⟩⟩

/-- … and by a bucket line of another label group, whatever follows -/
example (rest : List Line) : HistNoInfDoc toyP
    (ty "a" "histogram" :: smp (bk "1" 1) :: smp (mkS "a_bucket" [(cs!"le", cs!"+Inf"), (cs!"x", cs!"y")] (.int 1)) :: rest) :=
  ⟨[], cs!"a", cs!"histogram", [], [bk "1" 1, mkS "a_bucket" [(cs!"le", cs!"+Inf"), (cs!"x", cs!"y")] (.int 1)], rest, rfl, Or.inl rfl,
    (by intro l hl; cases hl),
    (by intro s hs; simp only [List.mem_cons, List.not_mem_nil, or_false] at hs; rcases hs with rfl | rfl <;> decide),
    (by decide), (by intro nh s hs; cases hs),
    bk "1" 1, [], 4, [], isBucket_bk "1" 1 4 (by decide), by decide, (by intro s hs; cases hs), rfl,
    Or.inr ⟨_, rfl, rfl, by decide, [(cs!"x", cs!"y")], by decide, Or.inl (by decide)⟩⟩

/-- `_count` ≠ the `+Inf` bucket, the family closed by the next family's `# TYPE` line -/
example (rest : List Line) : HistCountNeInfDoc toyP
    (ty "a" "histogram" :: smp (bk "+Inf" 2) :: smp (mkS "a_sum" [] (.int 1)) :: smp (mkS "a_count" [] (.int 3)) :: ty "b" "gauge" :: rest) :=
  ⟨[], cs!"a", cs!"histogram", [], [bk "+Inf" 2, mkS "a_sum" [] (.int 1), mkS "a_count" [] (.int 3)], ty "b" "gauge" :: rest, rfl, Or.inl rfl,
    (by intro l hl; cases hl),
    (by intro s hs; simp only [List.mem_cons, List.not_mem_nil, or_false] at hs; rcases hs with rfl | rfl | rfl <;> decide),
    (by decide), (by intro nh s hs; cases hs),
    bk "+Inf" 2, [mkS "a_sum" [] (.int 1)], mkS "a_count" [] (.int 3), [], 1, [], .int 2, .int 3, isBucket_bk "+Inf" 2 1 (by decide),
    (by
      intro s hs
      simp only [List.mem_singleton] at hs
      subst hs
      exact ⟨rfl, by decide, rfl, ⟨[], rfl, rfl⟩, fun h => absurd h (by decide)⟩),
    Or.inl rfl, ⟨rfl, by decide, rfl, ⟨[], rfl, rfl⟩, fun h => absurd h (by decide)⟩, (by intro s hs; cases hs),
    rfl, rfl, by decide, rfl, Or.inl ⟨rfl, Or.inr ⟨_, rest, rfl, Or.inl (fun _ _ h => by cases h)⟩⟩⟩

end PromVerif.Props.C15
