/-
C14 — both parsers are total: for every input string, the text parser and the OpenMetrics parser terminate and either
yield metric families or raise ValueError; no other exception class escapes.

The two halves are proved in `Props/C14Text.lean` (text parser) and `Props/C14OM.lean` (OpenMetrics parser); this file
restates the two headline theorems.  Determinism ("the same on every run") is definitional for the models (they are
functions) and is sampled on the real parsers by the harness (every input is parsed twice).
-/
import PromVerif.Props.C14Text
import PromVerif.Props.C14OM

namespace PromVerif.Props.C14
open PromVerif.Py PromVerif.Model.ParseCore PromVerif.Model.OMParse PromVerif.Lemmas.OM

/-- the text parser: families or ValueError, for every input and every `int()` / `float()` -/
theorem text_parser_total (legacy : Bool) (pyInt : Str → Option Int) (pyFloat : Str → Option Nat) (input : Str) :
    (∃ fams, PromVerif.Model.TextParse.textParse legacy pyInt pyFloat input = .ok fams) ∨
      PromVerif.Model.TextParse.textParse legacy pyInt pyFloat input = .error .valueError :=
  PromVerif.Props.C14Text.text_parser_total legacy pyInt pyFloat input

/-- the OpenMetrics parser: families or ValueError, for every input and every choice of the number parameters and
regex classes (with the interpreter facts `float("NaN")` is a NaN and no `\d` character is whitespace) -/
theorem om_parser_total (P : Params) (hnan : NaNLiteral P) (hd : DigitsNotSpace P) (text : Str) :
    (∃ fams, omParse P text = .ok fams) ∨ omParse P text = .error .valueError := by
  cases hp : omParse P text with
  | ok fams => exact Or.inl ⟨fams, rfl⟩
  | error e => right; rw [PromVerif.Props.C14OM.om_parser_total P hnan hd text e hp]

end PromVerif.Props.C14
