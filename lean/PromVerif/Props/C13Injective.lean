/-
C13, cross-class injectivity: "distinct floats never share a rendering".

`Props/C13.lean` proves injectivity INSIDE the rewritten class (`go_injective_big`) and that the other classes are
left untouched.  This module states the property across all five classes of `repr` texts.  Lean has no theory of IEEE
doubles, so the two facts about CPython's `repr` that the text formulation cannot supply are hypotheses (`ReprFacts`);
the correspondence harness of C13 re-validates them on every double it generates.
-/
import PromVerif.Lemmas.GoInjective

namespace PromVerif.Props.C13Injective
open PromVerif.Py PromVerif.Spec PromVerif.Model.Utils PromVerif.Props.C13 PromVerif.Lemmas.GoInjective
set_option autoImplicit false

/-- two texts denote the same number -/
def SameDenotation (s t : Str) : Prop := ∃ a b c, denote s = some a ∧ denote t = some b ∧ a.eqv c ∧ b.eqv c

/-- what is assumed about the set `S` of texts `repr` actually produces:
    * `shortest` — one text per value: two texts of `S` denoting the same number are the same text
      (`repr` prints the shortest digit string that round-trips, so `1000000.0` occurs and `1000000.00` does not);
    * `range` — `repr` uses the exponent form only from `1e16` on, where it does not use the plain form: the rendering of a
      text of `S` is never a DIFFERENT exponent-form text of `S` (`1e+15` is a rendering, not a `repr`). -/
structure ReprFacts (S : Str → Prop) : Prop where
  shortest : ∀ s t, S s → S t → SameDenotation s t → s = t
  range : ∀ s t, S s → S t → ExpRepr t → floatToGoString s = t → s = t

/-- **go_injective.**  For `repr` texts `s1 s2` of the five classes (`ReprText`: plain ≤ 6 integer digits, plain > 6,
    exponent form, `inf`, negative finite) among those `repr` produces (`S`, with the `range` fact), equal renderings
    force equal texts or — only inside the rewritten class — equal denotation. -/
theorem go_injective (S : Str → Prop) (hf : ReprFacts S) (s1 s2 : Str) (h1 : ReprText s1) (h2 : ReprText s2)
    (m1 : S s1) (m2 : S s2) (heq : floatToGoString s1 = floatToGoString s2) : s1 = s2 ∨ SameDenotation s1 s2 := by
  rcases render_injective s1 s2 h1 h2 heq with h | h | ⟨e1, e2⟩ | ⟨e1, e2⟩
  · exact Or.inl h
  · exact Or.inr h
  · exact Or.inl (hf.range s1 s2 m1 m2 e1 e2)
  · exact Or.inl (hf.range s2 s1 m2 m1 e1 e2).symm

/-- **go_injective_texts.**  With both `repr` facts: distinct `repr` texts never share a rendering (and `repr` being
    injective on doubles — `float(repr(d)) == d`, trusted — distinct floats never do). -/
theorem go_injective_texts (S : Str → Prop) (hf : ReprFacts S) (s1 s2 : Str) (h1 : ReprText s1) (h2 : ReprText s2)
    (m1 : S s1) (m2 : S s2) (heq : floatToGoString s1 = floatToGoString s2) : s1 = s2 := by
  rcases go_injective S hf s1 s2 h1 h2 m1 m2 heq with h | h
  · exact h
  · exact hf.shortest s1 s2 m1 m2 h

/-! ### non-vacuity -/

/-- one text of each class -/
example : ReprText "1.5".toList :=
  ReprText.small "1".toList "5".toList ⟨by decide, by decide, by decide, by decide, by decide⟩ (by decide)
example : ReprText "12345678.25".toList :=
  ReprText.big '1' "2345678".toList "25".toList ⟨by decide, by decide, by decide, by decide, by decide⟩ (by decide)
example : ReprText "1e+16".toList :=
  ReprText.exp _ ⟨⟨'1', [], "+16".toList, by decide, by decide, by decide, Or.inl rfl⟩⟩
example : ReprText "inf".toList := ReprText.inf
example : ReprText "-2.5".toList := ReprText.neg '2' ".5".toList (by decide)

/-- `ReprFacts` is satisfiable (a set with one text), and `go_injective_texts` applies -/
example : ReprFacts (fun s => s = "12345678.25".toList) :=
  ⟨fun _ _ hs ht _ => hs.trans ht.symm, fun _ _ hs ht _ _ => hs.trans ht.symm⟩

/-- the renderings of the five sample texts are pairwise different, as the theorem predicts -/
example : floatToGoString "1.5".toList = "1.5".toList ∧
    floatToGoString "1e+16".toList = "1e+16".toList ∧
    floatToGoString "inf".toList = "+Inf".toList ∧
    floatToGoString "-2.5".toList = "-2.5".toList := by decide
example : floatToGoString "12345678.25".toList = "1.234567825e+07".toList :=
  (go_big '1' "2345678".toList "25".toList ⟨by decide, by decide, by decide, by decide, by decide⟩ (by decide)).trans
    (by decide)

end PromVerif.Props.C13Injective
