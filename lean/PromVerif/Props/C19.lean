/-
C19 — Pushgateway requests encode job and grouping key losslessly.

M = `Model.Gateway` (the client: `_escape_grouping_key`, `quote` / `quote_plus`, URL-safe base64, `_use_gateway`);
S = `Spec.Gateway` (the Pushgateway's reading of a path) with TWO readings of `+` in a plain segment:
`decodePathGo` (path unescaping, `+` literal — what the Pushgateway does) and `decodePath` (form decoding,
`+` → space).  The lossless theorems are proved for BOTH.  The Go-decoder theorems depend on the extracted flag
`spaceAsPlus = false` (the plain branch is `quote(v, safe='')`): with `quote_plus` a space is written `+`, which
the Pushgateway reads as a plus — `quote_plus_space_read_as_plus_by_go` is the kernel-checked witness.  Every theorem quantifies over all strings / byte
strings / label lists; nothing is bounded.

Hypothesis used throughout: label NAMES are legacy label names `[a-zA-Z_][a-zA-Z0-9_]*` (`LegacyNames`, the
property's quantifier; decidable).  The client writes names unescaped, so a name containing `/` or ending in
`@base64` is outside the quantifier — `name_with_slash_outside_quantifier` below shows the model does break
there, i.e. the hypothesis is needed and is not a tidy-up of the code.

Trusted / not proved here: `sorted()` on `(str, str)` tuples with pairwise distinct first components is the
key-wise code-point sort `Py.sortByKey`; `urlparse` is reduced to its scheme test (`Model.Gateway.urlScheme`),
validated against CPython by the harness; `generate_latest` is an opaque parameter.
-/
import PromVerif.Model.Gateway
import PromVerif.Spec.Gateway
import PromVerif.Lemmas.Gateway

namespace PromVerif.Props.C19
open PromVerif.Py PromVerif.Model.Gateway PromVerif.Spec.Gateway
open PromVerif.Lemmas PromVerif.Lemmas.GatewaySort
open PromVerif.Generated.Gateway (extractOk jobLit sortsGroupingKey spaceAsPlus)

/-- the extractor found every site of the gateway functions in the shape it understands -/
theorem extract_ok : extractOk = true := by decide

/-! ### the two codecs -/

/-- **URL-safe base64 round trip**, every byte string (induction on 3-byte chunks) -/
theorem b64_roundtrip (bs : List UInt8) : b64decode (b64encode bs) = some bs :=
  Gateway.b64decode_b64encode bs

/-- the encoded text contains no `/`, `+` or `%` -/
theorem b64_alphabet_no_slash (bs : List UInt8) : ∀ c ∈ b64encode bs, c ≠ '/' ∧ c ≠ '+' ∧ c ≠ '%' :=
  Gateway.b64encode_chars bs

/-- **`unquote_plus(quote_plus(s)) = s`**, every string (through core's `utf8Decode? ∘ utf8Encode`) -/
theorem unquote_quote_plus (s : Str) : unquotePlus (quotePlus s) = some s :=
  Quote.unquotePlus_quotePlus s

/-- **`quote(s, safe='')` is read back by both decoders**: path unescaping (`+` literal) and form decoding -/
theorem unquote_quote (s : Str) : unquote (quote s) = some s ∧ unquotePlus (quote s) = some s :=
  ⟨Quote.unquoteWith_quoteWith false false (fun h => h) s, Quote.unquoteWith_quoteWith false true (fun _ => rfl) s⟩

/-- `/` is not in the safe set, so it never appears in the output of either encoder -/
theorem quote_plus_no_slash (s : Str) : '/' ∉ quotePlus s ∧ '/' ∉ quote s :=
  ⟨Quote.quoteBytes_no_slash _ _, Quote.quoteBytes_no_slash _ _⟩

/-- the encoder in the source is `quote(v, safe='')`: a space is written `%20`, never `+` -/
theorem encoder_is_quote : spaceAsPlus = false := by decide

/-! ### one pair -/

/-- neither component of an escaped pair contains `/` -/
theorem segment_has_no_slash (k v : Str) (hk : isLegacyLabelName k = true) :
    '/' ∉ (escapeGroupingKey k v).1 ∧ '/' ∉ (escapeGroupingKey k v).2 :=
  Gateway.escape_no_slash _ k v (Gateway.legacy_name_facts hk).1

/-- neither component is empty (an empty segment would be cleaned out of the path): the empty value is `=` -/
theorem segment_nonempty (k v : Str) (hk : isLegacyLabelName k = true) :
    (escapeGroupingKey k v).1 ≠ [] ∧ (escapeGroupingKey k v).2 ≠ [] :=
  Gateway.escape_ne_nil _ k v (Gateway.legacy_name_facts hk).2.2

/-- the Pushgateway (path unescaping) reads an escaped pair back as the original pair: empty value, value with
`/`, any other.  Depends on `spaceAsPlus = false`. -/
theorem pair_decodes_go (k v : Str) (hk : isLegacyLabelName k = true) :
    decodePairWith false (escapeGroupingKey k v).1 (escapeGroupingKey k v).2 = some (k, v) :=
  Gateway.decodePair_escape spaceAsPlus false (by decide) k v
    (Gateway.legacy_name_facts hk).2.1 (Gateway.legacy_name_facts hk).2.2

/-- the same under form decoding (holds for either encoder) -/
theorem pair_decodes (k v : Str) (hk : isLegacyLabelName k = true) :
    decodePairWith true (escapeGroupingKey k v).1 (escapeGroupingKey k v).2 = some (k, v) :=
  Gateway.decodePair_escape spaceAsPlus true (fun _ => rfl) k v
    (Gateway.legacy_name_facts hk).2.1 (Gateway.legacy_name_facts hk).2.2

/-- **Why the encoder matters.**  With `quote_plus` in the plain branch (the code before the repair) the
Pushgateway's path unescaping reads the job `a b` as `a+b`: M exhibits the defect when the flag is flipped. -/
theorem quote_plus_space_read_as_plus_by_go :
    escapeGroupingKeyWith true ['j', 'o', 'b'] ['a', ' ', 'b'] = (['j', 'o', 'b'], ['a', '+', 'b']) ∧
    decodePairWith false ['j', 'o', 'b'] (escapeGroupingKeyWith true ['j', 'o', 'b'] ['a', ' ', 'b']).2
      = some (['j', 'o', 'b'], ['a', '+', 'b']) ∧
    decodePairWith false ['j', 'o', 'b'] (escapeGroupingKeyWith false ['j', 'o', 'b'] ['a', ' ', 'b']).2
      = some (['j', 'o', 'b'], ['a', ' ', 'b']) := by
  decide +kernel

/-! ### `sorted(grouping_key.items())` -/

/-- the model of `sorted` returns a sorted permutation of the items -/
theorem sorted_is_sorted_permutation (gk : List (Str × Str)) :
    (sortByKey gk).Perm gk ∧ (sortByKey gk).Pairwise (fun a b => strLt b.1 a.1 = false) :=
  ⟨sortByKey_perm gk, sortByKey_sorted gk⟩

/-! ### the whole URL -/

theorem job_is_legacy : isLegacyLabelName jobLit = true := by decide

private theorem names_ok (job : Str) (gk : List (Str × Str)) (h : LegacyNames gk) :
    ∀ x ∈ (jobLit, job) :: sortByKey gk, '/' ∉ x.1 ∧ '@' ∉ x.1 ∧ x.1 ≠ [] := by
  intro x hx
  rcases List.mem_cons.mp hx with rfl | hx
  · exact Gateway.legacy_name_facts job_is_legacy
  · exact Gateway.legacy_name_facts (h x ((mem_sortByKey gk x).mp hx))

/-- the URL is the stripped, scheme-defaulted gateway, `/metrics/`, and the `/`-joined escaped segments -/
theorem buildUrl_eq (g job : Str) (gk : List (Str × Str)) :
    buildUrl g job gk = gatewayBase g ++ ['/', 'm', 'e', 't', 'r', 'i', 'c', 's', '/'] ++ buildPath job gk :=
  Gateway.buildUrl_eq g job gk

private theorem ordered_eq (gk : List (Str × Str)) : orderedItems gk = sortByKey gk := by
  unfold orderedItems
  rw [if_pos (by decide : sortsGroupingKey = true)]

private theorem path_decodes_with (p : Bool) (hqp : spaceAsPlus = true → p = true) (job : Str)
    (gk : List (Str × Str)) (h : LegacyNames gk) :
    decodePathWith p (buildPath job gk) = some ((['j', 'o', 'b'], job) :: sortByKey gk) := by
  have hj : jobLit = ['j', 'o', 'b'] := by decide
  unfold buildPath
  rw [ordered_eq, Gateway.decodePath_join p hqp _ _ (names_ok job gk h), hj]

/-- **Lossless under the Pushgateway's path unescaping (`+` literal).** For every job and every grouping key
with legacy label names — values empty, with `/`, `+`, `%`, `?`, `#`, spaces, line breaks, non-ASCII, anything —
the path decodes to the job followed by the labels in sorted order.  Depends on `spaceAsPlus = false`: it stops
checking if the plain branch goes back to `quote_plus`. -/
theorem path_decodes_go (job : Str) (gk : List (Str × Str)) (h : LegacyNames gk) :
    decodePathGo (buildPath job gk) = some ((['j', 'o', 'b'], job) :: sortByKey gk) :=
  path_decodes_with false (by decide) job gk h

/-- **Lossless under form decoding (`+` → space)** as well -/
theorem path_decodes (job : Str) (gk : List (Str × Str)) (h : LegacyNames gk) :
    decodePath (buildPath job gk) = some ((['j', 'o', 'b'], job) :: sortByKey gk) :=
  path_decodes_with true (fun _ => rfl) job gk h

private theorem url_decodes_with (p : Bool) (hqp : spaceAsPlus = true → p = true) (g job : Str)
    (gk : List (Str × Str)) (h : LegacyNames gk) :
    decodeUrlWith p (gatewayBase g) (buildUrl g job gk) = some ((['j', 'o', 'b'], job) :: sortByKey gk) := by
  rw [Gateway.buildUrl_eq]
  unfold decodeUrlWith
  rw [if_pos (by simp)]
  simp only [List.drop_left]
  exact path_decodes_with p hqp job gk h

/-- the same, read off the full URL for any gateway spelling — Pushgateway reading -/
theorem url_decodes_go (g job : Str) (gk : List (Str × Str)) (h : LegacyNames gk) :
    decodeUrlGo (gatewayBase g) (buildUrl g job gk) = some ((['j', 'o', 'b'], job) :: sortByKey gk) :=
  url_decodes_with false (by decide) g job gk h

/-- … and form-decoding reading -/
theorem url_decodes (g job : Str) (gk : List (Str × Str)) (h : LegacyNames gk) :
    decodeUrl (gatewayBase g) (buildUrl g job gk) = some ((['j', 'o', 'b'], job) :: sortByKey gk) :=
  url_decodes_with true (fun _ => rfl) g job gk h

private theorem injective_of_decodes {g job₁ job₂ : Str} {gk₁ gk₂ : List (Str × Str)}
    {dec : Str → Str → Option (List (Str × Str))}
    (e1 : dec (gatewayBase g) (buildUrl g job₁ gk₁) = some ((['j', 'o', 'b'], job₁) :: sortByKey gk₁))
    (e2 : dec (gatewayBase g) (buildUrl g job₂ gk₂) = some ((['j', 'o', 'b'], job₂) :: sortByKey gk₂))
    (heq : buildUrl g job₁ gk₁ = buildUrl g job₂ gk₂) :
    job₁ = job₂ ∧ sortByKey gk₁ = sortByKey gk₂ ∧ gk₁.Perm gk₂ := by
  rw [heq, e2] at e1
  simp only [Option.some.injEq, List.cons.injEq, Prod.mk.injEq, true_and] at e1
  refine ⟨e1.1.symm, e1.2.symm, ?_⟩
  exact (sortByKey_perm gk₁).symm.trans (e1.2 ▸ sortByKey_perm gk₂)

/-- **Distinct inputs give distinct URLs** (derived through the Pushgateway reading): equal URLs (same gateway)
force equal jobs and equal grouping keys (as dicts: the item lists are permutations of each other and sort to
the same list). -/
theorem url_injective_go (g job₁ job₂ : Str) (gk₁ gk₂ : List (Str × Str)) (h₁ : LegacyNames gk₁) (h₂ : LegacyNames gk₂)
    (heq : buildUrl g job₁ gk₁ = buildUrl g job₂ gk₂) :
    job₁ = job₂ ∧ sortByKey gk₁ = sortByKey gk₂ ∧ gk₁.Perm gk₂ :=
  injective_of_decodes (dec := decodeUrlGo) (url_decodes_go g job₁ gk₁ h₁) (url_decodes_go g job₂ gk₂ h₂) heq

/-- the same conclusion derived through the form-decoding reading (holds for either encoder) -/
theorem url_injective (g job₁ job₂ : Str) (gk₁ gk₂ : List (Str × Str)) (h₁ : LegacyNames gk₁) (h₂ : LegacyNames gk₂)
    (heq : buildUrl g job₁ gk₁ = buildUrl g job₂ gk₂) :
    job₁ = job₂ ∧ sortByKey gk₁ = sortByKey gk₂ ∧ gk₁.Perm gk₂ :=
  injective_of_decodes (dec := decodeUrl) (url_decodes g job₁ gk₁ h₁) (url_decodes g job₂ gk₂ h₂) heq

/-! ### method, body, headers, time-out -/

section request
variable {β τ : Type} (g job : Str) (expo empty : β) (gk : List (Str × Str)) (t : τ)

/-- PUT, POST and DELETE respectively -/
theorem methods :
    (pushToGateway g job expo empty gk t).method = ['P', 'U', 'T'] ∧
    (pushaddToGateway g job expo empty gk t).method = ['P', 'O', 'S', 'T'] ∧
    (deleteFromGateway g job expo empty gk t).method = ['D', 'E', 'L', 'E', 'T', 'E'] :=
  ⟨show Generated.Gateway.methodPut = _ by decide, show Generated.Gateway.methodPost = _ by decide,
    show Generated.Gateway.methodDelete = _ by decide⟩

/-- delete sends an empty body -/
theorem delete_body_empty : (deleteFromGateway g job expo empty gk t).data = empty := by
  unfold deleteFromGateway useGateway
  simp only []
  rw [if_neg (by decide)]

/-- push and pushadd send the text exposition of the registry -/
theorem push_body_is_exposition :
    (pushToGateway g job expo empty gk t).data = expo ∧ (pushaddToGateway g job expo empty gk t).data = expo := by
  refine ⟨?_, ?_⟩
  · unfold pushToGateway useGateway
    simp only []
    rw [if_pos (by decide)]
  · unfold pushaddToGateway useGateway
    simp only []
    rw [if_pos (by decide)]

/-- one header: the text content type -/
theorem content_type_is_text (m : Str) :
    (useGateway m g job expo empty gk t).headers =
      [("Content-Type".toList, "text/plain; version=0.0.4; charset=utf-8".toList)] := by
  unfold useGateway
  simp only []
  decide +kernel

/-- the caller's time-out reaches the handler unchanged, for all three functions -/
theorem timeout_passed :
    (pushToGateway g job expo empty gk t).timeout = t ∧ (pushaddToGateway g job expo empty gk t).timeout = t ∧
    (deleteFromGateway g job expo empty gk t).timeout = t := ⟨rfl, rfl, rfl⟩

/-- all three functions build the same URL -/
theorem same_url :
    (pushToGateway g job expo empty gk t).url = buildUrl g job gk ∧
    (pushaddToGateway g job expo empty gk t).url = buildUrl g job gk ∧
    (deleteFromGateway g job expo empty gk t).url = buildUrl g job gk := ⟨rfl, rfl, rfl⟩

end request

/-! ### gateway spellings -/

/-- **With or without scheme, with or without trailing slashes.**  For every gateway text `h` whose modelled
`urlparse` scheme is not already `http`/`https` (a bare host, `host:port`, `host/prefix`, … — `needsPrefix`
excludes only the scheme-confusing hosts literally named `http:`/`https:`), and any numbers of trailing slashes,
`h`, `h/…/`, `http://h` and `http://h/…/` give the same URL. -/
theorem gateway_spelling (h job : Str) (gk : List (Str × Str)) (n m : Nat) (hs : needsPrefix h = true) :
    buildUrl (h ++ List.replicate n '/') job gk = buildUrl h job gk ∧
    buildUrl ("http://".toList ++ h) job gk = buildUrl h job gk ∧
    buildUrl ("http://".toList ++ h ++ List.replicate m '/') job gk = buildUrl h job gk := by
  have hp : "http://".toList = Generated.Gateway.httpPrefix := by decide +kernel
  have e1 : gatewayBase (Generated.Gateway.httpPrefix ++ h) = gatewayBase h := by
    unfold gatewayBase
    rw [Gateway.needsPrefix_http, hs]
    simp
  simp only [Gateway.buildUrl_eq, Gateway.gatewayBase_append_slashes, hp, e1, and_self]

/-- trailing slashes never matter, whatever the gateway -/
theorem trailing_slashes_ignored (g job : Str) (gk : List (Str × Str)) (n : Nat) :
    buildUrl (g ++ List.replicate n '/') job gk = buildUrl g job gk := by
  simp only [Gateway.buildUrl_eq, Gateway.gatewayBase_append_slashes]

/-- an explicit `http://` or `https://` gateway is kept as given, path prefix included; only trailing slashes go -/
theorem path_prefix_kept (x : Str) :
    gatewayBase ("http://".toList ++ x) = rstripSet (fun c => c = '/') ("http://".toList ++ x) ∧
    gatewayBase ("https://".toList ++ x) = rstripSet (fun c => c = '/') ("https://".toList ++ x) := by
  have hp : "http://".toList = Generated.Gateway.httpPrefix := by decide +kernel
  have hps : "https://".toList = ['h', 't', 't', 'p', 's', ':', '/', '/'] := by decide +kernel
  have hr : (fun c => Generated.Gateway.rstripChars.contains c) = (fun c : Char => decide (c = '/')) := by
    funext c
    simp [Generated.Gateway.rstripChars]
  refine ⟨?_, ?_⟩
  · unfold gatewayBase
    rw [hp, Gateway.needsPrefix_http, hr]; rfl
  · unfold gatewayBase
    rw [hps, Gateway.needsPrefix_https, hr]; rfl

/-! ### the hypothesis is needed -/

/-- A label name containing `/` (outside the quantifier: not a legacy label name) is written unescaped and the
path no longer decodes to the input — the model does not hide this. -/
theorem name_with_slash_outside_quantifier :
    decodePathGo (buildPath ['j'] [(['a', '/', 'b'], ['v'])]) ≠ some [(['j', 'o', 'b'], ['j']), (['a', '/', 'b'], ['v'])] ∧
    decodePath (buildPath ['j'] [(['a', '/', 'b'], ['v'])]) ≠ some [(['j', 'o', 'b'], ['j']), (['a', '/', 'b'], ['v'])] := by
  decide +kernel

/-! ### non-vacuity: concrete inputs, and what the theorems give on them -/

example : LegacyNames [("l".toList, "x y+%".toList), ("_a9".toList, [])] := by decide +kernel
example : needsPrefix "localhost:9091".toList = true := by decide +kernel
example : needsPrefix "pushgateway.local/prefix".toList = true := by decide +kernel
example : needsPrefix "HTTP://h".toList = false := by decide +kernel
-- the scheme-confusing shape excluded by `gateway_spelling`: a host literally called `http`
example : needsPrefix "http:9091".toList = false := by decide +kernel
example : buildUrl "localhost:9091/".toList "a/b".toList [("l".toList, "x y+%".toList), ("_a9".toList, [])]
    = "http://localhost:9091/metrics/job@base64/YS9i/_a9@base64/=/l/x%20y%2B%25".toList := by decide +kernel
example : decodePathGo "job@base64/YS9i/_a9@base64/=/l/x%20y%2B%25".toList
    = some [("job".toList, "a/b".toList), ("_a9".toList, []), ("l".toList, "x y+%".toList)] := by decide +kernel
example : decodePath "job@base64/YS9i/_a9@base64/=/l/x%20y%2B%25".toList
    = some [("job".toList, "a/b".toList), ("_a9".toList, []), ("l".toList, "x y+%".toList)] := by decide +kernel
-- the two readings differ exactly on a raw `+`
example : decodePathGo "job/a+b".toList = some [("job".toList, "a+b".toList)] := by decide +kernel
example : decodePath "job/a+b".toList = some [("job".toList, "a b".toList)] := by decide +kernel
example : buildUrl "https://h/p//".toList "é ?#\n".toList [] = "https://h/p/metrics/job/%C3%A9%20%3F%23%0A".toList := by
  decide +kernel
example : b64encode [0xfb, 0xff, 0xfe] = "-__-".toList := by decide +kernel
example : (deleteFromGateway "h".toList "j".toList (some 1) none [] (30 : Nat)).data = none := by decide +kernel
example : (pushToGateway "h".toList "j".toList (some 1) none [] (30 : Nat)).data = some 1 := by decide +kernel

end PromVerif.Props.C19
