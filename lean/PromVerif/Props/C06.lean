/-
C06 — a registry never holds two collectors claiming the same series name.

All theorems are about the model `Model/Registry.lean` (tied to /repo by extraction of the suffix table and by the
correspondence run of `harness/props/c06.py`).  Histories are unbounded lists of `register` / `unregister` /
`set_target_info` calls over arbitrary collectors (any ids, any described families of any type, with or without
`describe`, `auto_describe` on or off).

History of finding F6 (fixed in /repo by ec395f2): a collector whose own claimed names repeat — e.g. one describing
`x` (counter, claims x, x_total, x_created) and `x_total` (gauge) — used to register with `x_total` recorded twice, and
`unregister` then raised `KeyError` half-way.  `_get_names` now records every name once; the model follows, the
theorems about `unregister` and about whole histories hold without any hypothesis on the collectors, and the old
witness is kept as a regression `example`.
-/
import PromVerif.Lemmas.Registry

namespace PromVerif.Props.C06
open PromVerif.Py PromVerif.Model.Registry PromVerif.Spec.Registry

/-- the extractor found `type_suffixes` and the loop applying it in the shape it understands -/
theorem extract_ok : PromVerif.Generated.Registry.extractOk = true := by decide

/-- **The decision structure of registry.py is the one the theorems below are about** (T1): `register` tests all names
and raises before any store; `set_target_info` tests `not previous and 'target_info' claimed`, raises before it assigns
`_target_info`, pops the reservation only when target info was configured; `unregister` deletes each recorded name of
the collector; `collect` snapshots under the lock and yields target info first; `_get_names` prefers `describe` and falls
back to `collect` under auto-describe; `RestrictedRegistry.collect` resolves the names under the registry lock into a set,
yields target info only when requested and configured, filters through `_restricted_metric` and drops empty results.
`Model/Registry.lean` consults every one of these flags; the lemmas `register_eq`, `setTargetInfo_eq`, `unregister_eq`,
`getNames_eq`, `collect_eq`, `restrictedCollect_eq`, `collAdd_eq` (Lemmas/Registry.lean) reduce the model to its reference
body by `decide` on them, and every theorem about these functions goes through those lemmas. -/
theorem registry_shape_ok :
    PromVerif.Generated.Registry.registerChecksAllBeforeStore = true ∧
    PromVerif.Generated.Registry.setTargetInfoStoresAfterCheck = true ∧
    PromVerif.Generated.Registry.setTargetInfoClashNegatesPrevious = true ∧
    PromVerif.Generated.Registry.setTargetInfoClashIsConjunction = true ∧
    PromVerif.Generated.Registry.setTargetInfoClearsOnlyWhenPreviouslySet = true ∧
    PromVerif.Generated.Registry.unregisterTakesRecordedNames = true ∧
    PromVerif.Generated.Registry.unregisterDeletesEachName = true ∧
    PromVerif.Generated.Registry.collectSnapshotsUnderLock = true ∧
    PromVerif.Generated.Registry.collectTargetInfoFirst = true ∧
    PromVerif.Generated.Registry.getNamesAutoDescribeFallback = true ∧
    PromVerif.Generated.Registry.restrictedResolvesUnderLock = true ∧
    PromVerif.Generated.Registry.restrictedCollectorsIsSet = true ∧
    PromVerif.Generated.Registry.restrictedTargetInfoNeedsRequested = true ∧
    PromVerif.Generated.Registry.restrictedTargetInfoNeedsConfigured = true ∧
    PromVerif.Generated.Registry.restrictedFiltersAndDropsEmpty = true :=
  PromVerif.Model.Registry.registry_shape_ok

/-! ### the suffix table -/

/-- **The table in the source is the table of the property statement**: for every metric type, the suffixes
`_get_names` appends are exactly the ones the type exposes. -/
theorem suffix_table_is_spec : ∀ t : MType, suffixesOf t = suffixes t := by
  intro t; cases t <;> decide

/-- the suffixes occurring in the table are the eight named in the statement, no other -/
theorem suffix_table_union :
    ((MType.all.flatMap suffixes).eraseDups) = statementSuffixes := by decide

example : suffixesOf .counter = [['_', 't', 'o', 't', 'a', 'l'], ['_', 'c', 'r', 'e', 'a', 't', 'e', 'd']] := by decide

/-- `_get_names` yields exactly the names the statement says the collector claims … -/
theorem getNames_mem_iff_claims (ad : Bool) (c : Collector) (n : Name) : n ∈ getNames ad c ↔ n ∈ claims ad c :=
  mem_getNames_iff ad c n

/-- … and records each of them once (what `unregister`'s name-by-name deletion relies on) -/
theorem getNames_nodup (ad : Bool) (c : Collector) : (getNames ad c).Nodup :=
  PromVerif.Model.Registry.getNames_nodup ad c

/-! ### the invariant -/

theorem inv_init (ad : Bool) (ti : Option Labels) : Inv (init ad ti) :=
  inv_setTargetInfo (inv_base ad) ti

example : Inv (init true (some [(['a'], ['b'])])) := inv_init _ _

theorem inv_register {s : State} (hi : Inv s) (c : Collector) : Inv (register s c).1 :=
  PromVerif.Model.Registry.inv_register hi c

theorem inv_setTargetInfo {s : State} (hi : Inv s) (l : Option Labels) : Inv (setTargetInfo s l).1 :=
  PromVerif.Model.Registry.inv_setTargetInfo hi l

theorem inv_unregister {s : State} (hi : Inv s) (c : Collector) : Inv (unregister s c).1 :=
  PromVerif.Model.Registry.inv_unregister hi c

/-- one step, any operation, raising or not -/
theorem inv_step {s : State} (hi : Inv s) (op : Op) : Inv (step s op).1 := by
  cases op with
  | register c => exact inv_register hi c
  | unregister c => exact inv_unregister hi c
  | setTargetInfo l => exact inv_setTargetInfo hi l

private theorem inv_run_aux (ops : List Op) : ∀ s : State, Inv s → Inv (run s ops).1 := by
  induction ops with
  | nil => intro s hi; exact hi
  | cons op ops ih =>
    intro s hi
    simp only [run]
    exact ih _ (inv_step hi op)

/-- **Every history keeps the invariant** — any length, any collectors (any ids, families, types, with or without
`describe`, names repeated or not), any interleaving of the three calls including the ones that raise, any
`auto_describe` flag and initial target info. -/
theorem inv_run (ad : Bool) (ti : Option Labels) (ops : List Op) : Inv (run (init ad ti) ops).1 :=
  inv_run_aux ops _ (inv_init ad ti)

private def exA : Collector := ⟨0, some [(['x'], .counter)], []⟩
private def exB : Collector := ⟨1, none, [⟨['x', '_', 't', 'o', 't', 'a', 'l'], .gauge, [], [], []⟩]⟩

/-- **Headline over all histories**: after any history, no name is claimed by two registered collectors, and none
claims `target_info` while target info is configured. -/
theorem no_double_claim_run (ad : Bool) (ti : Option Labels) (ops : List Op) {c₁ c₂ : Collector} {ns₁ ns₂ : List Name}
    {n : Name} (h₁ : (c₁, ns₁) ∈ (run (init ad ti) ops).1.collectorToNames)
    (h₂ : (c₂, ns₂) ∈ (run (init ad ti) ops).1.collectorToNames)
    (hn₁ : n ∈ claims (run (init ad ti) ops).1.autoDescribe c₁)
    (hn₂ : n ∈ claims (run (init ad ti) ops).1.autoDescribe c₂) : c₁ = c₂ := by
  have hi := inv_run ad ti ops
  have a : (n, Owner.coll c₁) ∈ (run (init ad ti) ops).1.namesToCollectors :=
    (hi.graph _ _).2 (Or.inl ⟨c₁, ns₁, rfl, h₁, by rw [hi.stored c₁ ns₁ h₁]; exact (mem_getNames_iff _ _ _).2 hn₁⟩)
  have b : (n, Owner.coll c₂) ∈ (run (init ad ti) ops).1.namesToCollectors :=
    (hi.graph _ _).2 (Or.inl ⟨c₂, ns₂, rfl, h₂, by rw [hi.stored c₂ ns₂ h₂]; exact (mem_getNames_iff _ _ _).2 hn₂⟩)
  exact Owner.coll.inj (val_unique hi.n2cNodup a b)

/-- **No two registered collectors claim one name** (consequence of the invariant). -/
theorem no_double_claim {s : State} (hi : Inv s) {c₁ c₂ : Collector} {ns₁ ns₂ : List Name} {n : Name}
    (h₁ : (c₁, ns₁) ∈ s.collectorToNames) (h₂ : (c₂, ns₂) ∈ s.collectorToNames)
    (hn₁ : n ∈ claims s.autoDescribe c₁) (hn₂ : n ∈ claims s.autoDescribe c₂) : c₁ = c₂ := by
  rw [← mem_getNames_iff, ← hi.stored c₁ ns₁ h₁] at hn₁
  rw [← mem_getNames_iff, ← hi.stored c₂ ns₂ h₂] at hn₂
  have a : (n, Owner.coll c₁) ∈ s.namesToCollectors := (hi.graph _ _).2 (Or.inl ⟨c₁, ns₁, rfl, h₁, hn₁⟩)
  have b : (n, Owner.coll c₂) ∈ s.namesToCollectors := (hi.graph _ _).2 (Or.inl ⟨c₂, ns₂, rfl, h₂, hn₂⟩)
  exact Owner.coll.inj (val_unique hi.n2cNodup a b)

/-- while target info is configured no registered collector claims `target_info` -/
theorem target_info_not_double_claimed {s : State} (hi : Inv s) (ht : truthy s.targetInfo = true)
    {c : Collector} {ns : List Name} (h : (c, ns) ∈ s.collectorToNames) : tiName ∉ claims s.autoDescribe c := by
  intro hn
  rw [← mem_getNames_iff, ← hi.stored c ns h] at hn
  have a : (tiName, Owner.coll c) ∈ s.namesToCollectors := (hi.graph _ _).2 (Or.inl ⟨c, ns, rfl, h, hn⟩)
  have b : (tiName, Owner.empty) ∈ s.namesToCollectors := (hi.graph _ _).2 (Or.inr ⟨rfl, rfl, ht⟩)
  exact Owner.noConfusion (val_unique hi.n2cNodup a b)

/-- under the invariant the keys of the name map are exactly the claimed names -/
theorem claimed_iff_key {s : State} (hi : Inv s) (n : Name) :
    Claimed s n ↔ n ∈ s.namesToCollectors.map Prod.fst := by
  constructor
  · rintro (⟨c, ns, hm, hn⟩ | ⟨hn, ht⟩)
    · rw [← mem_getNames_iff, ← hi.stored c ns hm] at hn
      exact List.mem_map.2 ⟨(n, Owner.coll c), (hi.graph _ _).2 (Or.inl ⟨c, ns, rfl, hm, hn⟩), rfl⟩
    · exact List.mem_map.2 ⟨(n, Owner.empty), (hi.graph _ _).2 (Or.inr ⟨rfl, hn, ht⟩), rfl⟩
  · intro h
    obtain ⟨⟨n', o⟩, hm, rfl⟩ := List.mem_map.1 h
    rcases (hi.graph _ _).1 hm with ⟨c, ns, _, hc, hn⟩ | ⟨_, hn, ht⟩
    · refine Or.inl ⟨c, ns, hc, ?_⟩
      rw [← mem_getNames_iff, ← hi.stored c ns hc]; exact hn
    · exact Or.inr ⟨hn, ht⟩

/-! ### a call that would clash raises `ValueError` and changes nothing -/

/-- `register` raises nothing but `ValueError` -/
theorem register_only_valueError (s : State) (c : Collector) :
    (register s c).2 = none ∨ (register s c).2 = some .valueError := by
  cases h : clashes s c
  · rw [register_ok h]; exact Or.inl rfl
  · rw [register_raise h]; exact Or.inr rfl

/-- `register` raises exactly when one of the collector's names is already claimed -/
theorem register_raises_iff_clash {s : State} (hi : Inv s) (c : Collector) :
    (register s c).2 = some .valueError ↔ ∃ n, n ∈ claims s.autoDescribe c ∧ Claimed s n := by
  cases h : clashes s c
  · rw [register_ok h]
    have hf := (clashes_false_iff s c).1 h
    constructor
    · intro e; cases e
    · rintro ⟨n, hn, hc⟩
      rw [← mem_getNames_iff] at hn
      exact absurd ((claimed_iff_key hi n).1 hc) (hf n hn)
  · rw [register_raise h]
    simp only [true_iff]
    simp only [clashes, List.any_eq_true] at h
    obtain ⟨n, hn, hh⟩ := h
    refine ⟨n, (mem_getNames_iff _ _ _).1 hn, (claimed_iff_key hi n).2 ((dHas_iff _ _).1 hh)⟩

/-- **A registration that raises leaves the registry exactly as it was.** -/
theorem register_clash_is_frame (s : State) (c : Collector) (h : (register s c).2 ≠ none) :
    (register s c).1 = s := by
  cases hc : clashes s c
  · rw [register_ok hc] at h; exact absurd rfl h
  · rw [register_raise hc]

example : (register (register (init true none) exA).1 exB).2 = some .valueError := by decide

/-- `set_target_info` raises exactly when it would newly reserve `target_info` while a registered collector
claims that name -/
theorem targetinfo_raises_iff_clash {s : State} (hi : Inv s) (l : Option Labels) :
    (setTargetInfo s l).2 = some .valueError ↔
      (truthy l = true ∧ truthy s.targetInfo = false ∧
        ∃ c ns, (c, ns) ∈ s.collectorToNames ∧ tiName ∈ claims s.autoDescribe c) := by
  have key : dHas tiName s.namesToCollectors = true ∧ truthy s.targetInfo = false ↔
      (truthy s.targetInfo = false ∧ ∃ c ns, (c, ns) ∈ s.collectorToNames ∧ tiName ∈ claims s.autoDescribe c) := by
    rw [dHas_iff, ← claimed_iff_key hi]
    constructor
    · rintro ⟨⟨c, ns, hm, hn⟩ | ⟨_, ht⟩, hf⟩
      · exact ⟨hf, c, ns, hm, hn⟩
      · rw [hf] at ht; cases ht
    · rintro ⟨hf, c, ns, hm, hn⟩
      exact ⟨Or.inl ⟨c, ns, hm, hn⟩, hf⟩
  rw [setTargetInfo_eq]
  by_cases hl : truthy l = true
  · simp only [hl, if_true, true_and]
    rw [← key]
    by_cases h1 : truthy s.targetInfo = true <;> by_cases h2 : dHas tiName s.namesToCollectors = true <;>
      simp [h1, h2]
  · simp only [hl, Bool.false_eq_true, if_false, false_and, iff_false]
    split <;> simp

/-- **A target-info change that raises leaves the registry exactly as it was.** -/
theorem targetinfo_clash_is_frame (s : State) (l : Option Labels) (h : (setTargetInfo s l).2 ≠ none) :
    (setTargetInfo s l).1 = s := by
  rw [setTargetInfo_eq] at h ⊢
  split
  · split
    · rfl
    · next h1 h2 => simp [h1, h2] at h
  · next h1 =>
    split
    · next h2 => simp [h1, h2] at h
    · next h2 => simp [h1, h2] at h

private def exT : Collector := ⟨2, some [(['t', 'a', 'r', 'g', 'e', 't'], .info)], []⟩

example : (setTargetInfo (register (init false none) exT).1 (some [(['a'], ['b'])])).2 = some .valueError := by decide

/-- unregistering a collector that is not registered raises `KeyError` and changes nothing -/
theorem unregister_unknown_is_frame (s : State) (c : Collector) (h : c ∉ s.collectorToNames.map Prod.fst) :
    unregister s c = (s, some .keyError) := unregister_unknown h

/-! ### unregister releases all and only the collector's names -/

/-- **Unregistering a registered collector** does not raise, keeps the invariant, removes it (and only it) from the
registered collectors, frees exactly its names (every other entry of the name map is untouched, in place), leaves
target info alone, and afterwards the collector itself — or any collector that was blocked by nothing but this
collector's names — can be registered. -/
theorem unregister_releases_exactly {s : State} (hi : Inv s) {c : Collector} {names : List Name}
    (hm : (c, names) ∈ s.collectorToNames) :
    (unregister s c).2 = none ∧
    Inv (unregister s c).1 ∧
    (unregister s c).1.collectorToNames = s.collectorToNames.filter (fun e => decide (e.1 ≠ c)) ∧
    (unregister s c).1.namesToCollectors = s.namesToCollectors.filter (fun p => decide (p.1 ∉ names)) ∧
    (unregister s c).1.targetInfo = s.targetInfo ∧
    (∀ n, n ∈ names → ¬ Claimed (unregister s c).1 n) ∧
    (∀ n, n ∉ names → (Claimed (unregister s c).1 n ↔ Claimed s n)) ∧
    (register (unregister s c).1 c).2 = none ∧
    (∀ d : Collector, (∀ n, n ∈ claims s.autoDescribe d → Claimed s n → n ∈ names) →
      (register (unregister s c).1 d).2 = none) := by
  have hnd := stored_nodup hi hm
  have hinv := inv_unregister_ok hi hm hnd
  have hkeys : ∀ n, n ∈ (unregister s c).1.namesToCollectors.map Prod.fst ↔
      n ∈ s.namesToCollectors.map Prod.fst ∧ n ∉ names := by
    intro n
    rw [unregister_ok hi hm hnd]
    simp only [List.mem_map, List.mem_filter, decide_eq_true_eq]
    constructor
    · rintro ⟨p, ⟨h1, h2⟩, rfl⟩; exact ⟨⟨p, h1, rfl⟩, h2⟩
    · rintro ⟨⟨p, h1, rfl⟩, h2⟩; exact ⟨p, ⟨h1, h2⟩, rfl⟩
  have had : (unregister s c).1.autoDescribe = s.autoDescribe := by rw [unregister_ok hi hm hnd]
  have hfree : ∀ d : Collector, (∀ n, n ∈ claims s.autoDescribe d → Claimed s n → n ∈ names) →
      (register (unregister s c).1 d).2 = none := by
    intro d hd
    have : clashes (unregister s c).1 d = false := by
      rw [clashes_false_iff, had]
      intro n hn hk
      have := (hkeys n).1 hk
      rw [mem_getNames_iff] at hn
      exact this.2 (hd n hn ((claimed_iff_key hi n).2 this.1))
    rw [register_ok this]
  refine ⟨by rw [unregister_ok hi hm hnd], hinv, by rw [unregister_ok hi hm hnd]; rfl,
    by rw [unregister_ok hi hm hnd], by rw [unregister_ok hi hm hnd], ?_, ?_, ?_, hfree⟩
  · intro n hn hc
    exact ((hkeys n).1 ((claimed_iff_key hinv n).1 hc)).2 hn
  · intro n hn
    rw [claimed_iff_key hinv, claimed_iff_key hi, hkeys]
    exact ⟨fun h => h.1, fun h => ⟨h, hn⟩⟩
  · apply hfree
    intro n hn _
    rw [← mem_getNames_iff, ← hi.stored c names hm] at hn
    exact hn

-- the hypotheses are met by a registered collector with three names
example : ∃ s c names, Inv s ∧ (c, names) ∈ s.collectorToNames ∧ names.length = 3 :=
  ⟨(register (init false none) exA).1, exA, getNames false exA, inv_register (inv_init _ _) _, by decide, by decide⟩

/-! ### which `collect()` the registration itself invokes -/

/-- **`register` calls `collect()` of the registering collector only, at most once, and exactly when it has to
auto-describe** (no `describe` attribute and `auto_describe` on) — whether or not the registration is then rejected.
In that case, and only then, the claimed names are those of the families `collect()` returned. -/
theorem register_calls_only_self (s : State) (c : Collector) :
    (∀ o, o ∈ registerCalls s c → o = Owner.coll c) ∧
    (registerCalls s c).length ≤ 1 ∧
    (registerCalls s c = [Owner.coll c] ↔ (c.describe = none ∧ s.autoDescribe = true)) ∧
    (registerCalls s c = [Owner.coll c] →
      described s.autoDescribe c = some (c.families.map fun f => (f.name, f.typ))) ∧
    (registerCalls s c = [] → described s.autoDescribe c = c.describe) := by
  unfold registerCalls described
  cases hd : c.describe with
  | some d => simp
  | none => cases ha : s.autoDescribe <;> simp

/-- no other call of a history invokes `collect()` on any collector -/
theorem only_register_calls_collect (s : State) (op : Op) (o : Owner) (h : o ∈ stepCalls s op) :
    ∃ c, op = .register c ∧ o = Owner.coll c := by
  cases op with
  | register c => exact ⟨c, rfl, (register_calls_only_self s c).1 o h⟩
  | unregister c => simp [stepCalls] at h
  | setTargetInfo l => simp [stepCalls] at h

example : registerCalls (init true none) exB = [Owner.coll exB] ∧ registerCalls (init false none) exB = [] ∧
    registerCalls (init true none) exA = [] := by decide

/-! ### regression: the former F6 witness -/

/-- describes `x` (counter) and `x_total` (gauge): the statement's claims are x, x_total, x_created, x_total -/
private def f6Collector : Collector :=
  ⟨0, some [(['x'], .counter), (['x', '_', 't', 'o', 't', 'a', 'l'], .gauge)], []⟩

/-- claims x -/
private def f6Other : Collector := ⟨1, some [(['x'], .gauge)], []⟩

-- the collector's names are recorded once; it registers, blocks a collector claiming `x`, unregisters without
-- error, frees every name, and the blocked collector then registers
example :
    getNames false f6Collector = [['x'], ['x', '_', 't', 'o', 't', 'a', 'l'], ['x', '_', 'c', 'r', 'e', 'a', 't', 'e', 'd']] ∧
    (register (init false none) f6Collector).2 = none ∧
    (register (register (init false none) f6Collector).1 f6Other).2 = some .valueError ∧
    (unregister (register (init false none) f6Collector).1 f6Collector).2 = none ∧
    (unregister (register (init false none) f6Collector).1 f6Collector).1 = init false none ∧
    (register (unregister (register (init false none) f6Collector).1 f6Collector).1 f6Other).2 = none := by
  decide

/-! ### the model follows the code: the two recognised other shapes violate the frame clause -/

/-- describes a gauge `x_total` -/
private def incHeld : Collector := ⟨1, some [(['x', '_', 't', 'o', 't', 'a', 'l'], .gauge)], []⟩
/-- describes a counter `x`: claims x (free), x_total (held by `incHeld`), x_created -/
private def incNew : Collector := ⟨0, some [(['x'], .counter)], []⟩

/-- **What the model does on a tree whose `register` tests and stores name by name** (T1 flag
`registerChecksAllBeforeStore = false` selects `registerIncremental`): the rejected registration has already inserted the
names before the clashing one — `x` stays claimed by a collector that is not registered, so nothing can release it. The
frame statement `register_clash_is_frame` is FALSE of that model; on the present tree `register = registerAtomic`
(`register_eq`). -/
theorem incremental_register_breaks_frame :
    (registerIncremental (register (init false none) incHeld).1 incNew).2 = some .valueError ∧
    (registerIncremental (register (init false none) incHeld).1 incNew).1 ≠ (register (init false none) incHeld).1 ∧
    dGet ['x'] (registerIncremental (register (init false none) incHeld).1 incNew).1.namesToCollectors
      = some (Owner.coll incNew) ∧
    dGet incNew (registerIncremental (register (init false none) incHeld).1 incNew).1.collectorToNames = none := by
  decide

/-- **What the model does on a tree whose `set_target_info` assigns `_target_info` before the clash test** (T1 flag
`setTargetInfoStoresAfterCheck = false`): the rejected call raises `ValueError` and leaves the NEW labels configured while
`target_info` is still owned by the registered collector (so `collect()` yields `target_info` twice).  The frame statement
`targetinfo_clash_is_frame` is FALSE of that model; on the present tree `setTargetInfo = setTargetInfoWith true`. -/
theorem store_first_set_target_info_breaks_frame :
    (setTargetInfoWith false (register (init false none) exT).1 (some [(['a'], ['b'])])).2 = some .valueError ∧
    (setTargetInfoWith false (register (init false none) exT).1 (some [(['a'], ['b'])])).1
      ≠ (register (init false none) exT).1 ∧
    (setTargetInfoWith false (register (init false none) exT).1 (some [(['a'], ['b'])])).1.targetInfo
      = some [(['a'], ['b'])] ∧
    dGet tiName (setTargetInfoWith false (register (init false none) exT).1 (some [(['a'], ['b'])])).1.namesToCollectors
      = some (Owner.coll exT) ∧
    -- the same call on the code as written is a frame
    (setTargetInfoWith true (register (init false none) exT).1 (some [(['a'], ['b'])])).1 = (register (init false none) exT).1 := by
  decide

/-! ### the frame clause for the two other ways in: self-registering constructors and caller-owned dicts -/

/-- **A built-in metric constructor that raises leaves the registry exactly as it was** — whether it raises because the name
clashes or because the class rejects its arguments (T1 flag `ctorsRegisterLast`: on a tree where e.g. `Enum.__init__`
validates `states` after the base constructor registered the metric, `decide` fails here and `construct` keeps the
half-built collector registered; `harness/props/c06frame.py` then exhibits the input). -/
theorem ctor_rejected_is_frame (s : State) (c : Collector) (rejects : Bool) (h : (construct s c rejects).2 ≠ none) :
    (construct s c rejects).1 = s := by
  have hf : PromVerif.Generated.Registry.ctorsRegisterLast = true := by decide
  unfold construct at h ⊢
  simp only [hf, if_true] at h ⊢
  cases rejects
  · simp only [Bool.false_eq_true, if_false] at h ⊢
    exact register_clash_is_frame s c h
  · simp

/-- an accepted constructor call IS a registration -/
theorem ctor_accepted_is_register (s : State) (c : Collector) : construct s c false = register s c := by
  have hf : PromVerif.Generated.Registry.ctorsRegisterLast = true := by decide
  simp [construct, hf]

theorem enum_validates_before_register : PromVerif.Generated.Registry.enumValidatesBeforeRegister = true := by decide

example : (construct (register (init true none) exA).1 exB true).2 = some .valueError ∧
    (construct (register (init true none) exA).1 exB true).1 = (register (init true none) exA).1 := by decide

/-- **Mutating a dict the caller passed to `set_target_info`, got from `get_target_info()` or found on a collected
`target_info` sample is not a registry call**: the registry is exactly as it was (T1 flags `targetInfoStoredCopied`,
`targetInfoHandedOutCopied`; on a tree that stores or hands out the dict itself the model has no answer and this fails). -/
theorem caller_dict_mutation_is_frame (s : State) (h : DictHolder) : afterCallerDictMutation s h = some s := by
  have hp : dictIsPrivate h = true := by cases h <;> decide
  simp [afterCallerDictMutation, hp]

/-- … hence `target_info` stays claimed iff target info is configured, whatever the caller does to its dict afterwards -/
theorem caller_dict_mutation_keeps_inv {s : State} (hi : Inv s) (h : DictHolder) :
    ∃ s', afterCallerDictMutation s h = some s' ∧ Inv s' :=
  ⟨s, caller_dict_mutation_is_frame s h, hi⟩

end PromVerif.Props.C06
