/-
C13 — float rendering is exact, injective and canonical.

`floatToGoString` rewrites the text produced by `repr`.  These theorems quantify over every text in
the `repr` grammar (digit strings of unbounded length); the IEEE facts they are combined with
(`float(repr d) = d`, `float` depends only on the denoted value) are in the trusted base and are
re-validated by the harness on every generated double.
-/
import PromVerif.Model.Utils
import PromVerif.Spec.Decimal
import PromVerif.Lemmas.Decimal

namespace PromVerif.Props.C13
open PromVerif.Py PromVerif.Spec PromVerif.Model.Utils PromVerif.Generated.Utils

/-- the extractor found every site of `floatToGoString` in the shape it understands -/
theorem extract_ok : extractOk = true := by decide

/-- `I.F` as printed by `repr` for a finite double in [1e-4, 1e16): digits, non-empty, no leading zero -/
structure PlainRepr (I F : List Char) : Prop where
  idig : allDigits I = true
  fdig : allDigits F = true
  ine : I ≠ []
  fne : F ≠ []
  nolead : I.head? = some '0' → I = ['0']

/-- exponent form `D[.F]e[+-]DD+` -/
structure ExpRepr (s : List Char) : Prop where
  shape : ∃ (d : Char) (F ex : List Char), isDigit d = true ∧ allDigits F = true ∧ '.' ∉ ex ∧
    (s = d :: 'e' :: ex ∨ s = d :: '.' :: F ++ 'e' :: ex)

private theorem digit_facts {c : Char} (h : isDigit c = true) :
    c ≠ '.' ∧ c ≠ 'e' ∧ c ≠ '-' ∧ c ≠ 'i' ∧ c ≠ 'n' ∧ c ≠ '+' := by
  refine ⟨?_, ?_, ?_, ?_, ?_, ?_⟩ <;> exact isDigit_ne h (by decide)

private theorem one_le_of_ne_zero (c : Char) (h : '0' ≤ c) (h0 : c ≠ '0') : '1' ≤ c := by
  rw [Char.le_def] at *
  have : c.val ≠ '0'.val := fun e => h0 (Char.ext e)
  have e0 : ('0' : Char).val = 48 := rfl
  have e1 : ('1' : Char).val = 49 := rfl
  rw [e0] at h this
  rw [e1]
  rw [UInt32.le_iff_toNat_le] at *
  have : c.val.toNat ≠ (48 : UInt32).toNat := fun e => this (UInt32.toNat_inj.mp e)
  simp at *
  omega

private theorem nonzero_digit {c : Char} (h : isDigit c = true) (h0 : c ≠ '0') :
    ('1' ≤ c && c ≤ '9') = true := by
  simp only [isDigit, Bool.and_eq_true, decide_eq_true_eq] at h ⊢
  exact ⟨one_le_of_ne_zero c h.1 h0, h.2⟩

private theorem fmtExp_eq_exp2 (n : Nat) : fmtExp n = exp2 n := by
  unfold fmtExp exp2 zpad expMinWidth
  split
  · next h =>
    unfold decDigits; simp [h]
  · next h =>
    have := decDigits_length_two n (by omega)
    have h0 : 2 - (decDigits n).length = 0 := by omega
    simp [h0]

private theorem mantissa_strip (i0 : Char) (rest : List Char) (hi : isDigit i0 = true) (h0 : i0 ≠ '0')
    (hr : allDigits rest = true) :
    rstripSet (fun c => stripChars.contains c) (i0 :: '.' :: rest)
      = (if stripZeros rest = [] then [i0] else i0 :: '.' :: stripZeros rest) := by
  have hcongr : rstripSet (fun c => stripChars.contains c) rest = stripZeros rest := by
    apply rstripSet_congr
    intro c hc
    have hd := (List.all_eq_true.mp hr) c hc
    have := (digit_facts hd).1
    by_cases hc0 : c = '0' <;> simp [stripChars, this, hc0]
  have hpi : stripChars.contains i0 = false := by
    have := (digit_facts hi).1
    simp [stripChars, h0, this]
  by_cases hz : stripZeros rest = []
  · have h1 : rstripSet (fun c => stripChars.contains c) ('.' :: rest) = [] := by
      rw [rstripSet_cons_of_nil _ _ _ (by rw [hcongr]; exact hz)]
      simp [stripChars]
    rw [rstripSet_cons_of_nil _ _ _ h1, hpi]
    simp [hz]
  · have h1 : rstripSet (fun c => stripChars.contains c) ('.' :: rest) = '.' :: stripZeros rest := by
      rw [rstripSet_cons_of_ne_nil _ _ _ (by rw [hcongr]; exact hz), hcongr]
    rw [rstripSet_cons_of_ne_nil _ _ _ (by rw [h1]; simp), h1]
    simp [hz]

/-- **Canonical spelling.** For every positive plain repr with more than six integer digits — any digit
count from 7 upwards, any trailing-zero pattern — the rendering is exactly Go's spelling. -/
theorem go_big (i0 : Char) (I' F : List Char) (h : PlainRepr (i0 :: I') F) (hbig : 6 ≤ I'.length) :
    floatToGoString (i0 :: I' ++ '.' :: F) = goFormat i0 (I' ++ F) I'.length := by
  have hi0 : isDigit i0 = true := by
    have := h.idig; simp [allDigits] at this; exact this.1
  have hI' : allDigits I' = true := by
    have := h.idig; simp [allDigits] at this ⊢; exact this.2
  have hne0 : i0 ≠ '0' := by
    intro e
    have := h.nolead (by simp [e])
    simp at this
    simp [this.2] at hbig
  obtain ⟨hdot, he, hminus, hi, hn, _⟩ := digit_facts hi0
  have hpos : isPos (i0 :: I' ++ '.' :: F) = true := by
    unfold isPos
    split
    · next heq => simp at heq; exact absurd heq.1 hminus
    · simp [he, nonzero_digit hi0 hne0]
  have hfind : findChar '.' (i0 :: I' ++ '.' :: F) = some (I'.length + 1) := by
    have hnot : '.' ∉ (i0 :: I') := not_mem_of_allDigits h.idig (by decide)
    have := findChar_append_of_not_mem (c := '.') (a := i0 :: I') (b := F) hnot
    simpa using this
  unfold floatToGoString
  rw [if_neg (by simp [hi]), if_neg (by simp [hminus]), if_neg (by simp [hn])]
  unfold goFinite
  rw [hfind, hpos]
  have hthr : decide (I'.length + 1 > dotThreshold) = true := by
    simp [dotThreshold]; omega
  simp only [hthr, Bool.and_self, if_true]
  have hmant : List.take 1 (i0 :: I' ++ '.' :: F) ++ ['.'] ++ List.take (I'.length + 1 - 1) (List.drop 1 (i0 :: I' ++ '.' :: F))
      ++ List.drop (I'.length + 1 + 1) (i0 :: I' ++ '.' :: F) = i0 :: '.' :: (I' ++ F) := by
    simp [List.take_append, List.drop_append]
  rw [hmant, mantissa_strip i0 (I' ++ F) hi0 hne0 (by simp [allDigits] at hI' ⊢; exact ⟨hI', by have := h.fdig; simpa [allDigits] using this⟩)]
  simp [goFormat, fmtExp_eq_exp2, expLit]

/-- the spelling is canonical: `D(.D*[1-9])?e+DD+`, exponent of at least two digits and no longer than
needed -/
theorem goFormat_canonical (i0 : Char) (rest : List Char) (n : Nat) (hi : isDigit i0 = true) (h0 : i0 ≠ '0')
    (hr : allDigits rest = true) : GoCanonical (goFormat i0 rest n) :=
  ⟨i0, stripZeros rest, exp2 n, hi, h0, allDigits_stripZeros hr, stripZeros_last rest,
    exp2_digits n, exp2_length n, exp2_shortest n, rfl⟩

/-- meaning of a plain repr -/
theorem denote_plain (i0 : Char) (I' F : List Char) (h : PlainRepr (i0 :: I') F) :
    denote (i0 :: I' ++ '.' :: F) = some ⟨false, parseDigits (i0 :: I' ++ F), -(F.length : Int)⟩ := by
  have hi0 : isDigit i0 = true := by
    have := h.idig; simp [allDigits] at this; exact this.1
  have hIdot : '.' ∉ i0 :: I' := not_mem_of_allDigits h.idig (by decide)
  have hnoe : 'e' ∉ i0 :: I' ++ '.' :: F := by
    intro hm
    rcases List.mem_append.mp hm with hm | hm
    · exact not_mem_of_allDigits h.idig (by decide) hm
    · rcases List.mem_cons.mp hm with hm | hm
      · exact absurd hm (by decide)
      · exact not_mem_of_allDigits h.fdig (by decide) hm
  rw [List.cons_append, denote_of_head (digit_facts hi0).2.2.1, ← List.cons_append]
  unfold denoteBody
  rw [splitFirst_of_not_mem hnoe, splitFirst_append_of_not_mem hIdot]
  have hF : fracOf (some F) = some F := by
    cases hFF : F with
    | nil => exact absurd hFF h.fne
    | cons y ys => rfl
  have hall : allDigits (i0 :: I' ++ F) = true := by
    have h1 := h.idig; have h2 := h.fdig
    simp [allDigits] at h1 h2 ⊢
    exact ⟨h1.1, h1.2, h2⟩
  simp only [hF, expOf]
  rw [parseNat?_of_digits h.ine h.idig, parseNat?_of_digits (s := i0 :: I' ++ F) (by simp) hall]
  simp

/-- meaning of the Go spelling -/
theorem denote_goFormat (i0 : Char) (rest : List Char) (n : Nat) (hi : isDigit i0 = true)
    (hr : allDigits rest = true) :
    denote (goFormat i0 rest n)
      = some ⟨false, parseDigits (i0 :: stripZeros rest), (n : Int) - ((stripZeros rest).length : Int)⟩ := by
  obtain ⟨hdot, he, hminus, _, _, _⟩ := digit_facts hi
  have hfd := allDigits_stripZeros hr
  have hexp : expOf (some ('+' :: exp2 n)) = some (n : Int) := by
    simp [expOf, parseExp?, parseNat?_of_digits (exp2_ne_nil n) (exp2_digits n), exp2_value]
  have hp1 : parseNat? [i0] = some (parseDigits [i0]) :=
    parseNat?_of_digits (s := [i0]) (by simp) (by simp [allDigits, hi])
  unfold goFormat
  by_cases hz : stripZeros rest = []
  · simp only [hz, if_true]
    have h1 : splitFirst 'e' ([i0] ++ ['e', '+'] ++ exp2 n) = ([i0], some ('+' :: exp2 n)) := by
      have := splitFirst_append_of_not_mem (c := 'e') (a := [i0]) (b := '+' :: exp2 n) (by simp [Ne.symm he])
      simpa using this
    have h2 : splitFirst '.' [i0] = ([i0], none) := splitFirst_of_not_mem (by simp [Ne.symm hdot])
    show denote (i0 :: ([] ++ ['e', '+'] ++ exp2 n)) = _
    rw [denote_of_head hminus]
    show denoteBody false ([i0] ++ ['e', '+'] ++ exp2 n) = _
    unfold denoteBody
    rw [h1, h2, hexp]
    simp [fracOf, hp1]
  · simp only [hz, if_false]
    have hnoe : 'e' ∉ i0 :: '.' :: stripZeros rest := by
      intro hm
      rcases List.mem_cons.mp hm with hm | hm
      · exact he hm.symm
      · rcases List.mem_cons.mp hm with hm | hm
        · exact absurd hm (by decide)
        · exact not_mem_of_allDigits hfd (by decide) hm
    have h1 : splitFirst 'e' (i0 :: '.' :: stripZeros rest ++ ['e', '+'] ++ exp2 n)
        = (i0 :: '.' :: stripZeros rest, some ('+' :: exp2 n)) := by
      have := splitFirst_append_of_not_mem (c := 'e') (b := '+' :: exp2 n) hnoe
      simpa using this
    have h2 : splitFirst '.' (i0 :: '.' :: stripZeros rest) = ([i0], some (stripZeros rest)) := by
      have := splitFirst_append_of_not_mem (c := '.') (a := [i0]) (b := stripZeros rest) (by simp [Ne.symm hdot])
      simpa using this
    have hm : fracOf (some (stripZeros rest)) = some (stripZeros rest) := by
      cases hs : stripZeros rest with
      | nil => exact absurd hs hz
      | cons y ys => rfl
    have hall : allDigits ([i0] ++ stripZeros rest) = true := by
      simp [allDigits] at hfd ⊢; exact ⟨hi, hfd⟩
    show denote (i0 :: ('.' :: stripZeros rest ++ ['e', '+'] ++ exp2 n)) = _
    rw [denote_of_head hminus]
    show denoteBody false (i0 :: '.' :: stripZeros rest ++ ['e', '+'] ++ exp2 n) = _
    unfold denoteBody
    rw [h1, h2, hexp, hm, hp1]
    simp only []
    rw [parseNat?_of_digits (s := [i0] ++ stripZeros rest) (by simp) hall]
    simp

/-- **Exactness.** For every positive plain repr with more than six integer digits the rendering
denotes the same rational number as the repr, hence (trusted: `float` depends only on the denoted
value, and `float(repr d) = d`) parses back to the identical double. -/
theorem go_preserves_value (i0 : Char) (I' F : List Char) (h : PlainRepr (i0 :: I') F) (hbig : 6 ≤ I'.length) :
    ∃ a b, denote (floatToGoString (i0 :: I' ++ '.' :: F)) = some a ∧
      denote (i0 :: I' ++ '.' :: F) = some b ∧ a.eqv b := by
  have hi0 : isDigit i0 = true := by
    have := h.idig; simp [allDigits] at this; exact this.1
  have hrest : allDigits (I' ++ F) = true := by
    have h1 := h.idig; have h2 := h.fdig
    simp [allDigits] at h1 h2 ⊢
    exact ⟨h1.2, h2⟩
  rw [go_big i0 I' F h hbig, denote_goFormat i0 (I' ++ F) I'.length hi0 hrest]
  rw [denote_plain i0 I' F h]
  refine ⟨_, _, rfl, rfl, rfl, ?_⟩
  obtain ⟨k, hk⟩ := stripZeros_decomp (I' ++ F)
  refine ⟨k, Or.inl ⟨?_, ?_⟩⟩
  · have hl : (I' ++ F).length = (stripZeros (I' ++ F)).length + k := by
      conv => lhs; rw [hk]
      simp
    simp at hl ⊢
    omega
  · show parseDigits (i0 :: I' ++ F) = parseDigits (i0 :: stripZeros (I' ++ F)) * 10 ^ k
    have : i0 :: I' ++ F = (i0 :: stripZeros (I' ++ F)) ++ List.replicate k '0' := by
      rw [List.cons_append, List.cons_append, ← hk]
    rw [this, parseDigits_append, parseDigits_replicate_zero]
    simp

/-- Everything else is left as `repr` wrote it: a plain repr with at most six integer digits … -/
theorem go_small (I F : List Char) (h : PlainRepr I F) (hsmall : I.length ≤ 6) :
    floatToGoString (I ++ '.' :: F) = I ++ '.' :: F := by
  have hIdot : '.' ∉ I := not_mem_of_allDigits h.idig (by decide)
  cases hI : I with
  | nil => exact absurd hI h.ine
  | cons x xs =>
    have hx : isDigit x = true := by have := h.idig; rw [hI] at this; simp [allDigits] at this; exact this.1
    obtain ⟨_, _, hminus, hi, hn, _⟩ := digit_facts hx
    unfold floatToGoString
    rw [if_neg (by simp [hi]), if_neg (by simp [hminus]), if_neg (by simp [hn])]
    unfold goFinite
    rw [← hI, findChar_append_of_not_mem hIdot]
    have : decide (I.length > dotThreshold) = false := by simp [dotThreshold]; omega
    simp [this]

/-- … every negative number (the library only rewrites positive values) … -/
theorem go_negative (t : List Char) (h1 : t ≠ ['i', 'n', 'f']) :
    floatToGoString ('-' :: t) = '-' :: t := by
  unfold floatToGoString
  rw [if_neg (by simp), if_neg (by simp [h1]), if_neg (by simp)]
  unfold goFinite isPos
  cases findChar '.' ('-' :: t) <;> simp

/-- … and every exponent-form repr (`1e+16`, `1.5e-07`, …). -/
theorem go_exp (s : List Char) (h : ExpRepr s) : floatToGoString s = s := by
  obtain ⟨d, F, ex, hd, hF, hex, hs⟩ := h.shape
  obtain ⟨hdot, he, hminus, hi, hn, _⟩ := digit_facts hd
  have hspecial : floatToGoString s = goFinite (isPos s) s := by
    unfold floatToGoString
    rcases hs with hs | hs <;> subst hs <;>
      rw [if_neg (by simp [hi]), if_neg (by simp [hminus]), if_neg (by simp [hn])]
  rw [hspecial]
  unfold goFinite
  rcases hs with hs | hs
  · subst hs
    have : findChar '.' (d :: 'e' :: ex) = none := by
      apply findChar_none_of_not_mem
      simp [Ne.symm hdot, hex]
    rw [this]
  · subst hs
    have : findChar '.' (d :: '.' :: F ++ 'e' :: ex) = some 1 := by
      simp [findChar, hdot]
    rw [this]
    simp [dotThreshold]

/-- the three non-finite values -/
theorem go_special :
    floatToGoString ['i', 'n', 'f'] = ['+', 'I', 'n', 'f'] ∧
    floatToGoString ['-', 'i', 'n', 'f'] = ['-', 'I', 'n', 'f'] ∧
    floatToGoString ['n', 'a', 'n'] = ['N', 'a', 'N'] := by decide

/-- **Injectivity on the rewritten range**: two big positive plain reprs with one rendering denote the
same number (and then, `repr` being injective on doubles, are the same double). -/
theorem go_injective_big (i0 j0 : Char) (I' J' F G : List Char)
    (h1 : PlainRepr (i0 :: I') F) (h2 : PlainRepr (j0 :: J') G) (b1 : 6 ≤ I'.length) (b2 : 6 ≤ J'.length)
    (heq : floatToGoString (i0 :: I' ++ '.' :: F) = floatToGoString (j0 :: J' ++ '.' :: G)) :
    ∃ a b c, denote (i0 :: I' ++ '.' :: F) = some a ∧ denote (j0 :: J' ++ '.' :: G) = some b ∧
      a.eqv c ∧ b.eqv c := by
  obtain ⟨a1, b1', e1, e2, e3⟩ := go_preserves_value i0 I' F h1 b1
  obtain ⟨a2, b2', f1, f2, f3⟩ := go_preserves_value j0 J' G h2 b2
  rw [heq, f1] at e1
  cases e1
  exact ⟨b1', b2', a1, e2, f2, ⟨e3.1.symm, by
    obtain ⟨k, hk⟩ := e3.2
    exact ⟨k, hk.symm.imp (fun h => h) (fun h => h)⟩⟩, ⟨f3.1.symm, by
    obtain ⟨k, hk⟩ := f3.2
    exact ⟨k, hk.symm.imp (fun h => h) (fun h => h)⟩⟩⟩

/-- a rewritten rendering is never the rendering of an unrewritten text: it contains `e+` after a
mantissa that a repr exponent form of the same value would print with a different digit count; the
harness checks the cross-branch case on doubles (trusted: `repr` switches to exponent form at 1e16). -/
theorem go_big_has_exponent (i0 : Char) (I' F : List Char) (h : PlainRepr (i0 :: I') F) (hbig : 6 ≤ I'.length) :
    'e' ∈ floatToGoString (i0 :: I' ++ '.' :: F) ∧ 'e' ∉ (i0 :: I' ++ '.' :: F) := by
  rw [go_big i0 I' F h hbig]
  refine ⟨by simp [goFormat], ?_⟩
  intro hm
  rcases List.mem_append.mp hm with hm | hm
  · exact not_mem_of_allDigits h.idig (by decide) hm
  · rcases List.mem_cons.mp hm with hm | hm
    · exact absurd hm (by decide)
    · exact not_mem_of_allDigits h.fdig (by decide) hm

-- Non-vacuity: concrete reprs meeting the hypotheses, and what the theorems give on them.
example : PlainRepr ['1','5','0','0','0','0','0','0','0','0','0'] ['0'] :=
  ⟨by decide, by decide, by decide, by decide, by decide⟩
example : floatToGoString ['1','5','0','0','0','0','0','0','0','0','0','.','0'] = ['1','.','5','e','+','1','0'] := by
  decide +kernel
example : floatToGoString ['1','0','0','0','0','0','0','.','0'] = ['1','e','+','0','6'] := by decide +kernel
example : floatToGoString ['1','2','3','4','5','6','7','.','1','2','5']
    = ['1','.','2','3','4','5','6','7','1','2','5','e','+','0','6'] := by decide +kernel
example : floatToGoString ['9','9','9','9','9','9','.','0'] = ['9','9','9','9','9','9','.','0'] := by decide +kernel

end PromVerif.Props.C13
