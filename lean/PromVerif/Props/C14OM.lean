/-
C14 (OpenMetrics half) — the OpenMetrics parser is total: any input ends in families or ValueError.

Statement of the property for the model: for every input string and every choice of the number parameters
(`int()`, `float()`, comparisons, `math.isnan`, `Timestamp.__float__`, the regex classes), `omParse` returns `.ok` or
`.error .valueError` — never another class, never `timeout` (= the loops terminate).

History: on the snapshot this was false in seven ways (KeyError, TypeError, AttributeError ×3 sites, IndexError ×2
sites, OverflowError), and two of the repairs opened two more (TypeError in `_check_histogram`, OverflowError in
`Timestamp.__float__`); all nine are repaired in /repo (e804336, 979e8ea, 74e3eee, 6c551bc, 007bfee, afb5815, 3aca2ff,
2c736ec, a186a64).  The model follows the repaired code and branches on each guard as extracted from the source, so a
removed guard breaks `om_parser_total` and the corresponding `regress_*` theorem.

What is proved, for every input and every parameter choice:
* `parse_timestamp_total`, `parse_remaining_text_total`, `parse_sample_total`, `parse_labels_om_total`
  (incl. termination of the label loop), `nh_detector_total`, `unquote_unescape_total`: only ValueError escapes from
  the per-line functions; the `parts[1]` IndexError of `_parse_timestamp` is unreachable;
* `group_for_sample_guarded`: the three `del d[...]` KeyError sites are guarded by the label checks of the main loop;
* `om_parser_total`: the whole parser (tokenisation of every line incl. `_parse_nh_sample` / `_parse_nh_struct`, the
  line/family fold, `build_metric`, `_check_histogram`), with no hypothesis on the input.
-/
import PromVerif.Lemmas.OMTotal
import PromVerif.Lemmas.OMFold4
import PromVerif.Lemmas.OMToy

namespace PromVerif.Props.C14OM
open PromVerif.Py PromVerif.Model.ParseCore PromVerif.Model.OMParse PromVerif.Generated.OMParse
open PromVerif.Lemmas.OM PromVerif.Lemmas.OMToy

/-- the extractor found every site of the OpenMetrics parser in the shape it understands -/
theorem extract_ok : extractOk = true := by decide

def inRanges (rs : List (Nat × Nat)) (c : Char) : Bool := rs.any (fun r => r.1 ≤ c.toNat && c.toNat ≤ r.2)

set_option maxRecDepth 100000 in
/-- the hand-written matchers of `_parse_nh_struct` are exact for the interpreter's classes: `:` is not a `\w`
character, none of `: , ] -` is a `\d` character, and no `\d` character is whitespace -/
theorem regex_classes_exact :
    inRanges reWordRanges ':' = false ∧
    (inRanges reDigitRanges ':' = false ∧ inRanges reDigitRanges ',' = false ∧ inRanges reDigitRanges ']' = false ∧
      inRanges reDigitRanges '-' = false) ∧
    (reDigitRanges.all (fun r => reSpaceRanges.all (fun s => decide (r.2 < s.1 ∨ s.2 < r.1)))) = true := by
  decide

/-! ## the per-line functions are total -/

/-- `_parse_timestamp`: only ValueError, for every text and every `int()` / `float()` -/
theorem parse_timestamp_total (P : Params) (ts : Str) : ∀ e, parseTimestamp P ts = .error e → e = .valueError :=
  parseTimestamp_safe P ts

/-- `parse_labels(s, True)`: only ValueError and the `while sub_labels:` loop terminates (no `timeout`) -/
theorem parse_labels_om_total (legacy : Bool) (s : Str) : ∀ e, parseLabels legacy s true = .error e → e = .valueError :=
  parseLabels_om_safe legacy s

/-- `_parse_remaining_text` (value, timestamp, exemplar state machine): only ValueError -/
theorem parse_remaining_text_total (P : Params) (text : Str) : ∀ e, parseRemainingText P text = .error e → e = .valueError :=
  parseRemainingText_safe P text

/-- `_parse_sample`: only ValueError -/
theorem parse_sample_total (P : Params) (text : Str) : ∀ e, parseSample P text = .error e → e = .valueError :=
  parseSample_safe P text

/-- the native-histogram detector: `None`, a position, or ValueError -/
theorem nh_detector_total (text : Str) : ∀ e, nhDetect text = .error e → e = .valueError :=
  nhDetect_safe text

/-- the `del d['quantile']` / `del d[name]` / `del d['le']` sites of `_group_for_sample` cannot raise once the label
checks of the main loop have passed on a sample that has labels -/
theorem group_for_sample_guarded (P : Params) (n : Str) (typ : Option Str) (s : OSample) (l : Labels)
    (hl : s.labels = some l) (hpre : preChecks P n typ s = .ok ()) : ∃ g, groupForSample s n (typ.getD []) = .ok g :=
  groupForSample_guarded P n typ s l hl hpre

example : (parseTimestamp toyP cs!"1.5").toOption = some (some (.stamp 1 500000000)) := by decide
example : (parseTimestamp toyP cs!"-1.5").toOption = some (some (.stamp (-1) (-500000000))) := by decide
example : (parseTimestamp toyP cs!"2e0").toOption = some (some (.flt 5)) := by decide
example : errOf (parseTimestamp toyP cs!"1.x") = some .valueError := by decide

/-! ## regressions: the classes found on the unrepaired parser are gone (kernel-evaluated on the model, which
branches on the guards extracted from the source — removing a guard flips its flag in `Generated/OMParse.lean`) -/

/-- 979e8ea: a native-histogram value without a required field is a ValueError (was KeyError) -/
theorem regress_nh_missing_field : errOf (parseDoc "# TYPE a histogram\na {foo:1}\n# EOF\n") = some .valueError := by decide

/-- 74e3eee: a native-histogram sample named `<family>_total` is accepted (was TypeError in `math.isnan(None)`) -/
theorem regress_nh_total :
    isOkDoc "# TYPE a histogram\na_total {count:1,sum:1,schema:1,zero_threshold:1,zero_count:1}\n# EOF\n" = true := by decide

/-- 74e3eee: … and one named `<family>_gcount` (was AttributeError `None.is_integer`) -/
theorem regress_nh_gcount :
    isOkDoc "# TYPE a histogram\na_gcount {count:1,sum:1,schema:1,zero_threshold:1,zero_count:1}\n# EOF\n" = true := by decide

/-- 6c551bc: the suffix rule applies to a name given inside the braces (was AttributeError `None.get`) -/
theorem regress_nh_quoted_bucket :
    errOf (parseDoc "# TYPE a histogram\n{\"a_bucket\"} {count:1,sum:1,schema:1,zero_threshold:1,zero_count:1}\n# EOF\n") = some .valueError := by
  decide

/-- 007bfee: a group mixing a `Timestamp` and a float timestamp is compared (was AttributeError) … -/
theorem regress_mixed_timestamps : isOkDoc "a 1 1.5\na 1 2e0\n# EOF\n" = true := by decide

/-- … in both orders, and going backwards is the ordinary ValueError -/
theorem regress_mixed_timestamps_backwards : errOf (parseDoc "a 1 2e0\na 1 1.5\n# EOF\n") = some .valueError := by decide

/-- afb5815: an integer value too large for a float is accepted (was OverflowError; the toy limit is 10^6) -/
theorem regress_huge_int : isOkDoc "# TYPE a counter\na_total 1000000\n# EOF\n" = true := by decide

/-- e804336 (F8): a metadata name token made of whitespace other than the space is a ValueError (was IndexError) -/
theorem f8_repaired_metadata : errOf (parseDoc "# HELP \t x\n# EOF\n") = some .valueError := by decide

/-- … and so is a sample whose quoted name is blank -/
theorem f8_repaired_sample_name : errOf (parseDoc "{\" \"} 1\n# EOF\n") = some .valueError := by decide

/-- `_unquote_unescape` is total since the repair -/
theorem unquote_unescape_total (t : Str) : ∀ e, unquoteUnescape t = .error e → e = .valueError := unquoteUnescape_safe' t

/-- 2c736ec: `_check_histogram` skips native-histogram samples — one named `<family>_gsum` is accepted (was TypeError
from `None < 0`, reachable once 74e3eee let such samples into the list) -/
theorem regress_nh_gsum :
    isOkDoc "# TYPE a histogram\na_gsum {count:1,sum:1,schema:1,zero_threshold:1,zero_count:1}\n# EOF\n" = true := by decide

/-- a186a64: a `Timestamp` whose seconds do not fit a float is compared by its seconds (was OverflowError in
`Timestamp.__float__`, introduced by 007bfee; the toy limit is 10^6) -/
theorem regress_huge_timestamp : errOf (parseDoc "a 1 1000000\na 1 2e0\n# EOF\n") = some .valueError := by decide

theorem regress_huge_timestamp_forward : isOkDoc "a 1 2e0\na 1 1000000\n# EOF\n" = true := by decide

/-- bc8d08a (F18): a backslash-escaped quote inside an exemplar label value no longer derails the exemplar state
machine (was ValueError "Invalid line") -/
theorem regress_exemplar_escaped_quote :
    isOkDoc "# TYPE a counter\na_total 1 # {t=\"q\\\"q\"} 1\n# EOF\n" = true := by decide

/-- 64745db: `-0.5` is not read as `Timestamp(0, 500000000)` any more (the sign was lost); it is left to `float()` -/
theorem regress_neg_zero_timestamp : (parseTimestamp toyP cs!"-0.5").toOption ≠ some (some (.stamp 0 500000000)) := by decide

/-! ## the whole parser -/

/-- **the OpenMetrics parser is total**: for every input string and every choice of the number parameters and regex
classes — `int()`, `float()`, the comparisons, `math.isnan/isinf`, `float.is_integer`, `Timestamp.__float__`, `\w \s
\d` — the model of `list(text_string_to_metric_families(text))` returns families or raises ValueError: no other class,
and no `timeout` (the label loop, the scanners, the regex matchers and the fold terminate within their fuel).
The two hypotheses are interpreter facts about the parameters, not restrictions of the input: `float("NaN")` is a NaN
(the `le` test relies on it), and no `\d` character is whitespace (`_compose_deltas` relies on it;
`regex_classes_exact` checks it on the interpreter's tables).  The proof uses every guard extracted from the source
(`Generated.OMParse.nhStructCatchesKeyError`, `nhSkipsChecks`, `nhSuffixRecheck`, `tsCoerce`, `tsOverflowFallback`,
`histSkipsNh`, `nanGuardsFloat`, and the F8 repair in the shared `unquoteUnescape`): removing one breaks it. -/
theorem om_parser_total (P : Params) (hnan : NaNLiteral P) (hd : DigitsNotSpace P) (text : Str) :
    ∀ e, omParse P text = .error e → e = .valueError :=
  omParse_safe P hnan hd text

/-- termination: the fuel of the model's loops always suffices -/
theorem om_parser_no_timeout (P : Params) (hnan : NaNLiteral P) (hd : DigitsNotSpace P) (text : Str) :
    omParse P text ≠ .error .timeout := by
  intro h
  have := om_parser_total P hnan hd text _ h
  cases this

/-- the two interpreter facts hold for the toy instance (non-vacuity) -/
example : NaNLiteral toyP := by
  intro f h
  have : toyP.pyFloat sNaN = some 0 := by decide
  rw [this] at h; cases h; decide

example : DigitsNotSpace toyP := by
  intro c h
  have h' : c.isDigit = true := h
  simp only [Char.isDigit, Bool.and_eq_true, decide_eq_true_eq] at h'
  obtain ⟨h1, h2⟩ := h'
  have e1 : c.val.toNat = c.toNat := rfl
  have a1 : 48 ≤ c.toNat := by have := UInt32.le_iff_toNat_le.mp h1; simpa [e1] using this
  have a2 : c.toNat ≤ 57 := by have := UInt32.le_iff_toNat_le.mp h2; simpa [e1] using this
  simp only [isPySpace]
  simp
  omega

end PromVerif.Props.C14OM
