/-
C14 (OpenMetrics half) — the OpenMetrics parser is total: any input ends in families or ValueError.

Statement of the property for the model: for every input string and every choice of the number parameters
(`int()`, `float()`, comparisons, `math.isnan`, the regex classes), `omParse` returns `.ok` or `.error .valueError` —
never another class, never `timeout` (= the loops terminate).  On the unchanged tree this is FALSE: the witness
theorems below (kernel-evaluated on the model) exhibit KeyError, TypeError, AttributeError (three sites) and
OverflowError (IndexError, F8, two sites: repaired during this work), each confirmed on the real parser by the harness (`harness/props/c14om.py`, corpus).

What is proved, for every input and every parameter choice:
* `parse_timestamp_total`, `parse_remaining_text_total`, `parse_sample_total`, `parse_labels_om_total`
  (incl. termination of the label loop), `nh_detector_total`: only ValueError escapes from the per-line functions;
  the `parts[1]` IndexError of `_parse_timestamp` is unreachable (`int(parts[0])` raises first when there is no dot);
* `group_for_sample_guarded`: the three `del d[...]` KeyError sites are guarded by the label checks of the main loop;
* `om_parser_total_partial`: the whole parser (`omParse`, i.e. tokenisation of every line and the line/family fold
  with `build_metric` and `_check_histogram`), under the hypothesis `OutsideFindings` that excludes exactly the
  finding classes.
-/
import PromVerif.Lemmas.OMTotal
import PromVerif.Lemmas.OMFold4
import PromVerif.Lemmas.OMToy

namespace PromVerif.Props.C14OM
open PromVerif.Py PromVerif.Model.ParseCore PromVerif.Model.OMParse PromVerif.Generated.OMParse
open PromVerif.Lemmas.OM PromVerif.Lemmas.OMToy

/-- the extractor found every site of the OpenMetrics parser in the shape it understands -/
theorem extract_ok : extractOk = true := by decide

def inRanges (rs : List (Nat × Nat)) (c : Char) : Bool := rs.any (fun r => r.1 ≤ c.toNat && c.toNat ≤ r.2)

set_option maxRecDepth 100000 in
/-- the hand-written matchers of `_parse_nh_struct` are exact for the interpreter's classes: `:` is not a `\w`
character, none of `: , ] -` is a `\d` character, and no `\d` character is whitespace -/
theorem regex_classes_exact :
    inRanges reWordRanges ':' = false ∧
    (inRanges reDigitRanges ':' = false ∧ inRanges reDigitRanges ',' = false ∧ inRanges reDigitRanges ']' = false ∧
      inRanges reDigitRanges '-' = false) ∧
    (reDigitRanges.all (fun r => reSpaceRanges.all (fun s => decide (r.2 < s.1 ∨ s.2 < r.1)))) = true := by
  decide

/-! ## the per-line functions are total -/

/-- `_parse_timestamp`: only ValueError, for every text and every `int()` / `float()` -/
theorem parse_timestamp_total (P : Params) (ts : Str) : ∀ e, parseTimestamp P ts = .error e → e = .valueError :=
  parseTimestamp_safe P ts

/-- `parse_labels(s, True)`: only ValueError and the `while sub_labels:` loop terminates (no `timeout`) -/
theorem parse_labels_om_total (legacy : Bool) (s : Str) : ∀ e, parseLabels legacy s true = .error e → e = .valueError :=
  parseLabels_om_safe legacy s

/-- `_parse_remaining_text` (value, timestamp, exemplar state machine): only ValueError -/
theorem parse_remaining_text_total (P : Params) (text : Str) : ∀ e, parseRemainingText P text = .error e → e = .valueError :=
  parseRemainingText_safe P text

/-- `_parse_sample`: only ValueError -/
theorem parse_sample_total (P : Params) (text : Str) : ∀ e, parseSample P text = .error e → e = .valueError :=
  parseSample_safe P text

/-- the native-histogram detector: `None`, a position, or ValueError -/
theorem nh_detector_total (text : Str) : ∀ e, nhDetect text = .error e → e = .valueError :=
  nhDetect_safe text

/-- the `del d['quantile']` / `del d[name]` / `del d['le']` sites of `_group_for_sample` cannot raise once the label
checks of the main loop have passed on a sample that has labels -/
theorem group_for_sample_guarded (P : Params) (n : Str) (typ : Option Str) (s : OSample) (l : Labels)
    (hl : s.labels = some l) (hpre : preChecks P n typ s = .ok ()) : ∃ g, groupForSample s n (typ.getD []) = .ok g :=
  groupForSample_guarded P n typ s l hl hpre

example : (parseTimestamp toyP cs!"1.5").toOption = some (some (.stamp 1 500000000)) := by decide
example : (parseTimestamp toyP cs!"-1.5").toOption = some (some (.stamp (-1) (-500000000))) := by decide
example : (parseTimestamp toyP cs!"2e0").toOption = some (some (.flt 5)) := by decide
example : errOf (parseTimestamp toyP cs!"1.x") = some .valueError := by decide

/-! ## witnesses: the model raises the classes found on the real parser (F8, F9 and the new sites) -/

/-- F9a: `items['count']` on a native-histogram-shaped value without the key -/
theorem witness_keyError : errOf (parseDoc "# TYPE a histogram\na {foo:1}\n# EOF\n") = some .keyError := by decide

/-- F9b: `math.isnan(None)` on a native-histogram sample whose name ends in a counter-like suffix -/
theorem witness_typeError :
    errOf (parseDoc "# TYPE a histogram\na_total {count:1,sum:1,schema:1,zero_threshold:1,zero_count:1}\n# EOF\n") = some .typeError := by
  decide

/-- F9c: `Timestamp > float` reads `.sec` of a float -/
theorem witness_attributeError_timestamp : errOf (parseDoc "a 1 1.5\na 1 2e0\n# EOF\n") = some .attributeError := by decide

/-- the reflected comparison `float > Timestamp` ends in `Timestamp.__lt__`, same class -/
theorem witness_attributeError_timestamp_reflected : errOf (parseDoc "a 1 2e0\na 1 1.5\n# EOF\n") = some .attributeError := by decide

/-- new: `None.is_integer()` on a native-histogram sample named `<family>_gcount` -/
theorem witness_attributeError_is_integer :
    errOf (parseDoc "# TYPE a histogram\na_gcount {count:1,sum:1,schema:1,zero_threshold:1,zero_count:1}\n# EOF\n") = some .attributeError := by
  decide

/-- new: `None.get('le')` on a label-less native-histogram sample named `<family>_bucket` through the quoted-name syntax -/
theorem witness_attributeError_labels_get :
    errOf (parseDoc "# TYPE a histogram\n{\"a_bucket\"} {count:1,sum:1,schema:1,zero_threshold:1,zero_count:1}\n# EOF\n") = some .attributeError := by
  decide

/-- F8 (repaired in /repo, commit e804336, and in the shared `ParseCore.unquoteUnescape`): a metadata name token made
of whitespace other than the space used to raise IndexError (`text[0]` after `strip()`); now ValueError -/
theorem f8_repaired_metadata : errOf (parseDoc "# HELP \t x\n# EOF\n") = some .valueError := by decide

/-- the second site of F8 found here — a sample whose quoted name is blank (`{" "} 1`) — goes through the same
function and is repaired by the same change -/
theorem f8_repaired_sample_name : errOf (parseDoc "{\" \"} 1\n# EOF\n") = some .valueError := by decide

/-- `_unquote_unescape` is total since the repair -/
theorem unquote_unescape_total (t : Str) : ∀ e, unquoteUnescape t = .error e → e = .valueError := unquoteUnescape_safe' t

/-- new: `math.isnan(<int too large for a float>)` (the toy instance puts the limit at 10^6, CPython near 2^1024) -/
theorem witness_overflowError : errOf (parseDoc "# TYPE a counter\na_total 1000000\n# EOF\n") = some .overflowError := by decide

/-- and the accepted shapes next to them -/
example : isOkDoc "# TYPE a histogram\na {count:1,sum:1,schema:1,zero_threshold:1,zero_count:1}\n# EOF\n" = true := by decide
example : isOkDoc "a 1 1.5\na 1 2.5\n# EOF\n" = true := by decide
example : isOkDoc "# TYPE a counter\na_total 999999\n# EOF\n" = true := by decide

/-! ## the whole parser -/

/-- the detector takes the line for a native histogram (`_parse_nh_sample` goes on to `_parse_nh_struct`) -/
def nhShaped (line : Str) : Bool :=
  match nhDetect line with
  | .ok (some _) => true
  | _ => false

/-- the line, read as a plain sample, has no integer value beyond the range of `float` and a timestamp of the form
`stamps` says (`true`: `Timestamp`, i.e. int or `sec.frac`; `false`: float spelling) — or none, or does not parse -/
def sampleFine (P : Params) (stamps : Bool) (line : Str) : Bool :=
  match parseSample P line with
  | .error _ => true
  | .ok s =>
    (match s.value with
     | some (.int n) => !P.intTooBig n
     | _ => true) &&
    (match s.ts with
     | none => true
     | some (.stamp _ _) => stamps
     | some (.flt _) => !stamps)

/-- a document outside the confirmed finding classes: no native-histogram-shaped line (F9 KeyError / TypeError and
the three `None` attribute sites), sample timestamps of one form (F9 AttributeError in `Timestamp.__gt__/__lt__`),
no integer value too large for a float (OverflowError in `math.isnan`) -/
def OutsideFindings (P : Params) (stamps : Bool) (text : Str) : Bool :=
  (docLines text).all (fun line => !nhShaped line && sampleFine P stamps line)

/-
Full statement (false on the unchanged tree, see the witnesses):
  ∀ P text, omParse P text = .ok _ ∨ omParse P text = .error .valueError
-/
/-- **the OpenMetrics parser is total outside the finding classes**: for every input string and every choice of the
number parameters and regex classes, the model returns families or ValueError — no other class, no `timeout`
(the label loop, the scanners and the fold terminate within their fuel).  `_partial`: the hypothesis
`OutsideFindings` excludes exactly the classes the witness theorems exhibit; nothing else is assumed. -/
theorem om_parser_total_partial (P : Params) (stamps : Bool) (text : Str) (h : OutsideFindings P stamps text = true) :
    ∀ e, omParse P text = .error e → e = .valueError := by
  unfold OutsideFindings at h
  rw [List.all_eq_true] at h
  apply omParse_safe P stamps text
  · intro line hl p hp
    have := (h line hl)
    simp only [Bool.and_eq_true, Bool.not_eq_true', nhShaped, hp] at this
    exact absurd this.1 (by simp)
  · intro line hl s hs
    have := (h line hl)
    simp only [Bool.and_eq_true, sampleFine, hs] at this
    obtain ⟨_, h1, h2⟩ := this
    constructor
    · intro n hn
      rw [hn] at h1
      simpa using h1
    · cases hts : s.ts with
      | none => trivial
      | some t =>
        rw [hts] at h2
        cases t with
        | stamp a b => exact h2
        | flt b => simpa [TsClass] using h2

/-- the hypothesis is satisfiable by documents of every kind (and fails on the witnesses) -/
example : OutsideFindings toyP true cs!"# TYPE a histogram\na_bucket{le=\"1\"} 1 5\na_bucket{le=\"+Inf\"} 2 5\n# TYPE b counter\nb_total 3 # {t=\"x\"} 1 7\n# EOF\n" = true := by decide
example : OutsideFindings toyP false cs!"a 1 2e0\na 2 3e0\n# EOF\n" = true := by decide
example : OutsideFindings toyP true cs!"a 1 1.5\na 1 2e0\n# EOF\n" = false := by decide
example : OutsideFindings toyP false cs!"a 1 1.5\na 1 2e0\n# EOF\n" = false := by decide
example : OutsideFindings toyP true cs!"# TYPE a histogram\na {foo:1}\n# EOF\n" = false := by decide
example : OutsideFindings toyP true cs!"# TYPE a counter\na_total 1000000\n# EOF\n" = false := by decide

end PromVerif.Props.C14OM
