/-
C14 (OpenMetrics half) — the OpenMetrics parser is total: any input ends in families or ValueError.

Statement of the property for the model: for every input string and every choice of the number parameters
(`int()`, `float()`, comparisons, `math.isnan`, `Timestamp.__float__`, the regex classes), `omParse` returns `.ok` or
`.error .valueError` — never another class, never `timeout` (= the loops terminate).

History: on the snapshot this was false in seven ways (KeyError, TypeError, AttributeError ×3 sites, IndexError ×2
sites, OverflowError); all were repaired in /repo (e804336, 979e8ea, 74e3eee, 6c551bc, 007bfee, afb5815).  The model
follows the repaired code and branches on each guard as extracted from the source, so a removed guard breaks
`om_parser_total_partial` (and the `regress_*` theorems).  Two classes remain at HEAD 6c551bc (`witness_*`): TypeError
in `_check_histogram` on a native-histogram sample named `…_gsum`, OverflowError in `Timestamp.__float__`.

What is proved, for every input and every parameter choice:
* `parse_timestamp_total`, `parse_remaining_text_total`, `parse_sample_total`, `parse_labels_om_total`
  (incl. termination of the label loop), `nh_detector_total`, `unquote_unescape_total`: only ValueError escapes from
  the per-line functions; the `parts[1]` IndexError of `_parse_timestamp` is unreachable;
* `group_for_sample_guarded`: the three `del d[...]` KeyError sites are guarded by the label checks of the main loop;
* `om_parser_total_partial`: the whole parser (tokenisation of every line incl. `_parse_nh_sample` / `_parse_nh_struct`,
  the line/family fold, `build_metric`, `_check_histogram`) under `OutsideFindings`, which excludes exactly the two
  remaining classes.
-/
import PromVerif.Lemmas.OMTotal
import PromVerif.Lemmas.OMFold4
import PromVerif.Lemmas.OMToy

namespace PromVerif.Props.C14OM
open PromVerif.Py PromVerif.Model.ParseCore PromVerif.Model.OMParse PromVerif.Generated.OMParse
open PromVerif.Lemmas.OM PromVerif.Lemmas.OMToy

/-- the extractor found every site of the OpenMetrics parser in the shape it understands -/
theorem extract_ok : extractOk = true := by decide

def inRanges (rs : List (Nat × Nat)) (c : Char) : Bool := rs.any (fun r => r.1 ≤ c.toNat && c.toNat ≤ r.2)

set_option maxRecDepth 100000 in
/-- the hand-written matchers of `_parse_nh_struct` are exact for the interpreter's classes: `:` is not a `\w`
character, none of `: , ] -` is a `\d` character, and no `\d` character is whitespace -/
theorem regex_classes_exact :
    inRanges reWordRanges ':' = false ∧
    (inRanges reDigitRanges ':' = false ∧ inRanges reDigitRanges ',' = false ∧ inRanges reDigitRanges ']' = false ∧
      inRanges reDigitRanges '-' = false) ∧
    (reDigitRanges.all (fun r => reSpaceRanges.all (fun s => decide (r.2 < s.1 ∨ s.2 < r.1)))) = true := by
  decide

/-! ## the per-line functions are total -/

/-- `_parse_timestamp`: only ValueError, for every text and every `int()` / `float()` -/
theorem parse_timestamp_total (P : Params) (ts : Str) : ∀ e, parseTimestamp P ts = .error e → e = .valueError :=
  parseTimestamp_safe P ts

/-- `parse_labels(s, True)`: only ValueError and the `while sub_labels:` loop terminates (no `timeout`) -/
theorem parse_labels_om_total (legacy : Bool) (s : Str) : ∀ e, parseLabels legacy s true = .error e → e = .valueError :=
  parseLabels_om_safe legacy s

/-- `_parse_remaining_text` (value, timestamp, exemplar state machine): only ValueError -/
theorem parse_remaining_text_total (P : Params) (text : Str) : ∀ e, parseRemainingText P text = .error e → e = .valueError :=
  parseRemainingText_safe P text

/-- `_parse_sample`: only ValueError -/
theorem parse_sample_total (P : Params) (text : Str) : ∀ e, parseSample P text = .error e → e = .valueError :=
  parseSample_safe P text

/-- the native-histogram detector: `None`, a position, or ValueError -/
theorem nh_detector_total (text : Str) : ∀ e, nhDetect text = .error e → e = .valueError :=
  nhDetect_safe text

/-- the `del d['quantile']` / `del d[name]` / `del d['le']` sites of `_group_for_sample` cannot raise once the label
checks of the main loop have passed on a sample that has labels -/
theorem group_for_sample_guarded (P : Params) (n : Str) (typ : Option Str) (s : OSample) (l : Labels)
    (hl : s.labels = some l) (hpre : preChecks P n typ s = .ok ()) : ∃ g, groupForSample s n (typ.getD []) = .ok g :=
  groupForSample_guarded P n typ s l hl hpre

example : (parseTimestamp toyP cs!"1.5").toOption = some (some (.stamp 1 500000000)) := by decide
example : (parseTimestamp toyP cs!"-1.5").toOption = some (some (.stamp (-1) (-500000000))) := by decide
example : (parseTimestamp toyP cs!"2e0").toOption = some (some (.flt 5)) := by decide
example : errOf (parseTimestamp toyP cs!"1.x") = some .valueError := by decide

/-! ## regressions: the classes found on the unrepaired parser are gone (kernel-evaluated on the model, which
branches on the guards extracted from the source — removing a guard flips its flag in `Generated/OMParse.lean`) -/

/-- 979e8ea: a native-histogram value without a required field is a ValueError (was KeyError) -/
theorem regress_nh_missing_field : errOf (parseDoc "# TYPE a histogram\na {foo:1}\n# EOF\n") = some .valueError := by decide

/-- 74e3eee: a native-histogram sample named `<family>_total` is accepted (was TypeError in `math.isnan(None)`) -/
theorem regress_nh_total :
    isOkDoc "# TYPE a histogram\na_total {count:1,sum:1,schema:1,zero_threshold:1,zero_count:1}\n# EOF\n" = true := by decide

/-- 74e3eee: … and one named `<family>_gcount` (was AttributeError `None.is_integer`) -/
theorem regress_nh_gcount :
    isOkDoc "# TYPE a histogram\na_gcount {count:1,sum:1,schema:1,zero_threshold:1,zero_count:1}\n# EOF\n" = true := by decide

/-- 6c551bc: the suffix rule applies to a name given inside the braces (was AttributeError `None.get`) -/
theorem regress_nh_quoted_bucket :
    errOf (parseDoc "# TYPE a histogram\n{\"a_bucket\"} {count:1,sum:1,schema:1,zero_threshold:1,zero_count:1}\n# EOF\n") = some .valueError := by
  decide

/-- 007bfee: a group mixing a `Timestamp` and a float timestamp is compared (was AttributeError) … -/
theorem regress_mixed_timestamps : isOkDoc "a 1 1.5\na 1 2e0\n# EOF\n" = true := by decide

/-- … in both orders, and going backwards is the ordinary ValueError -/
theorem regress_mixed_timestamps_backwards : errOf (parseDoc "a 1 2e0\na 1 1.5\n# EOF\n") = some .valueError := by decide

/-- afb5815: an integer value too large for a float is accepted (was OverflowError; the toy limit is 10^6) -/
theorem regress_huge_int : isOkDoc "# TYPE a counter\na_total 1000000\n# EOF\n" = true := by decide

/-- e804336 (F8): a metadata name token made of whitespace other than the space is a ValueError (was IndexError) -/
theorem f8_repaired_metadata : errOf (parseDoc "# HELP \t x\n# EOF\n") = some .valueError := by decide

/-- … and so is a sample whose quoted name is blank -/
theorem f8_repaired_sample_name : errOf (parseDoc "{\" \"} 1\n# EOF\n") = some .valueError := by decide

/-- `_unquote_unescape` is total since the repair -/
theorem unquote_unescape_total (t : Str) : ∀ e, unquoteUnescape t = .error e → e = .valueError := unquoteUnescape_safe' t

/-! ## the two classes that still escape (HEAD 6c551bc) -/

/-- `_check_histogram` reads `s.value < 0` of a native-histogram sample whose name continues the family name with
`_gsum` (the samples 74e3eee lets into the list): TypeError -/
theorem witness_typeError_check_histogram :
    errOf (parseDoc "# TYPE a histogram\na_gsum {count:1,sum:1,schema:1,zero_threshold:1,zero_count:1}\n# EOF\n") = some .typeError := by
  decide

/-- `Timestamp.__float__` of a huge `sec` in the comparison 007bfee introduced: OverflowError (toy limit 10^6) -/
theorem witness_overflowError_timestamp : errOf (parseDoc "a 1 1000000\na 1 2e0\n# EOF\n") = some .overflowError := by decide

/-! ## the whole parser -/

/-- the line, read as a native histogram, gives a sample whose name ends in `_gsum` -/
def nhGsum (P : Params) (line : Str) : Bool :=
  match parseNhLine P line with
  | .ok (some s) => endsWith sGsum s.name
  | _ => false

/-- the line, read as a plain sample, has no `Timestamp` that fails to convert to float -/
def tsConverts (P : Params) (line : Str) : Bool :=
  match parseSample P line with
  | .error _ => true
  | .ok s =>
    match s.ts with
    | some (.stamp a b) => (P.tsFloat a b).isSome
    | _ => true

/-- a document outside the two remaining finding classes -/
def OutsideFindings (P : Params) (text : Str) : Bool :=
  (docLines text).all (fun line => !nhGsum P line && tsConverts P line)

/-
Full statement (false at HEAD 6c551bc, see the two witnesses):
  ∀ P text, NaNLiteral P → DigitsNotSpace P → omParse P text = .ok _ ∨ omParse P text = .error .valueError
-/
/-- **the OpenMetrics parser is total**: for every input string and every choice of the number parameters and regex
classes (with the two interpreter facts `float("NaN")` is a NaN and no `\d` character is whitespace), the model
returns families or ValueError — no other class, no `timeout`.  Native-histogram-shaped lines, mixed timestamp forms
and huge integer values are covered (they were hypotheses before the repairs).  `_partial`: `OutsideFindings` excludes
exactly the two classes of the witnesses above; nothing else is assumed. -/
theorem om_parser_total_partial (P : Params) (hnan : NaNLiteral P) (hd : DigitsNotSpace P) (text : Str)
    (h : OutsideFindings P text = true) : ∀ e, omParse P text = .error e → e = .valueError := by
  unfold OutsideFindings at h
  rw [List.all_eq_true] at h
  apply omParse_safe P hnan hd text
  · intro line hl s hs
    have := (h line hl)
    simp only [Bool.and_eq_true, Bool.not_eq_true', nhGsum, hs] at this
    exact this.1
  · intro line hl s hs a b hts
    have := (h line hl)
    simp only [Bool.and_eq_true, tsConverts, hs, hts] at this
    exact this.2

/-- the interpreter facts hold for the toy instance; the hypothesis is satisfiable and fails on the witnesses -/
example : NaNLiteral toyP := by
  intro f h
  have : toyP.pyFloat sNaN = some 0 := by decide
  rw [this] at h; cases h; decide

example : DigitsNotSpace toyP := by
  intro c h
  have h' : c.isDigit = true := h
  simp only [Char.isDigit, Bool.and_eq_true, decide_eq_true_eq] at h'
  obtain ⟨h1, h2⟩ := h'
  have e1 : c.val.toNat = c.toNat := rfl
  have a1 : 48 ≤ c.toNat := by have := UInt32.le_iff_toNat_le.mp h1; simpa [e1] using this
  have a2 : c.toNat ≤ 57 := by have := UInt32.le_iff_toNat_le.mp h2; simpa [e1] using this
  simp only [isPySpace]
  simp
  omega

example : OutsideFindings toyP cs!"# TYPE a histogram\na_bucket{le=\"1\"} 1 5\na_bucket{le=\"+Inf\"} 2 5\na {count:1,sum:1,schema:1,zero_threshold:1,zero_count:1}\n# TYPE b counter\nb_total 3 # {t=\"x\"} 1 7\n# EOF\n" = true := by decide
example : OutsideFindings toyP cs!"a 1 1.5\na 1 2e0\n# EOF\n" = true := by decide
example : OutsideFindings toyP cs!"# TYPE a histogram\na_gsum {count:1,sum:1,schema:1,zero_threshold:1,zero_count:1}\n# EOF\n" = false := by decide
example : OutsideFindings toyP cs!"a 1 1000000\na 1 2e0\n# EOF\n" = false := by decide

end PromVerif.Props.C14OM
