/-
C09 — a change of process identity never loses or double-counts updates (work in progress).
-/
import PromVerif.Model.Values
import PromVerif.Spec.Multiprocess

namespace PromVerif.Props.C09
open PromVerif.Generated.Multiprocess

theorem extract_ok : extractOk = true := by decide

end PromVerif.Props.C09
