/-
C09 — a change of process identity (fork) never loses or double-counts updates.

Model M: `Model/Values.lean`, the closure state of `values.MultiProcessValue` (`pid`, `files`, `values`) plus the
directory; ops `construct | inc | set | get | setPid`, every op except `setPid` starting with
`__check_for_pid_change` exactly as the code (shape checked by the extractor, `extract_ok`).
All theorems are about histories of ANY length with ANY number of identity changes at ANY positions, including a
return to an identity seen before.  Values are an abstract type; the algebraic laws conservation needs are hypotheses
and `Int` satisfies them (examples).

Genuine restriction (probed on the real code — candidate finding): `conservation` and `per_pid_gauge` assume that no two
LIVE value objects share one (file prefix, key) (`huniq`).  Two live objects on one key (two metrics of the same name in
different registries, or a child kept after `remove()` while `labels()` re-created it) each keep their own cached float
and overwrite each other's writes: `two_objects_lose_updates` shows M doing exactly that (3 increments, cell = 2), as the
real code does.  `writes_only_own_files` and `rebinding_reads_current` need no such assumption.
-/
import PromVerif.Lemmas.MultiprocessHistory

namespace PromVerif.Props.C09
open PromVerif.Py PromVerif.Generated.Multiprocess
open PromVerif.Model.Multiprocess PromVerif.Model.Values PromVerif.Spec.Multiprocess
set_option autoImplicit false

/-- the extractor found `__init__`/`inc`/`set`/`get` calling `__check_for_pid_change` first under the lock, the check
    resetting EVERY value, `__reset` re-reading value and timestamp, and the file-name pattern -/
theorem extract_ok : extractOk = true := by decide

variable {V : Type}

/-- **writes_only_own_files.**  In any state reachable by any history, one more call under identity `p` leaves every
    file that is not named `<prefix>_<p>.db` exactly as it was (content and existence); `setPid` touches nothing.
    In particular the previous identity's files are never written by the new process. -/
theorem writes_only_own_files (vo : VOps V) (pid0 : Str) (ops : List (Op V)) (op : Op V) (fn : Str)
    (hne : ∀ pre, fn ≠ fileName pre (step vo (run vo (St.init pid0) ops) op).1.pid) :
    AL.get? (step vo (run vo (St.init pid0) ops) op).1.disk fn = AL.get? (run vo (St.init pid0) ops).disk fn :=
  step_files vo _ op (run_bound vo ops _ (bound_init pid0)) fn hne

/-- the identity a non-`setPid` call runs under is the current one, and it becomes the remembered one -/
theorem runs_under_current (vo : VOps V) (pid0 : Str) (ops : List (Op V)) (op : Op V) (h : ∀ p, op ≠ .setPid p) :
    (step vo (run vo (St.init pid0) ops) op).1.pid = (run vo (St.init pid0) ops).actual := by
  have := (step_pid vo (run vo (St.init pid0) ops) op (run_bound vo ops _ (bound_init pid0))).2
  cases op with
  | setPid p => exact absurd rfl (h p)
  | _ => exact this

/-- **rebinding_reads_current.**  After an identity change, the check that opens the next call re-binds EVERY live
    value to the new identity's file of its prefix, its entry exists there, its cached pair is what that file holds,
    and that is what the file held before (zero if the entry did not exist): updates continue from there. -/
theorem rebinding_reads_current (vo : VOps V) (pid0 : Str) (ops : List (Op V))
    (hchg : (run vo (St.init pid0) ops).pid ≠ (run vo (St.init pid0) ops).actual) :
    let st := run vo (St.init pid0) ops
    let st1 := checkPid vo st
    st1.pid = st.actual ∧
    ∀ v ∈ st1.values,
      v.file = fileName (filePrefix v.params) st.actual ∧
      (cellGet st1.disk v.file v.key).isSome = true ∧
      cellVal vo st1.disk v.file v.key = (v.value, v.ts) ∧
      cellVal vo st1.disk v.file v.key = cellVal vo st.disk v.file v.key := by
  intro st st1
  have hb := run_bound vo ops _ (bound_init (V := V) pid0)
  have hc := checkPid_post vo st hb
  refine ⟨hc.pid, ?_⟩
  intro v hv
  have := hc.bound.bound v hv
  exact ⟨by rw [this.2, hc.pid], hc.bound.exist v hv, hc.cached (Or.inl hchg) v hv, hc.cellval _ _⟩

/-- … and after the whole call (any op) every cache is still what its file holds, provided live objects have
    pairwise different (prefix, key) -/
theorem caches_coherent_partial (vo : VOps V) (pid0 : Str) (ops : List (Op V))
    (huniq : ((run vo (St.init pid0) ops).values.map (fun v => idOf v.params)).Nodup) :
    ∀ v ∈ (run vo (St.init pid0) ops).values,
      cellVal vo (run vo (St.init pid0) ops).disk v.file v.key = (v.value, v.ts) :=
  (run_inv vo ops _ (inv_init vo pid0) huniq).cached

/-- **per_pid_gauge** (and every other series; `_partial`: missing is the case of two live value objects on one
    (prefix, key), where the real code loses updates — `two_objects_lose_updates`; excluded by `huniq`): after any history, the entry of series `(pre, k)` in identity `p`'s
    file is the fold of the updates issued UNDER `p` alone — increments add, a set replaces — starting from zero;
    updates issued under other identities never reach it. -/
theorem per_pid_gauge_partial (vo : VOps V) (pid0 : Str) (ops : List (Op V)) (pre : Str) (k : Key) (p : Str)
    (hp : '_' ∉ p) (hids : IdsOK pid0 ops)
    (huniq : ((run vo (St.init pid0) ops).values.map (fun v => idOf v.params)).Nodup) :
    cellVal vo (run vo (St.init pid0) ops).disk (fileName pre p) k = ownCell vo p (updLog vo pre k pid0 [] ops) := by
  have := run_cell vo pre k p hp ops (St.init pid0) (inv_init vo pid0) huniq hids
  rw [this, ownCell_eq]
  rfl

/-- identity `p`'s file holds `p`'s last set when that is the last thing `p` did to the series -/
theorem own_last_set (vo : VOps V) (p : Str) (us : List (Upd V)) (v t : V) :
    ownCell vo p (us ++ [Upd.set p v t]) = (v, t) := by
  rw [ownCell_eq, List.foldl_append]
  simp [ownStep]

theorem aggSum_zeros (vo : VOps V) (hzero : ∀ a, vo.add vo.zero a = a) (l : List Str) :
    aggSum vo (l.map (fun _ => vo.zero)) = vo.zero := by
  unfold aggSum
  induction l with
  | nil => rfl
  | cons x r ih => simp only [List.map_cons, List.foldl_cons, hzero]; exact ih

/-- conservation without assuming `zero` neutral: the sum over all identities' files is the left fold of the
    increments starting from the sum of as many zeros as there are identities -/
theorem conservation_general_partial (vo : VOps V) (hcomm : ∀ a b, vo.add a b = vo.add b a)
    (hassoc : ∀ a b c, vo.add (vo.add a b) c = vo.add a (vo.add b c))
    (pid0 : Str) (ops : List (Op V)) (pre : Str) (k : Key) (pids : List Str) (hnd : pids.Nodup)
    (hpids : ∀ p ∈ pids, '_' ∉ p) (hids : IdsOK pid0 ops)
    (huniq : ((run vo (St.init pid0) ops).values.map (fun v => idOf v.params)).Nodup)
    (hinc : ∀ u ∈ updLog vo pre k pid0 [] ops, ∃ q a, u = Upd.inc q a ∧ q ∈ pids) :
    aggSum vo (pids.map (fun p => (cellVal vo (run vo (St.init pid0) ops).disk (fileName pre p) k).1))
      = (updLog vo pre k pid0 [] ops).foldl
          (fun acc u => match u with | .inc _ a => vo.add acc a | .set _ _ _ => acc)
          (aggSum vo (pids.map (fun _ => vo.zero))) := by
  have hcell : pids.map (fun p => (cellVal vo (run vo (St.init pid0) ops).disk (fileName pre p) k).1)
      = pids.map (fun p => ((updLog vo pre k pid0 [] ops).foldl (ownStep vo p) (vo.zero, vo.zero)).1) := by
    apply List.map_congr_left
    intro p hp
    rw [per_pid_gauge_partial vo pid0 ops pre k p (hpids p hp) hids huniq, ownCell_eq]
  rw [hcell]
  exact sum_ownCells vo hcomm hassoc pids hnd _ hinc (fun _ => (vo.zero, vo.zero))

/-- **conservation** (`_partial` for the same reason as `per_pid_gauge_partial`: `huniq`).  For any history from a fresh directory — any number of identity changes at any positions,
    returning to earlier identities included — the sum over ALL identities' files of the entry of series `(pre, k)`
    equals the sum of all increments ever issued to it, in a commutative monoid, provided the series is only
    incremented (`hinc`; a `set`, e.g. `Counter.reset()`, deliberately overwrites).  `pids` is any duplicate-free list
    containing every identity used; files of other identities do not exist (their entries read as zero). -/
theorem conservation_partial (vo : VOps V) (hcomm : ∀ a b, vo.add a b = vo.add b a)
    (hassoc : ∀ a b c, vo.add (vo.add a b) c = vo.add a (vo.add b c)) (hzero : ∀ a, vo.add vo.zero a = a)
    (pid0 : Str) (ops : List (Op V)) (pre : Str) (k : Key) (pids : List Str) (hnd : pids.Nodup)
    (hpids : ∀ p ∈ pids, '_' ∉ p) (hids : IdsOK pid0 ops)
    (huniq : ((run vo (St.init pid0) ops).values.map (fun v => idOf v.params)).Nodup)
    (hinc : ∀ u ∈ updLog vo pre k pid0 [] ops, ∃ q a, u = Upd.inc q a ∧ q ∈ pids) :
    aggSum vo (pids.map (fun p => (cellVal vo (run vo (St.init pid0) ops).disk (fileName pre p) k).1))
      = incTotal vo (updLog vo pre k pid0 [] ops) := by
  rw [conservation_general_partial vo hcomm hassoc pid0 ops pre k pids hnd hpids hids huniq hinc, aggSum_zeros vo hzero]
  rfl

/-! ### non-vacuity and the counter-example behind `huniq` -/

/-- `Int` as value type: a commutative monoid with a strict order -/
def intOps : VOps Int := ⟨0, (· + ·), (fun a b => decide (a < b)), (fun a b => decide (a ≤ b)), (fun x => x != 0)⟩

def pCounter : Params := ⟨"counter".toList, "c".toList, "c_total".toList, [], [], "help".toList, []⟩
def pGauge : Params := ⟨"gauge".toList, "g".toList, "g".toList, ["l".toList], ["x".toList], "help".toList, "all".toList⟩

/-- a history with three identity changes, returning to the first identity, two metric types -/
def demoOps : List (Op Int) :=
  [.construct pCounter, .inc 0 2, .setPid "2".toList, .construct pGauge, .inc 0 3, .set 1 7 none,
   .setPid "1".toList, .inc 0 4, .set 1 5 (some 9), .setPid "2".toList, .inc 0 1]

/-- executable form of hypothesis `hinc` -/
def incsWithin (pids : List Str) : List (Upd Int) → Bool
  | [] => true
  | .inc q _ :: r => pids.contains q && incsWithin pids r
  | .set _ _ _ :: _ => false

theorem incsWithin_sound (pids : List Str) (us : List (Upd Int)) (h : incsWithin pids us = true) :
    ∀ u ∈ us, ∃ q a, u = Upd.inc q a ∧ q ∈ pids := by
  induction us with
  | nil => intro u hu; cases hu
  | cons x r ih =>
    cases x with
    | set q v t => simp [incsWithin] at h
    | inc q a =>
      simp only [incsWithin, Bool.and_eq_true, List.contains_iff_mem] at h
      intro u hu
      rcases List.mem_cons.mp hu with e | e
      · exact ⟨q, a, e, h.1⟩
      · exact ih h.2 u e

theorem demo_ids : IdsOK (V := Int) "1".toList demoOps := by
  refine ⟨by decide, ?_⟩
  intro p hp
  simp only [demoOps, List.mem_cons, List.not_mem_nil, or_false, reduceCtorEq, false_or, Op.setPid.injEq] at hp
  rcases hp with h | h | h <;> subst h <;> decide

theorem demo_uniq : ((run intOps (St.init "1".toList) demoOps).values.map (fun v => idOf v.params)).Nodup := by
  decide

/-- the hypotheses of `conservation` are satisfiable by a history with identity changes, and its conclusion computes:
    2 + 3 + 4 + 1 = 10 spread over `counter_1.db` (6) and `counter_2.db` (4) -/
example : aggSum intOps (["1".toList, "2".toList].map (fun p =>
      (cellVal intOps (run intOps (St.init "1".toList) demoOps).disk (fileName "counter".toList p) (mmapKey pCounter)).1))
    = incTotal intOps (updLog intOps "counter".toList (mmapKey pCounter) "1".toList [] demoOps) :=
  conservation_partial intOps Int.add_comm Int.add_assoc Int.zero_add "1".toList demoOps "counter".toList (mmapKey pCounter)
    ["1".toList, "2".toList] (by decide) (by decide) demo_ids demo_uniq (incsWithin_sound _ _ (by decide))

example : incTotal intOps (updLog intOps "counter".toList (mmapKey pCounter) "1".toList [] demoOps) = 10 := by decide

/-- per-pid gauge on the same history: identity 1's file holds its own last set (5 at time 9), identity 2's holds 7 -/
example : cellVal intOps (run intOps (St.init "1".toList) demoOps).disk (fileName "gauge_all".toList "1".toList) (mmapKey pGauge)
    = (5, 9) := by decide
example : cellVal intOps (run intOps (St.init "1".toList) demoOps).disk (fileName "gauge_all".toList "2".toList) (mmapKey pGauge)
    = (7, 0) := by decide

/-- a state in which `rebinding_reads_current` applies (identity changed, next call pending) -/
example : (run intOps (St.init "1".toList) (demoOps.take 7)).pid ≠ (run intOps (St.init "1".toList) (demoOps.take 7)).actual := by
  decide

/-- **the counter-example behind `huniq`** (M exhibits the candidate finding): two live value objects on one key, three
    increments issued, the file holds 2 -/
theorem two_objects_lose_updates :
    cellVal intOps (run intOps (St.init "1".toList)
        [.construct pCounter, .construct pCounter, .inc 0 1, .inc 1 1, .inc 0 1]).disk
      (fileName "counter".toList "1".toList) (mmapKey pCounter) = (2, 0) := by decide

end PromVerif.Props.C09
