/-
C09 — a change of process identity (fork) never loses or double-counts updates.

Model M: `Model/Values.lean`, the closure state of `values.MultiProcessValue` (`pid`, `files`, `values`) plus the
directory; ops `construct | inc | set | get | setPid`, every op except `setPid` starting with
`__check_for_pid_change` exactly as the code (shape checked by the extractor, `extract_ok`).
All theorems are about histories of ANY length with ANY number of identity changes at ANY positions, including a
return to an identity seen before.  Values are an abstract type; the algebraic laws conservation needs are hypotheses
and `Int` satisfies them (examples).

Genuine restriction (probed on the real code): `conservation` and `per_pid_gauge` assume that every UPDATE goes through
the YOUNGEST value object on its (file prefix, key) (`OpsOK` / `WUniq`): an older object on the same key must not be
updated once a younger one exists.  Stale objects themselves are harmless — after `remove()`/`clear()` and `labels()`
again the dropped child stays in the closure's `values` list and is re-bound on every identity change, but it only
re-reads, it never writes — so histories with remove/clear + re-creation satisfy the hypothesis.  What is excluded is
USING both: two metrics of one name in different registries, or a child handle kept and updated after `remove()` while
`labels()` re-created it; each keeps its own cached float and they overwrite each other: `two_objects_lose_updates`
shows M doing exactly that (3 increments, cell = 2), as the real code does.  `writes_only_own_files` and
`rebinding_reads_current` need no such assumption.
-/
import PromVerif.Lemmas.MultiprocessPresence
import PromVerif.Lemmas.MultiprocessFresh

namespace PromVerif.Props.C09
open PromVerif.Py PromVerif.Generated.Multiprocess
open PromVerif.Model.Multiprocess PromVerif.Model.Values PromVerif.Spec.Multiprocess
set_option autoImplicit false

/-- the extractor found `__init__`/`inc`/`set`/`get` calling `__check_for_pid_change` first under the lock, the check
    resetting EVERY value, `__reset` re-reading value and timestamp, and the file-name pattern -/
theorem extract_ok : extractOk = true := by decide

variable {V : Type}

/-- **writes_only_own_files.**  In any state reachable by any history, one more call under identity `p` leaves every
    file that is not named `<prefix>_<p>.db` exactly as it was (content and existence); `setPid` touches nothing.
    In particular the previous identity's files are never written by the new process. -/
theorem writes_only_own_files (vo : VOps V) (pid0 : Str) (ops : List (Op V)) (op : Op V) (fn : Str)
    (hne : ∀ pre, fn ≠ fileName pre (step vo (run vo (St.init pid0) ops) op).1.pid) :
    AL.get? (step vo (run vo (St.init pid0) ops) op).1.disk fn = AL.get? (run vo (St.init pid0) ops).disk fn :=
  step_files vo _ op (run_bound vo ops _ (bound_init pid0)) fn hne

/-- the identity a non-`setPid` call runs under is the current one, and it becomes the remembered one -/
theorem runs_under_current (vo : VOps V) (pid0 : Str) (ops : List (Op V)) (op : Op V) (h : ∀ p, op ≠ .setPid p) :
    (step vo (run vo (St.init pid0) ops) op).1.pid = (run vo (St.init pid0) ops).actual := by
  have := (step_pid vo (run vo (St.init pid0) ops) op (run_bound vo ops _ (bound_init pid0))).2
  cases op with
  | setPid p => exact absurd rfl (h p)
  | _ => exact this

/-- **rebinding_reads_current.**  After an identity change, the check that opens the next call re-binds EVERY live
    value to the new identity's file of its prefix, its entry exists there, its cached pair is what that file holds,
    and that is what the file held before (zero if the entry did not exist): updates continue from there. -/
theorem rebinding_reads_current (vo : VOps V) (pid0 : Str) (ops : List (Op V))
    (hchg : (run vo (St.init pid0) ops).pid ≠ (run vo (St.init pid0) ops).actual) :
    let st := run vo (St.init pid0) ops
    let st1 := checkPid vo st
    st1.pid = st.actual ∧
    ∀ v ∈ st1.values,
      v.file = fileName (filePrefix v.params) st.actual ∧
      (cellGet st1.disk v.file v.key).isSome = true ∧
      cellVal vo st1.disk v.file v.key = (v.value, v.ts) ∧
      cellVal vo st1.disk v.file v.key = cellVal vo st.disk v.file v.key := by
  intro st st1
  have hb := run_bound vo ops _ (bound_init (V := V) pid0)
  have hc := checkPid_post vo st hb
  refine ⟨hc.pid, ?_⟩
  intro v hv
  have := hc.bound.bound v hv
  exact ⟨by rw [this.2, hc.pid], hc.bound.exist v hv, hc.cached (Or.inl hchg) v hv, hc.cellval _ _⟩

/-- … and after the whole call (any op) every cache is still what its file holds, for the youngest value object on
    each (prefix, key), provided updates only go through the youngest (`OpsOK`) -/
theorem caches_coherent_partial (vo : VOps V) (pid0 : Str) (ops : List (Op V))
    (hok : OpsOK [] ops) :
    ∀ i v, (run vo (St.init pid0) ops).values[i]? = some v → IsLast (idsOf (run vo (St.init pid0) ops)) i →
      cellVal vo (run vo (St.init pid0) ops).disk v.file v.key = (v.value, v.ts) :=
  (run_inv vo ops _ (inv_init vo pid0) hok).cached

/-- **per_pid_gauge** (and every other series; `_partial`: missing is the case of an UPDATE through a value object that is not the
    youngest on its (prefix, key), where the real code loses updates — `two_objects_lose_updates`; excluded by `hok`): after any history, the entry of series `(pre, k)` in identity `p`'s
    file is the fold of the updates issued UNDER `p` alone — increments add, a set replaces — starting from zero;
    updates issued under other identities never reach it. -/
theorem per_pid_gauge_partial (vo : VOps V) (pid0 : Str) (ops : List (Op V)) (pre : Str) (k : Key) (p : Str)
    (hp : '_' ∉ p) (hids : IdsOK pid0 ops)
    (hok : OpsOK [] ops) :
    cellVal vo (run vo (St.init pid0) ops).disk (fileName pre p) k = ownCell vo p (updLog vo pre k pid0 [] ops) := by
  have := run_cell vo pre k p hp ops (St.init pid0) (inv_init vo pid0) hok hids
  rw [this, ownCell_eq]
  rfl

/-- identity `p`'s file holds `p`'s last set when that is the last thing `p` did to the series -/
theorem own_last_set (vo : VOps V) (p : Str) (us : List (Upd V)) (v t : V) :
    ownCell vo p (us ++ [Upd.set p v t]) = (v, t) := by
  rw [ownCell_eq, List.foldl_append]
  simp [ownStep]

theorem aggSum_zeros (vo : VOps V) (hzero : ∀ a, vo.add vo.zero a = a) (l : List Str) :
    aggSum vo (l.map (fun _ => vo.zero)) = vo.zero := by
  unfold aggSum
  induction l with
  | nil => rfl
  | cons x r ih => simp only [List.map_cons, List.foldl_cons, hzero]; exact ih

/-- conservation without assuming `zero` neutral: the sum over all identities' files is the left fold of the
    increments starting from the sum of as many zeros as there are identities -/
theorem conservation_general_partial (vo : VOps V) (hcomm : ∀ a b, vo.add a b = vo.add b a)
    (hassoc : ∀ a b c, vo.add (vo.add a b) c = vo.add a (vo.add b c))
    (pid0 : Str) (ops : List (Op V)) (pre : Str) (k : Key) (pids : List Str) (hnd : pids.Nodup)
    (hpids : ∀ p ∈ pids, '_' ∉ p) (hids : IdsOK pid0 ops)
    (hok : OpsOK [] ops)
    (hinc : ∀ u ∈ updLog vo pre k pid0 [] ops, ∃ q a, u = Upd.inc q a ∧ q ∈ pids) :
    aggSum vo (pids.map (fun p => (cellVal vo (run vo (St.init pid0) ops).disk (fileName pre p) k).1))
      = (updLog vo pre k pid0 [] ops).foldl
          (fun acc u => match u with | .inc _ a => vo.add acc a | .set _ _ _ => acc)
          (aggSum vo (pids.map (fun _ => vo.zero))) := by
  have hcell : pids.map (fun p => (cellVal vo (run vo (St.init pid0) ops).disk (fileName pre p) k).1)
      = pids.map (fun p => ((updLog vo pre k pid0 [] ops).foldl (ownStep vo p) (vo.zero, vo.zero)).1) := by
    apply List.map_congr_left
    intro p hp
    rw [per_pid_gauge_partial vo pid0 ops pre k p (hpids p hp) hids hok, ownCell_eq]
  rw [hcell]
  exact sum_ownCells vo hcomm hassoc pids hnd _ hinc (fun _ => (vo.zero, vo.zero))

/-- **conservation** (`_partial` for the same reason as `per_pid_gauge_partial`: `hok`).  For any history from a fresh directory — any number of identity changes at any positions,
    returning to earlier identities included — the sum over ALL identities' files of the entry of series `(pre, k)`
    equals the sum of all increments ever issued to it, in a commutative monoid, provided the series is only
    incremented (`hinc`; a `set`, e.g. `Counter.reset()`, deliberately overwrites).  `pids` is any duplicate-free list
    containing every identity used; files of other identities do not exist (their entries read as zero). -/
theorem conservation_partial (vo : VOps V) (hcomm : ∀ a b, vo.add a b = vo.add b a)
    (hassoc : ∀ a b c, vo.add (vo.add a b) c = vo.add a (vo.add b c)) (hzero : ∀ a, vo.add vo.zero a = a)
    (pid0 : Str) (ops : List (Op V)) (pre : Str) (k : Key) (pids : List Str) (hnd : pids.Nodup)
    (hpids : ∀ p ∈ pids, '_' ∉ p) (hids : IdsOK pid0 ops)
    (hok : OpsOK [] ops)
    (hinc : ∀ u ∈ updLog vo pre k pid0 [] ops, ∃ q a, u = Upd.inc q a ∧ q ∈ pids) :
    aggSum vo (pids.map (fun p => (cellVal vo (run vo (St.init pid0) ops).disk (fileName pre p) k).1))
      = incTotal vo (updLog vo pre k pid0 [] ops) := by
  rw [conservation_general_partial vo hcomm hassoc pid0 ops pre k pids hnd hpids hids hok hinc, aggSum_zeros vo hzero]
  rfl

/-! ### several worker generations on one directory: death, `mark_process_dead`, pid reuse

World histories (`Model.Values.Ev`): `op` = a call of the acting worker, `spawn p` = a NEW worker (fresh closure) with
identity `p` on the directory as it is — also how a pid is reused —, `dead p` = `mark_process_dead(p)`. -/

/-- **dead_removes_only_live_files.**  `mark_process_dead(q)` removes exactly the files `gauge_<live mode>_<q>.db`; every
    other file — every counter, summary, histogram and non-live gauge file of the dead identity included — keeps its
    content, and so does every cell. -/
theorem dead_removes_only_live_files (vo : VOps V) (q : Str) (disk : List (Str × Store V)) (fn : Str) (k : Key) :
    (AL.get? (deadDisk q disk) fn = if isLiveFileOf q fn = true then none else AL.get? disk fn) ∧
    (cellVal vo (deadDisk q disk) fn k = if isLiveFileOf q fn = true then (vo.zero, vo.zero) else cellVal vo disk fn k) :=
  ⟨file_deadDisk q disk fn, cellVal_deadDisk vo q disk fn k⟩

/-- a live-gauge file of `q` belongs to identity `q` only: the death of `q` touches no other identity's file -/
theorem dead_touches_own_identity_only (q pre p : Str) (hq : '_' ∉ q) (hp : '_' ∉ p) (hne : p ≠ q) :
    isLiveFileOf q (fileName pre p) = false := by
  cases h : isLiveFileOf q (fileName pre p) with
  | false => rfl
  | true => exact absurd (isLiveFileOf_fileName q pre p hq hp h) hne

/-- **world_cell** (`_partial`: `hu` = every INCREMENT of the world history goes through a FRESH value object (`wFresh`): one that nothing
    else has overwritten since it last read or wrote its entry — all objects are fresh after an identity change and after
    their construction; an update through one object makes the others on its key stale until the next identity change).
    After ANY world history from an empty directory — any number of worker generations, identity changes, deaths and
    pid reuses — identity `p`'s entry of series `(pre, k)` is the fold over the world log of: the updates issued under
    `p` by whichever generation (increments add, sets replace), and the deaths of `p`, which reset the entry exactly
    when the file is a live-gauge file.  Hence: counters of a dead identity are still there; its live gauges are gone;
    a new worker that reuses the pid continues every non-live entry from what the file holds. -/
theorem world_cell_partial (vo : VOps V) (p0 : Str) (hp0 : '_' ∉ p0) (evs : List (Ev V)) (hev : evsIdOK evs)
    (hu : wFresh vo (St.init p0) (fun _ => true) evs = true) (pre : Str) (k : Key) (p : Str) (hp : '_' ∉ p) :
    cellVal vo (wrun vo (St.init p0) evs).disk (fileName pre p) k
      = (wLog vo pre k p0 p0 [] evs).foldl (wOwnStep vo (isLiveFileOf p (fileName pre p)) p) (vo.zero, vo.zero) :=
  wrun_cell_fresh vo pre k p hp evs (St.init p0) _ (bound_init p0) (freshInv_init vo p0 _) ⟨hp0, hp0⟩ hev hu

/-- **reuse_continues** (`_partial` as above): when a new worker is spawned — with a fresh or a REUSED pid, after a
    `mark_process_dead` or not — every entry evolves from what the directory holds at that moment by the new worker's
    own updates; nothing is reset by the restart itself. -/
theorem reuse_continues_partial (vo : VOps V) (p0 : Str) (hp0 : '_' ∉ p0) (a b : List (Ev V)) (q : Str)
    (hev : evsIdOK (a ++ Ev.spawn q :: b)) (hu : wFresh vo (St.init p0) (fun _ => true) (a ++ Ev.spawn q :: b) = true)
    (pre : Str) (k : Key) (p : Str) (hp : '_' ∉ p) :
    cellVal vo (wrun vo (St.init p0) (a ++ Ev.spawn q :: b)).disk (fileName pre p) k
      = (wLog vo pre k q q [] b).foldl (wOwnStep vo (isLiveFileOf p (fileName pre p)) p)
          (cellVal vo (wrun vo (St.init p0) a).disk (fileName pre p) k) := by
  rw [wrun_append, wrun_cons]
  have heva : evsIdOK a := fun e he => hev e (List.mem_append_left _ he)
  have hevb : evsIdOK b := fun e he => hev e (List.mem_append_right _ (List.mem_cons_of_mem _ he))
  have hq : '_' ∉ q := hev (Ev.spawn q) (List.mem_append_right _ List.mem_cons_self)
  have hba := wrun_bound vo a (St.init p0) (bound_init p0) ⟨hp0, hp0⟩ heva
  have hfb := wFresh_append_spawn vo a b q (St.init p0) _ hu
  exact wrun_cell_fresh vo pre k p hp b _ (fun _ => true)
    (wstep_bound vo _ (Ev.spawn q) hba.1 hba.2 hq) (fun i v hv _ => by simp [wstep] at hv) ⟨hq, hq⟩ hevb hfb

/-- **conservation_world** (`_partial` as above): for a series whose file is NOT a live-gauge file (every counter,
    summary and histogram series; non-live gauges), the sum over all identities' files equals the sum of all
    increments ever issued by all worker generations — deaths, `mark_process_dead` and pid reuse change nothing — in a
    commutative monoid, provided the series is only incremented. -/
theorem conservation_world_partial (vo : VOps V) (hcomm : ∀ a b, vo.add a b = vo.add b a)
    (hassoc : ∀ a b c, vo.add (vo.add a b) c = vo.add a (vo.add b c)) (hzero : ∀ a, vo.add vo.zero a = a)
    (p0 : Str) (hp0 : '_' ∉ p0) (evs : List (Ev V)) (hev : evsIdOK evs)
    (hu : wFresh vo (St.init p0) (fun _ => true) evs = true)
    (pre : Str) (k : Key) (pids : List Str) (hnd : pids.Nodup) (hpids : ∀ p ∈ pids, '_' ∉ p)
    (hlive : ∀ p ∈ pids, isLiveFileOf p (fileName pre p) = false)
    (hinc : ∀ u ∈ wUpds (wLog vo pre k p0 p0 [] evs), ∃ q a, u = Upd.inc q a ∧ q ∈ pids) :
    aggSum vo (pids.map (fun p => (cellVal vo (wrun vo (St.init p0) evs).disk (fileName pre p) k).1))
      = incTotal vo (wUpds (wLog vo pre k p0 p0 [] evs)) := by
  have hcell : pids.map (fun p => (cellVal vo (wrun vo (St.init p0) evs).disk (fileName pre p) k).1)
      = pids.map (fun p => ((wUpds (wLog vo pre k p0 p0 [] evs)).foldl (ownStep vo p) (vo.zero, vo.zero)).1) := by
    apply List.map_congr_left
    intro p hp
    rw [world_cell_partial vo p0 hp0 evs hev hu pre k p (hpids p hp), hlive p hp, foldl_wOwn_nonlive]
  rw [hcell]
  have := sum_ownCells vo hcomm hassoc pids hnd _ hinc (fun _ => (vo.zero, vo.zero))
  unfold aggSum
  rw [this]
  have hz := aggSum_zeros vo hzero pids
  unfold aggSum at hz
  rw [hz]
  rfl

/-- **entry_present_iff** (no uniqueness assumption).  After any world history from an empty directory, identity `p`'s
    file of prefix `pre` HAS an entry for key `k` exactly when `wPresent` says so: some call made while `p` was the
    acting identity constructed a value object on `(pre, k)`, or re-bound one (the first call after an identity change
    re-binds — and thereby creates at zero — the entries of ALL value objects of the acting worker), and, if the file is
    a live-gauge file, no later `mark_process_dead(p)` removed it.  An `inc`/`set`/`get` creates nothing by itself. -/
theorem entry_present_iff (vo : VOps V) (p0 : Str) (hp0 : '_' ∉ p0) (evs : List (Ev V)) (hev : evsIdOK evs)
    (pre : Str) (k : Key) (p : Str) (hp : '_' ∉ p) :
    has (wrun vo (St.init p0) evs).disk (fileName pre p) k
      = wPresent pre k p (isLiveFileOf p (fileName pre p)) p0 p0 [] evs false :=
  wrun_has vo pre k p hp evs (St.init p0) (bound_init p0) ⟨hp0, hp0⟩ hev

/-! ### non-vacuity and the counter-example behind `OpsOK` -/

/-- `Int` as value type: a commutative monoid with a strict order -/
def intOps : VOps Int := ⟨0, (· + ·), (fun a b => decide (a < b)), (fun a b => decide (a ≤ b)), (fun x => x != 0)⟩

def pCounter : Params := ⟨"counter".toList, "c".toList, "c_total".toList, [], [], "help".toList, []⟩
def pGauge : Params := ⟨"gauge".toList, "g".toList, "g".toList, ["l".toList], ["x".toList], "help".toList, "all".toList⟩

/-- a history with three identity changes, returning to the first identity, two metric types -/
def demoOps : List (Op Int) :=
  [.construct pCounter, .inc 0 2, .setPid "2".toList, .construct pGauge, .inc 0 3, .set 1 7 none,
   .setPid "1".toList, .inc 0 4, .set 1 5 (some 9), .setPid "2".toList, .inc 0 1]

/-- executable form of hypothesis `hinc` -/
def incsWithin (pids : List Str) : List (Upd Int) → Bool
  | [] => true
  | .inc q _ :: r => pids.contains q && incsWithin pids r
  | .set _ _ _ :: _ => false

theorem incsWithin_sound (pids : List Str) (us : List (Upd Int)) (h : incsWithin pids us = true) :
    ∀ u ∈ us, ∃ q a, u = Upd.inc q a ∧ q ∈ pids := by
  induction us with
  | nil => intro u hu; cases hu
  | cons x r ih =>
    cases x with
    | set q v t => simp [incsWithin] at h
    | inc q a =>
      simp only [incsWithin, Bool.and_eq_true, List.contains_iff_mem] at h
      intro u hu
      rcases List.mem_cons.mp hu with e | e
      · exact ⟨q, a, e, h.1⟩
      · exact ih h.2 u e

theorem demo_ids : IdsOK (V := Int) "1".toList demoOps := by
  refine ⟨by decide, ?_⟩
  intro p hp
  simp only [demoOps, List.mem_cons, List.not_mem_nil, or_false, reduceCtorEq, false_or, Op.setPid.injEq] at hp
  rcases hp with h | h | h <;> subst h <;> decide

theorem demo_uniq : OpsOK [] demoOps := opsOKB_sound _ _ (by decide)

/-- the hypotheses of `conservation` are satisfiable by a history with identity changes, and its conclusion computes:
    2 + 3 + 4 + 1 = 10 spread over `counter_1.db` (6) and `counter_2.db` (4) -/
example : aggSum intOps (["1".toList, "2".toList].map (fun p =>
      (cellVal intOps (run intOps (St.init "1".toList) demoOps).disk (fileName "counter".toList p) (mmapKey pCounter)).1))
    = incTotal intOps (updLog intOps "counter".toList (mmapKey pCounter) "1".toList [] demoOps) :=
  conservation_partial intOps Int.add_comm Int.add_assoc Int.zero_add "1".toList demoOps "counter".toList (mmapKey pCounter)
    ["1".toList, "2".toList] (by decide) (by decide) demo_ids demo_uniq (incsWithin_sound _ _ (by decide))

example : incTotal intOps (updLog intOps "counter".toList (mmapKey pCounter) "1".toList [] demoOps) = 10 := by decide

/-- per-pid gauge on the same history: identity 1's file holds its own last set (5 at time 9), identity 2's holds 7 -/
example : cellVal intOps (run intOps (St.init "1".toList) demoOps).disk (fileName "gauge_all".toList "1".toList) (mmapKey pGauge)
    = (5, 9) := by decide
example : cellVal intOps (run intOps (St.init "1".toList) demoOps).disk (fileName "gauge_all".toList "2".toList) (mmapKey pGauge)
    = (7, 0) := by decide

/-- a state in which `rebinding_reads_current` applies (identity changed, next call pending) -/
example : (run intOps (St.init "1".toList) (demoOps.take 7)).pid ≠ (run intOps (St.init "1".toList) (demoOps.take 7)).actual := by
  decide

/-- a world history: worker 1 (pid 5) counts 2 and sets a livesum and a sum gauge, dies, is marked dead; a NEW worker reuses
    pid 5, counts 3 more and increments both gauges by 1 -/
def pLive : Params := ⟨"gauge".toList, "gl".toList, "gl".toList, [], [], "help".toList, "livesum".toList⟩
def pSum : Params := ⟨"gauge".toList, "gs".toList, "gs".toList, [], [], "help".toList, "sum".toList⟩
def demoWorld : List (Ev Int) :=
  [.op (.construct pCounter), .op (.inc 0 2), .op (.construct pLive), .op (.set 1 10 none), .op (.construct pSum),
   .op (.set 2 20 none), .dead "5".toList, .spawn "5".toList,
   .op (.construct pCounter), .op (.inc 0 3), .op (.construct pLive), .op (.inc 1 1), .op (.construct pSum), .op (.inc 2 1)]

theorem demoWorld_ids : evsIdOK demoWorld := by
  intro e he
  simp only [demoWorld, List.mem_cons, List.not_mem_nil, or_false] at he
  rcases he with h | h | h | h | h | h | h | h | h | h | h | h | h | h <;> subst h <;>
    first | trivial | (show '_' ∉ _; decide)

theorem demoWorld_uniq : wFresh intOps (St.init "5".toList) (fun _ => true) demoWorld = true := by decide

/-- presence on this history: identity 5 has its counter entry; identity 7 (never acting) has none; the live gauge entry of
    5 exists again only because the new worker re-created it after the death -/
example : has (wrun intOps (St.init "5".toList) demoWorld).disk (fileName "counter".toList "5".toList) (mmapKey pCounter) = true := by
  decide
example : has (wrun intOps (St.init "5".toList) demoWorld).disk (fileName "counter".toList "7".toList) (mmapKey pCounter) = false := by
  decide
example : has (wrun intOps (St.init "5".toList) (demoWorld.take 8)).disk (fileName "gauge_livesum".toList "5".toList) (mmapKey pLive)
    = false := by decide
example : has (wrun intOps (St.init "5".toList) (demoWorld.take 8)).disk (fileName "gauge_sum".toList "5".toList) (mmapKey pSum)
    = true := by decide

/-- the hypotheses of `world_cell_partial` are satisfiable, and on this history: the counter of the dead-and-reused
    identity holds 2 + 3; the live gauge restarted from zero (0 + 1); the non-live gauge continued (20 + 1) -/
example : cellVal intOps (wrun intOps (St.init "5".toList) demoWorld).disk (fileName "counter".toList "5".toList) (mmapKey pCounter)
    = (wLog intOps "counter".toList (mmapKey pCounter) "5".toList "5".toList [] demoWorld).foldl
        (wOwnStep intOps (isLiveFileOf "5".toList (fileName "counter".toList "5".toList)) "5".toList) (0, 0) :=
  world_cell_partial intOps "5".toList (by decide) demoWorld demoWorld_ids demoWorld_uniq _ _ _ (by decide)
example : cellVal intOps (wrun intOps (St.init "5".toList) demoWorld).disk (fileName "counter".toList "5".toList) (mmapKey pCounter)
    = (5, 0) := by decide
example : cellVal intOps (wrun intOps (St.init "5".toList) demoWorld).disk (fileName "gauge_livesum".toList "5".toList) (mmapKey pLive)
    = (1, 0) := by decide
example : cellVal intOps (wrun intOps (St.init "5".toList) demoWorld).disk (fileName "gauge_sum".toList "5".toList) (mmapKey pSum)
    = (21, 0) := by decide

/-- `remove()` + `labels()` again, old handle dropped, under identity changes: index 0 is the dropped child, index 1 the
    re-created one on the same key; the hypothesis holds and nothing is lost: 1 + 2 + 4 + 8 = 15 -/
def relabelOps : List (Op Int) :=
  [.construct pCounter, .inc 0 1, .construct pCounter, .inc 1 2, .setPid "11".toList, .inc 1 4, .setPid "1".toList, .inc 1 8]

example : OpsOK [] relabelOps := opsOKB_sound _ _ (by decide)
example : aggSum intOps (["1".toList, "11".toList].map (fun p =>
      (cellVal intOps (run intOps (St.init "1".toList) relabelOps).disk (fileName "counter".toList p) (mmapKey pCounter)).1)) = 15 := by
  decide
/-- … whereas the lossy history below violates it (index 0 is updated after index 1 was constructed on the same key) -/
example : opsOKB (V := Int) [] [.construct pCounter, .construct pCounter, .inc 0 1, .inc 1 1, .inc 0 1] = false := by decide

/-- a KEPT old handle used again after an identity change (index 0 = old child, index 1 = re-created child on the same key):
    within each identity epoch only one of the two is updated, so every increment goes through a fresh object
    (`wFresh`) although index 0 is not the youngest (`OpsOK` fails) — and nothing is lost: 1 + 2 + 4 + 8 = 15 -/
def staleHandleWorld : List (Ev Int) :=
  [.op (.construct pCounter), .op (.inc 0 1), .op (.construct pCounter), .op (.inc 1 2), .op (.setPid "11".toList),
   .op (.inc 0 4), .op (.setPid "1".toList), .op (.inc 1 8)]

example : wFresh intOps (St.init "1".toList) (fun _ => true) staleHandleWorld = true := by decide
example : opsOKB (V := Int) [] [.construct pCounter, .inc 0 1, .construct pCounter, .inc 1 2, .setPid "11".toList,
    .inc 0 4, .setPid "1".toList, .inc 1 8] = false := by decide
example : aggSum intOps (["1".toList, "11".toList].map (fun p =>
      (cellVal intOps (wrun intOps (St.init "1".toList) staleHandleWorld).disk (fileName "counter".toList p) (mmapKey pCounter)).1))
    = 15 := by decide
/-- … whereas alternating the two objects inside one epoch is not fresh (and loses an update) -/
example : wFresh intOps (St.init "1".toList) (fun _ => true)
    [.op (.construct pCounter), .op (.construct pCounter), .op (.inc 0 1), .op (.inc 1 1), .op (.inc 0 1)] = false := by decide

/-- **the counter-example behind `OpsOK`** (M exhibits the candidate finding): two live value objects on one key, three
    increments issued, the file holds 2 -/
theorem two_objects_lose_updates :
    cellVal intOps (run intOps (St.init "1".toList)
        [.construct pCounter, .construct pCounter, .inc 0 1, .inc 1 1, .inc 0 1]).disk
      (fileName "counter".toList "1".toList) (mmapKey pCounter) = (2, 0) := by decide

end PromVerif.Props.C09
