/-
C15 — the OpenMetrics parser enforces each of its validation rules on every instance.

Each theorem: a rule predicate of `Spec/OMRules.lean` (written from the rule's wording, over the list of tokenised
lines, the offending line at an arbitrary position, everything else arbitrary) implies that the family state machine
`assemble` — the model of `text_fd_to_metric_families` on tokenised lines, `omParse = assemble ∘ map parseLine ∘
docLines` — raises.  The theorems are parametric in the number operations (`Params`).  After each theorem a
kernel-evaluated example: a concrete accepted document and its violating transform rejected (toy number instance).

Rules whose enforcement in the parser is narrower than the wording carry that side condition in the predicate; the
harness runs the real parser on the excluded instances (evidence key `exemptions`).

Rule → theorem
  missing '# EOF' / content after it (repeated EOF)  missing_eof, content_after_eof
  blank lines                                        blank_line
  repeated or late metadata                          repeated_metadata, late_metadata
  interleaved or clashing families                   interleaved_families, clashing_families
  unit not suffixing the name / on info, stateset    unit_not_suffix, unit_on_info_or_stateset
  histogram groups: bounds not increasing,           hist_bounds_not_increasing, hist_counts_not_cumulative (document level),
    counts not cumulative, no +Inf, _count ≠ +Inf      hist_no_inf_document, hist_count_ne_inf_document (document level; _partial: sample-list level)
    counts not integral                                count_not_integral
    bound NaN in any spelling / missing / not a number bucket_bound_nan
  NaN or negative counter-like samples               counter_like_nan, counter_like_negative
  info values ≠ 1                                    info_not_one
  stateset values ∉ {0,1} / without the state label  stateset_bad_value, stateset_no_label
  quantiles outside [0,1]                            quantile_out_of_range
  timestamps backwards / on part of a group          timestamp_backwards, timestamp_partial
  duplicate label names                              duplicate_label_term, duplicate_label   (ParseCore.parseLabels)
  exemplars on ineligible samples / over 128 chars   exemplar_ineligible, exemplar_too_long  (the latter on remFinish)

Not proved / partial, and why
* histogram rules: `hist_bounds_not_increasing` and `hist_counts_not_cumulative` are document-level (the pair of bucket
  lines at any position of the family block; the two lines must be new series, because a line repeating a series at an
  unchanged timestamp is dropped before the histogram check — the exemption recorded in the evidence).
  `hist_no_inf_partial` and `hist_count_ne_inf_partial` (the two `do_checks` rules) stay on the sample list
  `_check_histogram` receives: missing is the same composition with the line fold (which lines reach the list) for a
  whole group up to its end, where the failure is not prefix-stable (a later `+Inf` / `_count` line of the same group can
  still repair it); they also assume `t == t` for the timestamps in the list (floats: never NaN).
  The `*_partial` list-level versions of the first two are kept (no side condition on repeats).
* timestamp_backwards: consecutive samples only (the parser compares each sample with its predecessor; a statement
  about non-adjacent samples of a group needs transitivity of the float order, a fact about IEEE not about the code).
* families without a `# TYPE` line (typ `unknown` opened by a sample or by HELP/UNIT only) are outside `InBlock`;
  "Invalid metric grouping" (a group resumed after another one) is not among the rules of the statement and has no
  theorem.  Both are exercised by the harness.
* exemplar_too_long and duplicate_label are statements about line tokenisation (`remFinish`, `parseLabels`), not
  about `assemble`: at the line level such a line is `.sample _ (.error .valueError)`.
-/
import PromVerif.Spec.OMRules
import PromVerif.Lemmas.OMChecks
import PromVerif.Lemmas.OMDoom
import PromVerif.Lemmas.OMGroup
import PromVerif.Lemmas.OMLabels
import PromVerif.Lemmas.OMHist
import PromVerif.Lemmas.OMHistDoc
import PromVerif.Lemmas.OMHistClose
import PromVerif.Lemmas.OMToy

namespace PromVerif.Props.C15
open PromVerif.Py PromVerif.Model.ParseCore PromVerif.Model.OMParse PromVerif.Generated.OMParse
open PromVerif.Spec.OMRules PromVerif.Lemmas.OM PromVerif.Lemmas.OMToy

/-- the extractor found every site of the OpenMetrics parser in the shape it understands -/
theorem extract_ok : extractOk = true := by decide

/-- the suffix table the rules are worded with is the table in the source -/
theorem suffix_table_matches (t : Str) : (lookupTable t typeSuffixes).getD [[]] = specSuffixes t := lookup_spec t

/-! ## `# EOF`, blank lines -/

theorem stepLine_eof_false (P : Params) (st st' : St) (l : Line) (hl : l ≠ .eof) (h : stepLine P st l = .ok st') :
    st'.eof = st.eof := by
  obtain ⟨_, hc⟩ := stepLine_ok P st st' l h
  rcases hc with ⟨h0, _⟩ | ⟨kind, cand, rest, _, hm⟩ | ⟨nh, plain, s, isNh, _, _, hs⟩
  · exact absurd h0 hl
  · rcases stepMeta_ok P st st' _ _ _ hm with ⟨_, g, hd, _, _, rfl⟩ | ⟨_, hd, _, rfl⟩ <;> rfl
  · rcases stepSample_ok P st st' s isNh hs with ⟨_, g, hd, gr, _, _, _, rfl⟩ | ⟨_, gr, _, rfl⟩ <;> rfl

/-- missing `# EOF`: a document without an EOF line is rejected -/
theorem missing_eof (P : Params) (ls : List Line) (h : MissingEOF ls) : isError (assemble P ls) = true := by
  have key : ∀ st st', st.eof = false → run P st ls = .ok st' → st'.eof = false := by
    intro st st' hst
    refine run_invariant P (fun s => s.eof = false) (fun l => l ≠ .eof) ?_ ls (fun l hl e => h (e ▸ hl)) st hst st'
    intro s l s' hq hl hs
    rw [stepLine_eof_false P s s' l hl hs]; exact hq
  rw [assemble_eq]
  unfold finishRun
  cases hr : run P {} ls with
  | error e => rfl
  | ok st =>
    have := key {} st rfl hr
    simp only [finish]
    cases flush P st.glob st.hdr st.grp.samples with
    | error e => rfl
    | ok g => simp [this, isError]

example : isError (parseDoc "a 1\n# EOF\n") = false := by decide
example : errOf (parseDoc "a 1\n") = some .valueError := by decide

/-- content after `# EOF` (a second `# EOF` included) is rejected -/
theorem content_after_eof (P : Params) (ls : List Line) (h : ContentAfterEOF ls) : isError (assemble P ls) = true := by
  obtain ⟨pre, l, post, rfl⟩ := h
  apply isError_of_suffix
  intro st
  rw [finishRun_cons]
  cases hs : stepLine P st .eof with
  | error e => rfl
  | ok st1 =>
    simp only
    obtain ⟨_, hc⟩ := stepLine_ok P st st1 _ hs
    have h1 : st1.eof = true := by
      rcases hc with ⟨_, rfl⟩ | ⟨_, _, _, hl, _⟩ | ⟨_, _, _, _, hl, _⟩
      · rfl
      · cases hl
      · cases hl
    rw [finishRun_cons]
    simp [stepLine, h1, isError]

example : errOf (parseDoc "a 1\n# EOF\na 2\n") = some .valueError := by decide
example : errOf (parseDoc "a 1\n# EOF\n# EOF\n") = some .valueError := by decide

/-- a blank line anywhere is rejected -/
theorem blank_line (P : Params) (ls : List Line) (h : BlankLine ls) : isError (assemble P ls) = true := by
  obtain ⟨pre, post, rfl⟩ := List.append_of_mem h
  apply isError_of_suffix
  intro st
  apply isError_of_bad_line
  intro st
  unfold stepLine
  split <;> rfl

example : errOf (parseDoc "a 1\n\n# EOF\n") = some .valueError := by decide

/-! ## per-sample value and label rules -/

theorem mem_runChecks_pre (P : Params) (n : Str) (t : Option Str) (s : OSample) (c : PyM Unit)
    (hc : c ∈ [chkStatesetLabel n t s, chkLe P n s, chkBucketIntegral P n s, chkCountIntegral P n s, chkQuantile P n t s])
    (he : isError c = true) : isError (preChecks P n t s) = true :=
  runChecks_isError_of_mem _ c hc he

theorem mem_runChecks_post (P : Params) (n : Str) (t : Option Str) (s : OSample) (c : PyM Unit)
    (hc : c ∈ [chkStatesetValue P t s, chkInfoValue P t s, chkSummaryNeg P n t s, chkNaN P n s, chkNeg P n s, chkExemplar t s])
    (he : isError c = true) : isError (postChecks P n t s) = true :=
  runChecks_isError_of_mem _ c hc he

theorem info_names (n : Str) : familyNames n cs!"info" = [n ++ cs!"_info"] := by
  simp [familyNames, specSuffixes]

theorem stateset_names (n : Str) : familyNames n cs!"stateset" = [n] := by
  simp [familyNames, specSuffixes]

theorem summary_names_self (n : Str) : n ∈ familyNames n cs!"summary" := by
  simp [familyNames, specSuffixes]

/-- info values other than 1 are rejected — any family name, labels, position, lines before and after -/
theorem info_not_one (P : Params) (ls : List Line) (h : InfoNotOne P ls) : isError (assemble P ls) = true := by
  obtain ⟨n, s, v, hb, hname, hv, hne⟩ := h
  refine block_of_InBlock P ls n _ (smp s) hb ?_
  intro st hh heof
  refine smp_fails P st n _ s hh heof (by rw [info_names, hname]; exact List.mem_singleton.mpr rfl) (Or.inr ?_)
  refine mem_runChecks_post P n (some cs!"info") s (chkInfoValue P (some cs!"info") s) (by simp) ?_
  have : chkInfoValue P (some cs!"info") s = raiseIfM (.ok (!P.eq v (.int 1))) := by
    simp only [chkInfoValue, hv]; rfl
  rw [this, hne]; rfl

example : isError (parseDoc "# TYPE a info\na_info{x=\"y\"} 1\n# EOF\n") = false := by decide
example : errOf (parseDoc "# TYPE a info\na_info{x=\"y\"} 2\n# EOF\n") = some .valueError := by decide
example : errOf (parseDoc "# TYPE a info\n# HELP a h\na_info{x=\"y\"} 1\na_info{x=\"z\"} 0\n# EOF\n") = some .valueError := by decide

/-- stateset values outside {0, 1} are rejected -/
theorem stateset_bad_value (P : Params) (ls : List Line) (h : StatesetBadValue P ls) : isError (assemble P ls) = true := by
  obtain ⟨n, s, v, hb, hname, hv, h0, h1⟩ := h
  refine block_of_InBlock P ls n _ (smp s) hb ?_
  intro st hh heof
  refine smp_fails P st n _ s hh heof (by rw [stateset_names, hname]; exact List.mem_singleton.mpr rfl) (Or.inr ?_)
  refine mem_runChecks_post P n (some cs!"stateset") s (chkStatesetValue P (some cs!"stateset") s) (by simp) ?_
  have : chkStatesetValue P (some cs!"stateset") s = raiseIf true := by
    simp only [chkStatesetValue, hv, valueIn]
    have : statesetValues = [0, 1] := by decide
    simp [this, h0, h1]
    rfl
  rw [this]; rfl

example : isError (parseDoc "# TYPE a stateset\na{a=\"on\"} 1\na{a=\"off\"} 0\n# EOF\n") = false := by decide
example : errOf (parseDoc "# TYPE a stateset\na{a=\"on\"} 1\na{a=\"off\"} 2\n# EOF\n") = some .valueError := by decide

theorem dictHas_false_of (lbls : Labels) (n : Str) (h : ∀ kv ∈ lbls, kv.1 ≠ n) : dictHas lbls n = false := by
  unfold dictHas
  rw [List.any_eq_false]
  intro kv hkv
  simpa using h kv hkv

/-- a stateset sample without the state label is rejected -/
theorem stateset_no_label (P : Params) (ls : List Line) (h : StatesetNoLabel ls) : isError (assemble P ls) = true := by
  obtain ⟨n, s, lbls, hb, hname, hl, hno⟩ := h
  refine block_of_InBlock P ls n _ (smp s) hb ?_
  intro st hh heof
  refine smp_fails P st n _ s hh heof (by rw [stateset_names, hname]; exact List.mem_singleton.mpr rfl) (Or.inl ?_)
  refine mem_runChecks_pre P n (some cs!"stateset") s (chkStatesetLabel n (some cs!"stateset") s) (by simp) ?_
  have : chkStatesetLabel n (some cs!"stateset") s = raiseIf true := by
    simp only [chkStatesetLabel, labelsOrType, hl, dictHas_false_of lbls n hno]
    rfl
  rw [this]; rfl

example : errOf (parseDoc "# TYPE a stateset\na{a=\"on\"} 1\na{b=\"off\"} 0\n# EOF\n") = some .valueError := by decide

theorem counterLike_nan : ∀ suf ∈ counterLike, nanSuffixes.contains suf = true := by decide
theorem counterLike_neg : ∀ suf ∈ counterLikeNonNeg, negSuffixes.contains suf = true := by decide

/-- NaN counter-like samples (`_total _sum _count _bucket _gcount _gsum`) are rejected, whatever the family type -/
theorem counter_like_nan (P : Params) (ls : List Line) (h : CounterLikeNaN P ls) : isError (assemble P ls) = true := by
  obtain ⟨n, t, s, suf, b, hb, hname, hsuf, hmem, hv, hnan⟩ := h
  refine block_of_InBlock P ls n t (smp s) hb ?_
  intro st hh heof
  refine smp_fails P st n t s hh heof hmem (Or.inr ?_)
  refine mem_runChecks_post P n (some t) s (chkNaN P n s) (by simp) ?_
  have : chkNaN P n s = raiseIfM (.ok true) := by
    have hn : nanTest P (some (.flt b)) = .ok true := by
      unfold nanTest
      split
      · simp only [hnan]
      · simp only [mathIsNaN, hnan]
    simp only [chkNaN, hname, drop_append_left, counterLike_nan suf hsuf, if_true, hv, hn]
  rw [this]; rfl

example : isError (parseDoc "# TYPE a counter\na_total 1\n# EOF\n") = false := by decide
example : errOf (parseDoc "# TYPE a counter\na_total NaN\n# EOF\n") = some .valueError := by decide
example : errOf (parseDoc "# TYPE a gaugehistogram\na_bucket{le=\"+Inf\"} 1\na_gcount 1\na_gsum NaN\n# EOF\n") = some .valueError := by decide

/-- negative counter-like samples (`_total _sum _count _bucket _gcount`) are rejected -/
theorem counter_like_negative (P : Params) (ls : List Line) (h : CounterLikeNegative P ls) : isError (assemble P ls) = true := by
  obtain ⟨n, t, s, suf, v, hb, hname, hsuf, hmem, hv, hneg⟩ := h
  refine block_of_InBlock P ls n t (smp s) hb ?_
  intro st hh heof
  refine smp_fails P st n t s hh heof hmem (Or.inr ?_)
  refine mem_runChecks_post P n (some t) s (chkNeg P n s) (by simp) ?_
  have : chkNeg P n s = raiseIfM (.ok true) := by
    simp only [chkNeg, hname, drop_append_left, counterLike_neg suf hsuf, if_true, hv, Params.cmpOpt, Params.cmp, hneg]
  rw [this]; rfl

example : errOf (parseDoc "# TYPE a counter\na_total -1\n# EOF\n") = some .valueError := by decide
example : isError (parseDoc "# TYPE a summary\na_count 1\na_sum 2\n# EOF\n") = false := by decide
example : errOf (parseDoc "# TYPE a summary\na_count 1\na_sum -2\n# EOF\n") = some .valueError := by decide

/-- a summary quantile sample whose quantile is missing, not a number or outside [0, 1] is rejected -/
theorem quantile_out_of_range (P : Params) (ls : List Line) (h : QuantileOutOfRange P ls) : isError (assemble P ls) = true := by
  obtain ⟨n, s, lbls, hb, hname, hl, hq⟩ := h
  refine block_of_InBlock P ls n _ (smp s) hb ?_
  intro st hh heof
  refine smp_fails P st n _ s hh heof (by rw [hname]; exact summary_names_self n) (Or.inl ?_)
  refine mem_runChecks_pre P n (some cs!"summary") s (chkQuantile P n (some cs!"summary") s) (by simp) ?_
  have e1 : (some cs!"summary" == some tSummary && n == s.name) = true := by
    rw [hname]; simp; decide
  simp only [chkQuantile, e1, if_true, labelsOrAttr, hl]
  have e2 : sQuantile = cs!"quantile" := rfl
  rw [e2]
  cases hg : dictGet lbls cs!"quantile" with
  | none => rfl
  | some q =>
    rw [hg] at hq
    simp only at hq ⊢
    unfold Params.floatE
    cases hf : P.pyFloat q with
    | none => rfl
    | some f =>
      rw [hf] at hq
      simp only at hq ⊢
      have : (!(P.le (.int 0) (.flt f) && P.le (.flt f) (.int 1))) = true := by
        cases h1 : P.le (.int 0) (.flt f) <;> cases h2 : P.le (.flt f) (.int 1) <;> simp_all
      rw [if_pos this]; rfl

example : isError (parseDoc "# TYPE a summary\na{quantile=\"0.5\"} 1\n# EOF\n") = false := by decide
example : errOf (parseDoc "# TYPE a summary\na{quantile=\"2\"} 1\n# EOF\n") = some .valueError := by decide
example : errOf (parseDoc "# TYPE a summary\na{quantile=\"0.5\"} 1\na{x=\"y\"} 1\n# EOF\n") = some .valueError := by decide

/-- non-integral bucket / count values are rejected -/
theorem count_not_integral (P : Params) (ls : List Line) (h : CountNotIntegral P ls) : isError (assemble P ls) = true := by
  obtain ⟨n, t, s, suf, b, hb, hname, hsuf, hmem, hv, hni⟩ := h
  refine block_of_InBlock P ls n t (smp s) hb ?_
  intro st hh heof
  refine smp_fails P st n t s hh heof hmem (Or.inl ?_)
  have hni' : raiseIfM (notIntegral P s.value) = raiseIfM (.ok true) := by simp [hv, notIntegral, hni]
  simp only [List.mem_cons, List.not_mem_nil, or_false] at hsuf
  rcases hsuf with rfl | rfl | rfl
  · refine mem_runChecks_pre P n (some t) s (chkBucketIntegral P n s) (by simp) ?_
    have : chkBucketIntegral P n s = raiseIfM (.ok true) := by
      simp only [chkBucketIntegral, hname, hni']
      have : (n ++ sBucket == n ++ cs!"_bucket") = true := by simp [sBucket]
      rw [if_pos this]
    rw [this]; rfl
  · refine mem_runChecks_pre P n (some t) s (chkCountIntegral P n s) (by simp) ?_
    have : chkCountIntegral P n s = raiseIfM (.ok true) := by
      simp only [chkCountIntegral, hname, hni']
      have : (n ++ sCount == n ++ cs!"_count" || n ++ sGcount == n ++ cs!"_count") = true := by simp [sCount]
      rw [if_pos this]
    rw [this]; rfl
  · refine mem_runChecks_pre P n (some t) s (chkCountIntegral P n s) (by simp) ?_
    have : chkCountIntegral P n s = raiseIfM (.ok true) := by
      simp only [chkCountIntegral, hname, hni']
      have : (n ++ sCount == n ++ cs!"_gcount" || n ++ sGcount == n ++ cs!"_gcount") = true := by simp [sGcount]
      rw [if_pos this]
    rw [this]; rfl

example : isError (parseDoc "# TYPE a histogram\na_bucket{le=\"+Inf\"} 1\na_count 1\na_sum 1\n# EOF\n") = false := by decide
example : errOf (parseDoc "# TYPE a histogram\na_bucket{le=\"+Inf\"} 0.5\n# EOF\n") = some .valueError := by decide
example : errOf (parseDoc "# TYPE a summary\na_count 0.5\n# EOF\n") = some .valueError := by decide

/-- a bucket bound that is NaN — however spelled — missing, or not a number is rejected (the numeric NaN test of the
`le` label, repair 3aca2ff; with the former spelling test `== "NaN"` this theorem fails for `le="nan"`) -/
theorem bucket_bound_nan (P : Params) (ls : List Line) (h : BucketBoundNaN P ls) : isError (assemble P ls) = true := by
  obtain ⟨n, t, s, lbls, hb, hname, hmem, hl, hle⟩ := h
  refine block_of_InBlock P ls n t (smp s) hb ?_
  intro st hh heof
  refine smp_fails P st n t s hh heof hmem (Or.inl ?_)
  refine mem_runChecks_pre P n (some t) s (chkLe P n s) (by simp) ?_
  have e1 : (n ++ sBucket == s.name) = true := by rw [hname]; simp [sBucket]
  have hflag : leNaNNumeric = true := by decide
  simp only [chkLe, e1, if_true, labelsOrAttr, hl, hflag]
  have e2 : sLe = cs!"le" := rfl
  rw [e2]
  cases hg : dictGet lbls cs!"le" with
  | none =>
    dsimp only
    cases P.floatE sNaN with
    | error e => rfl
    | ok f => dsimp only; split <;> rfl
  | some le =>
    rw [hg] at hle
    dsimp only at hle ⊢
    unfold Params.floatE
    cases hf : P.pyFloat le with
    | none => rfl
    | some f =>
      rw [hf] at hle
      dsimp only at hle ⊢
      rw [if_pos hle]; rfl

example : isError (parseDoc "# TYPE a histogram\na_bucket{le=\"1\"} 1\na_bucket{le=\"+Inf\"} 1\n# EOF\n") = false := by decide
example : errOf (parseDoc "# TYPE a histogram\na_bucket{le=\"NaN\"} 1\na_bucket{le=\"+Inf\"} 1\n# EOF\n") = some .valueError := by decide
example : errOf (parseDoc "# TYPE a histogram\na_bucket{le=\"1\"} 1\na_bucket{x=\"y\"} 1\na_bucket{le=\"+Inf\"} 1\n# EOF\n") = some .valueError := by decide

/-- an exemplar on a sample that is neither a histogram / gauge-histogram bucket nor a counter total is rejected -/
theorem exemplar_ineligible (P : Params) (ls : List Line) (h : ExemplarIneligible ls) : isError (assemble P ls) = true := by
  obtain ⟨n, t, s, hb, hmem, hex, hne⟩ := h
  refine block_of_InBlock P ls n t (smp s) hb ?_
  intro st hh heof
  refine smp_fails P st n t s hh heof hmem (Or.inr ?_)
  refine mem_runChecks_post P n (some t) s (chkExemplar (some t) s) (by simp) ?_
  have : chkExemplar (some t) s = raiseIf true := by
    unfold chkExemplar
    congr 1
    rw [hex, Bool.true_and, Bool.not_eq_true']
    unfold exemplarEligible at hne
    by_cases c1 : t = cs!"histogram"
    · subst c1
      have : endsWith cs!"_bucket" s.name = false := by
        cases hE : endsWith cs!"_bucket" s.name
        · rfl
        · exact absurd (Or.inl ⟨Or.inl rfl, hE⟩) hne
      simp [tHistogram, tGaugeHistogram, tCounter, sBucket, this]
    · by_cases c2 : t = cs!"gaugehistogram"
      · subst c2
        have : endsWith cs!"_bucket" s.name = false := by
          cases hE : endsWith cs!"_bucket" s.name
          · rfl
          · exact absurd (Or.inl ⟨Or.inr rfl, hE⟩) hne
        simp [tHistogram, tGaugeHistogram, tCounter, sBucket, this]
      · by_cases c3 : t = cs!"counter"
        · subst c3
          have : endsWith cs!"_total" s.name = false := by
            cases hE : endsWith cs!"_total" s.name
            · rfl
            · exact absurd (Or.inr ⟨rfl, hE⟩) hne
          simp [tHistogram, tGaugeHistogram, tCounter, sTotal, this]
        · have e1 : (some t == some tHistogram) = false := by simpa [tHistogram] using c1
          have e2 : (some t == some tGaugeHistogram) = false := by simpa [tGaugeHistogram] using c2
          have e3 : (some t == some tCounter) = false := by simpa [tCounter] using c3
          simp [e1, e2, e3]
  rw [this]; rfl

example : isError (parseDoc "# TYPE a counter\na_total 1 # {t=\"x\"} 1\n# EOF\n") = false := by decide
example : errOf (parseDoc "# TYPE a counter\na_total 1\na_created 1 # {t=\"x\"} 1\n# EOF\n") = some .valueError := by decide
example : errOf (parseDoc "# TYPE a gauge\na 1 # {t=\"x\"} 1\n# EOF\n") = some .valueError := by decide

/-! ## units -/

/-- a non-empty unit that the family name does not end with is rejected, wherever the `# UNIT` line stands and
whatever follows it -/
theorem unit_not_suffix (P : Params) (ls : List Line) (h : UnitNotSuffix ls) : isError (assemble P ls) = true := by
  obtain ⟨pre, n, u, post, rfl, hu, hsuf⟩ := h
  apply isError_of_suffix
  intro st
  rw [← kwUnit_eq, finishRun_cons]
  cases hs : stepLine P st (.metadata kwUnit n u) with
  | error e => rfl
  | ok st1 =>
    simp only
    obtain ⟨hn, _, _, h0, ha⟩ := stepLine_meta_name P st st1 kwUnit n u hs
    exact doom_unit_suffix P n u hu hsuf post st1 hn (applyMeta_unit _ _ _ _ ha)

example : isError (parseDoc "# TYPE a_seconds gauge\n# UNIT a_seconds seconds\na_seconds 1\n# EOF\n") = false := by decide
example : errOf (parseDoc "# TYPE a_seconds gauge\n# UNIT a_seconds bytes\na_seconds 1\n# EOF\n") = some .valueError := by decide
example : errOf (parseDoc "# UNIT a_seconds econd\n# TYPE a_seconds gauge\na_seconds 1\n# TYPE b gauge\n# EOF\n") = some .valueError := by decide

theorem forbidden_of (t : Str) (h : t = cs!"info" ∨ t = cs!"stateset") : unitForbidden.contains t = true := by
  rcases h with rfl | rfl <;> decide

/-- a non-empty unit on an info or stateset family is rejected (either order of the two metadata lines) -/
theorem unit_on_info_or_stateset (P : Params) (ls : List Line) (h : UnitOnInfoOrStateset ls) : isError (assemble P ls) = true := by
  obtain ⟨pre, n, u, t, mid, post, hu, ht, hls⟩ := h
  have hforb := forbidden_of t ht
  rcases hls with rfl | rfl
  · -- UNIT first
    apply isError_of_suffix
    intro st
    rw [← kwUnit_eq, ← kwType_eq, finishRun_cons]
    cases hs : stepLine P st (.metadata kwUnit n u) with
    | error e => rfl
    | ok st1 =>
      simp only
      obtain ⟨hn, _, _, h0, ha⟩ := stepLine_meta_name P st st1 kwUnit n u hs
      rw [finishRun_append]
      cases hr : run P st1 mid with
      | error e => rfl
      | ok st2 =>
        simp only
        have hseen := seen_run P (fun h => h.unit = some u) n n
          (fun h h' kind rest hA hm => by rw [(applyMeta_keeps_set _ _ _ _ _ hm).2.2 (by rw [hA]; rfl)]; exact hA)
          (rec_name P _ n) mid st1 st2 (Or.inl ⟨hn, applyMeta_unit _ _ _ _ ha⟩) hr
        rcases hseen with ⟨hn2, hu2⟩ | hrec
        · rw [finishRun_cons]
          cases hs3 : stepLine P st2 (.metadata kwType n t) with
          | error e => rfl
          | ok st3 =>
            simp only
            obtain ⟨_, hc⟩ := stepLine_ok P st2 st3 _ hs3
            rcases hc with ⟨h0, _⟩ | ⟨kind, cand, rest, hl, hm⟩ | ⟨_, _, _, _, hl, _⟩
            · cases h0
            · cases hl
              rcases stepMeta_ok P st2 st3 _ _ _ hm with ⟨hne, _⟩ | ⟨_, hd, ha3, rfl⟩
              · exact absurd hn2 hne
              · refine doom_unit_forbidden P n u t hu hforb post _ ?_ ?_ (applyMeta_typ _ _ _ _ ha3)
                · show hd.name = some n
                  rw [applyMeta_name _ _ _ _ _ ha3]; exact hn2
                · show hd.unit = some u
                  rw [(applyMeta_keeps_set _ _ _ _ _ ha3).2.2 (by rw [hu2]; rfl)]; exact hu2
            · cases hl
        · exact meta_after_seen P n kwType t post st2 hrec
  · -- TYPE first
    apply isError_of_suffix
    intro st
    rw [← kwUnit_eq, ← kwType_eq, finishRun_cons]
    cases hs : stepLine P st (.metadata kwType n t) with
    | error e => rfl
    | ok st1 =>
      simp only
      obtain ⟨hn, _, _, h0, ha⟩ := stepLine_meta_name P st st1 kwType n t hs
      rw [finishRun_append]
      cases hr : run P st1 mid with
      | error e => rfl
      | ok st2 =>
        simp only
        have hseen := seen_run P (fun h => h.typ = some t) n n
          (fun h h' kind rest hA hm => by rw [(applyMeta_keeps_set _ _ _ _ _ hm).2.1 (by rw [hA]; rfl)]; exact hA)
          (rec_name P _ n) mid st1 st2 (Or.inl ⟨hn, applyMeta_typ _ _ _ _ ha⟩) hr
        rcases hseen with ⟨hn2, ht2⟩ | hrec
        · rw [finishRun_cons]
          cases hs3 : stepLine P st2 (.metadata kwUnit n u) with
          | error e => rfl
          | ok st3 =>
            simp only
            obtain ⟨_, hc⟩ := stepLine_ok P st2 st3 _ hs3
            rcases hc with ⟨h0, _⟩ | ⟨kind, cand, rest, hl, hm⟩ | ⟨_, _, _, _, hl, _⟩
            · cases h0
            · cases hl
              rcases stepMeta_ok P st2 st3 _ _ _ hm with ⟨hne, _⟩ | ⟨_, hd, ha3, rfl⟩
              · exact absurd hn2 hne
              · refine doom_unit_forbidden P n u t hu hforb post _ ?_ (applyMeta_unit _ _ _ _ ha3) ?_
                · show hd.name = some n
                  rw [applyMeta_name _ _ _ _ _ ha3]; exact hn2
                · show hd.typ = some t
                  rw [(applyMeta_keeps_set _ _ _ _ _ ha3).2.1 (by rw [ht2]; rfl)]; exact ht2
            · cases hl
        · exact meta_after_seen P n kwUnit u post st2 hrec

example : isError (parseDoc "# TYPE a_x info\na_x_info 1\n# EOF\n") = false := by decide
example : errOf (parseDoc "# TYPE a_x info\n# UNIT a_x x\na_x_info 1\n# EOF\n") = some .valueError := by decide
example : errOf (parseDoc "# UNIT a_x x\n# HELP a_x h\n# TYPE a_x stateset\na_x{a_x=\"s\"} 1\n# EOF\n") = some .valueError := by decide

/-! ## metadata and family structure -/

/-- two metadata lines of the same kind for one family name are rejected, whatever lies between them -/
theorem repeated_metadata (P : Params) (ls : List Line) (h : RepeatedMetadata ls) : isError (assemble P ls) = true := by
  obtain ⟨pre, k, n, r1, mid, r2, post, rfl, _⟩ := h
  apply isError_of_suffix
  intro st
  rw [finishRun_cons]
  cases hs : stepLine P st (.metadata k n r1) with
  | error e => rfl
  | ok st1 =>
    simp only
    obtain ⟨hn, hf, _, _⟩ := stepLine_meta_name P st st1 k n r1 hs
    rw [finishRun_append]
    cases hr : run P st1 mid with
    | error e => rfl
    | ok st2 =>
      simp only
      have hseen := seen_run P (fun h => metaField k h = true) n n
        (fun h h' kind rest hA hm => applyMeta_field_mono _ _ _ _ _ _ hm hA) (rec_name P _ n) mid st1 st2 (Or.inl ⟨hn, hf⟩) hr
      rcases hseen with ⟨hn2, hf2⟩ | hrec
      · rw [finishRun_cons]
        cases hs3 : stepLine P st2 (.metadata k n r2) with
        | error e => rfl
        | ok st3 =>
          exfalso
          obtain ⟨_, hc⟩ := stepLine_ok P st2 st3 _ hs3
          rcases hc with ⟨h0, _⟩ | ⟨kind, cand, rest, hl, hm⟩ | ⟨_, _, _, _, hl, _⟩
          · cases h0
          · cases hl
            rcases stepMeta_ok P st2 st3 _ _ _ hm with ⟨hne, _⟩ | ⟨_, hd, ha3, _⟩
            · exact hne hn2
            · have := (applyMeta_sets _ _ _ _ _ ha3).1
              rw [hf2] at this; cases this
          · cases hl
      · exact meta_after_seen P n k r2 post st2 hrec

example : isError (parseDoc "# TYPE a counter\n# HELP a h\na_total 1\n# EOF\n") = false := by decide
example : errOf (parseDoc "# TYPE a counter\n# HELP a h\n# TYPE a counter\na_total 1\n# EOF\n") = some .valueError := by decide
example : errOf (parseDoc "# HELP a h\nb 1\n# HELP a h\n# EOF\n") = some .valueError := by decide

/-- lines of another family between two metadata lines of one family: rejected -/
theorem interleaved_families (P : Params) (ls : List Line) (h : InterleavedFamilies ls) : isError (assemble P ls) = true := by
  obtain ⟨pre, k1, n, r1, mid1, k2, m, r2, mid2, k3, r3, post, rfl, hmn, _, _⟩ := h
  apply isError_of_suffix
  intro st
  rw [finishRun_cons]
  cases hs : stepLine P st (.metadata k1 n r1) with
  | error e => rfl
  | ok st1 =>
    simp only
    obtain ⟨hn, _, _, _⟩ := stepLine_meta_name P st st1 k1 n r1 hs
    rw [finishRun_append]
    cases hr : run P st1 mid1 with
    | error e => rfl
    | ok st2 =>
      simp only
      have hseen := seen_run P (fun _ => True) n n (fun _ _ _ _ _ _ => trivial) (rec_name P _ n) mid1 st1 st2 (Or.inl ⟨hn, trivial⟩) hr
      rw [finishRun_cons]
      cases hs3 : stepLine P st2 (.metadata k2 m r2) with
      | error e => rfl
      | ok st3 =>
        simp only
        have hseen3 := seen_step P (fun _ => True) n n (fun _ _ _ _ _ _ => trivial) (rec_name P _ n) st2 st3 _ hseen hs3
        obtain ⟨hm3, _, _, _⟩ := stepLine_meta_name P st2 st3 k2 m r2 hs3
        have hrec3 : n ∈ st3.glob.seenNames := by
          rcases hseen3 with ⟨hn3, _⟩ | h
          · rw [hm3] at hn3; exact absurd (Option.some.inj hn3) hmn
          · exact h
        rw [finishRun_append]
        cases hr4 : run P st3 mid2 with
        | error e => rfl
        | ok st4 =>
          simp only
          exact meta_after_seen P n k3 r3 post st4 (recorded_run P n mid2 st3 st4 hrec3 hr4)

example : errOf (parseDoc "# TYPE a counter\na_total 1\n# TYPE b counter\nb_total 1\n# HELP a x\n# EOF\n") = some .valueError := by decide

theorem family_name_suffix (n t x : Str) (h : x ∈ familyNames n t ∨ x = n) : ∃ suf ∈ familySuffixes t, x = n ++ suf := by
  rcases h with h | rfl
  · rw [familyNames_eq] at h
    unfold allowedNames at h
    obtain ⟨suf, hs, rfl⟩ := List.mem_map.mp h
    refine ⟨suf, ?_, rfl⟩
    cases hl : lookupTable t typeSuffixes with
    | none =>
      rw [hl] at hs
      simp only [Option.getD, List.mem_singleton] at hs
      subst hs; exact nil_mem_familySuffixes t
    | some l =>
      rw [hl] at hs
      exact mem_familySuffixes t suf (by rw [hl]; exact hs)
  · exact ⟨[], nil_mem_familySuffixes t, by simp⟩

/-- two declared families with a common sample name (name + a suffix of the declared type) are rejected -/
theorem clashing_families (P : Params) (ls : List Line) (h : ClashingFamilies ls) : isError (assemble P ls) = true := by
  obtain ⟨pre, n1, t1, mid, n2, t2, post, rfl, hne, x, hx1, hx2⟩ := h
  obtain ⟨suf1, hs1, rfl⟩ := family_name_suffix n1 t1 x hx1
  obtain ⟨suf2, hs2, hx⟩ := family_name_suffix n2 t2 _ hx2
  apply isError_of_suffix
  intro st
  rw [← kwType_eq, finishRun_cons]
  cases hs : stepLine P st (.metadata kwType n1 t1) with
  | error e => rfl
  | ok st1 =>
    simp only
    obtain ⟨hn, _, _, h0, ha⟩ := stepLine_meta_name P st st1 kwType n1 t1 hs
    rw [finishRun_append]
    cases hr : run P st1 mid with
    | error e => rfl
    | ok st2 =>
      simp only
      have hseen := seen_run P (fun h => h.typ = some t1) n1 (n1 ++ suf1)
        (fun h h' kind rest hA hm => by rw [(applyMeta_keeps_set _ _ _ _ _ hm).2.1 (by rw [hA]; rfl)]; exact hA)
        (fun h g g' samples hn hA hf => flush_records P g g' h samples n1 hn hf suf1 (by rw [hA]; exact hs1))
        mid st1 st2 (Or.inl ⟨hn, applyMeta_typ _ _ _ _ ha⟩) hr
      rw [finishRun_cons]
      cases hs3 : stepLine P st2 (.metadata kwType n2 t2) with
      | error e => rfl
      | ok st3 =>
        simp only
        have hseen3 := seen_step P (fun h => h.typ = some t1) n1 (n1 ++ suf1)
          (fun h h' kind rest hA hm => by rw [(applyMeta_keeps_set _ _ _ _ _ hm).2.1 (by rw [hA]; rfl)]; exact hA)
          (fun h g g' samples hn hA hf => flush_records P g g' h samples n1 hn hf suf1 (by rw [hA]; exact hs1))
          st2 st3 _ hseen hs3
        obtain ⟨hn3, _, _, h03, ha3⟩ := stepLine_meta_name P st2 st3 kwType n2 t2 hs3
        have hrec3 : n1 ++ suf1 ∈ st3.glob.seenNames := by
          rcases hseen3 with ⟨hn3', _⟩ | h
          · rw [hn3] at hn3'; exact absurd (Option.some.inj hn3').symm hne
          · exact h
        exact doom_clash P n2 t2 suf2 post st3 hn3 (applyMeta_typ _ _ _ _ ha3) hs2 (hx ▸ hrec3)

example : isError (parseDoc "# TYPE a counter\na_total 1\n# TYPE b gauge\nb 1\n# EOF\n") = false := by decide
example : errOf (parseDoc "# TYPE a counter\na_total 1\n# TYPE a_total gauge\na_total 1\n# EOF\n") = some .valueError := by decide
example : errOf (parseDoc "# TYPE a_count gauge\n# TYPE b gauge\n# TYPE a summary\n# EOF\n") = some .valueError := by decide

/-- a metadata line of a family after one of its samples (or after any sample line since the family's earlier
metadata line) is rejected -/
theorem late_metadata (P : Params) (ls : List Line) (h : LateMetadata ls) : isError (assemble P ls) = true := by
  obtain ⟨pre, k1, n, r1, mid, k2, r2, post, rfl, _, nh, plain, hmem⟩ := h
  obtain ⟨m1, m2, rfl⟩ := List.append_of_mem hmem
  apply isError_of_suffix_kept
  intro st hk
  rw [finishRun_cons]
  cases hs : stepLine P st (.metadata k1 n r1) with
  | error e => rfl
  | ok st1 =>
    simp only
    obtain ⟨hn, _, _, _⟩ := stepLine_meta_name P st st1 k1 n r1 hs
    have hk1 := kept_step P st st1 _ hk hs
    rw [List.append_assoc, finishRun_append]
    cases hr : run P st1 m1 with
    | error e => rfl
    | ok st2 =>
      simp only
      have hseen2 := seen_run P (fun _ => True) n n (fun _ _ _ _ _ _ => trivial) (rec_name P _ n) m1 st1 st2 (Or.inl ⟨hn, trivial⟩) hr
      have hk2 := kept_run P m1 st1 st2 hk1 hr
      rw [List.cons_append, finishRun_cons]
      cases hs3 : stepLine P st2 (.sample nh plain) with
      | error e => rfl
      | ok st3 =>
        simp only
        have h3 := hasSample_of_sample P n st2 st3 nh plain hk2 hseen2 hs3
        rw [finishRun_append]
        cases hr4 : run P st3 m2 with
        | error e => rfl
        | ok st4 =>
          simp only
          have h4 := hasSample_run P n m2 st3 st4 h3 hr4
          rcases h4.2 with ⟨hn4, hne⟩ | hrec
          · rw [finishRun_cons]
            cases hs5 : stepLine P st4 (.metadata k2 n r2) with
            | error e => rfl
            | ok st5 =>
              exfalso
              obtain ⟨_, hc⟩ := stepLine_ok P st4 st5 _ hs5
              rcases hc with ⟨h0, _⟩ | ⟨kind, cand, rest, hl, hm⟩ | ⟨_, _, _, _, hl, _⟩
              · cases h0
              · cases hl
                rw [stepMeta_late P st4 _ _ _ hn4 hne] at hm; cases hm
              · cases hl
          · exact meta_after_seen P n k2 r2 post st4 hrec

example : isError (parseDoc "# TYPE a gauge\n# HELP a h\na 1\n# EOF\n") = false := by decide
example : errOf (parseDoc "# TYPE a gauge\na 1\n# HELP a h\n# EOF\n") = some .valueError := by decide
example : errOf (parseDoc "# TYPE a gauge\na 1\na 2\nb 1\n# UNIT a x\n# EOF\n") = some .valueError := by decide

/-! ## timestamps within a group -/

theorem exempt_false (t : Str) (h : t ≠ cs!"info") : tsOrderExempt.contains t = false := by
  have : tsOrderExempt = [cs!"info"] := by decide
  rw [this]; simpa using h

/-- the shared part of the two timestamp rules: two consecutive samples of one group of family `n`; if the
timestamp test on the pair fails, the second line fails -/
theorem ts_pair_fails (P : Params) (n t : Str) (s1 s2 : OSample)
    (hm1 : s1.name ∈ familyNames n t) (hm2 : s2.name ∈ familyNames n t) (hsame : SameGroup n t s1 s2)
    (hts : isError (chkGroupTs P t s1.ts s2.ts) = true)
    (st st' : St) (hh : HdrIs n t st.hdr) (heof : st.eof = false) (hs1 : stepLine P st (smp s1) = .ok st') :
    isError (stepLine P st' (smp s2)) = true := by
  have ha1 : st.hdr.allowed.contains s1.name = true := by rw [hh.2.2, ← familyNames_eq]; exact contains_of_mem hm1
  have ha2 : st.hdr.allowed.contains s2.name = true := by rw [hh.2.2, ← familyNames_eq]; exact contains_of_mem hm2
  have htyp : st.hdr.typ.getD [] = t := by rw [hh.2.1]; rfl
  rw [stepLine_smp P st s1 heof, stepSample_allowed P st s1 false ha1] at hs1
  cases hc1 : sampleChecks P st.hdr st.grp s1 false with
  | error e => rw [hc1] at hs1; cases hs1
  | ok gr1 =>
    rw [hc1] at hs1
    obtain rfl := Except.ok.inj hs1
    have hg1 := sampleChecks_ok P st.hdr st.grp gr1 s1 n hh.1 hc1
    rw [htyp] at hg1
    obtain ⟨g1, ls1, hgo1, _, hgrp, hgts, _⟩ := groupStep_ok P st.grp gr1 n t s1 hg1
    rw [stepLine_smp P { st with grp := gr1 } s2 heof, stepSample_allowed P { st with grp := gr1 } s2 false ha2]
    have hfail : isError (sampleChecks P st.hdr gr1 s2 false) = true := by
      apply sampleChecks_group_fails P st.hdr gr1 s2 n hh.1
      rw [htyp]
      cases hgo2 : groupOf s2 n t with
      | error e => unfold groupStep; rw [hgo2]; rfl
      | ok g2 =>
        have e1 := groupOf_spec s1 n t g1 hgo1
        have e2 := groupOf_spec s2 n t g2 hgo2
        have : g2 = g1 := by rw [e1, e2]; exact hsame.symm
        subst this
        exact groupStep_ts_fails P gr1 n t s2 g2 hgo2 hgrp (by rw [hgts]; exact hts)
    dsimp only
    cases hc2 : sampleChecks P st.hdr gr1 s2 false with
    | error e => rfl
    | ok gr2 => rw [hc2] at hfail; cases hfail

/-- the parser's `group_timestamp > sample.timestamp` is the rule's "later than", for every combination of forms -/
theorem tsGt_of_later (P : Params) (t1 t2 : OTs) (h : tsLater P t1 t2) : tsGt P t1 t2 = .ok true := by
  have h1 : tsCoerce = true := by decide
  have h2 : tsOverflowFallback = true := by decide
  -- `Timestamp` against `Timestamp` is compared exactly, on (sec, nsec) — not through `float()`
  have hexact : tsCompareViaFloat = false := by decide
  cases t1 with
  | stamp a1 b1 =>
    cases t2 with
    | stamp a2 b2 =>
      have hgt : (if a1 = a2 then decide (b1 > b2) else decide (a1 > a2)) = true := by
        rcases h with h | ⟨h1, h2⟩
        · have hne : a1 ≠ a2 := by intro e; subst e; exact absurd h (Int.lt_irrefl _)
          rw [if_neg hne]; exact decide_eq_true h
        · have he : a1 = a2 := h1.symm
          rw [if_pos he]; exact decide_eq_true h2
      simp only [tsGt, hexact, Bool.false_eq_true, if_false, hgt]
    | flt f =>
      simp only [tsLater] at h
      simp only [tsGt, h1, h2, if_true]
      cases hx : P.tsFloat a1 b1 with
      | some x => rw [hx] at h; simp only at h ⊢; rw [h]
      | none => rw [hx] at h; simp only at h ⊢; rw [h]
  | flt f =>
    cases t2 with
    | stamp a b =>
      simp only [tsLater] at h
      simp only [tsGt, h1, h2, if_true]
      cases hx : P.tsFloat a b with
      | some x => rw [hx] at h; simp only at h ⊢; rw [h]
      | none => rw [hx] at h; simp only at h ⊢; rw [h]
    | flt g =>
      simp only [tsLater] at h
      simp only [tsGt, h]

/-- timestamps going backwards between consecutive samples of one group are rejected, in every combination of
timestamp forms (info families exempt) -/
theorem timestamp_backwards (P : Params) (ls : List Line) (h : TimestampBackwards P ls) : isError (assemble P ls) = true := by
  obtain ⟨n, t, s1, s2, t1, t2, hb, hti, hm1, hm2, hsame, e1, e2, hlater⟩ := h
  refine block_of_InBlock2 P ls n t (smp s1) (smp s2) hb ?_
  intro st st' hh heof hs1
  refine ts_pair_fails P n t s1 s2 hm1 hm2 hsame ?_ st st' hh heof hs1
  rw [e1, e2]
  simp only [chkGroupTs, Option.isNone, bne_self_eq_false, Bool.false_eq_true, if_false, tsGt_of_later P t1 t2 hlater,
    exempt_false t hti, Bool.not_false, Bool.and_self]
  rfl

example : isError (parseDoc "# TYPE a gauge\na{x=\"1\"} 1 5\na{x=\"1\"} 2 6\n# EOF\n") = false := by decide
example : errOf (parseDoc "# TYPE a gauge\na{x=\"1\"} 1 5\na{x=\"1\"} 2 4\n# EOF\n") = some .valueError := by decide
example : errOf (parseDoc "# TYPE a counter\na_total{x=\"1\"} 1 5\na_total{x=\"2\"} 1 1\na_total{x=\"2\"} 1 0\n# EOF\n") = some .valueError := by decide

/-- a timestamp on only one of two consecutive samples of one group is rejected -/
theorem timestamp_partial (P : Params) (ls : List Line) (h : TimestampPartial ls) : isError (assemble P ls) = true := by
  obtain ⟨n, t, s1, s2, hb, hm1, hm2, hsame, hts⟩ := h
  refine block_of_InBlock2 P ls n t (smp s1) (smp s2) hb ?_
  intro st st' hh heof hs1
  refine ts_pair_fails P n t s1 s2 hm1 hm2 hsame ?_ st st' hh heof hs1
  have : (s2.ts.isNone != s1.ts.isNone) = true := by
    cases h1 : s1.ts <;> cases h2 : s2.ts <;> simp_all
  simp only [chkGroupTs, this, if_true]
  rfl

example : errOf (parseDoc "# TYPE a gauge\na{x=\"1\"} 1 5\na{x=\"1\"} 2\n# EOF\n") = some .valueError := by decide
example : errOf (parseDoc "# TYPE a gauge\na{x=\"1\"} 1\na{x=\"1\"} 2 7\n# EOF\n") = some .valueError := by decide
example : errOf (parseDoc "# TYPE a info\na_info{x=\"1\"} 1 5\na_info{x=\"2\"} 1\n# EOF\n") = some .valueError := by decide
example : errOf (parseDoc "# TYPE a gauge\na 1 2e0\na 1 1.5\n# EOF\n") = some .valueError := by decide

/-! ## rules enforced while a line is tokenised -/

/-- exemplars whose label names and values total more than 128 characters are rejected: whatever the state machine
of `_parse_remaining_text` collected, the line fails once the parsed exemplar labels exceed the limit -/
theorem exemplar_too_long (P : Params) (val : Num) (a : RAcc) (ls : Labels) (hl : a.exLabels = some ls)
    (hlen : 128 < (ls.map (fun kv => kv.1.length + kv.2.length)).sum) : isError (remFinish P val a) = true := by
  unfold remFinish
  cases runChecks _ with
  | error e => rfl
  | ok u =>
    dsimp only
    cases parseTimestamp P a.timestamp.reverse with
    | error e => rfl
    | ok ts =>
      dsimp only
      rw [hl]
      dsimp only
      have : remExemplar P a ls = .error .valueError := by
        unfold remExemplar
        dsimp only
        have hc : natCmp exemplarLenCmp (ls.map (fun kv => kv.1.length + kv.2.length)).sum exemplarMaxLen = true := by
          show decide ((ls.map (fun kv => kv.1.length + kv.2.length)).sum > 128) = true
          exact decide_eq_true hlen
        rw [if_pos hc]
      rw [this]; rfl

set_option maxRecDepth 8000 in
example : isError (parseDoc "# TYPE a counter\na_total 1 # {t=\"0123456789012345678901234567890123456789012345678901234567890123456789012345678901234567890123456789012345678901234567890123456\"} 1\n# EOF\n") = false := by decide
set_option maxRecDepth 8000 in
example : errOf (parseDoc "# TYPE a counter\na_total 1 # {t=\"01234567890123456789012345678901234567890123456789012345678901234567890123456789012345678901234567890123456789012345678901234567\"} 1\n# EOF\n") = some .valueError := by decide

/-- duplicate label names are rejected: `parse_labels` (metric labels and exemplar labels alike) accepts a term
only if its name is not yet present … -/
theorem duplicate_label_term (legacy om : Bool) (sub : Str) (labels labels' : List (Str × Str)) (rest : Str)
    (h : parseOneLabel legacy om sub labels = .ok (labels', rest)) :
    labels' = labels ∨ ∃ k v, labels' = labels ++ [(k, v)] ∧ labels.any (fun kv => kv.1 == k) = false :=
  parseOneLabel_fresh legacy om sub labels labels' rest h

/-- … so a parsed label set never holds a name twice -/
theorem duplicate_label (legacy om : Bool) (s : Str) (ls : List (Str × Str)) (h : parseLabels legacy s om = .ok ls) :
    (ls.map (·.1)).Nodup :=
  parseLabels_nodup legacy om s ls h

example : isError (parseDoc "a{x=\"1\",y=\"2\"} 1\n# EOF\n") = false := by decide
example : errOf (parseDoc "a{x=\"1\",x=\"2\"} 1\n# EOF\n") = some .valueError := by decide
example : errOf (parseDoc "# TYPE a counter\na_total 1 # {x=\"1\",x=\"1\"} 1\n# EOF\n") = some .valueError := by decide

/-! ## histogram and gauge-histogram groups (`_check_histogram` on the family's sample list)

The sample list is the one `build_metric` receives for a family whose type is histogram or gaugehistogram
(`flush_runs_check_histogram`).  `…_partial`: what is proved is the rule on that list; the step from the family's
sample LINES to the list (every line is appended in order unless it repeats a series of the current group at an
unchanged timestamp — `groupStep_ok`) is not composed into a document-level statement; the duplicate-dropping is the
exemption recorded in the evidence. -/

/-- for a histogram / gaugehistogram family a failing `_check_histogram` fails `build_metric` -/
theorem flush_runs_check_histogram (P : Params) (g : Glob) (h : Hdr) (samples : List OSample) (n t : Str)
    (hn : h.name = some n) (ht : h.typ = some t) (hh : t = cs!"histogram" ∨ t = cs!"gaugehistogram")
    (he : isError (checkHistogram P samples n) = true) : isError (flush P g h samples) = true := by
  refine flush_fails P g h samples n hn (if histTypes.contains (h.typ.getD tUnknown) then checkHistogram P samples n else .ok ())
    (by simp [buildChecks]) ?_
  have : histTypes.contains (h.typ.getD tUnknown) = true := by
    rw [ht]; rcases hh with rfl | rfl <;> decide
  rw [if_pos this]; exact he

/-- bounds not strictly increasing between consecutive bucket lines of one group: rejected — any position in the
list, any other groups before and after -/
theorem hist_bounds_not_increasing_partial (P : Params) (n : Str) (samples : List OSample) (h : HistBoundsNotIncreasing P n samples) :
    isError (checkHistogram P samples n) = true := by
  obtain ⟨pre, s1, s2, post, b1, b2, g1, g2, rfl, hb1, hb2, ⟨hsg, hst⟩, hle⟩ := h
  apply hist_of_suffix
  intro h0
  rw [histFinish_cons]
  cases hs1 : histStep P n h0 s1 with
  | error e => rfl
  | ok h1 =>
    dsimp only
    obtain ⟨e1, e2, e3, _⟩ := histStep_bucket_ok P n h0 h1 s1 b1 g1 hb1 hs1
    rw [histFinish_cons]
    have := histStep_bucket_order_fails P n h1 s2 b2 b1 g2 g1 hb2 e2 hsg (by rw [e3]; exact hst) e1 hle
    cases hs2 : histStep P n h1 s2 with
    | error e => rfl
    | ok h2 => rw [hs2] at this; cases this

example : isError (parseDoc "# TYPE a histogram\na_bucket{le=\"1\"} 1\na_bucket{le=\"2\"} 1\na_bucket{le=\"+Inf\"} 2\n# EOF\n") = false := by decide
example : errOf (parseDoc "# TYPE a histogram\na_bucket{le=\"2\"} 1\na_bucket{le=\"1\"} 1\na_bucket{le=\"+Inf\"} 2\n# EOF\n") = some .valueError := by decide
example : errOf (parseDoc "# TYPE a histogram\na_bucket{le=\"1\"} 1\na_bucket{le=\"1e0\"} 1\na_bucket{le=\"+Inf\"} 2\n# EOF\n") = some .valueError := by decide

/-- counts not cumulative between consecutive bucket lines of one group: rejected -/
theorem hist_counts_not_cumulative_partial (P : Params) (n : Str) (samples : List OSample) (h : HistCountsNotCumulative P n samples) :
    isError (checkHistogram P samples n) = true := by
  obtain ⟨pre, s1, s2, post, b1, b2, g1, g2, v1, v2, rfl, hb1, hb2, ⟨hsg, hst⟩, hv1, hv2, hlt⟩ := h
  apply hist_of_suffix
  intro h0
  rw [histFinish_cons]
  cases hs1 : histStep P n h0 s1 with
  | error e => rfl
  | ok h1 =>
    dsimp only
    obtain ⟨_, e2, e3, e4⟩ := histStep_bucket_ok P n h0 h1 s1 b1 g1 hb1 hs1
    rw [histFinish_cons]
    have := histStep_bucket_value_fails P n h1 s2 b2 g2 g1 v2 v1 hb2 e2 hsg (by rw [e3]; exact hst) (by rw [e4]; exact hv1) hv2 hlt
    cases hs2 : histStep P n h1 s2 with
    | error e => rfl
    | ok h2 => rw [hs2] at this; cases this

example : errOf (parseDoc "# TYPE a histogram\na_bucket{le=\"1\"} 3\na_bucket{le=\"+Inf\"} 2\n# EOF\n") = some .valueError := by decide

/-- (the statement below with its parts explicit; only the bucket line's timestamp must equal itself) -/
theorem hist_no_inf_core (P : Params) (n : Str) (pre : List OSample) (sb : OSample) (tail post : List OSample) (b : Nat) (g : Labels)
    (hb : IsBucket P n sb b g) (hinf : P.isPosInf b = false) (htail : ∀ s ∈ tail, InHistGroup n g sb.ts s)
    (hend : GroupEnds P n g sb.ts post) (hrefl : tsEq P sb.ts sb.ts = true) :
    isError (checkHistogram P (pre ++ sb :: (tail ++ post)) n) = true := by
  apply hist_of_suffix
  intro h0
  rw [histFinish_cons]
  cases hs1 : histStep P n h0 sb with
  | error e => rfl
  | ok h1 =>
    dsimp only
    obtain ⟨e1, e2, e3, _⟩ := histStep_bucket_ok P n h0 h1 sb b g hb hs1
    refine hist_tail P n g b tail post h1 g e2 rfl e1 (by rw [e3]; exact hrefl) (fun s hs => by rw [e3]; exact htail s hs) ?_
    intro h' hb' ht' ⟨l, hg', hl'⟩
    exact group_end_fails P n h' g l post hg' hl' (by rw [ht', e3]; exact hend) (doChecks_no_inf P h' b hb' hinf)

/-- a group whose last bucket line is not `+Inf` is rejected (the group closed by the end of the family or by a
sample of another group / timestamp; its `_count`/`_sum`/`_created` lines may follow the buckets) -/
theorem hist_no_inf_partial (P : Params) (n : Str) (samples : List OSample) (h : HistNoInf P n samples)
    (hrefl : ∀ s ∈ samples, tsEq P s.ts s.ts = true) : isError (checkHistogram P samples n) = true := by
  obtain ⟨pre, sb, tail, post, b, g, rfl, hb, hinf, htail, hend⟩ := h
  exact hist_no_inf_core P n pre sb tail post b g hb hinf htail hend (hrefl sb (by simp))

example : errOf (parseDoc "# TYPE a histogram\na_bucket{le=\"1\"} 1\na_bucket{le=\"2\"} 1\n# EOF\n") = some .valueError := by decide
example : errOf (parseDoc "# TYPE a histogram\na_bucket{le=\"1\",x=\"y\"} 1\na_bucket{le=\"1\"} 1\na_bucket{le=\"+Inf\"} 1\n# EOF\n") = some .valueError := by decide

theorem hist_count_ne_inf_core (P : Params) (n : Str) (pre : List OSample) (sb : OSample) (t1 : List OSample) (sc : OSample)
    (t2 post : List OSample) (b : Nat) (g : Labels) (v c : Num) (hb : IsBucket P n sb b g)
    (ht1 : ∀ s ∈ t1, InHistGroup n g sb.ts s) (hname : IsCountLine n sc) (hin : InHistGroup n g sb.ts sc)
    (ht2 : ∀ s ∈ t2, InHistGroup n g sb.ts s ∧ NotCountLine n s) (hv : sb.value = some v) (hc : sc.value = some c)
    (hne : P.eq v c = false) (hend : GroupEnds P n g sb.ts post) (hrefl : tsEq P sb.ts sb.ts = true) :
    isError (checkHistogram P (pre ++ sb :: (t1 ++ sc :: (t2 ++ post))) n) = true := by
  apply hist_of_suffix
  intro h0
  rw [histFinish_cons]
  cases hs1 : histStep P n h0 sb with
  | error e => rfl
  | ok h1 =>
    dsimp only
    obtain ⟨e1, e2, e3, e4⟩ := histStep_bucket_ok P n h0 h1 sb b g hb hs1
    -- the lines before the count line
    refine hist_tail_v P n g b (some v) none false t1 _ h1 g e2 rfl e1 (by rw [e4]; exact hv) (fun x => by cases x)
      (by rw [e3]; exact hrefl) (fun s hs => by rw [e3]; exact ht1 s hs) (fun x => by cases x) ?_
    intro h2 hb2 hv2 _ ht2' ⟨l2, hg2, hl2⟩
    rw [histFinish_cons]
    cases hs2 : histStep P n h2 sc with
    | error e => rfl
    | ok h3 =>
      dsimp only
      have hin2 : InHistGroup n g h2.ts sc := by rw [ht2', e3]; exact hin
      have hr2 : tsEq P h2.ts h2.ts = true := by rw [ht2', e3]; exact hrefl
      obtain ⟨f1, f2, f3, l3, f4, f5⟩ := histStep_inGroup P n h2 h3 sc g l2 hin2 hg2 hl2 hr2 hs2
      have hcount : h3.count = some c := by rw [histStep_count P n h2 h3 sc g l2 hin2 hg2 hl2 hr2 hname hs2]; exact hc
      -- the lines after it (no further count line), then the end of the group
      refine hist_tail_v P n g b (some v) (some c) true t2 post h3 l3 f4 f5 (by rw [f1]; exact hb2) (by rw [f2]; exact hv2)
        (fun _ => hcount) (by rw [f3]; exact hr2) (fun s hs => by rw [f3, ht2', e3]; exact (ht2 s hs).1)
        (fun _ s hs => (ht2 s hs).2) ?_
      intro h4 hb4 hv4 hc4 ht4 ⟨l4, hg4, hl4⟩
      exact group_end_fails P n h4 g l4 post hg4 hl4 (by rw [ht4, f3, ht2', e3]; exact hend)
        (doChecks_count_ne P h4 v c hv4 (hc4 rfl) hne)

/-- a `_count` / `_gcount` that differs from the count of the group's last bucket line is rejected — the count line
anywhere among the group's non-bucket lines (`…_bucket{+Inf}, _count, _sum, _created` and every permutation) -/
theorem hist_count_ne_inf_partial (P : Params) (n : Str) (samples : List OSample) (h : HistCountNeInf P n samples)
    (hrefl : ∀ s ∈ samples, tsEq P s.ts s.ts = true) : isError (checkHistogram P samples n) = true := by
  obtain ⟨pre, sb, t1, sc, t2, post, b, g, v, c, rfl, hb, ht1, hname, hin, ht2, hv, hc, hne, hend⟩ := h
  exact hist_count_ne_inf_core P n pre sb t1 sc t2 post b g v c hb ht1 hname hin ht2 hv hc hne hend (hrefl sb (by simp))

example : isError (parseDoc "# TYPE a histogram\na_bucket{le=\"+Inf\"} 2\na_count 2\na_sum 1\n# EOF\n") = false := by decide
example : errOf (parseDoc "# TYPE a histogram\na_bucket{le=\"+Inf\"} 2\na_count 3\na_sum 1\n# EOF\n") = some .valueError := by decide
example : errOf (parseDoc "# TYPE a gaugehistogram\na_bucket{le=\"+Inf\"} 2\na_gcount 0\na_gsum 1\n# EOF\n") = some .valueError := by decide

/-! ### the two loop-detected rules on the document's lines -/

theorem hist_pair_rule (P : Params) (ls : List Line) (bad : Str → OSample → OSample → Prop)
    (hbad : ∀ n s1 s2, bad n s1 s2 → ∀ h0, isError (histLoop P n h0 [s1, s2]) = true)
    (h : HistPairDoc ls bad) : isError (assemble P ls) = true := by
  obtain ⟨pre, n, t, mid, s1, s2, post, rfl, ht, hmid, hm1, hm2, hne, hfresh, hb⟩ := h
  apply isError_of_suffix_kept
  intro st hk
  rw [← kwType_eq]
  have := hist_pair_doc P n t ht mid post s1 s2 st hk (fun l hl => inFam_bridge n t l (hmid l hl)) hm1 hm2 hne hfresh
    (hbad n s1 s2 hb)
  simpa [List.append_assoc] using this

/-- bounds not strictly increasing between two consecutive bucket lines of one group: the DOCUMENT is rejected —
any family name, any position of the pair in the family block, anything before the block and after the pair; the two
lines must be new series (a repeated series at an unchanged timestamp is dropped before the histogram check) -/
theorem hist_bounds_not_increasing (P : Params) (ls : List Line) (h : HistBoundsNotIncreasingDoc P ls) :
    isError (assemble P ls) = true :=
  hist_pair_rule P ls _ (fun n s1 s2 ⟨b1, b2, g1, g2, hb1, hb2, hs, hle⟩ => bounds_pair_loop P n s1 s2 b1 b2 g1 g2 hb1 hb2 hs hle) h

/-- counts not cumulative between two consecutive bucket lines of one group: the DOCUMENT is rejected -/
theorem hist_counts_not_cumulative (P : Params) (ls : List Line) (h : HistCountsNotCumulativeDoc P ls) :
    isError (assemble P ls) = true :=
  hist_pair_rule P ls _ (fun n s1 s2 ⟨b1, b2, g1, g2, v1, v2, hb1, hb2, hs, hv1, hv2, hlt⟩ =>
    counts_pair_loop P n s1 s2 b1 b2 g1 g2 v1 v2 hb1 hb2 hs hv1 hv2 hlt) h

set_option maxRecDepth 8000 in
example : errOf (parseDoc "# TYPE a histogram\na_bucket{le=\"1\"} 1\na_bucket{le=\"3\"} 2\na_bucket{le=\"2\"} 2\na_bucket{le=\"+Inf\"} 2\n# TYPE b gauge\nb 1\n# EOF\n") = some .valueError := by decide
example : errOf (parseDoc "# TYPE a gaugehistogram\na_bucket{le=\"1\",x=\"y\"} 5\na_bucket{le=\"+Inf\",x=\"y\"} 4\n# EOF\n") = some .valueError := by decide

/-! ### the two rules enforced when a group is over, on the document's lines -/

theorem hist_group_rule (P : Params) (ls : List Line) (bad : Str → Str → List OSample → List Line → Prop)
    (hbad : ∀ n t grp rest, bad n t grp rest →
      (FamilyCloses n t rest ∧ ∀ S0, isError (checkHistogram P (S0 ++ grp) n) = true) ∨
      (∀ S0 ext, isError (checkHistogram P (S0 ++ grp ++ ext) n) = true))
    (h : HistGroupDoc ls bad) : isError (assemble P ls) = true := by
  obtain ⟨pre, n, t, mid, grp, rest, rfl, ht, hmid, hnames, hnd, hfresh, hb⟩ := h
  apply isError_of_suffix_kept
  intro st hk
  rw [← kwType_eq]
  have := hist_group_doc P n t ht mid rest grp st hk (fun l hl => inFam_bridge n t l (hmid l hl)) hnames hnd hfresh
    (hbad n t grp rest hb)
  simpa [List.append_assoc] using this

/-- **a histogram / gaugehistogram group without a `+Inf` bucket: the DOCUMENT is rejected** — any family name, the
group anywhere in the family block, anything before the block; the group's last bucket line `sb` (bound not `+Inf`) and
its `_count`/`_sum`/`_created` lines are new series; then the family is closed (`# TYPE/HELP/UNIT` of any family, `# EOF`,
a blank or malformed line, a sample of another family, or the end of the input) or a sample line of another group or
timestamp follows (then the rest of the document is arbitrary) -/
theorem hist_no_inf_document (P : Params) (ls : List Line) (h : HistNoInfDoc P ls) : isError (assemble P ls) = true := by
  refine hist_group_rule P ls _ ?_ h
  rintro n t grp rest ⟨sb, tail, b, g, hb, hinf, htail, hrefl, ⟨rfl, hcl⟩ | ⟨s', rfl, hend⟩⟩
  · left
    refine ⟨hcl, fun S0 => ?_⟩
    have := hist_no_inf_core P n S0 sb tail [] b g hb hinf htail trivial hrefl
    simpa using this
  · right
    intro S0 ext
    have := hist_no_inf_core P n S0 sb tail (s' :: ext) b g hb hinf htail hend hrefl
    simpa [List.append_assoc] using this

/-- **a group whose `_count` / `_gcount` differs from its last (`+Inf`) bucket: the DOCUMENT is rejected** — same
shape: the last bucket line, the group's other lines with the count line among them, all new series, then the closing
event -/
theorem hist_count_ne_inf_document (P : Params) (ls : List Line) (h : HistCountNeInfDoc P ls) :
    isError (assemble P ls) = true := by
  refine hist_group_rule P ls _ ?_ h
  rintro n t grp rest ⟨sb, t1, sc, t2, b, g, v, c, hb, ht1, hname, hin, ht2, hv, hc, hne, hrefl, ⟨rfl, hcl⟩ | ⟨s', rfl, hend⟩⟩
  · left
    refine ⟨hcl, fun S0 => ?_⟩
    have := hist_count_ne_inf_core P n S0 sb t1 sc t2 [] b g v c hb ht1 hname hin ht2 hv hc hne trivial hrefl
    simpa using this
  · right
    intro S0 ext
    have := hist_count_ne_inf_core P n S0 sb t1 sc t2 (s' :: ext) b g v c hb ht1 hname hin ht2 hv hc hne hend hrefl
    simpa [List.append_assoc] using this

-- every closing event: the next family's metadata, a sample of another family, `# EOF`, the end of the input, another group
example : errOf (parseDoc "# TYPE a histogram\na_bucket{le=\"1\"} 1\na_count 1\na_sum 1\n# TYPE b gauge\nb 1\n# EOF\n") = some .valueError := by decide
example : errOf (parseDoc "# TYPE a histogram\na_bucket{le=\"1\"} 1\nb 1\n# EOF\n") = some .valueError := by decide
example : errOf (parseDoc "# TYPE a histogram\na_bucket{le=\"1\"} 1\n# HELP a x\n# EOF\n") = some .valueError := by decide
example : errOf (parseDoc "# TYPE a histogram\na_bucket{le=\"1\"} 1\n") = some .valueError := by decide
example : errOf (parseDoc "# TYPE a gaugehistogram\na_bucket{le=\"1\",x=\"1\"} 1\na_bucket{le=\"+Inf\",x=\"2\"} 1\n# EOF\n") = some .valueError := by decide
example : errOf (parseDoc "# TYPE a histogram\na_bucket{le=\"+Inf\"} 2\na_sum 1\na_count 3\n# TYPE b gauge\n# EOF\n") = some .valueError := by decide
set_option maxRecDepth 8000 in
example : errOf (parseDoc "# TYPE a histogram\na_bucket{le=\"+Inf\",x=\"1\"} 2\na_count{x=\"1\"} 3\na_sum{x=\"1\"} 1\na_bucket{le=\"+Inf\",x=\"2\"} 2\na_count{x=\"2\"} 2\na_sum{x=\"2\"} 1\n# EOF\n") = some .valueError := by decide
set_option maxRecDepth 8000 in
example : isError (parseDoc "# TYPE a histogram\na_bucket{le=\"+Inf\",x=\"1\"} 2\na_count{x=\"1\"} 2\na_sum{x=\"1\"} 1\na_bucket{le=\"+Inf\",x=\"2\"} 2\na_count{x=\"2\"} 2\na_sum{x=\"2\"} 1\n# TYPE b gauge\nb 1\n# EOF\n") = false := by decide

/-- the hypothesis of the two theorems above — every timestamp in the list equals itself — holds outright for absent
and `Timestamp` timestamps, and for float timestamps whenever `==` is reflexive on them (`_parse_timestamp` never
returns NaN) -/
example : ∀ t : Option OTs, (match t with | some (.flt b) => toyP.eq (.flt b) (.flt b) = true | _ => True) → tsEq toyP t t = true := by
  intro t h
  cases t with
  | none => rfl
  | some x => cases x with
    | stamp a b => simp [tsEq]
    | flt b => exact h

end PromVerif.Props.C15
