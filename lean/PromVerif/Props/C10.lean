/-
C10 — the mmap store returns exactly what was written, across growth and reopen.   (theorems are being added)
-/
import PromVerif.Model.MmapDict
import PromVerif.Spec.MmapDict

namespace PromVerif.Props.C10
open PromVerif.Generated.Mmap

/-- the extractor found every site of mmap_dict.py in the shape it understands -/
theorem extract_ok : extractOk = true := by decide

end PromVerif.Props.C10
