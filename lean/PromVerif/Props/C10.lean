/-
C10 — the mmap store returns exactly what was written, across growth and reopen.

Model: `Model/MmapDict.lean` (bytes of the file, capacity, used, positions).  Spec: `Spec/MmapDict.lean` (insertion-ordered
map key → (value, timestamp) as 64-bit patterns).  All theorems are for every history, every key (any encoded length, any
Unicode scalar values), every pair of 64-bit patterns, any number of doublings and reopens.  The only hypotheses:
`8 ≤ initSize` (the initial file holds a header), `4 ≤ pageSize`, and `Fits`: the file stays below 2^31 bytes
(`struct.pack('i', used)` raises from there on — see obligations/C10.json, assumptions).
-/
import PromVerif.Model.MmapDict
import PromVerif.Spec.MmapDict
import PromVerif.Lemmas.MmapStep

namespace PromVerif.Props.C10
open PromVerif.Py PromVerif.Model.MmapDict PromVerif.Generated.Mmap PromVerif.Lemmas.Mmap
open PromVerif.Spec.MmapDict (Store)

/-- the extractor found every site of mmap_dict.py in the shape it understands -/
theorem extract_ok : extractOk = true := by decide

/-! ### layout arithmetic, for every key length (all residues mod 8), on the two extracted source expressions -/

/-- reader and writer agree on the padding; the value field is 8-aligned; the key is padded by 1..8 bytes -/
theorem layout_all_lengths (n : Nat) :
    n + padCountWriter n = paddedLenReader n ∧ (lenFieldSkip + paddedLenReader n) % 8 = 0 ∧
    n < paddedLenReader n ∧ paddedLenReader n ≤ n + 8 ∧ (lenFieldSkip + paddedLenReader n + valueSkip) % 8 = 0 := by
  unfold padCountWriter paddedLenReader lenFieldSkip valueSkip; omega

example : paddedLenReader 0 = 4 ∧ paddedLenReader 3 = 4 ∧ paddedLenReader 4 = 12 ∧ paddedLenReader 11 = 12 := by decide

/-! ### the invariant -/

/-- the abstraction: what `read_value` returns for every key of the in-memory index, in index order -/
abbrev abs (d : MmapedDict) : Store := absOf d

/-- representation invariant without the zero tail (this is what survives a crash, C11): the file is header + the encoded
entries of some entry list `es` with distinct keys + any tail; `used` counts exactly the entries; capacity = file
length; positions = offsets of the value fields of `es`, in order -/
def Inv (d : MmapedDict) : Prop := ∃ es tail, Rep d es tail

/-- the full invariant: additionally every byte beyond `used` is zero -/
def WF (d : MmapedDict) : Prop := ∃ es tail, Rep d es tail ∧ ZeroTail tail

theorem abs_eq {d es tail} (h : Rep d es tail) : abs d = triples es := h.absOf_eq

theorem WF.inv {d} (h : WF d) : Inv d := let ⟨es, tail, hr, _⟩ := h; ⟨es, tail, hr⟩

/-- what `WF` says in plain terms: header ≥ 8 and equal to the stored counter, entries tile [8, used) in multiples of 8,
capacity = file length ≥ used, every indexed value field is 8-aligned and inside the used region, the index has one
position per key, bytes beyond `used` are zero -/
theorem wf_facts {d} (h : WF d) :
    8 ≤ d.used ∧ d.used % 8 = 0 ∧ unpackInt d.file headerPos = .ok (d.used : Int) ∧
    d.capacity = d.file.length ∧ d.used ≤ d.capacity ∧
    (∀ x ∈ d.positions, x.2 % 8 = 0 ∧ 8 ≤ x.2 ∧ x.2 + 16 ≤ d.used) ∧ (d.positions.map (·.1)).Nodup ∧
    (∀ b ∈ d.file.drop d.used, b = 0) := by
  obtain ⟨es, tail, hr, hz⟩ := h
  have hu := hr.file.used_eq
  have hl := hr.file.length
  have hmod : (encEntries es).length % 8 = 0 := by
    clear hu hl hr
    induction es with
    | nil => simp
    | cons e es ih => simp; have := entryLen_mod e.key; omega
  refine ⟨by omega, by omega, hr.file.unpack_header, hr.cap, by rw [hr.cap]; omega, ?_, ?_, ?_⟩
  · intro x hx
    rw [hr.pos] at hx
    have := posOf_aligned es 8 (by omega) x hx
    have h8 : 8 ≤ x.2 := by
      clear this
      have : ∀ (es : List Entry) (p : Nat), ∀ x ∈ posOf p es, p ≤ x.2 := by
        intro es
        induction es with
        | nil => intro p x hx; simp [posOf] at hx
        | cons e es ih =>
          intro p x hx
          simp only [posOf, List.mem_cons] at hx
          rcases hx with rfl | hx
          · simp [valuePos]; omega
          · have := ih _ x hx; omega
      exact this es 8 x hx
    omega
  · rw [hr.keys_eq]; exact hr.nodup
  · intro b hb
    rw [hr.file.file_eq, ← List.append_assoc, List.drop_left' (by simp; omega)] at hb
    exact hz b hb

/-- room for the entry an operation may have to create: the file stays below 2^31 bytes -/
def Fits (d : MmapedDict) (op : Op) : Prop := d.used + opNeed (d.positions.map (·.1)) op < 2147483648

/-- the same for a whole history of a fresh writer: one entry per distinct key -/
def FitsAll (ops : List Op) : Prop := 8 + need [] ops < 2147483648

/-! ### constructor and steps -/

/-- a fresh store (absent or empty file) opens, is well formed and empty -/
theorem wf_init (initSize : Nat) (h : 8 ≤ initSize) :
    ∃ d tr, init initSize [] = .ok (d, tr) ∧ WF d ∧ abs d = [] := by
  refine ⟨freshStore initSize, _, init_fresh initSize h, ⟨[], _, freshStore_rep initSize h, ?_⟩, ?_⟩
  · intro b hb; simp [zeros] at hb; exact hb.2
  · exact abs_eq (freshStore_rep initSize h)

example : ∃ d tr, init 64 [] = .ok (d, tr) ∧ WF d ∧ abs d = [] := wf_init 64 (by decide)

/-- every operation succeeds, preserves the invariant and refines the spec step:
`abs (step d op) = Spec.step (abs d) op` -/
theorem inv_step {d} (h : Inv d) (op : Op) (initSize : Nat) (hf : Fits d op) :
    ∃ d' tr, step initSize d op = .ok (d', tr) ∧ Inv d' ∧ abs d' = Spec.MmapDict.step (abs d) (toSpec op) := by
  obtain ⟨es, tail, hr⟩ := h
  unfold Fits at hf
  rw [hr.keys_eq] at hf
  obtain ⟨d', tr, es', tail', hs, hr', ht, _, _, _⟩ := step_rep hr op initSize hf
  exact ⟨d', tr, hs, ⟨es', tail', hr'⟩, by rw [abs_eq hr', abs_eq hr, ht]⟩

/-- … and the zero tail is preserved as well -/
theorem wf_step {d} (h : WF d) (op : Op) (initSize : Nat) (hf : Fits d op) :
    ∃ d' tr, step initSize d op = .ok (d', tr) ∧ WF d' ∧ abs d' = Spec.MmapDict.step (abs d) (toSpec op) := by
  obtain ⟨es, tail, hr, hz⟩ := h
  unfold Fits at hf
  rw [hr.keys_eq] at hf
  obtain ⟨d', tr, es', tail', hs, hr', ht, hz', _, _⟩ := step_rep hr op initSize hf
  exact ⟨d', tr, hs, ⟨es', tail', hr', hz' hz⟩, by rw [abs_eq hr', abs_eq hr, ht]⟩

/-- `abs (step d op) = Spec.step (abs d) op`, as an equation about whatever the step returned -/
theorem abs_step {d d' tr} (h : Inv d) (op : Op) (initSize : Nat) (hf : Fits d op)
    (hs : step initSize d op = .ok (d', tr)) : abs d' = Spec.MmapDict.step (abs d) (toSpec op) := by
  obtain ⟨d'', tr'', hs', _, ha⟩ := inv_step h op initSize hf
  rw [hs] at hs'
  cases hs'
  exact ha

/-! ### the three readers -/

/-- `read_all_values()` returns the abstract state: every key once, in first-write order, with the last value and
timestamp bit for bit (by `inv_step`, `abs` follows the spec) -/
theorem read_all_eq_spec {d} (h : Inv d) : readAllValues d = .ok (abs d) := by
  obtain ⟨es, tail, hr⟩ := h
  unfold readAllValues
  simp only [hr.file.raw_ok, bind, Except.bind, abs_eq hr]
  exact congrArg _ (scanOut_triples es 8)

/-- the collector's file reader on the bytes returns what `read_all_values()` returns on the handle -/
theorem reader_agrees {d} (h : Inv d) (pageSize : Nat) (hp : 4 ≤ pageSize) :
    (readAllValuesFromFile pageSize (close d)).map (fun items => items.map fun (x : Item) => (x.1, x.2.1, x.2.2.1))
      = readAllValues d := by
  obtain ⟨es, tail, hr⟩ := h
  rw [read_all_eq_spec ⟨es, tail, hr⟩, abs_eq hr]
  simp only [close, hr.file.fromFile_ok pageSize hp, Except.map]
  exact congrArg _ (scanOut_triples es 8)

/-- close and reopen by a new writer, at any point: same state (indeed the same object), no file effect -/
theorem reopen_preserves {d} (h : Inv d) (initSize : Nat) :
    ∃ d', init initSize (close d) = .ok (d', []) ∧ abs d' = abs d ∧ Inv d' ∧ d' = d := by
  obtain ⟨es, tail, hr⟩ := h
  exact ⟨d, init_reopen hr initSize, rfl, ⟨es, tail, hr⟩, rfl⟩

/-- `read_value` after reopen returns the stored pair of every key -/
theorem read_value_after_reopen {d} (h : Inv d) (initSize : Nat) (k : Key) (v t : UInt64) (hk : (k, v, t) ∈ abs d) :
    ∃ d', init initSize (close d) = .ok (d', []) ∧ readValue d' k = .ok ((v, t), d', []) := by
  obtain ⟨es, tail, hr⟩ := h
  refine ⟨d, init_reopen hr initSize, ?_⟩
  rw [abs_eq hr] at hk
  obtain ⟨e, he, hke⟩ := List.mem_map.mp hk
  cases hke
  obtain ⟨es1, e', es2, rfl, hk', hn⟩ := split_first es e.key (List.mem_map.mpr ⟨e, he, rfl⟩)
  -- keys are distinct, so the first entry with this key is `e`
  have hee : e' = e := by
    have hnd := hr.nodup
    rcases List.mem_append.mp he with h1 | h1
    · exact absurd (List.mem_map.mpr ⟨e, h1, rfl⟩) hn
    · rcases List.mem_cons.mp h1 with rfl | h2
      · rfl
      · exfalso
        simp only [keys_append, keys_cons] at hnd
        have := (List.nodup_append.mp hnd).2.1
        rw [List.nodup_cons] at this
        exact this.1 (hk' ▸ List.mem_map.mpr ⟨e, h2, rfl⟩)
  subst hee
  exact readValue_present hr hn

/-! ### growth: zero, one or several doublings -/

/-- the doubling loop terminates from any capacity ≥ 1 for any demand, through an increasing chain of capacities, and
ends with room for the entry (the fuel of the model, `need`, always suffices) -/
theorem growth_terminates (cap need : Nat) (h : 1 ≤ cap) :
    ∃ caps, growCaps need cap need = .ok caps ∧ List.Pairwise (· ≤ ·) (cap :: caps) ∧ need ≤ lastCap cap caps :=
  growCaps_ok need cap need h (by omega)

example : growCaps 60 64 60 = .ok [] := rfl
example : growCaps 100 64 100 = .ok [128] := rfl
example : growCaps 1000 64 1000 = .ok [128, 256, 512, 1024] := rfl

/-! ### whole histories -/

/-- every history of a fresh writer runs without error, ends well formed, and all three readers return the spec state
(`reopen` steps included at any point, any number of times; any growth) -/
theorem run_refines (initSize pageSize : Nat) (ops : List Op) (hi : 8 ≤ initSize) (hp : 4 ≤ pageSize) (hf : FitsAll ops) :
    ∃ d tr, run initSize ops = .ok (d, tr) ∧ WF d ∧ abs d = Spec.MmapDict.run [] (ops.map toSpec) ∧
      readAllValues d = .ok (Spec.MmapDict.run [] (ops.map toSpec)) ∧
      (readAllValuesFromFile pageSize (close d)).map (fun items => items.map fun (x : Item) => (x.1, x.2.1, x.2.2.1))
        = .ok (Spec.MmapDict.run [] (ops.map toSpec)) := by
  have hr0 := freshStore_rep initSize hi
  obtain ⟨d, tr, es, tail, hrun, hr, ht, hz⟩ := runFrom_rep initSize ops hr0 (by simpa [freshStore, FitsAll] using hf)
  have hzt : ZeroTail (zeros (initSize - 8)) := by intro b hb; simp [zeros] at hb; exact hb.2
  have ha : abs d = Spec.MmapDict.run [] (ops.map toSpec) := by rw [abs_eq hr, ht]; rfl
  refine ⟨d, .createEmpty :: ([.truncate initSize, .sliceWrite 0 (le 4 8)] ++ tr),
    by simp [run, init_fresh initSize hi, hrun, bind, Except.bind], ⟨es, tail, hr, hz hzt⟩, ha, ?_, ?_⟩
  · rw [read_all_eq_spec ⟨es, tail, hr⟩, ha]
  · rw [reader_agrees ⟨es, tail, hr⟩ pageSize hp, read_all_eq_spec ⟨es, tail, hr⟩, ha]

/-! ### what the spec state is: every key once, in first-write order, last value bit for bit -/

theorem spec_keys_first_write_order (ops : List Op) :
    (Spec.MmapDict.run [] (ops.map toSpec)).map (·.1) = ops.foldl opSeen [] ∧
    ((Spec.MmapDict.run [] (ops.map toSpec)).map (·.1)).Nodup := by
  have gen : ∀ (ops : List Op) (s : Store), (s.map (·.1)).Nodup →
      (Spec.MmapDict.run s (ops.map toSpec)).map (·.1) = ops.foldl opSeen (s.map (·.1)) ∧
      ((Spec.MmapDict.run s (ops.map toSpec)).map (·.1)).Nodup := by
    intro ops
    induction ops with
    | nil => intro s hs; exact ⟨rfl, hs⟩
    | cons op ops ih =>
      intro s hs
      have key : (Spec.MmapDict.step s (toSpec op)).map (·.1) = opSeen (s.map (·.1)) op := by
        have hw : ∀ (s : Store) (k : Key) (v t : UInt64),
            (s.write k v t).map (·.1) = if k ∈ s.map (·.1) then s.map (·.1) else s.map (·.1) ++ [k] := by
          intro s k v t
          induction s with
          | nil => simp [Store.write]
          | cons e s ih =>
            by_cases h : e.1 = k
            · simp [Store.write, h]
            · have h' : ¬ k = e.1 := fun x => h x.symm
              simp only [Store.write, h, if_false, List.map_cons, ih, List.mem_cons, h', false_or]
              split <;> simp
        have hh : ∀ (s : Store) (k : Key), s.has k = decide (k ∈ s.map (·.1)) := by
          intro s k
          induction s with
          | nil => simp [Store.has]
          | cons e s ih =>
            simp only [Store.has, List.any_cons, List.map_cons, List.mem_cons] at ih ⊢
            rw [ih]
            by_cases h : e.1 = k
            · simp [h]
            · have h' : ¬ k = e.1 := fun x => h x.symm
              simp [h, h']
        cases op with
        | write k v t => simp [toSpec, Spec.MmapDict.step, opSeen, opKey?, hw]
        | read k =>
          simp only [toSpec, Spec.MmapDict.step, opSeen, opKey?, Store.touch, hh]
          by_cases h : k ∈ s.map (·.1) <;> simp [h]
        | reopen => simp [toSpec, Spec.MmapDict.step, opSeen, opKey?]
      have hs' : ((Spec.MmapDict.step s (toSpec op)).map (·.1)).Nodup := by
        rw [key]
        unfold opSeen
        split
        · split
          · exact hs
          · rename_i k _ hk
            rw [List.nodup_append]
            exact ⟨hs, by simp, by intro a ha b hb; simp at hb; subst hb; exact fun e => hk (e ▸ ha)⟩
        · exact hs
      have := ih (Spec.MmapDict.step s (toSpec op)) hs'
      simp only [List.map_cons, Spec.MmapDict.run, List.foldl_cons] at this ⊢
      rw [key] at this
      exact this
  simpa using gen ops [] (by simp)

/-- the value and timestamp a key holds are the last ones written, bit for bit; other keys are untouched -/
theorem spec_last_write_wins (s : Store) (k k' : Key) (v t : UInt64) :
    (s.write k v t).get k = some (v, t) ∧ (k' ≠ k → (s.write k v t).get k' = s.get k') := by
  induction s with
  | nil =>
    constructor
    · simp [Store.write, Store.get]
    · intro h; have : (k == k') = false := by simpa using fun e => h e.symm
      simp [Store.write, Store.get, this]
  | cons e s ih =>
    by_cases h : e.1 = k
    · constructor
      · simp [Store.write, h, Store.get]
      · intro hne
        have h1 : (k == k') = false := by simpa using fun e => hne e.symm
        have h2 : (e.1 == k') = false := by rw [h]; exact h1
        simp [Store.write, h, Store.get, h1]
    · have hb : (e.1 == k) = false := by simpa using h
      constructor
      · have := ih.1
        simp only [Store.get] at this
        simp [Store.write, h, Store.get, hb, this]
      · intro hne
        have := ih.2 hne
        simp only [Store.get] at this
        simp only [Store.write, h, if_false, Store.get, List.find?_cons]
        split <;> simp_all

/-! ### non-vacuity: a concrete 3-write history over a 64-byte file that crosses a doubling, then reopens and overwrites -/

def demoOps : List Op :=
  [.write ['a'] 1 2, .write ['é', 'x'] 0x7ff8000000000001 0x8000000000000000,
   .write ['k', 'e', 'y', '-', '3'] 5 6, .reopen, .write ['a'] 7 8, .read ['n', 'e', 'w']]

theorem demo_fits : FitsAll demoOps := by unfold FitsAll; decide

example : ∃ d tr, run 64 demoOps = .ok (d, tr) ∧ WF d ∧
    abs d = [(['a'], 7, 8), (['é', 'x'], 0x7ff8000000000001, 0x8000000000000000), (['k', 'e', 'y', '-', '3'], 5, 6),
             (['n', 'e', 'w'], 0, 0)] := by
  obtain ⟨d, tr, h1, h2, h3, _⟩ := run_refines 64 4096 demoOps (by decide) (by decide) demo_fits
  exact ⟨d, tr, h1, h2, by rw [h3]; decide⟩

/-- the hypotheses of the step and reader theorems are met by concrete states: the fresh 64-byte store, and the store
after the demo history (four keys, one doubling, a reopen) -/
example : WF (freshStore 64) :=
  ⟨[], _, freshStore_rep 64 (by decide), by intro b hb; simp [zeros] at hb; exact hb⟩

example : Fits (freshStore 64) (.write ['k', 'e', 'y'] 1 2) := by unfold Fits; decide

example : ∃ d, Inv d ∧ (abs d).length = 4 ∧ readAllValues d = .ok (abs d) ∧
    (∃ d', init 64 (close d) = .ok (d', []) ∧ abs d' = abs d) := by
  obtain ⟨d, tr, _, h2, h3, _⟩ := run_refines 64 4096 demoOps (by decide) (by decide) demo_fits
  obtain ⟨d', hd', ha, _⟩ := reopen_preserves h2.inv 64
  exact ⟨d, h2.inv, by rw [h3]; decide, read_all_eq_spec h2.inv, d', hd', ha⟩

end PromVerif.Props.C10
