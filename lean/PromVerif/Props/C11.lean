/-
C11 — every intermediate on-disk state is readable and a prefix state.   (theorems are being added)
-/
import PromVerif.Model.MmapDict
import PromVerif.Spec.MmapDict

namespace PromVerif.Props.C11
open PromVerif.Generated.Mmap

/-- the extractor found every site of mmap_dict.py in the shape it understands -/
theorem extract_ok : extractOk = true := by decide

/-- the order of the file effects in the source: the file is sized before it is mapped and given a header; an entry is
written completely before the used-bytes header is published; growth is a loop; a value update is one 16-byte slice
assignment -/
theorem skeleton_wellformed :
    ctorEffects = [.openFile, .truncateInitial, .remap, .writeHeader] ∧
    initValueEffects = [.growLoop, .writeEntry, .writeHeader] ∧
    growBody = [.truncateGrow, .remap] ∧ growKind = .whileLoop ∧
    writeValueEffects = [.callInitValue, .writeValue] ∧
    packTwoDoublesSlice = twoDoublesWidth ∧ packIntegerSlice = intWidth ∧ readerUsesHeaderBound = true := by decide

end PromVerif.Props.C11
