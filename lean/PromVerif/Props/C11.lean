/-
C11 — every intermediate on-disk state of the store is readable and a prefix state.

The store of C10, but every writer operation is expanded into its list of file effects
(`createEmpty | truncate n | sliceWrite pos bytes`) in the order the source performs them (`Generated/Mmap.lean`,
re-extracted on every run: `skeleton_wellformed`).  A cut point `k` of a history is the file system after the first `k`
effects.  Hypotheses as in C10: `8 ≤ initSize`, `4 ≤ pageSize`, the file stays below 2^31 bytes.

F11 (found by this model, repaired in /repo): at the cut between file creation and the first truncate the file has length
0; the collector's reader used to raise struct.error there, which failed the whole scrape.  The reader now returns the
empty state for a file shorter than the 4-byte counter.  The guard is re-extracted on every run
(`Generated.Mmap.shortFileGuard`, pinned by `skeleton_wellformed`); if it is removed or weakened, `skeleton_wellformed`,
`short_file_reads_empty`, `every_cut_readable` and `one_file_cannot_fail_scrape` no longer check.
-/
import PromVerif.Model.MmapDict
import PromVerif.Spec.MmapDict
import PromVerif.Lemmas.MmapOrder

namespace PromVerif.Props.C11
open PromVerif.Py PromVerif.Model.MmapDict PromVerif.Generated.Mmap PromVerif.Lemmas.Mmap
open PromVerif.Spec.MmapDict (Store PrefixFrom PrefixState Written)

/-- the extractor found every site of mmap_dict.py in the shape it understands -/
theorem extract_ok : extractOk = true := by decide

/-- the order of the file effects in the source: the file is sized before it is mapped and given a header; an entry is
written completely before the used-bytes header is published; growth is a loop; a value update is one 16-byte slice
assignment; the reader is bounded by the header and treats a file shorter than the counter as empty; `_init_value` writes the whole entry, the two zero doubles included -/
theorem skeleton_wellformed :
    ctorEffects = [.openFile, .truncateInitial, .remap, .writeHeader] ∧
    initValueEffects = [.growLoop, .writeEntry, .writeHeader] ∧
    growBody = [.truncateGrow, .remap] ∧ growKind = .whileLoop ∧
    writeValueEffects = [.callInitValue, .writeValue] ∧
    packTwoDoublesSlice = twoDoublesWidth ∧ packIntegerSlice = intWidth ∧ readerUsesHeaderBound = true ∧
    shortFileGuard = some intWidth ∧ entryPacksDoubles = true ∧ entryReserve = 0 := by decide

/-- the history fits below 2^31 bytes: header + one entry per distinct key -/
def FitsAll (ops : List Op) : Prop := 8 + need [] ops < 2147483648

/-- the file system after the first `k` effects -/
def cut (effs : List Effect) (k : Nat) : Option Bytes := applyEffects none (effs.take k)

/-- shape of every history of a fresh writer: create, size, header, then the operations; every later cut is a
represented file of a prefix state -/
theorem run_shape (initSize : Nat) (ops : List Op) (hi : 8 ≤ initSize) (hf : FitsAll ops) :
    ∃ d tr, run initSize ops = .ok (d, .createEmpty :: .truncate initSize :: .sliceWrite 0 (le 4 8) :: tr) ∧
      applyEffects (some (freshStore initSize).file) tr = some d.file ∧
      ∀ s ∈ states (some (freshStore initSize).file) tr, ∃ file esx, s = some file ∧ CutRep file esx ∧
        PrefixState (ops.map toSpec) (triples esx) := by
  have hr0 := freshStore_rep initSize hi
  obtain ⟨d, tr, _, _, hrun, _, _, _, _, hfin, hcuts⟩ := cuts_from initSize ops hr0 (by simpa [freshStore, FitsAll] using hf)
  exact ⟨d, tr, by simp [run, init_fresh initSize hi, hrun, bind, Except.bind], hfin, hcuts⟩

/-- the effect list of a history, replayed on an empty file system, produces exactly the file of the C10 store: the
effect expansion and the state model are the same writer -/
theorem effects_replay (initSize : Nat) (ops : List Op) (hi : 8 ≤ initSize) (hf : FitsAll ops) :
    ∃ d effs, run initSize ops = .ok (d, effs) ∧ applyEffects none effs = some d.file := by
  obtain ⟨d, tr, hrun, hfin, _⟩ := run_shape initSize ops hi hf
  refine ⟨d, _, hrun, ?_⟩
  rw [← hfin]
  simp [applyEffects, applyEffect, truncate, sliceWrite_header_zeros initSize hi, freshStore]

/-- the cuts of such an effect list -/
theorem cut_cases (initSize : Nat) (tr : List Effect) (hi : 8 ≤ initSize) (k : Nat) :
    let effs := Effect.createEmpty :: .truncate initSize :: .sliceWrite 0 (le 4 8) :: tr
    (k = 0 ∧ cut effs k = none) ∨ (k = 1 ∧ cut effs k = some []) ∨ (k = 2 ∧ cut effs k = some (zeros initSize)) ∨
    (3 ≤ k ∧ cut effs k ∈ states (some (freshStore initSize).file) tr) := by
  intro effs
  match k with
  | 0 => exact Or.inl ⟨rfl, rfl⟩
  | 1 => exact Or.inr (Or.inl ⟨rfl, rfl⟩)
  | 2 =>
    refine Or.inr (Or.inr (Or.inl ⟨rfl, ?_⟩))
    simp [cut, effs, applyEffects, applyEffect, truncate]
  | k + 3 =>
    refine Or.inr (Or.inr (Or.inr ⟨by omega, ?_⟩))
    have : cut effs (k + 3) = applyEffects (some (freshStore initSize).file) (tr.take k) := by
      simp [cut, effs, applyEffects, applyEffect, truncate, sliceWrite_header_zeros initSize hi, freshStore]
    rw [this]
    exact cut_mem_states _ _ _

/-- for every history and EVERY cut (the zero-length one included), the collector's file reader succeeds and returns the
spec state after some prefix of the completed operations, optionally plus the in-flight new key at (0, 0) -/
theorem every_cut_readable (initSize pageSize : Nat) (ops : List Op) (hi : 8 ≤ initSize) (hp : 4 ≤ pageSize)
    (hf : FitsAll ops) :
    ∃ d effs, run initSize ops = .ok (d, effs) ∧ ∀ k,
      (k = 0 ∧ cut effs k = none) ∨
      ∃ file items, cut effs k = some file ∧ readAllValuesFromFile pageSize file = .ok items ∧
        PrefixState (ops.map toSpec) (tr3 items) := by
  obtain ⟨d, tr, hrun, _, hcuts⟩ := run_shape initSize ops hi hf
  refine ⟨d, _, hrun, ?_⟩
  intro k
  rcases cut_cases initSize tr hi k with h | h | h | h
  · exact Or.inl h
  · exact Or.inr ⟨_, [], h.2, fromFile_empty pageSize, prefixFrom_here _ _⟩
  · exact Or.inr ⟨_, [], h.2, fromFile_zeros pageSize initSize (by omega) hp, prefixFrom_here _ _⟩
  · obtain ⟨file, esx, hs, ⟨u, tl, hfr, _⟩, hpre⟩ := hcuts _ h.2
    refine Or.inr ⟨file, scanOut 8 esx, hs, hfr.fromFile_ok pageSize hp, ?_⟩
    simp only [tr3]; rw [scanOut_triples]; exact hpre

/-- the repaired behaviour at the first cut of every history (file created, not yet sized): the file is empty and the
reader returns the empty state -/
theorem zero_length_cut_reads_empty (initSize pageSize : Nat) (ops : List Op) (hi : 8 ≤ initSize) (hf : FitsAll ops) :
    ∃ d effs, run initSize ops = .ok (d, effs) ∧ cut effs 1 = some [] ∧ readAllValuesFromFile pageSize [] = .ok [] := by
  obtain ⟨d, tr, hrun, _, _⟩ := run_shape initSize ops hi hf
  exact ⟨d, _, hrun, rfl, fromFile_empty pageSize⟩

/-- any file shorter than the 4-byte counter reads as empty (this is the theorem that breaks if the guard is removed) -/
theorem short_file_reads_empty (pageSize : Nat) (f : Bytes) (h : f.length < 4) :
    readAllValuesFromFile pageSize f = .ok [] := fromFile_short pageSize f h

/-- at the cut after the initial truncate and before the header write the file is all zero (used = 0): the reader returns
the empty state, a new writer opens it as a fresh store -/
theorem all_zero_file_ok (initSize pageSize n : Nat) (hn : 8 ≤ n) (hp : 4 ≤ pageSize) :
    readAllValuesFromFile pageSize (zeros n) = .ok [] ∧
    init initSize (zeros n) = .ok (freshStore n, [.sliceWrite 0 (le 4 8)]) :=
  ⟨fromFile_zeros pageSize n (by omega) hp, init_zeros initSize n hn⟩

/-- at EVERY cut where the file exists — the zero-length one included — a new writer's constructor succeeds, yields a
store satisfying the (crash-tolerant) invariant of C10, whose content is a prefix state -/
theorem every_cut_reopenable (initSize : Nat) (ops : List Op) (hi : 8 ≤ initSize) (hf : FitsAll ops) :
    ∃ d effs, run initSize ops = .ok (d, effs) ∧ ∀ k, 1 ≤ k →
      ∃ file d' tr' es tail, cut effs k = some file ∧ init initSize file = .ok (d', tr') ∧ Rep d' es tail ∧
        PrefixState (ops.map toSpec) (absOf d') := by
  obtain ⟨d, tr, hrun, _, hcuts⟩ := run_shape initSize ops hi hf
  refine ⟨d, _, hrun, ?_⟩
  intro k hk
  have hfresh := freshStore_rep initSize hi
  rcases cut_cases initSize tr hi k with h | h | h | h
  · omega
  · exact ⟨_, _, _, [], _, h.2, init_fresh initSize hi, hfresh, by rw [hfresh.absOf_eq]; exact prefixFrom_here _ _⟩
  · exact ⟨_, _, _, [], _, h.2, init_zeros initSize initSize hi, hfresh,
      by rw [hfresh.absOf_eq]; exact prefixFrom_here _ _⟩
  · obtain ⟨file, esx, hs, hc, hpre⟩ := hcuts _ h.2
    obtain ⟨d', hinit, tl, hr⟩ := init_cutrep hc initSize
    exact ⟨file, d', [], esx, tl, hs, hinit, hr, by rw [hr.absOf_eq]; exact hpre⟩

/-- a NEW writer that takes over the file at any cut can carry on with any history: every operation succeeds, the store
stays represented, and all three readers return the spec run of the continuation started from the prefix state the new
writer found.  So after a crash + reopen + continuation every key and value read is one the dead writer completed, the
in-flight key at zero, or one the continuation wrote.

On the zero tail: the reopened store satisfies `Rep` with an ARBITRARY tail, not C10's `WF`.  At the cut between the
entry write and the header write the bytes beyond `used` are the orphaned entry, which is not zero (`orphan_tail`); the
clause "bytes beyond used are zero" is therefore not available to a new writer, and it is not needed: `_init_value`
writes the whole entry, value and timestamp slots included (`skeleton_wellformed`: `entryPacksDoubles`), so whatever the
tail holds is overwritten before the header covers it.  All step theorems of C10 are proved from `Inv` (no zero tail);
`WF` adds the zero tail only as a further invariant of crash-free histories. -/
theorem continuation_from_cut (initSize pageSize : Nat) (ops : List Op) (hi : 8 ≤ initSize) (hp : 4 ≤ pageSize)
    (hf : FitsAll ops) :
    ∃ d effs, run initSize ops = .ok (d, effs) ∧ ∀ k, 1 ≤ k →
      ∃ file d' tr', cut effs k = some file ∧ init initSize file = .ok (d', tr') ∧
        PrefixState (ops.map toSpec) (absOf d') ∧
        ∀ ops2, d'.used + need (d'.positions.map (·.1)) ops2 < 2147483648 →
          ∃ d'' tr'' es tl, runFrom initSize d' ops2 = .ok (d'', tr'') ∧ Rep d'' es tl ∧
            absOf d'' = Spec.MmapDict.run (absOf d') (ops2.map toSpec) ∧
            readAllValues d'' = .ok (absOf d'') ∧
            (readAllValuesFromFile pageSize (close d'')).map tr3 = .ok (absOf d'') := by
  obtain ⟨d, effs, hrun, hall⟩ := every_cut_reopenable initSize ops hi hf
  refine ⟨d, effs, hrun, ?_⟩
  intro k hk
  obtain ⟨file, d', tr', es, tail, hc, hinit, hr, hpre⟩ := hall k hk
  refine ⟨file, d', tr', hc, hinit, hpre, ?_⟩
  intro ops2 hfit
  rw [hr.keys_eq] at hfit
  obtain ⟨d'', tr'', es'', tl'', hrun2, hr2, ht2, _⟩ := runFrom_rep initSize ops2 hr hfit
  have hrd := hr2.readers pageSize hp
  exact ⟨d'', tr'', es'', tl'', hrun2, hr2, by rw [hr2.absOf_eq, hr.absOf_eq, ht2], hrd.1, hrd.2⟩

/-- the file at the cut between the entry write and the header write: represented with the OLD entries, and its tail —
the orphaned entry — is not zero -/
theorem orphan_tail {file used es tail} (h : FileRep file used es tail) (k : Key) (z : Nat)
    (hroom : entryLen k ≤ tail.length + z) :
    FileRep (sliceWrite (file ++ zeros z) used (encEntry (fresh k))) used es
      (encEntry (fresh k) ++ (tail ++ zeros z).drop (entryLen k)) ∧
    ¬ ZeroTail (encEntry (fresh k) ++ (tail ++ zeros z).drop (entryLen k)) :=
  ⟨⟨(init_value_stages h k z hroom).1, h.used_eq, h.used_lt⟩, orphan_tail_not_zero _ _⟩

/-- the effects of a longer history extend those of each of its prefixes: the cuts of the prefix are cuts of the whole -/
theorem run_extends (initSize : Nat) (ops rest : List Op) {d2 effs2} (h : run initSize (ops ++ rest) = .ok (d2, effs2)) :
    ∃ d1 effs1 tr, run initSize ops = .ok (d1, effs1) ∧ effs2 = effs1 ++ tr := by
  unfold run at h ⊢
  cases hi : init initSize [] with
  | error e => simp [hi, bind, Except.bind] at h
  | ok r0 =>
    obtain ⟨d0, tr0⟩ := r0
    simp only [hi, bind, Except.bind, runFrom_append] at h ⊢
    cases h1 : runFrom initSize d0 ops with
    | error e => simp [h1] at h
    | ok r1 =>
      obtain ⟨d1, t1⟩ := r1
      simp only [h1] at h ⊢
      cases h2 : runFrom initSize d1 rest with
      | error e => simp [h2] at h
      | ok r2 =>
        obtain ⟨d2', t2⟩ := r2
        simp only [h2, Except.ok.injEq, Prod.mk.injEq] at h
        exact ⟨d1, _, t2, rfl, by rw [← h.2]; simp⟩

/-- EXACTLY which states a cut inside one operation can show.  Take any history `ops` and a next operation `op` (any cut
of any longer history `ops ++ op :: rest` that lies between the last effect of `ops` and the last effect of `op` is such
a cut, by `run_extends`).  At every cut from the end of `ops` to the end of `op` the reader returns the state after `ops`,
or that state plus `op`'s new key at (0, 0), or the state after `op` — nothing written later, nothing else. -/
theorem cut_in_operation (initSize pageSize : Nat) (ops : List Op) (op : Op) (hi : 8 ≤ initSize) (hp : 4 ≤ pageSize)
    (hf : FitsAll (ops ++ [op])) :
    ∃ d effs d' tr, run initSize ops = .ok (d, effs) ∧ run initSize (ops ++ [op]) = .ok (d', effs ++ tr) ∧
      ∀ j, ∃ file items, cut (effs ++ tr) (effs.length + j) = some file ∧
        readAllValuesFromFile pageSize file = .ok items ∧
        (tr3 items = Spec.MmapDict.run [] (ops.map toSpec) ∨
         tr3 items = Spec.MmapDict.step (Spec.MmapDict.run [] (ops.map toSpec)) (toSpec op) ∨
         ∃ key, (toSpec op).key? = some key ∧ (Spec.MmapDict.run [] (ops.map toSpec)).has key = false ∧
           tr3 items = Spec.MmapDict.run [] (ops.map toSpec) ++ [(key, 0, 0)]) := by
  have hr0 := freshStore_rep initSize hi
  have hfit : 8 + (need [] ops + need (ops.foldl opSeen []) [op]) < 2147483648 := by
    have := need_append ops [op] []; unfold FitsAll at hf; omega
  obtain ⟨d, tr0, es, tail, hrun, hr, ht, hk, hu, hfin, _⟩ :=
    cuts_from initSize ops hr0 (by simp [freshStore]; omega)
  simp only [keys_nil, freshStore] at hk hu
  obtain ⟨d', tr, es', tail', hstep, hr', ht', _, _, hfin', hcuts⟩ :=
    op_cuts hr op initSize (by rw [hk, hu]; simp [need] at hfit; omega)
  have hS : triples es = Spec.MmapDict.run [] (ops.map toSpec) := by rw [ht]; rfl
  refine ⟨d, .createEmpty :: .truncate initSize :: .sliceWrite 0 (le 4 8) :: tr0, d', tr,
    by simp [run, init_fresh initSize hi, hrun, bind, Except.bind],
    by simp [run, init_fresh initSize hi, runFrom_append, hrun, runFrom, hstep, bind, Except.bind], ?_⟩
  intro j
  have hpre : applyEffects none (Effect.createEmpty :: .truncate initSize :: .sliceWrite 0 (le 4 8) :: tr0) = some d.file := by
    rw [← hfin]
    simp [applyEffects, applyEffect, truncate, sliceWrite_header_zeros initSize hi, freshStore]
  have hcut : cut ((Effect.createEmpty :: .truncate initSize :: .sliceWrite 0 (le 4 8) :: tr0) ++ tr)
      ((Effect.createEmpty :: .truncate initSize :: .sliceWrite 0 (le 4 8) :: tr0).length + j)
      = applyEffects (some d.file) (tr.take j) := by
    unfold cut
    rw [List.take_append, List.take_of_length_le (by omega), applyEffects_append, hpre]
    congr 2; omega
  obtain ⟨file, hs, hc⟩ := hcuts _ (cut_mem_states (some d.file) tr j)
  have rd : ∀ esx, CutRep file esx → readAllValuesFromFile pageSize file = .ok (scanOut 8 esx) ∧
      tr3 (scanOut 8 esx) = triples esx := by
    intro esx ⟨u, tl, hfr, _⟩
    exact ⟨hfr.fromFile_ok pageSize hp, by simp only [tr3]; exact scanOut_triples esx 8⟩
  rcases hc with hc | hc | ⟨key, hkey, hn, hc⟩
  · exact ⟨file, _, by rw [hcut, hs], (rd _ hc).1, Or.inl (by rw [(rd _ hc).2, hS])⟩
  · exact ⟨file, _, by rw [hcut, hs], (rd _ hc).1, Or.inr (Or.inl (by rw [(rd _ hc).2, ht', hS]))⟩
  · refine ⟨file, _, by rw [hcut, hs], (rd _ hc).1, Or.inr (Or.inr ⟨key, by rw [toSpec_key, hkey], ?_, ?_⟩)⟩
    · rw [← hS, has_triples]; simpa using hn
    · rw [(rd _ hc).2, triples_append, hS]; simp [fresh]

/-- never written, never read — with the completed prefix: every key and every (value, timestamp) pair a reader returns
at a cut inside operation `op` after the completed history `ops` was an argument of an operation of `ops ++ [op]` (or is
the initial zero pair of a key one of them created).  Nothing of what the writer does later can appear. -/
theorem never_written_never_read (initSize pageSize : Nat) (ops : List Op) (op : Op) (hi : 8 ≤ initSize) (hp : 4 ≤ pageSize)
    (hf : FitsAll (ops ++ [op])) :
    ∃ d effs d' tr, run initSize ops = .ok (d, effs) ∧ run initSize (ops ++ [op]) = .ok (d', effs ++ tr) ∧
      ∀ j file items, cut (effs ++ tr) (effs.length + j) = some file →
        readAllValuesFromFile pageSize file = .ok items →
        ∀ x ∈ tr3 items, Written ((ops ++ [op]).map toSpec) x.1 x.2.1 x.2.2 := by
  obtain ⟨d, effs, d', tr, h1, h2, hall⟩ := cut_in_operation initSize pageSize ops op hi hp hf
  refine ⟨d, effs, d', tr, h1, h2, ?_⟩
  intro j file items hc hrd x hx
  obtain ⟨file', items', hc', hrd', hcase⟩ := hall j
  rw [hc] at hc'; cases hc'
  rw [hrd] at hrd'; cases hrd'
  have sub : ∀ o ∈ ops.map toSpec, o ∈ (ops ++ [op]).map toSpec := by intro o ho; simp at ho ⊢; exact Or.inl ho
  rcases hcase with h | h | ⟨key, hk, _, h⟩
  · rw [h] at hx
    rcases mem_run _ [] x hx with h0 | hw
    · simp at h0
    · exact written_mono sub hw
  · rw [h] at hx
    have : x ∈ Spec.MmapDict.run [] ((ops ++ [op]).map toSpec) := by
      simpa [Spec.MmapDict.run, List.foldl_append] using hx
    rcases mem_run _ [] x this with h0 | hw
    · simp at h0
    · exact hw
  · rw [h] at hx
    rcases List.mem_append.mp hx with hx | hx
    · rcases mem_run _ [] x hx with h0 | hw
      · simp at h0
      · exact written_mono sub hw
    · simp at hx; subst hx
      exact ⟨⟨toSpec op, by simp, hk⟩, Or.inl ⟨rfl, rfl⟩⟩

/-- the cuts of the constructor (file created; sized; header written) all read as the empty state -/
theorem constructor_cuts_read_empty (initSize pageSize : Nat) (ops : List Op) (hi : 8 ≤ initSize) (hp : 4 ≤ pageSize)
    (hf : FitsAll ops) :
    ∃ d effs, run initSize ops = .ok (d, effs) ∧ ∀ k, 1 ≤ k → k ≤ 3 →
      ∃ file, cut effs k = some file ∧ readAllValuesFromFile pageSize file = .ok [] := by
  obtain ⟨d, tr, hrun, _, _⟩ := run_shape initSize ops hi hf
  refine ⟨d, _, hrun, ?_⟩
  intro k h1 h3
  have hfr := (freshStore_rep initSize hi).file
  obtain rfl | rfl | rfl : k = 1 ∨ k = 2 ∨ k = 3 := by omega
  · exact ⟨[], rfl, fromFile_empty pageSize⟩
  · exact ⟨zeros initSize, by simp [cut, applyEffects, applyEffect, truncate], fromFile_zeros pageSize initSize (by omega) hp⟩
  · exact ⟨(freshStore initSize).file,
      by simp [cut, applyEffects, applyEffect, truncate, sliceWrite_header_zeros initSize hi, freshStore],
      by simpa [scanOut] using hfr.fromFile_ok pageSize hp⟩

/-- a value update of an existing key is ONE effect, a 16-byte slice write at the key's value field: the file goes from
the old state directly to the new one (never through a zeroed field) -/
theorem value_update_single_effect {d es1 e es2 tail} (h : Rep d (es1 ++ e :: es2) tail) (hk : e.key ∉ keys es1)
    (v t : UInt64) :
    ∃ d' q, writeValue d e.key v t = .ok (d', [.sliceWrite q (le64 v ++ le64 t)]) ∧
      (le64 v ++ le64 t).length = packTwoDoublesSlice ∧
      states (some d.file) [.sliceWrite q (le64 v ++ le64 t)] = [some d.file, some d'.file] ∧
      Rep d' (es1 ++ ⟨e.key, v, t⟩ :: es2) tail :=
  ⟨_, _, writeValue_present h hk v t, by simp [packTwoDoublesSlice], by simp [states, applyEffect, valueBytes],
    (storeValue_ok h hk v t).2⟩

/-- the file a history's writer leaves behind if it stops after `k` effects (`none`: no file yet, or the history does
not run) -/
def cutFile (initSize : Nat) (ops : List Op) (k : Nat) : Option Bytes :=
  match run initSize ops with
  | .ok (_, effs) => cut effs k
  | .error _ => none

/-- one dead or busy worker cannot fail the scrape: over any number of worker files, each left behind by an arbitrary
history at an arbitrary, independent cut, the collector's reading loop succeeds -/
theorem one_file_cannot_fail_scrape (initSize pageSize : Nat) (hi : 8 ≤ initSize) (hp : 4 ≤ pageSize) (files : List Bytes)
    (h : ∀ f ∈ files, ∃ ops k, FitsAll ops ∧ cutFile initSize ops k = some f) :
    ∃ r, readMetrics pageSize files = .ok r := by
  apply readMetrics_ok
  intro f hf
  obtain ⟨ops, k, hfit, hc⟩ := h f hf
  obtain ⟨d, effs, hrun, hall⟩ := every_cut_readable initSize pageSize ops hi hp hfit
  simp only [cutFile, hrun] at hc
  rcases hall k with h0 | ⟨file, items, hc', hrd, _⟩
  · rw [h0.2] at hc; cases hc
  · rw [hc] at hc'; cases hc'
    exact ⟨items, hrd⟩

/-- the same for files given by their shape: represented files, the all-zero file, files shorter than the counter -/
theorem scrape_ok_of_shapes (pageSize : Nat) (hp : 4 ≤ pageSize) (files : List Bytes)
    (h : ∀ f ∈ files, (∃ es, CutRep f es) ∨ (∃ n, 4 ≤ n ∧ f = zeros n) ∨ f.length < 4) :
    ∃ r, readMetrics pageSize files = .ok r := by
  apply readMetrics_ok
  intro f hf
  rcases h f hf with ⟨es, u, tl, hfr, _⟩ | ⟨n, hn, rfl⟩ | hs
  · exact ⟨_, hfr.fromFile_ok pageSize hp⟩
  · exact ⟨_, fromFile_zeros pageSize n hn hp⟩
  · exact ⟨_, fromFile_short pageSize f hs⟩

/-! ### a reader whose two `read()` calls see the file at two different cuts -/

/-- THE TWO-CUT READ.  `read_all_values_from_file` reads the first block (and with it the header) and, if the header says
so, the rest with a second `read()`.  Let the first read see the file at cut `k1` and the second at any later cut `k2`
(8-aligned page size, as every real one).  Then the reader still succeeds; it returns exactly the KEYS an atomic read at
`k1` returns — the entries the header it read covers, never an unpublished entry; and every value and every timestamp it
returns is one that an atomic read at `k1` or at `k2` returns for that key (both of which are prefix states by
`every_cut_readable`).  For the one entry that crosses the page boundary value and timestamp may come from different cuts. -/
theorem two_cut_read (initSize pageSize : Nat) (ops : List Op) (hi : 8 ≤ initSize) (hp8 : 8 ≤ pageSize)
    (hpm : pageSize % 8 = 0) (hf : FitsAll ops) :
    ∃ d effs, run initSize ops = .ok (d, effs) ∧ ∀ k1 k2, 1 ≤ k1 → k1 ≤ k2 →
      ∃ f1 f2 items items1 items2, cut effs k1 = some f1 ∧ cut effs k2 = some f2 ∧
        readAllValuesFromFile pageSize f1 = .ok items1 ∧ readAllValuesFromFile pageSize f2 = .ok items2 ∧
        readAllValuesFromFile2 pageSize f1 f2 = .ok items ∧
        (tr3 items).map (·.1) = (tr3 items1).map (·.1) ∧
        ∀ x ∈ tr3 items,
          (∃ a, (a ∈ tr3 items1 ∨ a ∈ tr3 items2) ∧ a.1 = x.1 ∧ a.2.1 = x.2.1) ∧
          (∃ b, (b ∈ tr3 items1 ∨ b ∈ tr3 items2) ∧ b.1 = x.1 ∧ b.2.2 = x.2.2) := by
  have hp : 4 ≤ pageSize := by omega
  have hr0 := freshStore_rep initSize hi
  obtain ⟨d, tr, es', hrun, hmono⟩ := mono_from initSize ops hr0 (by simpa [freshStore, FitsAll] using hf)
  refine ⟨d, .createEmpty :: .truncate initSize :: .sliceWrite 0 (le 4 8) :: tr,
    by simp [run, init_fresh initSize hi, hrun, bind, Except.bind], ?_⟩
  intro k1 k2 h1 h12
  -- the cut at k2 exists and is readable (it is some cut of the same effect list)
  have cutk : ∀ k, 3 ≤ k → cut (Effect.createEmpty :: .truncate initSize :: .sliceWrite 0 (le 4 8) :: tr) k
      = applyEffects (some (freshStore initSize).file) (tr.take (k - 3)) := by
    intro k hk
    obtain ⟨j, rfl⟩ : ∃ j, k = j + 3 := ⟨k - 3, by omega⟩
    simp [cut, applyEffects, applyEffect, truncate, sliceWrite_header_zeros initSize hi, freshStore]
  have rd2 : ∃ f2 items2, cut (Effect.createEmpty :: .truncate initSize :: .sliceWrite 0 (le 4 8) :: tr) k2 = some f2 ∧
      readAllValuesFromFile pageSize f2 = .ok items2 := by
    rcases cut_cases initSize tr hi k2 with h | h | h | h
    · omega
    · exact ⟨_, _, h.2, fromFile_empty pageSize⟩
    · exact ⟨_, _, h.2, fromFile_zeros pageSize initSize (by omega) hp⟩
    · obtain ⟨g, e, hg, ⟨u, tl, hfr, _⟩, _, _⟩ := hmono.at (k2 - 3)
      exact ⟨g, _, by rw [cutk k2 h.1, hg], hfr.fromFile_ok pageSize hp⟩
  obtain ⟨f2, items2, hc2, hrd2⟩ := rd2
  rcases cut_cases initSize tr hi k1 with h | h | h | h
  · omega
  · -- zero-length first snapshot: the guard returns the empty state
    refine ⟨[], f2, [], [], items2, h.2, hc2, fromFile_empty pageSize, hrd2, ?_, rfl, by intro x hx; cases hx⟩
    have : shortFile ([] : Bytes) = true := shortFile_true (by simp)
    simp [readAllValuesFromFile2, this]
  · -- all-zero first snapshot: header 0, nothing is read
    refine ⟨zeros initSize, f2, [], [], items2, h.2, hc2, fromFile_zeros pageSize initSize (by omega) hp, hrd2, ?_, rfl,
      by intro x hx; cases hx⟩
    have h0 := unpackInt_zeros (min pageSize initSize) (by omega)
    have hsf : shortFile (zeros (min pageSize initSize)) = false := shortFile_false (by simp; omega)
    have : ¬ ((0 : Int) > ((zeros (min pageSize initSize)).length : Int)) := by omega
    unfold readAllValuesFromFile2
    simp only [take_zeros, hsf, Bool.false_eq_true, if_false, h0, bind, Except.bind, this]
    unfold readAllValuesRaw
    simp [h0, bind, Except.bind]
  · obtain ⟨g1, e1, g2, e2, hg1, ⟨u1, tl1, hf1, _⟩, hg2, ⟨u2, tl2, hf2, _⟩, hext⟩ := hmono.pair (k1 - 3) (k2 - 3) (by omega)
    have hk2 : 3 ≤ k2 := by omega
    rw [cutk k2 hk2, hg2] at hc2; cases hc2
    rw [hf2.fromFile_ok pageSize hp] at hrd2; cases hrd2
    obtain ⟨a, esM, _, ha, hmix, hread⟩ := two_snapshot_read pageSize hf1 hf2 hext hp8 hpm
    refine ⟨g1, f2, scanOut 8 esM, scanOut 8 e1, scanOut 8 e2, by rw [cutk k1 h.1, hg1], by rw [cutk k2 hk2, hg2],
      hf1.fromFile_ok pageSize hp, hf2.fromFile_ok pageSize hp, hread, ?_, ?_⟩
    · simp only [tr3]; rw [scanOut_triples, scanOut_triples, triples_keys, triples_keys, hmix.keys_eq]
    · simp only [tr3]; rw [scanOut_triples, scanOut_triples, scanOut_triples]
      intro x hx
      obtain ⟨e, he, rfl⟩ := List.mem_map.mp hx
      obtain ⟨⟨y, hy, hy1, hy2⟩, ⟨z, hz, hz1, hz2⟩⟩ := hmix.prov e he
      have sub : ∀ w, (w ∈ e1 ∨ w ∈ a) → ((w.key, w.v, w.t) ∈ triples e1 ∨ (w.key, w.v, w.t) ∈ triples e2) := by
        intro w hw
        rcases hw with hw | hw
        · exact Or.inl (List.mem_map.mpr ⟨w, hw, rfl⟩)
        · exact Or.inr (List.mem_map.mpr ⟨w, by rw [← ha] at hw; exact List.mem_of_mem_take hw, rfl⟩)
      exact ⟨⟨_, sub y hy, hy1, hy2⟩, ⟨_, sub z hz, hz1, hz2⟩⟩

/-! ### any number of generations: crash → reopen by a new writer → continue → crash again → … -/

/-- EVERY file reachable by any number of generations (`Reach`: start from no file; a writer opens what is there, runs any
history that fits, stops dead after any number of file effects; repeat) is readable by the collector and can be taken
over by yet another writer, whose store satisfies the crash-tolerant invariant -/
theorem every_cut_readable_gen (initSize pageSize : Nat) (hi : 8 ≤ initSize) (hp : 4 ≤ pageSize) {f : Option Bytes}
    (h : Reach f) :
    f = none ∨ ∃ file items d' tr' es tl, f = some file ∧ readAllValuesFromFile pageSize file = .ok items ∧
      init initSize file = .ok (d', tr') ∧ Rep d' es tl := by
  have hg := reach_good h
  cases f with
  | none => exact Or.inl rfl
  | some file =>
    obtain ⟨⟨items, hrd⟩, d', tr', es, tl, hinit, hr⟩ := good_usable initSize pageSize hi hp hg
    exact Or.inr ⟨file, items, d', tr', es, tl, rfl, hrd, hinit, hr⟩

/-- … and what is read at a cut of generation n+1 is a prefix state of THAT generation's history, started from what its
writer found in the file left by generation n (`contentOf`: what the reader returns on it) -/
theorem gen_cut_prefix_state (initSize pageSize : Nat) (hi : 8 ≤ initSize) (hp : 4 ≤ pageSize) {f : Option Bytes}
    (h : Reach f) (ops : List Op) (hfit : GenFits initSize f ops) (k : Nat) :
    Reach (genCut initSize f ops k) ∧
    ∀ file, genCut initSize f ops k = some file → ∃ items, readAllValuesFromFile pageSize file = .ok items ∧
      PrefixFrom (contentOf pageSize f) (ops.map toSpec) (tr3 items) :=
  ⟨Reach.crash initSize hi ops k h hfit, (genCut_ok initSize pageSize hi hp (reach_good h) ops hfit k).2⟩

/-- the scrape over any number of worker files, each after any number of generations -/
theorem scrape_ok_gen (pageSize : Nat) (hp : 4 ≤ pageSize) (files : List Bytes) (h : ∀ f ∈ files, Reach (some f)) :
    ∃ r, readMetrics pageSize files = .ok r := by
  apply readMetrics_ok
  intro f hf
  exact (good_usable 8 pageSize (by omega) hp (reach_good (h f hf))).1

/-- a fresh writer's history is the first generation -/
example (ops : List Op) (k : Nat) (hf : GenFits 64 none ops) : Reach (genCut 64 none ops k) :=
  Reach.crash 64 (by decide) ops k Reach.start hf

/-! ### files that vanish between the directory listing and the read -/

/-- every file name `mark_process_dead` removes (`gauge_<mode>_<pid>.db`, mode starting with `live` — both extracted from
multiprocess.py) is one whose disappearance `_read_metrics` tolerates -/
theorem removed_files_are_tolerated (mode : List Char) (h : removeModePrefix.isPrefixOf mode = true) :
    tolerated removeTyp mode = true := by
  simp only [tolerated, removeTyp, vanishTyp, removeModePrefix, vanishModePrefix] at h ⊢
  simp [h]

/-- the scrape over a listing in which live-gauge files have vanished and every remaining file is at any cut of any
generation: it succeeds, and returns one result per file that is still there (the vanished ones are skipped) -/
theorem scrape_skips_vanished_live_gauges (pageSize : Nat) (hp : 4 ≤ pageSize) (listed : List Listed)
    (h : ∀ f ∈ listed, match f.content with
      | some b => Reach (some b)
      | none => tolerated f.typ f.mode = true) :
    ∃ r, readMetricsListed pageSize listed = .ok r ∧ r.length = (listed.filter (·.content.isSome)).length := by
  induction listed with
  | nil => exact ⟨[], rfl, rfl⟩
  | cons f rest ih =>
    obtain ⟨r, hr, hl⟩ := ih (fun g hg => h g (List.mem_cons_of_mem _ hg))
    have hf := h f (by simp)
    cases hc : f.content with
    | none =>
      simp only [hc] at hf
      exact ⟨r, by simp [readMetricsListed, hc, hf, hr, vanishCaught], by simp [hc, hl]⟩
    | some b =>
      simp only [hc] at hf
      obtain ⟨items, hi⟩ := (good_usable 8 pageSize (by omega) hp (reach_good hf)).1
      exact ⟨items :: r, by simp [readMetricsListed, hc, hi, hr, bind, Except.bind], by simp [hc, hl]⟩

/-- what the code does for any OTHER vanished file: FileNotFoundError escapes and ends the scrape.  This does not
contradict the property under the stated assumption that nobody but `mark_process_dead` removes worker files
(`removed_files_are_tolerated`: it removes tolerated names only); see obligations/C11.json. -/
theorem other_vanished_file_escapes (pageSize : Nat) (f : Listed) (rest : List Listed) (hc : f.content = none)
    (ht : tolerated f.typ f.mode = false) : readMetricsListed pageSize (f :: rest) = .error .fileNotFound := by
  simp [readMetricsListed, hc, ht]

example : tolerated "gauge".toList "liveall".toList = true ∧ tolerated "gauge".toList "all".toList = false ∧
    tolerated "counter".toList "123.db".toList = false := by decide

/-! ### non-vacuity -/

def demoOps : List Op :=
  [.write ['a'] 1 2, .write ['é', 'x'] 0x7ff8000000000001 0x8000000000000000,
   .write ['k', 'e', 'y', '-', '3'] 5 6, .reopen, .write ['a'] 7 8, .read ['n', 'e', 'w']]

theorem demo_fits : FitsAll demoOps := by unfold FitsAll; decide

/-- a concrete history (64-byte initial file, so the third key forces a doubling): all its cuts are readable -/
example : ∃ d effs, run 64 demoOps = .ok (d, effs) ∧ ∀ k,
    (k = 0 ∧ cut effs k = none) ∨ ∃ file items, cut effs k = some file ∧
      readAllValuesFromFile 4096 file = .ok items ∧ PrefixState (demoOps.map toSpec) (tr3 items) :=
  every_cut_readable 64 4096 demoOps (by decide) (by decide) demo_fits

/-- a continuation from every cut of the demo history -/
example : ∃ d effs, run 64 demoOps = .ok (d, effs) ∧ ∀ k, 1 ≤ k →
    ∃ file d' tr', cut effs k = some file ∧ init 64 file = .ok (d', tr') ∧ PrefixState (demoOps.map toSpec) (absOf d') ∧
      ∀ ops2, d'.used + need (d'.positions.map (·.1)) ops2 < 2147483648 → ∃ d'' tr'' es tl,
        runFrom 64 d' ops2 = .ok (d'', tr'') ∧ Rep d'' es tl ∧
        absOf d'' = Spec.MmapDict.run (absOf d') (ops2.map toSpec) ∧ readAllValues d'' = .ok (absOf d'') ∧
        (readAllValuesFromFile 4096 (close d'')).map tr3 = .ok (absOf d'') :=
  continuation_from_cut 64 4096 demoOps (by decide) (by decide) demo_fits

example : CutRep (freshStore 64).file [] := ⟨_, _, (freshStore_rep 64 (by decide)).file, by simp⟩

/-- a healthy file, an all-zero file, a zero-length file and a 3-byte file in one directory: the scrape succeeds -/
example : ∃ r, readMetrics 4096 [(freshStore 64).file, zeros 64, [], [1, 2, 3]] = .ok r :=
  scrape_ok_of_shapes 4096 (by decide) _ (by
    intro f hf
    simp only [List.mem_cons, List.not_mem_nil, or_false] at hf
    rcases hf with rfl | rfl | rfl | rfl
    · exact Or.inl ⟨[], _, _, (freshStore_rep 64 (by decide)).file, by simp⟩
    · exact Or.inr (Or.inl ⟨64, by decide, rfl⟩)
    · exact Or.inr (Or.inr (by decide))
    · exact Or.inr (Or.inr (by decide)))

end PromVerif.Props.C11
