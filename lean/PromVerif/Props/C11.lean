/-
C11 — every intermediate on-disk state of the store is readable and a prefix state.

The store of C10, but every writer operation is expanded into its list of file effects
(`createEmpty | truncate n | sliceWrite pos bytes`) in the order the source performs them (`Generated/Mmap.lean`,
re-extracted on every run: `skeleton_wellformed`).  A cut point `k` of a history is the file system after the first `k`
effects.  Hypotheses as in C10: `8 ≤ initSize`, `4 ≤ pageSize`, the file stays below 2^31 bytes.

F11 (found by this model, repaired in /repo): at the cut between file creation and the first truncate the file has length
0; the collector's reader used to raise struct.error there, which failed the whole scrape.  The reader now returns the
empty state for a file shorter than the 4-byte counter.  The guard is re-extracted on every run
(`Generated.Mmap.shortFileGuard`, pinned by `skeleton_wellformed`); if it is removed or weakened, `skeleton_wellformed`,
`short_file_reads_empty`, `every_cut_readable` and `one_file_cannot_fail_scrape` no longer check.
-/
import PromVerif.Model.MmapDict
import PromVerif.Spec.MmapDict
import PromVerif.Lemmas.MmapSpecial

namespace PromVerif.Props.C11
open PromVerif.Py PromVerif.Model.MmapDict PromVerif.Generated.Mmap PromVerif.Lemmas.Mmap
open PromVerif.Spec.MmapDict (Store PrefixFrom PrefixState Written)

/-- the extractor found every site of mmap_dict.py in the shape it understands -/
theorem extract_ok : extractOk = true := by decide

/-- the order of the file effects in the source: the file is sized before it is mapped and given a header; an entry is
written completely before the used-bytes header is published; growth is a loop; a value update is one 16-byte slice
assignment; the reader is bounded by the header and treats a file shorter than the counter as empty; `_init_value` writes the whole entry, the two zero doubles included -/
theorem skeleton_wellformed :
    ctorEffects = [.openFile, .truncateInitial, .remap, .writeHeader] ∧
    initValueEffects = [.growLoop, .writeEntry, .writeHeader] ∧
    growBody = [.truncateGrow, .remap] ∧ growKind = .whileLoop ∧
    writeValueEffects = [.callInitValue, .writeValue] ∧
    packTwoDoublesSlice = twoDoublesWidth ∧ packIntegerSlice = intWidth ∧ readerUsesHeaderBound = true ∧
    shortFileGuard = some intWidth ∧ entryPacksDoubles = true ∧ entryReserve = 0 := by decide

/-- the history fits below 2^31 bytes: header + one entry per distinct key -/
def FitsAll (ops : List Op) : Prop := 8 + need [] ops < 2147483648

/-- the file system after the first `k` effects -/
def cut (effs : List Effect) (k : Nat) : Option Bytes := applyEffects none (effs.take k)

/-- the (key, value, timestamp) triples of a reader result -/
def tr3 (items : List Item) : Store := items.map fun x => (x.1, x.2.1, x.2.2.1)

/-- shape of every history of a fresh writer: create, size, header, then the operations; every later cut is a
represented file of a prefix state -/
theorem run_shape (initSize : Nat) (ops : List Op) (hi : 8 ≤ initSize) (hf : FitsAll ops) :
    ∃ d tr, run initSize ops = .ok (d, .createEmpty :: .truncate initSize :: .sliceWrite 0 (le 4 8) :: tr) ∧
      applyEffects (some (freshStore initSize).file) tr = some d.file ∧
      ∀ s ∈ states (some (freshStore initSize).file) tr, ∃ file esx, s = some file ∧ CutRep file esx ∧
        PrefixState (ops.map toSpec) (triples esx) := by
  have hr0 := freshStore_rep initSize hi
  obtain ⟨d, tr, hrun, hfin, hcuts⟩ := cuts_from initSize ops hr0 (by simpa [freshStore, FitsAll] using hf)
  exact ⟨d, tr, by simp [run, init_fresh initSize hi, hrun, bind, Except.bind], hfin, hcuts⟩

/-- the effect list of a history, replayed on an empty file system, produces exactly the file of the C10 store: the
effect expansion and the state model are the same writer -/
theorem effects_replay (initSize : Nat) (ops : List Op) (hi : 8 ≤ initSize) (hf : FitsAll ops) :
    ∃ d effs, run initSize ops = .ok (d, effs) ∧ applyEffects none effs = some d.file := by
  obtain ⟨d, tr, hrun, hfin, _⟩ := run_shape initSize ops hi hf
  refine ⟨d, _, hrun, ?_⟩
  rw [← hfin]
  simp [applyEffects, applyEffect, truncate, sliceWrite_header_zeros initSize hi, freshStore]

/-- the cuts of such an effect list -/
theorem cut_cases (initSize : Nat) (tr : List Effect) (hi : 8 ≤ initSize) (k : Nat) :
    let effs := Effect.createEmpty :: .truncate initSize :: .sliceWrite 0 (le 4 8) :: tr
    (k = 0 ∧ cut effs k = none) ∨ (k = 1 ∧ cut effs k = some []) ∨ (k = 2 ∧ cut effs k = some (zeros initSize)) ∨
    (3 ≤ k ∧ cut effs k ∈ states (some (freshStore initSize).file) tr) := by
  intro effs
  match k with
  | 0 => exact Or.inl ⟨rfl, rfl⟩
  | 1 => exact Or.inr (Or.inl ⟨rfl, rfl⟩)
  | 2 =>
    refine Or.inr (Or.inr (Or.inl ⟨rfl, ?_⟩))
    simp [cut, effs, applyEffects, applyEffect, truncate]
  | k + 3 =>
    refine Or.inr (Or.inr (Or.inr ⟨by omega, ?_⟩))
    have : cut effs (k + 3) = applyEffects (some (freshStore initSize).file) (tr.take k) := by
      simp [cut, effs, applyEffects, applyEffect, truncate, sliceWrite_header_zeros initSize hi, freshStore]
    rw [this]
    exact cut_mem_states _ _ _

/-- for every history and EVERY cut (the zero-length one included), the collector's file reader succeeds and returns the
spec state after some prefix of the completed operations, optionally plus the in-flight new key at (0, 0) -/
theorem every_cut_readable (initSize pageSize : Nat) (ops : List Op) (hi : 8 ≤ initSize) (hp : 4 ≤ pageSize)
    (hf : FitsAll ops) :
    ∃ d effs, run initSize ops = .ok (d, effs) ∧ ∀ k,
      (k = 0 ∧ cut effs k = none) ∨
      ∃ file items, cut effs k = some file ∧ readAllValuesFromFile pageSize file = .ok items ∧
        PrefixState (ops.map toSpec) (tr3 items) := by
  obtain ⟨d, tr, hrun, _, hcuts⟩ := run_shape initSize ops hi hf
  refine ⟨d, _, hrun, ?_⟩
  intro k
  rcases cut_cases initSize tr hi k with h | h | h | h
  · exact Or.inl h
  · exact Or.inr ⟨_, [], h.2, fromFile_empty pageSize, prefixFrom_here _ _⟩
  · exact Or.inr ⟨_, [], h.2, fromFile_zeros pageSize initSize (by omega) hp, prefixFrom_here _ _⟩
  · obtain ⟨file, esx, hs, ⟨u, tl, hfr, _⟩, hpre⟩ := hcuts _ h.2
    refine Or.inr ⟨file, scanOut 8 esx, hs, hfr.fromFile_ok pageSize hp, ?_⟩
    simp only [tr3]; rw [scanOut_triples]; exact hpre

/-- the repaired behaviour at the first cut of every history (file created, not yet sized): the file is empty and the
reader returns the empty state -/
theorem zero_length_cut_reads_empty (initSize pageSize : Nat) (ops : List Op) (hi : 8 ≤ initSize) (hf : FitsAll ops) :
    ∃ d effs, run initSize ops = .ok (d, effs) ∧ cut effs 1 = some [] ∧ readAllValuesFromFile pageSize [] = .ok [] := by
  obtain ⟨d, tr, hrun, _, _⟩ := run_shape initSize ops hi hf
  exact ⟨d, _, hrun, rfl, fromFile_empty pageSize⟩

/-- any file shorter than the 4-byte counter reads as empty (this is the theorem that breaks if the guard is removed) -/
theorem short_file_reads_empty (pageSize : Nat) (f : Bytes) (h : f.length < 4) :
    readAllValuesFromFile pageSize f = .ok [] := fromFile_short pageSize f h

/-- at the cut after the initial truncate and before the header write the file is all zero (used = 0): the reader returns
the empty state, a new writer opens it as a fresh store -/
theorem all_zero_file_ok (initSize pageSize n : Nat) (hn : 8 ≤ n) (hp : 4 ≤ pageSize) :
    readAllValuesFromFile pageSize (zeros n) = .ok [] ∧
    init initSize (zeros n) = .ok (freshStore n, [.sliceWrite 0 (le 4 8)]) :=
  ⟨fromFile_zeros pageSize n (by omega) hp, init_zeros initSize n hn⟩

/-- at EVERY cut where the file exists — the zero-length one included — a new writer's constructor succeeds, yields a
store satisfying the (crash-tolerant) invariant of C10, whose content is a prefix state -/
theorem every_cut_reopenable (initSize : Nat) (ops : List Op) (hi : 8 ≤ initSize) (hf : FitsAll ops) :
    ∃ d effs, run initSize ops = .ok (d, effs) ∧ ∀ k, 1 ≤ k →
      ∃ file d' tr' es tail, cut effs k = some file ∧ init initSize file = .ok (d', tr') ∧ Rep d' es tail ∧
        PrefixState (ops.map toSpec) (absOf d') := by
  obtain ⟨d, tr, hrun, _, hcuts⟩ := run_shape initSize ops hi hf
  refine ⟨d, _, hrun, ?_⟩
  intro k hk
  have hfresh := freshStore_rep initSize hi
  rcases cut_cases initSize tr hi k with h | h | h | h
  · omega
  · exact ⟨_, _, _, [], _, h.2, init_fresh initSize hi, hfresh, by rw [hfresh.absOf_eq]; exact prefixFrom_here _ _⟩
  · exact ⟨_, _, _, [], _, h.2, init_zeros initSize initSize hi, hfresh,
      by rw [hfresh.absOf_eq]; exact prefixFrom_here _ _⟩
  · obtain ⟨file, esx, hs, hc, hpre⟩ := hcuts _ h.2
    obtain ⟨d', hinit, tl, hr⟩ := init_cutrep hc initSize
    exact ⟨file, d', [], esx, tl, hs, hinit, hr, by rw [hr.absOf_eq]; exact hpre⟩

/-- a NEW writer that takes over the file at any cut can carry on with any history: every operation succeeds, the store
stays represented, and all three readers return the spec run of the continuation started from the prefix state the new
writer found.  So after a crash + reopen + continuation every key and value read is one the dead writer completed, the
in-flight key at zero, or one the continuation wrote.

On the zero tail: the reopened store satisfies `Rep` with an ARBITRARY tail, not C10's `WF`.  At the cut between the
entry write and the header write the bytes beyond `used` are the orphaned entry, which is not zero (`orphan_tail`); the
clause "bytes beyond used are zero" is therefore not available to a new writer, and it is not needed: `_init_value`
writes the whole entry, value and timestamp slots included (`skeleton_wellformed`: `entryPacksDoubles`), so whatever the
tail holds is overwritten before the header covers it.  All step theorems of C10 are proved from `Inv` (no zero tail);
`WF` adds the zero tail only as a further invariant of crash-free histories. -/
theorem continuation_from_cut (initSize pageSize : Nat) (ops : List Op) (hi : 8 ≤ initSize) (hp : 4 ≤ pageSize)
    (hf : FitsAll ops) :
    ∃ d effs, run initSize ops = .ok (d, effs) ∧ ∀ k, 1 ≤ k →
      ∃ file d' tr', cut effs k = some file ∧ init initSize file = .ok (d', tr') ∧
        PrefixState (ops.map toSpec) (absOf d') ∧
        ∀ ops2, d'.used + need (d'.positions.map (·.1)) ops2 < 2147483648 →
          ∃ d'' tr'' es tl, runFrom initSize d' ops2 = .ok (d'', tr'') ∧ Rep d'' es tl ∧
            absOf d'' = Spec.MmapDict.run (absOf d') (ops2.map toSpec) ∧
            readAllValues d'' = .ok (absOf d'') ∧
            (readAllValuesFromFile pageSize (close d'')).map tr3 = .ok (absOf d'') := by
  obtain ⟨d, effs, hrun, hall⟩ := every_cut_reopenable initSize ops hi hf
  refine ⟨d, effs, hrun, ?_⟩
  intro k hk
  obtain ⟨file, d', tr', es, tail, hc, hinit, hr, hpre⟩ := hall k hk
  refine ⟨file, d', tr', hc, hinit, hpre, ?_⟩
  intro ops2 hfit
  rw [hr.keys_eq] at hfit
  obtain ⟨d'', tr'', es'', tl'', hrun2, hr2, ht2, _⟩ := runFrom_rep initSize ops2 hr hfit
  have hrd := hr2.readers pageSize hp
  exact ⟨d'', tr'', es'', tl'', hrun2, hr2, by rw [hr2.absOf_eq, hr.absOf_eq, ht2], hrd.1, hrd.2⟩

/-- the file at the cut between the entry write and the header write: represented with the OLD entries, and its tail —
the orphaned entry — is not zero -/
theorem orphan_tail {file used es tail} (h : FileRep file used es tail) (k : Key) (z : Nat)
    (hroom : entryLen k ≤ tail.length + z) :
    FileRep (sliceWrite (file ++ zeros z) used (encEntry (fresh k))) used es
      (encEntry (fresh k) ++ (tail ++ zeros z).drop (entryLen k)) ∧
    ¬ ZeroTail (encEntry (fresh k) ++ (tail ++ zeros z).drop (entryLen k)) :=
  ⟨⟨(init_value_stages h k z hroom).1, h.used_eq, h.used_lt⟩, orphan_tail_not_zero _ _⟩

/-- every key and every (value, timestamp) pair a reader returns at any cut was an argument of some operation of the
history (or is the initial zero pair of a key the history created) -/
theorem never_written_never_read (initSize pageSize : Nat) (ops : List Op) (hi : 8 ≤ initSize) (hp : 4 ≤ pageSize)
    (hf : FitsAll ops) :
    ∃ d effs, run initSize ops = .ok (d, effs) ∧ ∀ k file items, cut effs k = some file →
      readAllValuesFromFile pageSize file = .ok items →
      ∀ x ∈ tr3 items, Written (ops.map toSpec) x.1 x.2.1 x.2.2 := by
  obtain ⟨d, effs, hrun, hall⟩ := every_cut_readable initSize pageSize ops hi hp hf
  refine ⟨d, effs, hrun, ?_⟩
  intro k file items hc hrd x hx
  rcases hall k with h | ⟨file', items', hc', hrd', hpre⟩
  · rw [h.2] at hc; cases hc
  · rw [hc] at hc'; cases hc'
    rw [hrd] at hrd'; cases hrd'
    rcases prefixFrom_written [] _ _ hpre x hx with h | h
    · simp at h
    · exact h

/-- a value update of an existing key is ONE effect, a 16-byte slice write at the key's value field: the file goes from
the old state directly to the new one (never through a zeroed field) -/
theorem value_update_single_effect {d es1 e es2 tail} (h : Rep d (es1 ++ e :: es2) tail) (hk : e.key ∉ keys es1)
    (v t : UInt64) :
    ∃ d' q, writeValue d e.key v t = .ok (d', [.sliceWrite q (le64 v ++ le64 t)]) ∧
      (le64 v ++ le64 t).length = packTwoDoublesSlice ∧
      states (some d.file) [.sliceWrite q (le64 v ++ le64 t)] = [some d.file, some d'.file] ∧
      Rep d' (es1 ++ ⟨e.key, v, t⟩ :: es2) tail :=
  ⟨_, _, writeValue_present h hk v t, by simp [packTwoDoublesSlice], by simp [states, applyEffect, valueBytes],
    (storeValue_ok h hk v t).2⟩

/-- the file a history's writer leaves behind if it stops after `k` effects (`none`: no file yet, or the history does
not run) -/
def cutFile (initSize : Nat) (ops : List Op) (k : Nat) : Option Bytes :=
  match run initSize ops with
  | .ok (_, effs) => cut effs k
  | .error _ => none

/-- one dead or busy worker cannot fail the scrape: over any number of worker files, each left behind by an arbitrary
history at an arbitrary, independent cut, the collector's reading loop succeeds -/
theorem one_file_cannot_fail_scrape (initSize pageSize : Nat) (hi : 8 ≤ initSize) (hp : 4 ≤ pageSize) (files : List Bytes)
    (h : ∀ f ∈ files, ∃ ops k, FitsAll ops ∧ cutFile initSize ops k = some f) :
    ∃ r, readMetrics pageSize files = .ok r := by
  apply readMetrics_ok
  intro f hf
  obtain ⟨ops, k, hfit, hc⟩ := h f hf
  obtain ⟨d, effs, hrun, hall⟩ := every_cut_readable initSize pageSize ops hi hp hfit
  simp only [cutFile, hrun] at hc
  rcases hall k with h0 | ⟨file, items, hc', hrd, _⟩
  · rw [h0.2] at hc; cases hc
  · rw [hc] at hc'; cases hc'
    exact ⟨items, hrd⟩

/-- the same for files given by their shape: represented files, the all-zero file, files shorter than the counter -/
theorem scrape_ok_of_shapes (pageSize : Nat) (hp : 4 ≤ pageSize) (files : List Bytes)
    (h : ∀ f ∈ files, (∃ es, CutRep f es) ∨ (∃ n, 4 ≤ n ∧ f = zeros n) ∨ f.length < 4) :
    ∃ r, readMetrics pageSize files = .ok r := by
  apply readMetrics_ok
  intro f hf
  rcases h f hf with ⟨es, u, tl, hfr, _⟩ | ⟨n, hn, rfl⟩ | hs
  · exact ⟨_, hfr.fromFile_ok pageSize hp⟩
  · exact ⟨_, fromFile_zeros pageSize n hn hp⟩
  · exact ⟨_, fromFile_short pageSize f hs⟩

/-! ### non-vacuity -/

def demoOps : List Op :=
  [.write ['a'] 1 2, .write ['é', 'x'] 0x7ff8000000000001 0x8000000000000000,
   .write ['k', 'e', 'y', '-', '3'] 5 6, .reopen, .write ['a'] 7 8, .read ['n', 'e', 'w']]

theorem demo_fits : FitsAll demoOps := by unfold FitsAll; decide

/-- a concrete history (64-byte initial file, so the third key forces a doubling): all its cuts are readable -/
example : ∃ d effs, run 64 demoOps = .ok (d, effs) ∧ ∀ k,
    (k = 0 ∧ cut effs k = none) ∨ ∃ file items, cut effs k = some file ∧
      readAllValuesFromFile 4096 file = .ok items ∧ PrefixState (demoOps.map toSpec) (tr3 items) :=
  every_cut_readable 64 4096 demoOps (by decide) (by decide) demo_fits

/-- a continuation from every cut of the demo history -/
example : ∃ d effs, run 64 demoOps = .ok (d, effs) ∧ ∀ k, 1 ≤ k →
    ∃ file d' tr', cut effs k = some file ∧ init 64 file = .ok (d', tr') ∧ PrefixState (demoOps.map toSpec) (absOf d') ∧
      ∀ ops2, d'.used + need (d'.positions.map (·.1)) ops2 < 2147483648 → ∃ d'' tr'' es tl,
        runFrom 64 d' ops2 = .ok (d'', tr'') ∧ Rep d'' es tl ∧
        absOf d'' = Spec.MmapDict.run (absOf d') (ops2.map toSpec) ∧ readAllValues d'' = .ok (absOf d'') ∧
        (readAllValuesFromFile 4096 (close d'')).map tr3 = .ok (absOf d'') :=
  continuation_from_cut 64 4096 demoOps (by decide) (by decide) demo_fits

example : CutRep (freshStore 64).file [] := ⟨_, _, (freshStore_rep 64 (by decide)).file, by simp⟩

/-- a healthy file, an all-zero file, a zero-length file and a 3-byte file in one directory: the scrape succeeds -/
example : ∃ r, readMetrics 4096 [(freshStore 64).file, zeros 64, [], [1, 2, 3]] = .ok r :=
  scrape_ok_of_shapes 4096 (by decide) _ (by
    intro f hf
    simp only [List.mem_cons, List.not_mem_nil, or_false] at hf
    rcases hf with rfl | rfl | rfl | rfl
    · exact Or.inl ⟨[], _, _, (freshStore_rep 64 (by decide)).file, by simp⟩
    · exact Or.inr (Or.inl ⟨64, by decide, rfl⟩)
    · exact Or.inr (Or.inr (by decide))
    · exact Or.inr (Or.inr (by decide)))

end PromVerif.Props.C11
