/-
C14 (text parser part) — the text parser is total: any input ends in families or ValueError.

The model (`Model/TextParse.lean` over `Model/ParseCore.lean`) has every raising site explicit and its loops carry
fuel (`PyErr.timeout` when it runs out).  The theorems hold for EVERY input string and EVERY choice of the number
parameters `pyInt`/`pyFloat` (CPython `int()`/`float()` raise only ValueError; nothing else about them is used).

The full statement "`.ok _` or `.error .valueError`" is false on the unchanged tree; two inputs classes escape:
* F8   — a metadata line whose third token is non-empty but strips to nothing (non-ASCII whitespace: U+00A0,
         U+001C–U+001F, U+0085, U+2028 …): `_unquote_unescape` indexes `text[0]` after `text.strip()` → IndexError.
         Witnesses: `f8_help_index_error`, `f8_type_index_error`.
* F19  — a timestamp token that `int()` reads as an integer of magnitude ≥ (2^1024 − 2^970)·1000 (312+ digits):
         `_parse_value(values[-1]) / 1000` → `OverflowError: integer division result too large for a float`.
         Witness: `ts_overflow_error`.
`text_parser_outcomes` is unconditional and says these are the only two; `text_parser_total_partial` is the totality
statement under exactly the two hypotheses; `text_parser_no_timeout` (termination: the fuel always suffices) and
"no KeyError / TypeError / AttributeError / RuntimeError …" are unconditional.
-/
import PromVerif.Model.TextParse
import PromVerif.Lemmas.TextParseTotal

namespace PromVerif.Props.C14Text
open PromVerif.Py PromVerif.Model.ParseCore PromVerif.Model.TextParse PromVerif.Lemmas.TextTotal
open PromVerif.Lemmas.TextParse PromVerif.Lemmas.Scanner

/-- **all outcomes of the text parser**, for every input and every `int()`/`float()`: families, ValueError, IndexError
only if some line is an F8 line, OverflowError only if `int()` returned an integer too large for `/ 1000` -/
theorem text_parser_outcomes (legacy : Bool) (pyInt : Str → Option Int) (pyFloat : Str → Option Nat) (input : Str) :
    ∀ e, textParse legacy pyInt pyFloat input = .error e →
      e = .valueError ∨ (e = .indexError ∧ ∃ l ∈ splitLines input, blankMetaToken l = true) ∨
      (e = .overflowError ∧ HugeInt pyInt) :=
  err3_textParse legacy pyInt pyFloat input

/-- **termination**: the fuel of the model's loops always suffices — for every input, unconditionally -/
theorem text_parser_no_timeout (legacy : Bool) (pyInt : Str → Option Int) (pyFloat : Str → Option Nat) (input : Str) :
    textParse legacy pyInt pyFloat input ≠ .error .timeout := by
  intro h
  rcases text_parser_outcomes legacy pyInt pyFloat input _ h with h | ⟨h, _⟩ | ⟨h, _⟩ <;> cases h

/-- no exception class other than ValueError, IndexError, OverflowError ever escapes (no KeyError from
`labels['__name__']`, no TypeError from unpacking, no AttributeError …) — unconditionally -/
theorem text_parser_no_other_class (legacy : Bool) (pyInt : Str → Option Int) (pyFloat : Str → Option Nat) (input : Str)
    (e : PyErr) (h : textParse legacy pyInt pyFloat input = .error e) :
    e = .valueError ∨ e = .indexError ∨ e = .overflowError := by
  rcases text_parser_outcomes legacy pyInt pyFloat input _ h with h | ⟨h, _⟩ | ⟨h, _⟩
  · exact Or.inl h
  · exact Or.inr (Or.inl h)
  · exact Or.inr (Or.inr h)

/-- **totality of the text parser** under the hypotheses the findings force (full statement: no hypotheses).
PARTIAL: missing exactly (F8) "no metadata line whose third token is non-empty and strips to nothing" and (F19) "`int()`
never returns an integer whose division by 1000 overflows a double"; both are false for the unchanged code. -/
theorem text_parser_total_partial (legacy : Bool) (pyInt : Str → Option Int) (pyFloat : Str → Option Nat) (input : Str)
    (hF8 : ∀ l ∈ splitLines input, blankMetaToken l = false)
    (hOvf : ∀ s n, pyInt s = some n → intDivOverflows n = false) :
    (∃ fams, textParse legacy pyInt pyFloat input = .ok fams) ∨
      textParse legacy pyInt pyFloat input = .error .valueError := by
  cases h : textParse legacy pyInt pyFloat input with
  | ok fams => exact Or.inl ⟨fams, rfl⟩
  | error e =>
    right
    rcases text_parser_outcomes legacy pyInt pyFloat input e h with h' | ⟨_, l, hl, hb⟩ | ⟨_, s, n, hs, hn⟩
    · rw [h']
    · rw [hF8 l hl] at hb; cases hb
    · rw [hOvf s n hs] at hn; cases hn

/-- non-vacuity of `text_parser_total_partial`: a document with HELP/TYPE lines, quoted name, labels, timestamp satisfies
the F8 hypothesis, and bounded `int()` results satisfy the overflow hypothesis -/
example : ∀ l ∈ splitLines "# HELP a_total h\n# TYPE a_total counter\n{\"a b\",x=\"y\"} 1 2\n".toList,
    blankMetaToken l = false := by decide
example : ∀ s n, (fun (_ : Str) => some (5 : Int)) s = some n → intDivOverflows n = false := by
  intro s n h; cases h; decide +kernel

-- the label loop in isolation ---------------------------------------------------------------------------------------

/-- `parse_labels` (text mode) terminates and raises only ValueError on every string without an unquoted '}' — the
strings `_parse_sample` passes (`noRB_label_block`); on `}` alone the real loop does not terminate -/
theorem parse_labels_total (legacy : Bool) (s : Str) (h : noHit rbChs s false false = true) :
    ∀ e, parseLabels legacy s false = .error e → e = .valueError :=
  parseLabels_safe legacy s h

/-- the excluded point is real: on an unquoted '}' the model's loop runs out of fuel (the Python loop spins) -/
theorem parse_labels_rbrace_spins (legacy : Bool) : parseLabels legacy ['}'] false = .error .timeout := by
  cases legacy <;> rfl

-- witnesses: the model raises what the code raises ----------------------------------------------------------------------

/-- F8: `'# HELP \xa0 x\n'` → IndexError (whatever `int()`/`float()` are) -/
theorem f8_help_index_error (legacy : Bool) (pyInt : Str → Option Int) (pyFloat : Str → Option Nat) :
    textParse legacy pyInt pyFloat "# HELP \u00a0 x\n".toList = .error .indexError := by
  cases legacy <;> rfl

/-- F8 on a TYPE line and with a C0 separator: `'# TYPE \x1c counter\n'` → IndexError -/
theorem f8_type_index_error (legacy : Bool) (pyInt : Str → Option Int) (pyFloat : Str → Option Nat) :
    textParse legacy pyInt pyFloat "# TYPE \u001c counter\n".toList = .error .indexError := by
  cases legacy <;> rfl

example : blankMetaToken "# HELP \u00a0 x".toList = true := by decide

/-- F19: a sample line whose timestamp token is read by `int()` as a huge integer → OverflowError -/
theorem ts_overflow_error (legacy : Bool) (pyInt : Str → Option Int) (pyFloat : Str → Option Nat) (m : Int)
    (h1 : pyInt "1".toList = some 1) (hm : pyInt (intStr m) = some m) (ho : intDivOverflows m = true) :
    parseSample legacy pyInt pyFloat ("a 1 ".toList ++ intStr m) = .error .overflowError := by
  have ht : NumTok "1".toList := by decide
  have := parseSample_bare legacy pyInt pyFloat (n := "a".toList) (tok := "1".toList) (by decide) (by decide) ht (some m)
  have e : "a 1 ".toList ++ intStr m = "a".toList ++ ' ' :: valTs "1".toList (some m) := by simp [valTs]
  rw [e, this]
  have hp := pvt_valTs pyInt pyFloat ht (some m) false
  simp only [Bool.false_eq_true, ↓reduceIte, List.nil_append] at hp
  rw [hp, parseValue_numTok _ _ ht, h1, parseValue_numTok _ _ (intStr_numTok m), hm]
  simp only [bind, Except.bind, divThousand, ho, ↓reduceIte]

/-- the overflow threshold is met by 10^312 and not by the largest finite double times 1000 -/
example : intDivOverflows (10 ^ 312) = true ∧ intDivOverflows ((2 ^ 1024 - 2 ^ 971) * 1000) = false := by
  constructor <;> decide +kernel

end PromVerif.Props.C14Text
