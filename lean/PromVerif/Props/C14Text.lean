/-
C14 (text parser part) — the text parser is total: any input ends in families or ValueError.

The model (`Model/TextParse.lean` over `Model/ParseCore.lean`) has every raising site explicit and its loops carry
fuel (`PyErr.timeout` when it runs out).  The theorems hold for EVERY input string and EVERY choice of the number
parameters `pyInt`/`pyFloat` (CPython `int()`/`float()` raise only ValueError; nothing else about them is used).

Two defects found while proving this were repaired in /repo, and the proof now depends on the repairs:
* F8  — a metadata line whose third token is non-empty but strips to nothing (U+00A0, U+001C–U+001F, U+0085, U+2028 …)
        made `_unquote_unescape` index `text[0]` of an empty string (IndexError).  It now strips first and returns on an
        empty result (the shared model `ParseCore.unquoteUnescape` follows the code; function-level correspondence).
* F19 — a timestamp token that `int()` reads as an integer of magnitude ≥ (2^1024 − 2^970)·1000 made
        `_parse_value(values[-1]) / 1000` raise OverflowError.  The division now sits in
        `try … except OverflowError: raise ValueError`; the presence of that handler is re-extracted from the source on
        every run (`Generated.TextParse.tsOverflowToValueError`) and `text_parser_total` stops checking without it.
-/
import PromVerif.Model.TextParse
import PromVerif.Lemmas.TextParseTotal

namespace PromVerif.Props.C14Text
open PromVerif.Py PromVerif.Model.ParseCore PromVerif.Model.TextParse PromVerif.Lemmas.TextTotal
open PromVerif.Lemmas.TextParse PromVerif.Lemmas.Scanner

/-- the extractor found `_parse_value_and_timestamp` in the shape it understands -/
theorem extract_ok : PromVerif.Generated.TextParse.extractOk = true := by decide

/-- **totality of the text parser**: for every input string and every `int()`/`float()`,
`list(text_string_to_metric_families(input))` yields families or raises ValueError — no other class, no timeout -/
theorem text_parser_total (legacy : Bool) (pyInt : Str → Option Int) (pyFloat : Str → Option Nat) (input : Str) :
    (∃ fams, textParse legacy pyInt pyFloat input = .ok fams) ∨
      textParse legacy pyInt pyFloat input = .error .valueError := by
  cases h : textParse legacy pyInt pyFloat input with
  | ok fams => exact Or.inl ⟨fams, rfl⟩
  | error e => right; rw [safe_textParse legacy pyInt pyFloat input e h]

/-- **termination**: the fuel of the model's loops always suffices -/
theorem text_parser_no_timeout (legacy : Bool) (pyInt : Str → Option Int) (pyFloat : Str → Option Nat) (input : Str) :
    textParse legacy pyInt pyFloat input ≠ .error .timeout := by
  intro h
  have := safe_textParse legacy pyInt pyFloat input _ h
  cases this

/-- no exception class other than ValueError ever escapes (no IndexError from `text[0]`/`parts[2]`, no KeyError from
`labels['__name__']`, no OverflowError from `/ 1000`, no TypeError from unpacking, no AttributeError …) -/
theorem text_parser_no_other_class (legacy : Bool) (pyInt : Str → Option Int) (pyFloat : Str → Option Nat) (input : Str)
    (e : PyErr) (h : textParse legacy pyInt pyFloat input = .error e) : e = .valueError :=
  safe_textParse legacy pyInt pyFloat input e h

/-- non-vacuity: both outcomes occur -/
example : textParse false (fun _ => none) (fun _ => some 0) "# HELP a h\n# TYPE a gauge\na 1\n".toList =
    .ok [⟨"a".toList, "h".toList, "gauge".toList, [⟨"a".toList, [], .flt 0, none⟩]⟩] := by rfl
example : textParse false (fun _ => none) (fun _ => none) "a x\n".toList = .error .valueError := by rfl

-- the label loop in isolation ---------------------------------------------------------------------------------------

/-- `parse_labels` (text mode) terminates and raises only ValueError on every string without an unquoted '}' — the
strings `_parse_sample` passes (`noRB_label_block`) -/
theorem parse_labels_total (legacy : Bool) (s : Str) (h : noHit rbChs s false false = true) :
    ∀ e, parseLabels legacy s false = .error e → e = .valueError :=
  parseLabels_safe legacy s h

example : noHit rbChs "a=\"}\",b=\"x\"".toList false false = true := by decide

/-- observation outside the public API: called directly on an unquoted '}', the text-mode loop of `parse_labels` makes no
progress (the model runs out of fuel; the Python loop spins).  Neither parser passes such a string. -/
theorem parse_labels_rbrace_spins (legacy : Bool) : parseLabels legacy ['}'] false = .error .timeout := by
  cases legacy <;> rfl

-- regressions of the two repaired defects -------------------------------------------------------------------------------

/-- F8 regression: `'# HELP \xa0 x\n'` and `'# TYPE \x1c counter\n'` now end in ValueError (were IndexError) -/
theorem f8_regression (legacy : Bool) (pyInt : Str → Option Int) (pyFloat : Str → Option Nat) :
    textParse legacy pyInt pyFloat "# HELP \u00a0 x\n".toList = .error .valueError ∧
    textParse legacy pyInt pyFloat "# TYPE \u001c counter\n".toList = .error .valueError := by
  cases legacy <;> exact ⟨rfl, rfl⟩

/-- F19 regression: a sample line whose timestamp token is read by `int()` as a huge integer now ends in ValueError
(was OverflowError); the threshold is met by 10^312 and not by the largest finite double times 1000 -/
theorem ts_overflow_regression (legacy : Bool) (pyInt : Str → Option Int) (pyFloat : Str → Option Nat) (m : Int)
    (h1 : pyInt "1".toList = some 1) (hm : pyInt (intStr m) = some m) (ho : intDivOverflows m = true) :
    parseSample legacy pyInt pyFloat ("a 1 ".toList ++ intStr m) = .error .valueError := by
  have ht : NumTok "1".toList := by decide
  have := parseSample_bare legacy pyInt pyFloat (n := "a".toList) (tok := "1".toList) (by decide) (by decide) ht (some m)
  have e : "a 1 ".toList ++ intStr m = "a".toList ++ ' ' :: valTs "1".toList (some m) := by simp [valTs]
  rw [e, this]
  have hp := pvt_valTs pyInt pyFloat ht (some m) false
  simp only [Bool.false_eq_true, ↓reduceIte, List.nil_append] at hp
  rw [hp, parseValue_numTok _ _ ht, h1, parseValue_numTok _ _ (intStr_numTok m), hm]
  have hflag : PromVerif.Generated.TextParse.tsOverflowToValueError = true := rfl
  simp only [bind, Except.bind, divThousand, ho, hflag, ↓reduceIte]

example : intDivOverflows (10 ^ 312) = true ∧ intDivOverflows ((2 ^ 1024 - 2 ^ 971) * 1000) = false := by
  constructor <;> decide +kernel

end PromVerif.Props.C14Text
