/-
C14 (text parser part) — totality of the text parser.   (theorems are added below)
-/
import PromVerif.Model.TextParse

namespace PromVerif.Props.C14Text

end PromVerif.Props.C14Text
