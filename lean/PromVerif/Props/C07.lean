/-
C07 — collect is complete and exact; a restricted registry is a pure filter.

Theorems are about `Model/Registry.lean` (`collect`, `restrictedCollect` = `restricted_registry(names).collect()`,
`restrictedMetric` = `Metric._restricted_metric`).  Families, samples and name sets are arbitrary; what a sample
carries besides its name is opaque to the registry and is kept as is.  Iteration order of the collector *set* in
`RestrictedRegistry.collect` is unspecified in Python, so the restricted result is characterised up to permutation.

Findings confirmed on the real code, excluded by hypothesis and exhibited by counter-example theorems:
* F5: `_restricted_metric` rebuilds the family as `Metric(name, documentation, type)` — the unit is lost.
* F19: `RestrictedRegistry.collect` never looks up the name `target_info` in the name map, so a collector that claims
  `target_info` (e.g. `Info('target', …)`) is not selected by `restricted_registry(['target_info'])` although the full
  collection has a sample of that name.
-/
import PromVerif.Lemmas.RegistryCollect
import PromVerif.Props.C06

namespace PromVerif.Props.C07
open PromVerif.Py PromVerif.Model.Registry PromVerif.Spec.Registry

/-- the extractor found the registry sites -/
theorem extract_ok : PromVerif.Generated.Registry.extractOk = true := by decide

/-! ### collect is complete and exact -/

/-- **Full collection, every history.**  After any sequence of `register` / `unregister` / `set_target_info`
calls (raising or not) on a fresh registry, `collect()` yields the target-info family iff target info is
configured, followed by the families of the registered collectors in registration order — where "registered" is
the reference list driven only by the calls and whether they raised (a successful `register` appends a new
collector, a successful `unregister` removes it, a raising call changes nothing) — each collector's `collect()` is
invoked exactly once in that order, and the list has no repetition (nothing twice, nothing from a collector that was
unregistered). -/
theorem collect_exact (ad : Bool) (ti : Option Labels) (ops : List Op) :
    (collect (run (init ad ti) ops).1).families
      = collectSpec (tiAfter ti ops (run (init ad ti) ops).2) (regsAfter [] ops (run (init ad ti) ops).2) ∧
    (collect (run (init ad ti) ops).1).calls
      = (regsAfter [] ops (run (init ad ti) ops).2).map Owner.coll ∧
    (regsAfter [] ops (run (init ad ti) ops).2).Nodup := by
  have h := run_regs ops (init ad ti)
  rw [init_c2n, init_targetInfo] at h
  simp only [List.map_nil] at h
  refine ⟨?_, ?_, regsAfter_nodup ops [] _ List.nodup_nil⟩
  · simp only [collect, collectSpec]
    rw [h.2, ← h.1, List.flatMap_map]
  · simp only [collect]
    rw [← h.1, List.map_map]
    rfl

private def exA : Collector := ⟨0, some [(['x'], .gauge)], [⟨['x'], .gauge, ['h'], [], [⟨['x'], .idx 0⟩]⟩]⟩
private def exB : Collector := ⟨1, some [(['y'], .gauge)], [⟨['y'], .gauge, ['h'], [], [⟨['y'], .idx 1⟩]⟩]⟩

-- a history with a rejected registration and an unregistration: B, then A re-registered, behind target info
example : (collect (run (init false none) [.register exA, .register exB, .register exA, .unregister exA, .register exA,
      .setTargetInfo (some [(['a'], ['b'])])]).1).families
    = targetInfoMetric [(['a'], ['b'])] :: (exB.families ++ exA.families) := by decide

/-! ### the restricted registry -/

/-- **`_restricted_metric` is the filter of the statement, except that the unit is dropped** (F5). -/
theorem restricted_metric_spec (names : List Name) (f : Family) :
    restrictedMetric names f = (restrictTo names f).map dropUnit := by
  unfold restrictedMetric restrictTo dropUnit
  cases h : f.samples.filter (fun smp => decide (smp.name ∈ names)) with
  | nil => simp
  | cons a r => simp

private theorem ti_part (names : List Name) (ti : Option Labels) :
    (if (decide (tiName ∈ names) && truthy ti) = true then tiFamily ti else [])
      = (tiFamily ti).filterMap (restrictedMetric names) := by
  cases ti with
  | none => simp [tiFamily, truthy]
  | some l =>
    cases l with
    | nil => simp [tiFamily, truthy]
    | cons a r =>
      by_cases h : tiName ∈ names
      · simp [tiFamily, truthy, h, restrictedMetric, targetInfoMetric]
      · simp [tiFamily, truthy, h, restrictedMetric, targetInfoMetric]

/- Full statement (false, see F5 and F19):
   Inv s → ClaimsCover s →
     Perm (restrictedCollect names s).families ((collect s).families.filterMap (restrictTo names)) -/
/-- **The restricted registry is the filter of the full collection, up to the unit**: for every name set, under the
C06 invariant and when every sample a collector emits bears a name the collector claimed, the families yielded by
`restricted_registry(names).collect()` are — as a multiset — the families of `collect()` restricted to the samples
whose name is listed, with name, type, help and the kept samples unchanged and families left empty omitted; the
unit is erased.  Missing: the unit (F5), and name sets containing `target_info` while a registered collector emits a
sample of that name (F19). -/
theorem restricted_is_filter_upto_unit_partial {s : State} (hi : Inv s) (hc : ClaimsCover s) (names : List Name)
    (ht : TargetInfoNotEmitted names s) :
    (restrictedCollect names s).families.Perm
      (((collect s).families.filterMap (restrictTo names)).map dropUnit) := by
  have hrm : (fun f => (restrictTo names f).map dropUnit) = restrictedMetric names := by
    funext f; rw [restricted_metric_spec]
  rw [List.map_filterMap, hrm]
  simp only [restrictedCollect, collect, List.filterMap_append, List.filterMap_flatMap]
  rw [ti_part]
  apply List.Perm.append_left
  -- collectors that are not selected contribute nothing
  rw [flatMap_filter_of_nil
    (fun e => decide (Owner.coll e.1 ∈ selectCollectors s.namesToCollectors names []))
    (fun e => e.1.families.filterMap (restrictedMetric names)) s.collectorToNames]
  · have := (selected_perm hi names).flatMap_right (fun o => o.families.filterMap (restrictedMetric names))
    rw [List.flatMap_map] at this
    exact this
  · rintro ⟨c, ns⟩ hm hsel
    simp only [decide_eq_false_iff_not] at hsel
    simp only [List.filterMap_eq_nil_iff]
    intro f hf
    simp only [restrictedMetric, List.isEmpty_iff, ite_eq_left_iff]
    intro hne
    exfalso
    apply hne
    rw [List.filter_eq_nil_iff]
    intro smp hs
    simp only [decide_eq_true_eq]
    intro hin
    have hcl := hc c ns hm f hf smp hs
    by_cases hti : smp.name = tiName
    · exact ht (hti ▸ hin) c ns hm f hf smp hs hti
    · exact hsel (claimant_is_selected hi hm hin hti hcl)

/-- **…and exactly the filter when no family has a unit.** -/
theorem restricted_is_filter_partial {s : State} (hi : Inv s) (hc : ClaimsCover s) (names : List Name)
    (ht : TargetInfoNotEmitted names s) (hu : NoUnits s) :
    (restrictedCollect names s).families.Perm ((collect s).families.filterMap (restrictTo names)) := by
  have h := restricted_is_filter_upto_unit_partial hi hc names ht
  have hid : ((collect s).families.filterMap (restrictTo names)).map dropUnit
      = (collect s).families.filterMap (restrictTo names) := by
    rw [List.map_congr_left, List.map_id]
    intro g hg
    obtain ⟨f, hf, hfg⟩ := List.mem_filterMap.1 hg
    have hfu : f.unit = [] := by
      simp only [collect, List.mem_append, List.mem_flatMap] at hf
      rcases hf with hf | ⟨e, he, hf⟩
      · unfold tiFamily at hf
        split at hf
        · simp at hf; subst hf; rfl
        · simp at hf
      · exact hu e.1 e.2 he f hf
    unfold restrictTo at hfg
    split at hfg
    · cases hfg
    · cases hfg
      simp [dropUnit, hfu]
  rw [hid] at h
  exact h

/-- the same over every registry reachable by a C06 history (whose registered collectors claim pairwise distinct
names — F6) -/
theorem restricted_is_filter_reachable_partial (ad : Bool) (ti : Option Labels) (ops : List Op)
    (hw : WellDescribed ad ops) (names : List Name)
    (hc : ClaimsCover (run (init ad ti) ops).1) (ht : TargetInfoNotEmitted names (run (init ad ti) ops).1) :
    (restrictedCollect names (run (init ad ti) ops).1).families.Perm
      (((collect (run (init ad ti) ops).1).families.filterMap (restrictTo names)).map dropUnit) :=
  restricted_is_filter_upto_unit_partial (PromVerif.Props.C06.inv_run_partial ad ti ops hw) hc names ht

/-- **`collect()` is invoked only on claimants**: every collector the restricted registry calls is registered and
claims one of the listed names, and none is called twice. -/
theorem restricted_calls_only_claimants {s : State} (hi : Inv s) (names : List Name) :
    (∀ o, o ∈ (restrictedCollect names s).calls →
      ∃ c ns n, o = Owner.coll c ∧ (c, ns) ∈ s.collectorToNames ∧ n ∈ names ∧ n ∈ claims s.autoDescribe c) ∧
    (restrictedCollect names s).calls.Nodup := by
  refine ⟨?_, selectCollectors_nodup _ _ _ List.nodup_nil⟩
  intro o ho
  obtain ⟨c, ns, n, h1, h2, h3, _, h5⟩ := selected_is_claimant hi ho
  refine ⟨c, ns, n, h1, h2, h3, ?_⟩
  rw [← getNames_eq_claims, ← hi.stored c ns h2]
  exact h5

/-! ### non-vacuity and the excluded cases -/

private def exS : State := (run (init false none) [.register exA, .register exB]).1

-- the hypotheses of the filter theorems hold of a registry with two collectors, and the restriction is non-trivial
example : Inv exS ∧ ClaimsCover exS ∧ TargetInfoNotEmitted [['y'], ['z']] exS ∧ NoUnits exS ∧
    (restrictedCollect [['y'], ['z']] exS).families = exB.families ∧
    (restrictedCollect [['y'], ['z']] exS).calls = [Owner.coll exB] := by
  have hA : ∀ c ns, (c, ns) ∈ exS.collectorToNames → (c = exA ∧ ns = [['x']]) ∨ (c = exB ∧ ns = [['y']]) := by
    intro c ns h
    have : exS.collectorToNames = [(exA, [['x']]), (exB, [['y']])] := by decide
    rw [this] at h
    simpa using h
  refine ⟨?_, ?_, ?_, ?_, by decide, by decide⟩
  · exact PromVerif.Model.Registry.inv_register (PromVerif.Model.Registry.inv_register
      (PromVerif.Model.Registry.inv_setTargetInfo (inv_base false) none) exA) exB
  · intro c ns h f hf smp hs
    rcases hA c ns h with ⟨rfl, rfl⟩ | ⟨rfl, rfl⟩
    · simp [exA] at hf; subst hf; simp at hs; subst hs; simp
    · simp [exB] at hf; subst hf; simp at hs; subst hs; simp
  · intro hin; simp [tiName] at hin
  · intro c ns h f hf
    rcases hA c ns h with ⟨rfl, rfl⟩ | ⟨rfl, rfl⟩
    · simp [exA] at hf; subst hf; rfl
    · simp [exB] at hf; subst hf; rfl

/-- a gauge family `g_sec` with unit `sec` -/
def f5Collector : Collector :=
  ⟨0, some [(['g', '_', 's', 'e', 'c'], .gauge)],
    [⟨['g', '_', 's', 'e', 'c'], .gauge, ['d'], ['s', 'e', 'c'], [⟨['g', '_', 's', 'e', 'c'], .idx 0⟩]⟩]⟩

/-- **Counter-example (finding F5).**  Restricting to the family's only sample name should return the family
unchanged; the restricted registry returns it with an empty unit. -/
theorem restricted_drops_unit_counterexample :
    (collect (register (init false none) f5Collector).1).families.filterMap (restrictTo [['g', '_', 's', 'e', 'c']])
      = f5Collector.families ∧
    (restrictedCollect [['g', '_', 's', 'e', 'c']] (register (init false none) f5Collector).1).families
      = f5Collector.families.map dropUnit ∧
    f5Collector.families.map dropUnit ≠ f5Collector.families := by decide

/-- what `Info('target', 'h').info({...})` registers: family `target` of type info with a sample `target_info` -/
def f19Collector : Collector :=
  ⟨0, some [(['t', 'a', 'r', 'g', 'e', 't'], .info)],
    [⟨['t', 'a', 'r', 'g', 'e', 't'], .info, ['h'], [], [⟨tiName, .idx 0⟩]⟩]⟩

/-- **Counter-example (finding F19).**  The collector claims `target` and `target_info` and emits a sample named
`target_info`; the full collection restricted to `{target_info}` keeps that family, the restricted registry yields
nothing (it never selects a collector through the name `target_info`) and calls no collector. -/
theorem restricted_target_info_counterexample :
    (register (init false none) f19Collector).2 = none ∧
    (collect (register (init false none) f19Collector).1).families.filterMap (restrictTo [tiName])
      = f19Collector.families ∧
    (restrictedCollect [tiName] (register (init false none) f19Collector).1).families = [] ∧
    (restrictedCollect [tiName] (register (init false none) f19Collector).1).calls = [] := by decide

end PromVerif.Props.C07
