/-
C07 — collect is complete and exact; a restricted registry is a pure filter.

Theorems are about `Model/Registry.lean` (`collect`, `restrictedCollect` = `restricted_registry(names).collect()`,
`restrictedMetric` = `Metric._restricted_metric`).  Families, samples and name sets are arbitrary; what a sample
carries besides its name is opaque to the registry and is kept as is.  Iteration order of the collector *set* in
`RestrictedRegistry.collect` is unspecified in Python, so the restricted result is characterised up to permutation.

History: F5 (`_restricted_metric` dropped the unit, fixed by 47e3465) and F19 (`RestrictedRegistry.collect` never
looked up the name `target_info`, so a collector claiming it — `Info('target', …)` — was not selected; fixed by d22a2a4)
are repaired in /repo; the model follows, `restricted_is_filter` is exact including unit and `target_info`, and the two
old witnesses are regression `example`s.  `ClaimsCover` remains: it is a real precondition (the registry can find a
collector only through the names it claimed), not a defect.
-/
import PromVerif.Lemmas.RegistryCollect
import PromVerif.Props.C06

namespace PromVerif.Props.C07
open PromVerif.Py PromVerif.Model.Registry PromVerif.Spec.Registry

/-- the extractor found the registry sites -/
theorem extract_ok : PromVerif.Generated.Registry.extractOk = true := by decide

/-! ### collect is complete and exact -/

/-- **Full collection, every history.**  After any sequence of `register` / `unregister` / `set_target_info`
calls (raising or not) on a fresh registry, `collect()` yields the target-info family iff target info is
configured, followed by the families of the registered collectors in registration order — where "registered" is
the reference list driven only by the calls and whether they raised (a successful `register` appends a new
collector, a successful `unregister` removes it, a raising call changes nothing) — each collector's `collect()` is
invoked exactly once in that order, and the list has no repetition (nothing twice, nothing from a collector that was
unregistered). -/
theorem collect_exact (ad : Bool) (ti : Option Labels) (ops : List Op) :
    (collect (run (init ad ti) ops).1).families
      = collectSpec (tiAfter ti ops (run (init ad ti) ops).2) (regsAfter [] ops (run (init ad ti) ops).2) ∧
    (collect (run (init ad ti) ops).1).calls
      = (regsAfter [] ops (run (init ad ti) ops).2).map Owner.coll ∧
    (regsAfter [] ops (run (init ad ti) ops).2).Nodup := by
  have h := run_regs ops (init ad ti)
  rw [init_c2n, init_targetInfo] at h
  simp only [List.map_nil] at h
  refine ⟨?_, ?_, regsAfter_nodup ops [] _ List.nodup_nil⟩
  · simp only [collect, collectSpec]
    rw [h.2, ← h.1, List.flatMap_map]
  · simp only [collect]
    rw [← h.1, List.map_map]
    rfl

private def exA : Collector := ⟨0, some [(['x'], .gauge)], [⟨['x'], .gauge, ['h'], [], [⟨['x'], .idx 0⟩]⟩]⟩
private def exB : Collector := ⟨1, some [(['y'], .gauge)], [⟨['y'], .gauge, ['h'], [], [⟨['y'], .idx 1⟩]⟩]⟩

-- a history with a rejected registration and an unregistration: B, then A re-registered, behind target info
example : (collect (run (init false none) [.register exA, .register exB, .register exA, .unregister exA, .register exA,
      .setTargetInfo (some [(['a'], ['b'])])]).1).families
    = targetInfoMetric [(['a'], ['b'])] :: (exB.families ++ exA.families) := by decide

/-! ### the restricted registry -/

/-- **`_restricted_metric` is the filter of the statement**: kept samples, unchanged name, type, help and unit; a
family left empty is omitted. -/
theorem restricted_metric_spec (names : List Name) (f : Family) :
    restrictedMetric names f = restrictTo names f := by
  unfold restrictedMetric restrictTo
  cases h : f.samples.filter (fun smp => decide (smp.name ∈ names)) with
  | nil => simp
  | cons a r => simp

private theorem ti_part (names : List Name) (ti : Option Labels) :
    (if (decide (tiName ∈ names) && truthy ti) = true then tiFamily ti else [])
      = (tiFamily ti).filterMap (restrictedMetric names) := by
  cases ti with
  | none => simp [tiFamily, truthy]
  | some l =>
    cases l with
    | nil => simp [tiFamily, truthy]
    | cons a r =>
      by_cases h : tiName ∈ names
      · simp [tiFamily, truthy, h, restrictedMetric, targetInfoMetric]
      · simp [tiFamily, truthy, h, restrictedMetric, targetInfoMetric]

/-- **The restricted registry is a pure filter**: for every name set, under the C06 invariant and when every sample a
collector emits bears a name the collector claimed (`ClaimsCover` — a real precondition, see above), the families
yielded by `restricted_registry(names).collect()` are — as a multiset — exactly the families of `collect()` restricted
to the samples whose name is listed, with name, type, help, unit and the kept samples unchanged and families left
empty omitted. -/
theorem restricted_is_filter {s : State} (hi : Inv s) (hc : ClaimsCover s) (names : List Name) :
    (restrictedCollect names s).families.Perm ((collect s).families.filterMap (restrictTo names)) := by
  have hrm : restrictTo names = restrictedMetric names := by
    funext f; rw [restricted_metric_spec]
  rw [hrm]
  simp only [restrictedCollect, collect, List.filterMap_append, List.filterMap_flatMap]
  rw [ti_part]
  apply List.Perm.append_left
  -- the `_EmptyCollector` (selected through `target_info` when target info is configured) yields nothing
  rw [flatMap_filter_of_nil (fun o => decide (o ≠ Owner.empty))
    (fun o => o.families.filterMap (restrictedMetric names)) (selectCollectors s.namesToCollectors names [])
    (by
      intro o _ ho
      have : o = Owner.empty := by simpa using ho
      subst this; rfl)]
  -- collectors that are not selected contribute nothing
  rw [flatMap_filter_of_nil
    (fun e => decide (Owner.coll e.1 ∈ selectCollectors s.namesToCollectors names []))
    (fun e => e.1.families.filterMap (restrictedMetric names)) s.collectorToNames]
  · have := (selected_perm hi names).flatMap_right (fun o => o.families.filterMap (restrictedMetric names))
    rw [List.flatMap_map] at this
    exact this
  · rintro ⟨c, ns⟩ hm hsel
    simp only [decide_eq_false_iff_not] at hsel
    simp only [List.filterMap_eq_nil_iff]
    intro f hf
    simp only [restrictedMetric, List.isEmpty_iff, ite_eq_left_iff]
    intro hne
    exfalso
    apply hne
    rw [List.filter_eq_nil_iff]
    intro smp hs
    simp only [decide_eq_true_eq]
    intro hin
    exact hsel (claimant_is_selected hi hm hin (hc c ns hm f hf smp hs))

/-- the same over every registry reachable by a C06 history -/
theorem restricted_is_filter_reachable (ad : Bool) (ti : Option Labels) (ops : List Op) (names : List Name)
    (hc : ClaimsCover (run (init ad ti) ops).1) :
    (restrictedCollect names (run (init ad ti) ops).1).families.Perm
      ((collect (run (init ad ti) ops).1).families.filterMap (restrictTo names)) :=
  restricted_is_filter (PromVerif.Props.C06.inv_run ad ti ops) hc names

/-- **`collect()` is invoked only on claimants**: every collector the restricted registry calls is registered and
claims one of the listed names — or is the `_EmptyCollector` that stands for configured target info, reached only
when `target_info` is listed — and none is called twice. -/
theorem restricted_calls_only_claimants {s : State} (hi : Inv s) (names : List Name) :
    (∀ o, o ∈ (restrictedCollect names s).calls →
      (∃ c ns n, o = Owner.coll c ∧ (c, ns) ∈ s.collectorToNames ∧ n ∈ names ∧ n ∈ claims s.autoDescribe c) ∨
      (o = Owner.empty ∧ tiName ∈ names ∧ truthy s.targetInfo = true)) ∧
    (restrictedCollect names s).calls.Nodup := by
  refine ⟨?_, selectCollectors_nodup _ _ _ List.nodup_nil⟩
  intro o ho
  rcases selected_is_claimant hi ho with ⟨c, ns, n, h1, h2, h3, h5⟩ | h
  · refine Or.inl ⟨c, ns, n, h1, h2, h3, ?_⟩
    rw [← mem_getNames_iff, ← hi.stored c ns h2]
    exact h5
  · exact Or.inr h

/-! ### non-vacuity and regressions -/

private def exS : State := (run (init false none) [.register exA, .register exB]).1

-- the hypotheses of the filter theorems hold of a registry with two collectors, and the restriction is non-trivial
example : Inv exS ∧ ClaimsCover exS ∧
    (restrictedCollect [['y'], ['z']] exS).families = exB.families ∧
    (restrictedCollect [['y'], ['z']] exS).calls = [Owner.coll exB] := by
  have hA : ∀ c ns, (c, ns) ∈ exS.collectorToNames → (c = exA ∧ ns = [['x']]) ∨ (c = exB ∧ ns = [['y']]) := by
    intro c ns h
    have : exS.collectorToNames = [(exA, [['x']]), (exB, [['y']])] := by decide
    rw [this] at h
    simpa using h
  refine ⟨?_, ?_, by decide, by decide⟩
  · exact PromVerif.Model.Registry.inv_register (PromVerif.Model.Registry.inv_register
      (PromVerif.Model.Registry.inv_setTargetInfo (inv_base false) none) exA) exB
  · intro c ns h f hf smp hs
    rcases hA c ns h with ⟨rfl, rfl⟩ | ⟨rfl, rfl⟩
    · simp [exA] at hf; subst hf; simp at hs; subst hs; simp
    · simp [exB] at hf; subst hf; simp at hs; subst hs; simp

/-- a gauge family `g_sec` with unit `sec` -/
private def f5Collector : Collector :=
  ⟨0, some [(['g', '_', 's', 'e', 'c'], .gauge)],
    [⟨['g', '_', 's', 'e', 'c'], .gauge, ['d'], ['s', 'e', 'c'], [⟨['g', '_', 's', 'e', 'c'], .idx 0⟩]⟩]⟩

-- regression (former F5): restricting to the family's only sample name returns the family unchanged, unit included
example :
    (restrictedCollect [['g', '_', 's', 'e', 'c']] (register (init false none) f5Collector).1).families
      = f5Collector.families := by decide

/-- what `Info('target', 'h').info({...})` registers: family `target` of type info with a sample `target_info` -/
private def f19Collector : Collector :=
  ⟨0, some [(['t', 'a', 'r', 'g', 'e', 't'], .info)],
    [⟨['t', 'a', 'r', 'g', 'e', 't'], .info, ['h'], [], [⟨tiName, .idx 0⟩]⟩]⟩

-- regression (former F19): the collector claiming `target_info` is selected through that name
example :
    (register (init false none) f19Collector).2 = none ∧
    (restrictedCollect [tiName] (register (init false none) f19Collector).1).families = f19Collector.families ∧
    (restrictedCollect [tiName] (register (init false none) f19Collector).1).calls = [Owner.coll f19Collector] := by
  decide

-- with target info configured, `target_info` selects the `_EmptyCollector` (which yields nothing) and the
-- target-info family is returned once
example :
    (restrictedCollect [tiName] (init false (some [(['a'], ['b'])]))).families = [targetInfoMetric [(['a'], ['b'])]] ∧
    (restrictedCollect [tiName] (init false (some [(['a'], ['b'])]))).calls = [Owner.empty] := by decide

end PromVerif.Props.C07
