/-
C07 — collect is complete and exact; a restricted registry is a pure filter.

Theorems are about `Model/Registry.lean` (`collect`, `restrictedCollect` = `restricted_registry(names).collect()`,
`restrictedMetric` = `Metric._restricted_metric`).  Families, samples and name sets are arbitrary; what a sample
carries besides its name is opaque to the registry and is kept as is.  Iteration order of the collector *set* in
`RestrictedRegistry.collect` is unspecified in Python, so the restricted result is characterised up to permutation.

History: F5 (`_restricted_metric` dropped the unit, fixed by 47e3465) and F19 (`RestrictedRegistry.collect` never
looked up the name `target_info`, so a collector claiming it — `Info('target', …)` — was not selected; fixed by d22a2a4)
are repaired in /repo; the model follows, `restricted_is_filter` is exact including unit and `target_info`, and the two
old witnesses are regression `example`s.  `ClaimsCover` remains: it is a real precondition (the registry can find a
collector only through the names it claimed), not a defect.
-/
import PromVerif.Lemmas.RegistryCollect
import PromVerif.Lemmas.RegistryMetrics
import PromVerif.Props.C06
import PromVerif.Props.C17

namespace PromVerif.Props.C07
open PromVerif.Py PromVerif.Model.Registry PromVerif.Spec.Registry

/-- the extractor found the registry sites -/
theorem extract_ok : PromVerif.Generated.Registry.extractOk = true := by decide

/-! ### collect is complete and exact -/

/-- **Full collection, every history.**  After any sequence of `register` / `unregister` / `set_target_info`
calls (raising or not) on a fresh registry, `collect()` yields the target-info family iff target info is
configured, followed by the families of the registered collectors in registration order — where "registered" is
the reference list driven only by the calls and whether they raised (a successful `register` appends a new
collector, a successful `unregister` removes it, a raising call changes nothing) — each collector's `collect()` is
invoked exactly once in that order, and the list has no repetition (nothing twice, nothing from a collector that was
unregistered). -/
theorem collect_exact (ad : Bool) (ti : Option Labels) (ops : List Op) :
    (collect (run (init ad ti) ops).1).families
      = collectSpec (tiAfter ti ops (run (init ad ti) ops).2) (regsAfter [] ops (run (init ad ti) ops).2) ∧
    (collect (run (init ad ti) ops).1).calls
      = (regsAfter [] ops (run (init ad ti) ops).2).map Owner.coll ∧
    (regsAfter [] ops (run (init ad ti) ops).2).Nodup := by
  have h := run_regs ops (init ad ti)
  rw [init_c2n, init_targetInfo] at h
  simp only [List.map_nil] at h
  refine ⟨?_, ?_, regsAfter_nodup ops [] _ List.nodup_nil⟩
  · simp only [collect_eq, collectSpec]
    rw [h.2, ← h.1, List.flatMap_map]
  · simp only [collect_eq]
    rw [← h.1, List.map_map]
    rfl

private def exA : Collector := ⟨0, some [(['x'], .gauge)], [⟨['x'], .gauge, ['h'], [], [⟨['x'], .idx 0⟩]⟩]⟩
private def exB : Collector := ⟨1, some [(['y'], .gauge)], [⟨['y'], .gauge, ['h'], [], [⟨['y'], .idx 1⟩]⟩]⟩

-- a history with a rejected registration and an unregistration: B, then A re-registered, behind target info
example : (collect (run (init false none) [.register exA, .register exB, .register exA, .unregister exA, .register exA,
      .setTargetInfo (some [(['a'], ['b'])])]).1).families
    = targetInfoMetric [(['a'], ['b'])] :: (exB.families ++ exA.families) := by decide

/-! ### the restricted registry -/

/-- **`_restricted_metric` is the filter of the statement**: kept samples, unchanged name, type, help and unit; a
family left empty is omitted. -/
theorem restricted_metric_spec (names : List Name) (f : Family) :
    restrictedMetric names f = restrictTo names f := by
  unfold restrictedMetric restrictTo
  cases h : f.samples.filter (fun smp => decide (smp.name ∈ names)) with
  | nil => simp
  | cons a r => simp

private theorem ti_part (names : List Name) (ti : Option Labels) :
    (if (decide (tiName ∈ names) && truthy ti) = true then tiFamily ti else [])
      = (tiFamily ti).filterMap (restrictedMetric names) := by
  cases ti with
  | none => simp [tiFamily, truthy]
  | some l =>
    cases l with
    | nil => simp [tiFamily, truthy]
    | cons a r =>
      by_cases h : tiName ∈ names
      · simp [tiFamily, truthy, h, restrictedMetric, targetInfoMetric]
      · simp [tiFamily, truthy, h, restrictedMetric, targetInfoMetric]

/-- **The restricted registry is a pure filter**: for every name set, under the C06 invariant and when every sample a
collector emits bears a name the collector claimed (`ClaimsCover` — a real precondition, see above), the families
yielded by `restricted_registry(names).collect()` are — as a multiset — exactly the families of `collect()` restricted
to the samples whose name is listed, with name, type, help, unit and the kept samples unchanged and families left
empty omitted.
The hypothesis `ClaimsCover` is exactly what the known finding `C07:undescribed-collector-not-restrictable` excludes: a
collector without `describe()` under `auto_describe = False` (or whose `describe()` under-reports) claims too few names,
the registry cannot find it through its sample names, and the statement as written fails there
(`claims_cover_needed`); by design — its names are unknown without calling `collect()`. -/
theorem restricted_is_filter {s : State} (hi : Inv s) (hc : ClaimsCover s) (names : List Name) :
    (restrictedCollect names s).families.Perm ((collect s).families.filterMap (restrictTo names)) := by
  have hrm : restrictTo names = restrictedMetric names := by
    funext f; rw [restricted_metric_spec]
  rw [hrm]
  simp only [restrictedCollect_eq, collect_eq, List.filterMap_append, List.filterMap_flatMap]
  rw [ti_part]
  apply List.Perm.append_left
  -- the `_EmptyCollector` (selected through `target_info` when target info is configured) yields nothing
  rw [flatMap_filter_of_nil (fun o => decide (o ≠ Owner.empty))
    (fun o => o.families.filterMap (restrictedMetric names)) (selectCollectors s.namesToCollectors names [])
    (by
      intro o _ ho
      have : o = Owner.empty := by simpa using ho
      subst this; rfl)]
  -- collectors that are not selected contribute nothing
  rw [flatMap_filter_of_nil
    (fun e => decide (Owner.coll e.1 ∈ selectCollectors s.namesToCollectors names []))
    (fun e => e.1.families.filterMap (restrictedMetric names)) s.collectorToNames]
  · have := (selected_perm hi names).flatMap_right (fun o => o.families.filterMap (restrictedMetric names))
    rw [List.flatMap_map] at this
    exact this
  · rintro ⟨c, ns⟩ hm hsel
    simp only [decide_eq_false_iff_not] at hsel
    simp only [List.filterMap_eq_nil_iff]
    intro f hf
    simp only [restrictedMetric, List.isEmpty_iff, ite_eq_left_iff]
    intro hne
    exfalso
    apply hne
    rw [List.filter_eq_nil_iff]
    intro smp hs
    simp only [decide_eq_true_eq]
    intro hin
    exact hsel (claimant_is_selected hi hm hin (hc c ns hm f hf smp hs))

/-- the same over every registry reachable by a C06 history -/
theorem restricted_is_filter_reachable (ad : Bool) (ti : Option Labels) (ops : List Op) (names : List Name)
    (hc : ClaimsCover (run (init ad ti) ops).1) :
    (restrictedCollect names (run (init ad ti) ops).1).families.Perm
      ((collect (run (init ad ti) ops).1).families.filterMap (restrictTo names)) :=
  restricted_is_filter (PromVerif.Props.C06.inv_run ad ti ops) hc names

/-- **`collect()` is invoked only on claimants**: every collector the restricted registry calls is registered and
claims one of the listed names — or is the `_EmptyCollector` that stands for configured target info, reached only
when `target_info` is listed — and none is called twice. -/
theorem restricted_calls_only_claimants {s : State} (hi : Inv s) (names : List Name) :
    (∀ o, o ∈ (restrictedCollect names s).calls →
      (∃ c ns n, o = Owner.coll c ∧ (c, ns) ∈ s.collectorToNames ∧ n ∈ names ∧ n ∈ claims s.autoDescribe c) ∨
      (o = Owner.empty ∧ tiName ∈ names ∧ truthy s.targetInfo = true)) ∧
    (restrictedCollect names s).calls.Nodup := by
  refine ⟨?_, selectCollectors_nodup _ _ _ List.nodup_nil⟩
  intro o ho
  rcases selected_is_claimant hi ho with ⟨c, ns, n, h1, h2, h3, h5⟩ | h
  · refine Or.inl ⟨c, ns, n, h1, h2, h3, ?_⟩
    rw [← mem_getNames_iff, ← hi.stored c ns h2]
    exact h5
  · exact Or.inr h

/-- **A restricted-registry object reflects the registry as it is now.**  The object is its name set plus a reference
to the registry (`RestrictedRegistry` holds nothing else), so collecting through an object made after the calls `ops₁`
once the calls `ops₂` have followed is `restrictedCollect` of the state reached by `ops₁ ++ ops₂`: it is the filter of
the CURRENT full collection and calls only CURRENT claimants — whatever was registered when the object was made. -/
theorem restricted_object_reflects_current_state (ad : Bool) (ti : Option Labels) (ops₁ ops₂ : List Op) (names : List Name)
    (hc : ClaimsCover (run (init ad ti) (ops₁ ++ ops₂)).1) :
    ((restrictedRegistry names).collect (run (init ad ti) (ops₁ ++ ops₂)).1).families.Perm
      ((collect (run (init ad ti) (ops₁ ++ ops₂)).1).families.filterMap (restrictTo names)) ∧
    (∀ o, o ∈ ((restrictedRegistry names).collect (run (init ad ti) (ops₁ ++ ops₂)).1).calls →
      (∃ c ns n, o = Owner.coll c ∧ (c, ns) ∈ (run (init ad ti) (ops₁ ++ ops₂)).1.collectorToNames ∧ n ∈ names ∧
        n ∈ claims (run (init ad ti) (ops₁ ++ ops₂)).1.autoDescribe c) ∨
      (o = Owner.empty ∧ tiName ∈ names ∧ truthy (run (init ad ti) (ops₁ ++ ops₂)).1.targetInfo = true)) :=
  ⟨restricted_is_filter_reachable ad ti (ops₁ ++ ops₂) names hc,
   (restricted_calls_only_claimants (PromVerif.Props.C06.inv_run ad ti (ops₁ ++ ops₂)) names).1⟩

-- an object made while `exB` was registered yields nothing from it once `exB` is unregistered
example : ((restrictedRegistry [['y']]).collect (run (init false none) [.register exB]).1).families = exB.families ∧
    ((restrictedRegistry [['y']]).collect (run (init false none) ([.register exB] ++ [.unregister exB])).1).families = [] ∧
    ((restrictedRegistry [['y']]).collect (run (init false none) ([.register exB] ++ [.unregister exB])).1).calls = [] := by
  decide

/-! ### the built-in metric classes satisfy `ClaimsCover` -/

section Builtin
variable {V : Type} [PromVerif.Model.Metrics.Val V]

/-- **Every built-in metric object covers its claims.**  For every metric object `m` of the C01 model — Counter, Gauge,
Summary, Histogram (any bounds), Info, Enum (any states); any label schema, any state, hence in particular every
state reachable by any history — seen as a registry collector (`describe()` = its family without samples, `collect()`
= the family with the samples `_samples` / `_multi_samples` / `_child_samples` build, plus one `<name>_created` per
child when created series are enabled, `created`), every sample name it emits (`_total`, `_created`, `_count`, `_sum`,
`_bucket`, `_info`, the bare name for gauges and enums) is among the names `_get_names` records for it under the
extracted suffix table, whatever the `auto_describe` flag, help text and unit.  (`m` is arbitrary, so no reachability
hypothesis is needed: the statement holds a fortiori for the objects of `Model.Metrics.run (Reg.fresh ds) ops`.) -/
theorem builtin_claims_cover (ad : Bool) (id : Nat) (help unit : List Char) (created : Bool)
    (m : PromVerif.Model.Metrics.Metric V) :
    SamplesCovered ad (metricCollector id help unit created m) :=
  metricCollector_covered ad id help unit created m

end Builtin

private instance exVal : PromVerif.Model.Metrics.Val Nat :=
  { zero := 0, one := 1, add := Nat.add, neg := id, le := fun a b => decide (a ≤ b), lt := fun a b => decide (a < b),
    ofNat := id, inf := 1000000, beq := fun a b => decide (a = b) }

/-- `Histogram('h', …, ['l'], buckets=(1, +Inf))` with one child -/
private def exHist : PromVerif.Model.Metrics.Metric Nat :=
  { decl := { name := ['h'], kind := .histogram [(1, ['1', '.', '0']), (1000000, ['i', 'n', 'f'])], labelnames := [['l']] }
    single := none
    children := [([['a']], PromVerif.Model.Metrics.metricInit (.histogram [(1, ['1', '.', '0']), (1000000, ['i', 'n', 'f'])]))] }

-- the bridge is not vacuous: a labelled histogram child emits two buckets, count, sum and created, all claimed
example :
    emittedNames true exHist = [['h', '_', 'b', 'u', 'c', 'k', 'e', 't'], ['h', '_', 'b', 'u', 'c', 'k', 'e', 't'],
      ['h', '_', 'c', 'o', 'u', 'n', 't'], ['h', '_', 's', 'u', 'm'], ['h', '_', 'c', 'r', 'e', 'a', 't', 'e', 'd']] ∧
    getNames false (metricCollector 0 [] [] true exHist) = [['h'], ['h', '_', 'b', 'u', 'c', 'k', 'e', 't'],
      ['h', '_', 's', 'u', 'm'], ['h', '_', 'c', 'o', 'u', 'n', 't'], ['h', '_', 'c', 'r', 'e', 'a', 't', 'e', 'd']] := by
  decide


/-- **For registries of covered collectors the filter theorem is unconditional**: after any history all of whose
`register` calls are for collectors whose sample names are among their claimed names — every built-in metric object is
one (`builtin_claims_cover`) — the restricted collection is the per-sample-name filter of the full collection. -/
theorem restricted_is_filter_covered (ad : Bool) (ti : Option Labels) (ops : List Op) (names : List Name)
    (h : ∀ c, Op.register c ∈ ops → SamplesCovered ad c) :
    (restrictedCollect names (run (init ad ti) ops).1).families.Perm
      ((collect (run (init ad ti) ops).1).families.filterMap (restrictTo names)) := by
  have hi := PromVerif.Props.C06.inv_run ad ti ops
  refine restricted_is_filter hi (claimsCover_of_covered hi ?_) names
  intro c ns hm
  rw [run_autoDescribe, init_autoDescribe]
  exact h c (registered_was_registered ad ti ops hm)

/-! ### the HTTP `name[]` parameter -/

section Http
open PromVerif.Model.Http (Env Fmt PyKey Params bakeOutput chooseEncoder)
variable {B : Type}

/-- the `str` values of `params['name[]']` (a `bytes` value never equals a sample name, which is a `str`) -/
def keyNames (ks : List PyKey) : List Name :=
  ks.filterMap fun k => match k with
    | .str s => some s
    | .bytes _ => none

/-- C17's opaque exposition parameter instantiated with this registry model: `expo f none` renders `collect()`,
`expo f (some names)` renders `restricted_registry(names).collect()`; `render` (the two encoders) stays opaque -/
def registryEnv (render : Fmt → List Family → B) (s : State) (gzip : B → B) (empty : B)
    (errBody : PromVerif.Model.Http.Str → PromVerif.Model.Http.Str → B) : Env B :=
  { expo := fun f r => match r with
      | none => render f (collect s).families
      | some ks => render f (restrictedCollect (keyNames ks) s).families
    gzip := gzip, empty := empty, errBody := errBody }

/-- **The HTTP `name[]` parameter is the restricted registry.**  With C17's exposition parameter instantiated as
"encode the families of this registry model" (a one-line instantiation of `Env.expo`; nothing in `Model/Http.lean` has to
change), the body `_bake_output` serves for a request whose query has `name[]` values `ks` is — gzip-compressed iff
the response says so — the chosen encoder applied to exactly `restrictedCollect (keyNames ks) s`; without `name[]` it
is the encoder applied to the full collection; and under the C06 invariant and `ClaimsCover` the served families are,
as a multiset, the per-sample-name filter of the full collection with name, type, help and unit unchanged. -/
theorem http_name_param (render : Fmt → List Family → B) (s : State) (gzip : B → B) (empty : B)
    (errBody : PromVerif.Model.Http.Str → PromVerif.Model.Http.Str → B)
    (accept ae : Option PromVerif.Model.Http.Str) (params : Params) (d : Bool) :
    (∀ ks, params.lookup (PyKey.str PromVerif.Generated.Http.nameKey) = some ks →
      (bakeOutput (registryEnv render s gzip empty errBody) accept ae params d).body
        = (if PromVerif.Spec.Http.contentEncoding ∈
              (bakeOutput (registryEnv render s gzip empty errBody) accept ae params d).headers
           then gzip (render (chooseEncoder accept).1 (restrictedCollect (keyNames ks) s).families)
           else render (chooseEncoder accept).1 (restrictedCollect (keyNames ks) s).families) ∧
      (Inv s → ClaimsCover s →
        (restrictedCollect (keyNames ks) s).families.Perm
          ((collect s).families.filterMap (restrictTo (keyNames ks))))) ∧
    (params.lookup (PyKey.str PromVerif.Generated.Http.nameKey) = none →
      (bakeOutput (registryEnv render s gzip empty errBody) accept ae params d).body
        = (if PromVerif.Spec.Http.contentEncoding ∈
              (bakeOutput (registryEnv render s gzip empty errBody) accept ae params d).headers
           then gzip (render (chooseEncoder accept).1 (collect s).families)
           else render (chooseEncoder accept).1 (collect s).families)) := by
  have h := PromVerif.Props.C17.body_is_restricted_exposition (registryEnv render s gzip empty errBody) accept ae params d
  refine ⟨fun ks hk => ⟨h.1 ks hk, fun hi hc => restricted_is_filter hi hc _⟩, fun hn => h.2.1 hn⟩

end Http

/-! ### the hypothesis `ClaimsCover` is needed -/

/-- a collector without `describe()` whose `collect()` returns the gauge family `x` with one sample `x` -/
def undescribedCollector : Collector :=
  ⟨0, none, [⟨['x'], .gauge, ['h'], [], [⟨['x'], .idx 0⟩]⟩]⟩

/-- **Counter-example (known finding `C07:undescribed-collector-not-restrictable`).**  Registered in a registry with
`auto_describe` off, the collector claims no name; the registry is reachable and satisfies the invariant, `ClaimsCover`
fails, the full collection has the sample `x`, and `restricted_registry(['x']).collect()` yields nothing and calls
nobody — not the filter of the full collection.  So `restricted_is_filter` does not hold without `ClaimsCover`. -/
theorem claims_cover_needed :
    (register (init false none) undescribedCollector).2 = none ∧
    Inv (register (init false none) undescribedCollector).1 ∧
    ¬ ClaimsCover (register (init false none) undescribedCollector).1 ∧
    (collect (register (init false none) undescribedCollector).1).families.filterMap (restrictTo [['x']])
      = undescribedCollector.families ∧
    (restrictedCollect [['x']] (register (init false none) undescribedCollector).1).families = [] ∧
    (restrictedCollect [['x']] (register (init false none) undescribedCollector).1).calls = [] ∧
    ¬ (restrictedCollect [['x']] (register (init false none) undescribedCollector).1).families.Perm
        ((collect (register (init false none) undescribedCollector).1).families.filterMap (restrictTo [['x']])) := by
  have hc2n : (register (init false none) undescribedCollector).1.collectorToNames = [(undescribedCollector, [])] := by
    decide
  have hr : (restrictedCollect [['x']] (register (init false none) undescribedCollector).1).families = [] := by decide
  have hf : (collect (register (init false none) undescribedCollector).1).families.filterMap (restrictTo [['x']])
      = undescribedCollector.families := by decide
  refine ⟨by decide, PromVerif.Props.C06.inv_register (PromVerif.Props.C06.inv_init _ _) _, ?_, hf, hr, by decide, ?_⟩
  · intro h
    have := h undescribedCollector [] (by rw [hc2n]; simp) ⟨['x'], .gauge, ['h'], [], [⟨['x'], .idx 0⟩]⟩
      (by simp [undescribedCollector]) ⟨['x'], .idx 0⟩ (by simp)
    simp at this
  · rw [hr, hf]
    intro h
    have := h.length_eq
    simp [undescribedCollector] at this

/-! ### non-vacuity and regressions -/

private def exS : State := (run (init false none) [.register exA, .register exB]).1

-- the hypotheses of the filter theorems hold of a registry with two collectors, and the restriction is non-trivial
example : Inv exS ∧ ClaimsCover exS ∧
    (restrictedCollect [['y'], ['z']] exS).families = exB.families ∧
    (restrictedCollect [['y'], ['z']] exS).calls = [Owner.coll exB] := by
  have hA : ∀ c ns, (c, ns) ∈ exS.collectorToNames → (c = exA ∧ ns = [['x']]) ∨ (c = exB ∧ ns = [['y']]) := by
    intro c ns h
    have : exS.collectorToNames = [(exA, [['x']]), (exB, [['y']])] := by decide
    rw [this] at h
    simpa using h
  refine ⟨?_, ?_, by decide, by decide⟩
  · exact PromVerif.Model.Registry.inv_register (PromVerif.Model.Registry.inv_register
      (PromVerif.Model.Registry.inv_setTargetInfo (inv_base false) none) exA) exB
  · intro c ns h f hf smp hs
    rcases hA c ns h with ⟨rfl, rfl⟩ | ⟨rfl, rfl⟩
    · simp [exA] at hf; subst hf; simp at hs; subst hs; simp
    · simp [exB] at hf; subst hf; simp at hs; subst hs; simp

/-- a gauge family `g_sec` with unit `sec` -/
private def f5Collector : Collector :=
  ⟨0, some [(['g', '_', 's', 'e', 'c'], .gauge)],
    [⟨['g', '_', 's', 'e', 'c'], .gauge, ['d'], ['s', 'e', 'c'], [⟨['g', '_', 's', 'e', 'c'], .idx 0⟩]⟩]⟩

-- regression (former F5): restricting to the family's only sample name returns the family unchanged, unit included
example :
    (restrictedCollect [['g', '_', 's', 'e', 'c']] (register (init false none) f5Collector).1).families
      = f5Collector.families := by decide

/-- what `Info('target', 'h').info({...})` registers: family `target` of type info with a sample `target_info` -/
private def f19Collector : Collector :=
  ⟨0, some [(['t', 'a', 'r', 'g', 'e', 't'], .info)],
    [⟨['t', 'a', 'r', 'g', 'e', 't'], .info, ['h'], [], [⟨tiName, .idx 0⟩]⟩]⟩

-- regression (former F19): the collector claiming `target_info` is selected through that name
example :
    (register (init false none) f19Collector).2 = none ∧
    (restrictedCollect [tiName] (register (init false none) f19Collector).1).families = f19Collector.families ∧
    (restrictedCollect [tiName] (register (init false none) f19Collector).1).calls = [Owner.coll f19Collector] := by
  decide

-- with target info configured, `target_info` selects the `_EmptyCollector` (which yields nothing) and the
-- target-info family is returned once
example :
    (restrictedCollect [tiName] (init false (some [(['a'], ['b'])]))).families = [targetInfoMetric [(['a'], ['b'])]] ∧
    (restrictedCollect [tiName] (init false (some [(['a'], ['b'])]))).calls = [Owner.empty] := by decide

end PromVerif.Props.C07
