/-
C07, continued — the custom-collector API (`metrics_core.py`: the eight `*MetricFamily` constructors and `add_metric`)
satisfies the precondition `ClaimsCover` of `restricted_is_filter`.

Theorems are about `Model/Families.lean`.  Family objects are arbitrary results of a constructor call that returned
followed by any sequence of `add_metric` calls with any arguments (raising or not — a raising call may have appended
samples); values, timestamps and exemplars are opaque (`α`).  The claimed names are computed by the SAME functions the
registry model of C06/C07 uses (`Model.Registry.familyNames` / `getNames`, i.e. the extracted `type_suffixes` table).

Not covered (by construction of the API, not a gap of the proof): `Metric.add_sample` (`Model.Families.Metric.addSample`)
appends a sample under ANY name — it is documented "internal-only"; a collector using it can emit unclaimed names and
falls under the known finding `C07:undescribed-collector-not-restrictable` only if it also under-describes.
-/
import PromVerif.Lemmas.Families
import PromVerif.Props.C07

namespace PromVerif.Props.C07Families
open PromVerif.Py PromVerif.Model.Families PromVerif.Generated.Families
open PromVerif.Model.Registry (Name MType Collector Op SamplesCovered)

variable {α : Type}

/-- the extractor found the eight classes in the expected shape -/
theorem extract_ok : PromVerif.Generated.Families.extractOk = true := by decide

/-! ### concrete families used by the `example`s -/

private def exEnv : Env := ⟨false, fun s => if s = ['-', '1'] then some false else if s = ['x'] then none else some true⟩

/-- `HistogramMetricFamily('h', 'help', labels=['l'], unit='sec')` -/
private def exHistCtor : Ctor Nat := .histogram ['h'] ['h', 'e', 'l', 'p'] none none (some [['l']]) ['s', 'e', 'c']

/-- `.add_metric(['a'], [('1.0', 3), ('+Inf', 5, ex)], 7)`, then one with a malformed first bound (raises after the buckets) -/
private def exHistAdds : List (AddCall Nat) :=
  [.histogram [['a']] [⟨['1', '.', '0'], 3, none⟩, ⟨['+', 'I', 'n', 'f'], 5, some 9⟩] (some 7) none,
   .histogram [['b']] [⟨['x'], 1, none⟩] (some 2) (some 4)]

private def exHist0 : Fam Nat :=
  { cls := .histogram, name := ['h', '_', 's', 'e', 'c'], documentation := ['h', 'e', 'l', 'p'], typ := .histogram,
    unit := ['s', 'e', 'c'], samples := [], labelnames := [['l']] }

private theorem exHist0_built : exHistCtor.run exEnv = .ok exHist0 := by rfl

private def exHist : Fam Nat := (runAdds exEnv exHist0 exHistAdds).1

/-- `CounterMetricFamily('c_total', 'help', value=1, created=2)` -/
private def exCounterCtor : Ctor Nat := .counter ['c', '_', 't', 'o', 't', 'a', 'l'] [] (some 1) none (some 2) [] none

/-! ### the type of each class -/

/-- every class passes a member of `METRIC_TYPES` to `Metric.__init__`, and it is the type named after the class -/
theorem family_type_of_class (cls : Cls) : resolveType cls.typeLit = some cls.mtype := resolveType_cls cls

/-! ### sample names -/

/-- **Every sample name a family object carries is a name the registry claims for that family.**  For every class,
every name, documentation, labels, unit and value arguments of the constructor (whenever it returns), and EVERY sequence
of `add_metric` calls with any arguments (whether they raise or not): the family's name and type are those the
constructor fixed (`add_metric` never changes them), and every sample name is `family.name ++ suf` with `suf = ""` or
`suf ∈ type_suffixes[family.type]` (the extracted table of `_get_names`) — hence a member of
`Model.Registry.familyNames (name, type)`, the list `_get_names` records for a described family of that name and type. -/
theorem family_sample_names_claimed (env : Env) (ctor : Ctor α) (f0 : Fam α) (adds : List (AddCall α))
    (h : ctor.run env = .ok f0) :
    (runAdds env f0 adds).1.name = f0.name ∧ (runAdds env f0 adds).1.typ = f0.typ ∧
    ∀ s, s ∈ (runAdds env f0 adds).1.samples →
      s.name ∈ PromVerif.Model.Registry.familyNames ((runAdds env f0 adds).1.name, (runAdds env f0 adds).1.typ) ∧
      ∃ suf, s.name = (runAdds env f0 adds).1.name ++ suf ∧
        (suf = [] ∨ suf ∈ PromVerif.Model.Registry.suffixesOf (runAdds env f0 adds).1.typ) := by
  obtain ⟨_, h2, h3, _⟩ := runAdds_prefix env adds f0
  have hw : WF (runAdds env f0 adds).1 := runAdds_wf env adds (ctor_wf h)
  refine ⟨h2, h3, fun s hs => ⟨wf_claimed hw s hs, ?_⟩⟩
  have := wf_claimed hw s hs
  simp only [PromVerif.Model.Registry.familyNames, List.map_cons, List.mem_cons, List.mem_map] at this
  rcases this with h | ⟨suf, hsuf, h⟩
  · exact ⟨[], h, Or.inl rfl⟩
  · exact ⟨suf, h.symm, Or.inr hsuf⟩

-- the histogram family of the examples: name `h_sec`, two `_bucket`, `_count`, `_sum`, and the `_bucket` sample the
-- raising call left behind — all claimed
example : (exHist.samples.map (·.name)) =
    [['h', '_', 's', 'e', 'c', '_', 'b', 'u', 'c', 'k', 'e', 't'], ['h', '_', 's', 'e', 'c', '_', 'b', 'u', 'c', 'k', 'e', 't'],
     ['h', '_', 's', 'e', 'c', '_', 'c', 'o', 'u', 'n', 't'], ['h', '_', 's', 'e', 'c', '_', 's', 'u', 'm'],
     ['h', '_', 's', 'e', 'c', '_', 'b', 'u', 'c', 'k', 'e', 't']] ∧
    (runAdds exEnv exHist0 exHistAdds).2 = [none, some .valueError] := by decide

-- `CounterMetricFamily('c_total', …)`: the family is `c`, the samples `c_total` and `c_created`
example : ∃ f, exCounterCtor.run exEnv = .ok f ∧ f.name = ['c'] ∧
    f.samples.map (·.name) = [['c', '_', 't', 'o', 't', 'a', 'l'], ['c', '_', 'c', 'r', 'e', 'a', 't', 'e', 'd']] :=
  ⟨_, rfl, by decide, by decide⟩

/-! ### `ClaimsCover` for collectors built on the constructors -/

/-- **Collectors whose families come from the constructors cover their claims.**  A collector whose `collect()`
returns any number of family objects, each built by one of the eight constructors and any `add_metric` calls, and
which either has no `describe()` and is registered under `auto_describe=True` (names computed from `collect()`), or
whose `describe()` returns families of (at least) the same names and types, emits only sample names that `_get_names`
records for it. -/
theorem family_ctor_claims_cover (env : Env) (ad : Bool) (c : Collector) (fams : List (Fam α))
    (hb : ∀ f, f ∈ fams → Built env f) (hc : c.families = fams.map toFamily)
    (hd : (c.describe = none ∧ ad = true) ∨
          (∃ d, c.describe = some d ∧ ∀ f, f ∈ fams → (f.name, f.typ) ∈ d)) :
    SamplesCovered ad c :=
  wf_families_covered ad c fams (fun f hf => built_wf (hb f hf)) hc hd

/-- a collector of the kind `family_ctor_claims_cover` speaks about -/
def FamilyCollector (env : Env) (ad : Bool) (c : Collector) : Prop :=
  ∃ (α : Type) (fams : List (Fam α)), (∀ f, f ∈ fams → Built env f) ∧ c.families = fams.map toFamily ∧
    ((c.describe = none ∧ ad = true) ∨ (∃ d, c.describe = some d ∧ ∀ f, f ∈ fams → (f.name, f.typ) ∈ d))

/-- **For registries of such collectors the filter theorem is unconditional**: after any history all of whose
`register` calls are for collectors built on the family constructors (auto-described, or describing what they collect),
`restricted_registry(names).collect()` is the per-sample-name filter of `collect()` (`C07.restricted_is_filter` with its
hypothesis `ClaimsCover` discharged). -/
theorem restricted_is_filter_family_collectors (env : Env) (ad : Bool) (ti : Option PromVerif.Model.Registry.Labels)
    (ops : List Op) (names : List Name) (h : ∀ c, Op.register c ∈ ops → FamilyCollector env ad c) :
    (PromVerif.Model.Registry.restrictedCollect names (PromVerif.Model.Registry.run (PromVerif.Model.Registry.init ad ti) ops).1).families.Perm
      ((PromVerif.Model.Registry.collect (PromVerif.Model.Registry.run (PromVerif.Model.Registry.init ad ti) ops).1).families.filterMap
        (PromVerif.Spec.Registry.restrictTo names)) := by
  refine PromVerif.Props.C07.restricted_is_filter_covered ad ti ops names ?_
  intro c hc
  obtain ⟨β, fams, hb, hf, hd⟩ := h c hc
  exact family_ctor_claims_cover env ad c fams hb hf hd

private theorem exHist_built : Built exEnv exHist := ⟨exHistCtor, exHist0, exHistAdds, exHist0_built, rfl⟩

/-- a collector without `describe()` returning the example histogram family -/
private def exCollector : Collector := ⟨7, none, [toFamily exHist]⟩

-- the hypotheses are satisfiable: the example collector under auto-describe; its claims and what restriction to
-- `h_sec_count` yields
example : FamilyCollector exEnv true exCollector :=
  ⟨Nat, [exHist], by intro f hf; simp at hf; subst hf; exact exHist_built, rfl, Or.inl ⟨rfl, rfl⟩⟩

example :
    PromVerif.Model.Registry.getNames true exCollector =
      [['h', '_', 's', 'e', 'c'], ['h', '_', 's', 'e', 'c', '_', 'b', 'u', 'c', 'k', 'e', 't'],
       ['h', '_', 's', 'e', 'c', '_', 's', 'u', 'm'], ['h', '_', 's', 'e', 'c', '_', 'c', 'o', 'u', 'n', 't'],
       ['h', '_', 's', 'e', 'c', '_', 'c', 'r', 'e', 'a', 't', 'e', 'd']] ∧
    ((PromVerif.Model.Registry.restrictedCollect [['h', '_', 's', 'e', 'c', '_', 'c', 'o', 'u', 'n', 't']]
        (PromVerif.Model.Registry.run (PromVerif.Model.Registry.init true none) [.register exCollector]).1).families.map
      (fun f => f.samples.map (·.name))) = [[['h', '_', 's', 'e', 'c', '_', 'c', 'o', 'u', 'n', 't']]] := by decide

/-! ### structural facts -/

/-- **`add_metric` only appends**: after any sequence of calls the samples that were there are still there, unaltered
and in front, and name, type, documentation, unit and label names are unchanged. -/
theorem add_metric_appends (env : Env) (f : Fam α) (adds : List (AddCall α)) :
    (∃ new, (runAdds env f adds).1.samples = f.samples ++ new) ∧ (runAdds env f adds).1.name = f.name ∧
    (runAdds env f adds).1.typ = f.typ ∧ (runAdds env f adds).1.labelnames = f.labelnames ∧
    (runAdds env f adds).1.unit = f.unit ∧ (runAdds env f adds).1.documentation = f.documentation := by
  obtain ⟨h1, h2, h3, _, h5, h6, h7⟩ := runAdds_prefix env adds f
  exact ⟨h1, h2, h3, h5, h6, h7⟩

example : (runAdds exEnv exHist0 exHistAdds).1.samples.take 4 = (runAdds exEnv exHist0 (exHistAdds.take 1)).1.samples := by
  decide

/-- **The `_count` of a histogram family is its last bucket.**  A sample named `<name>_count` appended by
`HistogramMetricFamily.add_metric(labels, buckets, sum_value, timestamp)` carries the value of the LAST bucket
(`buckets[-1][1]`), the zipped labels without `le`, the call's timestamp and no exemplar; and it exists only when
`sum_value is not None` and `float(buckets[0][0]) >= 0`. -/
theorem histogram_family_count_is_last_bucket (env : Env) (f : Fam α) (labels : List Name) (buckets : List (Bucket α))
    (sumValue timestamp : Option α) (s : Sample α)
    (hs : s ∈ (HistogramMetricFamily.addMetric env f labels buckets sumValue timestamp).1)
    (hn : s.name = f.name ++ histogramCount) :
    ∃ bl, buckets.getLast? = some bl ∧ s.value = .obj bl.value ∧ s.labels = zipDict f.labelnames labels ∧
      s.timestamp = timestamp ∧ s.exemplar = none ∧ sumValue.isSome = true ∧
      ∃ b0, buckets.head? = some b0 ∧ env.floatGe0 b0.le = some true :=
  histogram_count_sample env f labels buckets sumValue timestamp s hs hn

-- in the example family the `_count` sample has the value 5 of the `+Inf` bucket
example : (exHist.samples.filter (fun s => s.name = exHist.name ++ histogramCount)).map (·.value) = [.obj 5] := by decide

/-- **Labels are the zipped label names and values plus the class's extra label.**  Every sample appended by an
`add_metric(labels, …)` call carries `dict(zip(_labelnames, labels) + extra)` where `extra` is nothing, or — for the
two histogram classes — `le = <bound of one of the buckets>`, for info the `value` dict, for a state set
`<family name> = <one of the states>`; when the resulting keys are distinct the dict is that list itself, in that order
(so the label names are the declared label names followed by the extra one).
For `StateSetMetricFamily` this needs `len(labels) == len(_labelnames)`: the code zips
`_labelnames + (name,)` with `labels + (state,)`, so with fewer (or more) label values the state lands under a declared
label name (`stateset_label_count_needed`).  For the other classes a wrong number of values is silently truncated by
`zip`, which the statement covers as is. -/
theorem family_labels_are_zip (env : Env) (f : Fam α) (c : AddCall α)
    (hlen : c.isStateset = true → c.labels.length = f.labelnames.length) (s : Sample α)
    (hs : s ∈ (newSamples env f c).1) :
    ∃ extra, extra ∈ extraLabelChoices f c ∧ s.labels = mkDict (f.labelnames.zip c.labels ++ extra) ∧
      (((f.labelnames.zip c.labels ++ extra).map Prod.fst).Nodup → s.labels = f.labelnames.zip c.labels ++ extra) := by
  obtain ⟨extra, h1, h2⟩ := newSamples_labels env f c hlen s hs
  exact ⟨extra, h1, h2, fun hn => by rw [h2, mkDict_of_nodup _ hn]⟩

example : exHist.samples.map (·.labels) =
    [[(['l'], ['a']), (['l', 'e'], ['1', '.', '0'])], [(['l'], ['a']), (['l', 'e'], ['+', 'I', 'n', 'f'])],
     [(['l'], ['a'])], [(['l'], ['a'])], [(['l'], ['b']), (['l', 'e'], ['x'])]] := by decide

/-- `StateSetMetricFamily('e', 'help', labels=['a', 'b'])` -/
private def exState0 : Fam Nat :=
  { cls := .stateset, name := ['e'], documentation := [], typ := .stateset, unit := [], samples := [],
    labelnames := [['a'], ['b']] }

/-- **The label-count hypothesis of `family_labels_are_zip` is needed for state sets** (candidate finding
`C07:family-stateset-label-count`): `StateSetMetricFamily('e', '', labels=['a', 'b']).add_metric(['x'], {'on': True})`
yields the sample `e{a="x", b="on"}` — the state sits under the declared label `b`, and the label `e` that identifies
the state is missing. -/
theorem stateset_label_count_needed :
    (StateSetMetricFamily.init exEnv ['e'] [] none (some [['a'], ['b']]) : PyM (Fam Nat)) = .ok exState0 ∧
    ((addMetric exEnv exState0 (.stateset [['x']] [(['o', 'n'], true)] none)).1.samples.map (·.labels))
      = [[(['a'], ['x']), (['b'], ['o', 'n'])]] := by
  constructor
  · rfl
  · decide

-- with the right number of values the state is under the family name, states in sorted order
example : ((addMetric exEnv exState0 (.stateset [['x'], ['y']] [(['o', 'n'], true), (['o', 'f', 'f'], false)] none)).1.samples.map
      (fun s => (s.labels, s.value)))
    = [([(['a'], ['x']), (['b'], ['y']), (['e'], ['o', 'f', 'f'])], .int 0),
       ([(['a'], ['x']), (['b'], ['y']), (['e'], ['o', 'n'])], .int 1)] := by decide

end PromVerif.Props.C07Families
