import PromVerif.Props.C13
