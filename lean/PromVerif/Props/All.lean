import PromVerif.Props.C06
import PromVerif.Props.C07
import PromVerif.Props.C10
import PromVerif.Props.C11
import PromVerif.Props.C13
import PromVerif.Props.C19
