/-
C18 — write_to_textfile replaces the target atomically or not at all.

Every theorem is about the effect lists that the GENERATED skeleton of `write_to_textfile` (`Generated/Textfile.lean`,
re-extracted from the source on every run) compiles to, and quantifies over

* every registry (`P.collectors`: any number of collectors with any rendered output, including none → empty exposition),
* every way the OS / buffered writer splits `f.write(data)` into pieces and every choice, per piece, of whether it
  reaches the file at `write()` or only at `close()` (`P.cuts`, `P.lastFlush`),
* every initial file system (`c.fs`: target absent or present with any content, a stale temporary file, other files),
* every fault position, exception class and amount of partial work of the faulting effect (`f : Fault`; a position past
  the end is the fault-free call),
* every cut point (`List.take m`) and, for two writers, every interleaving (`Interleave`).

Trusted (DESIGN §4): `rename(2)`/`os.replace` switch the target atomically; (pid, thread ident) is unique among
concurrently running writers (used only to discharge the hypothesis `tmp₁ ≠ tmp₂`, cf. `tmp_names_distinct`).

Documented limit F16 (`base_exception_leaves_tmp`): an exception that is not an `Exception` (KeyboardInterrupt,
SystemExit, GeneratorExit) bypasses `except Exception:`; the target is still intact but the temporary file stays.  The
property's fault list ("a collector raising part-way, an encoding error, a failing write, flush or rename, the process
being killed") does not contain it.
-/
import PromVerif.Model.Textfile
import PromVerif.Spec.Textfile
import PromVerif.Lemmas.Textfile
import PromVerif.Lemmas.TextfileRun
import PromVerif.Lemmas.TextfileName
import PromVerif.Lemmas.TextfileWriters

namespace PromVerif.Props.C18
open PromVerif.Generated.Textfile PromVerif.Model.Textfile PromVerif.Spec.Textfile

/-- the extractor found `write_to_textfile` in a shape it understands -/
theorem extract_ok : extractOk = true := by decide

/-- the extracted skeleton: open TMP 'wb' → generate → write → close → rename TMP→TARGET as the last effect (so no
effect before the rename names the target and nothing can fail after it); the handler catches `Exception`, removes
exactly the temporary file when it exists, and re-raises; the temporary name is target + non-empty suffix containing pid
and thread ident -/
theorem skeleton_wellformed : wellformed = true := by decide

/-! ### the temporary name -/

/-- tmp = target ++ non-empty suffix, hence `tmp ≠ target` (whichever pid the name uses) -/
theorem tmp_ne_target (path : Path) (pid ip tid : Nat) : tmpName tmpPathParts path pid ip tid ≠ path := by
  obtain ⟨s, rest, hs, hne⟩ : ∃ s rest, tmpPathParts = .path :: .lit s :: rest ∧ s ≠ [] := ⟨_, _, rfl, by decide⟩
  intro h
  rw [hs, tmpName_head] at h
  have := congrArg List.length h
  simp only [List.length_append] at this
  have : s.length = 0 := by omega
  exact hne (List.length_eq_zero_iff.mp this)

/-- "unique per concurrent writer": writers whose LIVE (pid, thread ident) pairs differ — two threads of a process, a
process and its forked child, unrelated processes — use different temporary files, whatever pid was current when the
module was imported.  Rests on the generated name being `path.<os.getpid()>.<thread ident>` (first line of the proof);
with the pid taken from a constant cached at import it is false, see `cached_pid_loses_distinctness`. -/
theorem tmp_names_distinct (path : Path) (pid1 ip1 tid1 pid2 ip2 tid2 : Nat) (h : (pid1, tid1) ≠ (pid2, tid2)) :
    tmpName tmpPathParts path pid1 ip1 tid1 ≠ tmpName tmpPathParts path pid2 ip2 tid2 := by
  have hs : tmpPathParts = canonParts := by decide
  intro e
  rw [hs, tmpName_canon, tmpName_canon] at e
  have e' := List.append_cancel_left e
  simp only [List.cons.injEq, true_and] at e'
  obtain ⟨a, b⟩ := split_unique _ _ _ _ (dot_not_mem_natDigits pid1) (dot_not_mem_natDigits pid2) e'
  exact h (by rw [natDigits_inj a, natDigits_inj b])

/-- what a name built from a pid cached at import loses: a process and the child it forks (different live pids, same
import-time pid, both on their main thread and hence with equal thread idents) get the SAME temporary file -/
theorem cached_pid_loses_distinctness (path : Path) (pid1 pid2 ip tid : Nat) :
    tmpName cachedParts path pid1 ip tid = tmpName cachedParts path pid2 ip tid := by
  rw [tmpName_cached, tmpName_cached]

example : tmpName tmpPathParts "m.prom".toList 12 7 3 = "m.prom.12.3".toList := by decide
example : tmpName tmpPathParts "m.prom".toList 1 7 23 = "m.prom.1.23".toList := by decide
example : tmpName cachedParts "m.prom".toList 12 7 3 = tmpName cachedParts "m.prom".toList 13 7 3 := by decide

/-! ### one writer -/

/-- AT EVERY INSTANT of every call — fault-free or with any single fault of any class at any effect (open, each
collector, the final encoding, each piece of the write, close/flush, rename), cut after any number `m` of effects (this is also the state a
reader sees, and the state left by a kill) — the target holds its complete previous content (`none` = it did not exist)
or the complete new exposition.  Never anything else: when `P.new` happens to be empty the empty file IS the complete
new exposition, and it appears only through the rename. -/
theorem target_always_old_or_new (P : Params) (f : Fault) (c : Cfg) (hne : P.tmp ≠ P.target) (m : Nat) :
    OldOrNew (c.fs.get P.target) P.new ((exec ((faultedRun P f).take m) c).fs.get P.target) :=
  target_prefix P.new hne _ c (faultedRun_private P f) (faultedRun_ready P f _) m

/-- a call in which effect `f.pos` raises an `Exception`: the target is untouched, the temporary file is gone, and the
caller sees that very exception object -/
theorem failure_is_clean (P : Params) (f : Fault) (c : Cfg) (hne : P.tmp ≠ P.target)
    (hpos : f.pos < (body P).length) (hexc : f.exc.cls.isException = true) :
    (exec (faultedRun P f) c).fs.get P.target = c.fs.get P.target ∧
    (exec (faultedRun P f) c).fs.get P.tmp = none ∧
    outcome P f = .error f.exc := by
  have hc : catches caughtClass f.exc.cls = true := by simp [catches, caughtClass, hexc]
  refine ⟨target_exec_noRen hne _ c (faultedRun_private P f) (faultedRun_noRen hpos), ?_, ?_⟩
  · obtain ⟨front, hfr⟩ := faultedRun_caught hpos hc
    rw [hfr, exec_append]
    exact handler_removes _ _
  · have hget : (body P)[f.pos]? = some (body P)[f.pos] := List.getElem?_eq_getElem hpos
    simp only [outcome, hget, hc]
    simp [handler]

/-- a call in which nothing raises installs the complete new exposition and leaves no temporary file; it returns -/
theorem success_installs_new (P : Params) (c : Cfg) (hne : P.tmp ≠ P.target) :
    (exec (normalRun P) c).fs.get P.target = some P.new ∧
    (exec (normalRun P) c).fs.get P.tmp = none ∧
    (∀ f : Fault, (body P).length ≤ f.pos → faultedRun P f = normalRun P ∧ outcome P f = .ok ()) := by
  refine ⟨?_, ?_, ?_⟩
  · rw [normalRun_eq, exec_append]
    have hpre : AllPrivate P.tmp P.target ((pre P).map fun x => normal x.1) := by
      intro s hs
      obtain ⟨x, hx, rfl⟩ := List.mem_map.mp hs
      exact (mem_pre hx).1
    have hv := view_exec hne _ c hpre
    rw [execV_pre] at hv
    have hfile : (exec ((pre P).map fun x => normal x.1) c).fs.get P.tmp = some P.new := congrArg View.file hv
    generalize exec ((pre P).map fun x => normal x.1) c = c' at hfile
    simp [exec, normal, applyStep, applyNormal, hfile]
  · have hv := view_exec hne _ c (normalRun_private P)
    rw [execV_normalRun] at hv
    exact congrArg View.file hv
  · intro f hf
    refine ⟨faultedRun_past_end hf, ?_⟩
    have : (body P)[f.pos]? = none := List.getElem?_eq_none hf
    simp [outcome, this]

/-- nothing but the target and the writer's own temporary path is ever touched -/
theorem other_files_untouched (P : Params) (f : Fault) (c : Cfg) (q : Path) (h1 : P.tmp ≠ q) (h2 : P.target ≠ q)
    (m : Nat) : (exec ((faultedRun P f).take m) c).fs.get q = c.fs.get q :=
  frame_exec h1 h2 _ c (fun s hs => faultedRun_private P f s (List.mem_of_mem_take hs))

/-- the process is killed after any number of effects of a call (no handler runs): the target is intact.  The
temporary file may remain (`crash_may_leave_tmp`) — the property forbids a leftover only "when the call raises". -/
theorem crash_leaves_target_intact (P : Params) (c : Cfg) (hne : P.tmp ≠ P.target) (m : Nat) :
    OldOrNew (c.fs.get P.target) P.new ((exec ((normalRun P).take m) c).fs.get P.target) :=
  target_prefix P.new hne _ c (normalRun_private P) (normalRun_ready P _) m

theorem crash_may_leave_tmp (P : Params) (c : Cfg) :
    ∃ m, (exec ((normalRun P).take m) c).fs.get P.tmp ≠ none := by
  refine ⟨1, ?_⟩
  simp [normalRun_eq, pre, exec, normal, applyStep, applyNormal]

/-- F16, documented limit: a fault whose class derives from `BaseException` only (KeyboardInterrupt, SystemExit,
GeneratorExit), at any effect after the open, is not caught: the caller sees it and the target is intact
(`target_always_old_or_new` covers it), but the temporary file is left behind. -/
theorem base_exception_leaves_tmp (P : Params) (f : Fault) (c : Cfg) (hne : P.tmp ≠ P.target)
    (h0 : 1 ≤ f.pos) (hpos : f.pos < (body P).length) (hexc : f.exc.cls.isException = false) :
    (exec (faultedRun P f) c).fs.get P.tmp ≠ none ∧
    (exec (faultedRun P f) c).fs.get P.target = c.fs.get P.target ∧
    outcome P f = .error f.exc := by
  have hc : catches caughtClass f.exc.cls = false := by simp [catches, caughtClass, hexc]
  refine ⟨?_, target_exec_noRen hne _ c (faultedRun_private P f) (faultedRun_noRen hpos), ?_⟩
  · have hv := view_exec hne _ c (faultedRun_private P f)
    obtain ⟨tl, htl⟩ := faultedRun_head h0 hpos
    have hnr := faultedRun_noRemoval hpos hc
    rw [htl] at hnr
    have hk := execV_keeps_file tl (stepV (normal (Eff.openTrunc P.tmp)) (view P.tmp c))
      (fun s hs => hnr s (List.mem_cons_of_mem _ hs)) rfl
    rw [htl, execV_cons] at hv
    have hfile : (exec (normal (Eff.openTrunc P.tmp) :: tl) c).fs.get P.tmp
        = (execV tl (stepV (normal (Eff.openTrunc P.tmp)) (view P.tmp c))).file := congrArg View.file hv
    rw [htl, hfile]
    intro hn
    rw [hn] at hk
    cases hk
  · have hget : (body P)[f.pos]? = some (body P)[f.pos] := List.getElem?_eq_getElem hpos
    simp [outcome, hget, hc]

/-! ### two concurrent writers -/

/-- two calls on the same target with distinct temporary names, each fault-free or faulted in any way, interleaved in
any way, cut at any point: the target holds the old content or one of the two complete new expositions, and no third
file is touched -/
theorem two_writers_never_partial (P1 P2 : Params) (f1 f2 : Fault) (htgt : P2.target = P1.target)
    (h12 : P1.tmp ≠ P2.tmp) (h1 : P1.tmp ≠ P1.target) (h2 : P2.tmp ≠ P1.target)
    (zs : List (Bool × Step)) (hi : Interleave (faultedRun P1 f1) (faultedRun P2 f2) zs) (c : Cfg2) (m : Nat) :
    OldOrNew2 (c.fs.get P1.target) P1.new P2.new ((exec2 (zs.take m) c).fs.get P1.target) := by
  have hp2 := faultedRun_private P2 f2
  rw [htgt] at hp2
  exact target_prefix2 P1.new P2.new ⟨h12, h1, h2⟩ hi c (faultedRun_private P1 f1) hp2
    (faultedRun_ready P1 f1 _) (faultedRun_ready P2 f2 _) m

/-- two fault-free calls, any interleaving: at every point the target is old / new₁ / new₂; at the end it is new₁ or
new₂ (one complete exposition installed — the one whose rename came last) and neither temporary file remains -/
theorem two_writers_each_complete (P1 P2 : Params) (htgt : P2.target = P1.target)
    (h12 : P1.tmp ≠ P2.tmp) (h1 : P1.tmp ≠ P1.target) (h2 : P2.tmp ≠ P1.target)
    (zs : List (Bool × Step)) (hi : Interleave (normalRun P1) (normalRun P2) zs) (c : Cfg2) :
    (∀ m, OldOrNew2 (c.fs.get P1.target) P1.new P2.new ((exec2 (zs.take m) c).fs.get P1.target)) ∧
    OneInstalled P1.new P2.new ((exec2 zs c).fs.get P1.target) ∧
    (exec2 zs c).fs.get P1.tmp = none ∧ (exec2 zs c).fs.get P2.tmp = none := by
  have d : Distinct P1.tmp P2.tmp P1.target := ⟨h12, h1, h2⟩
  have hp1 := normalRun_private P1
  have hp2 := normalRun_private P2
  rw [htgt] at hp2
  refine ⟨fun m => target_prefix2 P1.new P2.new d hi c hp1 hp2 (normalRun_ready P1 _) (normalRun_ready P2 _) m, ?_, ?_⟩
  · apply target_final2 P1.new P2.new d hi c hp1 hp2 (normalRun_ready P1 _) (normalRun_ready P2 _)
    -- writer 1's rename occurs in every interleaving
    have hmem : ∀ {xs ys zs}, Interleave xs ys zs → ∀ x ∈ xs, (true, x) ∈ zs := by
      intro xs ys zs h
      induction h with
      | nil => intro x hx; cases hx
      | left _ ih =>
        intro x hx
        rcases List.mem_cons.mp hx with rfl | hx
        · exact List.mem_cons_self
        · exact List.mem_cons_of_mem _ (ih x hx)
      | right _ ih => intro x hx; exact List.mem_cons_of_mem _ (ih x hx)
    refine ⟨(true, normal (Eff.rename P1.tmp P1.target)), hmem hi _ ?_, rfl⟩
    rw [normalRun_eq]; simp
  · obtain ⟨a, b⟩ := view_exec2 d hi c hp1 hp2
    rw [execV_normalRun] at a b
    exact ⟨congrArg View.file a, congrArg View.file b⟩

/-! ### any number of concurrent writers, any schedule

`ws` is any list of writers (a call's parameters + at most one fault of any class at any of its effects; a fault position
past the end = no fault).  A schedule is any list of writer indices saying who executes its next effect; every prefix of a
schedule is a schedule, so a statement "for every schedule" is a statement about every instant; a writer that is not
scheduled again has been killed at that point, and the schedule ending is everything being killed.  `Independent` is the
hypothesis that makes the writers independent: one target, temporary names different from it (`tmp_ne_target`) and from
each other (`tmp_names_distinct`: pid × thread ident).  Proved by the invariant `InvN` over the shared file-system state,
by induction on the schedule (`Lemmas/TextfileMany.lean`) — nothing is enumerated. -/

/-- ANY NUMBER OF WRITERS, ANY SCHEDULE, EVERY INSTANT: the target is what it was before anybody moved (absent or the
old content) or the COMPLETE exposition of one of the writers -/
theorem writers_never_partial (T : Path) (ws : List Writer) (ind : Independent T ws) (fs0 : Fs) (sch : List Nat) :
    (runSched sch (initN fs0 ws)).fs.get T = fs0.get T ∨
    ∃ w ∈ ws, (runSched sch (initN fs0 ws)).fs.get T = some w.1.new := by
  obtain ⟨_, h⟩ := InvN.run (ind.distinctN fs0) sch (initN_inv ind fs0)
  rcases h with h | ⟨i, hi, h⟩
  · left; exact h
  · right
    have hi' : i < ws.length := by simpa using hi
    rw [dataOf_get fs0 ws i hi'] at h
    exact ⟨ws[i], List.getElem_mem hi', h⟩

/-- for every writer `i`, at every instant `c` of every schedule:
 1. the rename instant — when `i`'s next effect is its (completed) rename, the target holds `i`'s OWN complete exposition
    right after it, whatever the others have done in between;
 2. a writer whose call raises (one of its effects faults) never changes the target, at any of its steps;
 3. once `i` has finished — returned, or raised an exception its handler catches — no temporary file of its own is left,
    whatever the others are still doing. -/
theorem writers_each_complete_or_clean (T : Path) (ws : List Writer) (ind : Independent T ws) (fs0 : Fs)
    (sch : List Nat) (i : Nat) (hi : i < ws.length) :
    (∀ s r, remOf (runSched sch (initN fs0 ws)) i = s :: r → isRen s = true →
        (stepN i (runSched sch (initN fs0 ws))).fs.get T = some ws[i].1.new) ∧
    (ws[i].2.pos < (body ws[i].1).length →
        (stepN i (runSched sch (initN fs0 ws))).fs.get T = (runSched sch (initN fs0 ws)).fs.get T) ∧
    (remOf (runSched sch (initN fs0 ws)) i = [] →
        (ws[i].2.pos < (body ws[i].1).length → ws[i].2.exc.cls.isException = true) →
        (runSched sch (initN fs0 ws)).fs.get ws[i].1.tmp = none) := by
  have d := ind.distinctN fs0
  obtain ⟨inv, _⟩ := InvN.run d sch (initN_inv ind fs0)
  have hi' : i < (dataOf fs0 ws).length := by simpa using hi
  refine ⟨?_, ?_, ?_⟩
  · intro s r hrem hs
    have := inv.step_ren d i hi' hrem hs
    rw [dataOf_get fs0 ws i hi] at this
    exact this
  · intro hpos
    apply inv.step_noRen d i
    intro s hs
    have hsuf := remOf_suffix i sch (initN fs0 ws)
    rw [initN_rem fs0 ws i hi] at hsuf
    exact faultedRun_noRen hpos s (hsuf.subset hs)
  · intro hdone hexc
    have hf := inv.fin i hi'
    rw [hdone, dataOf_get fs0 ws i hi] at hf
    have hfile := congrArg View.file hf
    simp only [execV_nil, viewOf, view] at hfile
    rw [hfile]
    apply execV_run_no_tmp
    intro hp
    have := hexc hp
    simp [catches, caughtClass, this]

/-- the two-writer statement as the instance `ws = [w₁, w₂]` of the general one -/
theorem two_writers_never_partial_sched (w1 w2 : Writer) (htgt : w2.1.target = w1.1.target)
    (h12 : w1.1.tmp ≠ w2.1.tmp) (h1 : w1.1.tmp ≠ w1.1.target) (h2 : w2.1.tmp ≠ w1.1.target) (fs0 : Fs) (sch : List Nat) :
    OldOrNew2 (fs0.get w1.1.target) w1.1.new w2.1.new ((runSched sch (initN fs0 [w1, w2])).fs.get w1.1.target) := by
  have ind : Independent w1.1.target [w1, w2] := by
    refine ⟨?_, ?_, ?_⟩
    · intro i h
      match i, h with
      | 0, _ => rfl
      | 1, _ => exact htgt
    · intro i h
      match i, h with
      | 0, _ => exact h1
      | 1, _ => exact h2
    · intro i j hi hj e
      match i, j, hi, hj with
      | 0, 0, _, _ => exact absurd rfl e
      | 0, 1, _, _ => exact h12
      | 1, 0, _, _ => exact fun x => h12 x.symm
      | 1, 1, _, _ => exact absurd rfl e
  rcases writers_never_partial _ _ ind fs0 sch with h | ⟨w, hw, h⟩
  · exact Or.inl h
  · simp only [List.mem_cons, List.not_mem_nil, or_false] at hw
    rcases hw with rfl | rfl
    · exact Or.inr (Or.inl h)
    · exact Or.inr (Or.inr h)

/-- …and in the `Interleave` form of `two_writers_never_partial` (two calls starting with fresh handles): every prefix of
every interleaving is a schedule of the two-writer instance (`exec2_as_schedule`), so the statement is a corollary of
`writers_never_partial` -/
theorem two_writers_never_partial_corollary (w1 w2 : Writer) (htgt : w2.1.target = w1.1.target)
    (h12 : w1.1.tmp ≠ w2.1.tmp) (h1 : w1.1.tmp ≠ w1.1.target) (h2 : w2.1.tmp ≠ w1.1.target) (fs0 : Fs)
    (zs : List (Bool × Step)) (hi : Interleave (runOf w1) (runOf w2) zs) (m : Nat) :
    OldOrNew2 (fs0.get w1.1.target) w1.1.new w2.1.new ((exec2 (zs.take m) ⟨fs0, {}, {}⟩).fs.get w1.1.target) := by
  obtain ⟨xa, xb, ya, yb, e1, e2, hi'⟩ := interleave_take hi m
  have hb := exec2_as_schedule hi' ⟨fs0, {}, {}⟩ xb yb
  have hs := two_writers_never_partial_sched w1 w2 htgt h12 h1 h2 fs0 ((zs.take m).map whoIdx)
  have hinit : initN fs0 [w1, w2] = ⟨fs0, [{}, {}], [xa ++ xb, ya ++ yb]⟩ := by
    simp [initN, ← e1, ← e2]
  rw [hinit] at hs
  have hb' := congrArg CfgN.fs hb
  simp only at hb'
  rw [hb'] at hs
  exact hs

/-! ### non-vacuity: concrete, non-trivial instances of the hypotheses -/

/-- registry of two collectors, the write split into three pieces (first flushed at once, second buffered), an
existing target, an unrelated file and a stale temporary file -/
def exP : Params :=
  { target := "m.prom".toList, tmp := tmpName tmpPathParts "m.prom".toList 12 12 3,
    collectors := [[1, 2, 3], [4, 5]], cuts := [(2, true), (1, false)], lastFlush := false }

def exC : Cfg := ⟨[("m.prom".toList, [9, 9]), ("other".toList, [7]), (exP.tmp, [8])], {}⟩

example : exP.tmp ≠ exP.target := tmp_ne_target _ _ _ _
example : (body exP).length = 9 := by decide
example : (exec (normalRun exP) exC).fs = [("m.prom".toList, [1, 2, 3, 4, 5]), ("other".toList, [7])] := by decide
/-- after 6 effects (open, two collectors, encode, two pieces) the target is still old and tmp holds only the flushed piece -/
example : (exec ((normalRun exP).take 6) exC).fs.get exP.target = some [9, 9] ∧
    (exec ((normalRun exP).take 6) exC).fs.get exP.tmp = some [1, 2] := by decide
/-- a collector (effect 2) raises ValueError: handler runs, everything as before, the caller sees the exception -/
example : (exec (faultedRun exP ⟨2, ⟨.valueError, 77⟩, 0⟩) exC).fs = [("m.prom".toList, [9, 9]), ("other".toList, [7])]
    ∧ outcome exP ⟨2, ⟨.valueError, 77⟩, 0⟩ = .error ⟨.valueError, 77⟩ := ⟨by decide, by rfl⟩
/-- F16 instance: KeyboardInterrupt from the same collector leaves the (empty) temporary file -/
example : (exec (faultedRun exP ⟨2, ⟨.keyboardInterrupt, 1⟩, 0⟩) exC).fs.get exP.tmp = some [] := by decide

def exP2 : Params :=
  { target := "m.prom".toList, tmp := tmpName tmpPathParts "m.prom".toList 12 12 4, collectors := [[6]], lastFlush := true }

example : exP.tmp ≠ exP2.tmp := tmp_names_distinct _ _ _ _ _ _ _ (by decide)
example : Interleave (normalRun exP) (normalRun exP2) (merge [true, false, false, true, false] (normalRun exP) (normalRun exP2)) :=
  merge_interleave _ _ _
/-- writer 2 renames in the middle of writer 1's call; writer 1's rename comes last and wins -/
example : (exec2 (merge [true, false, false, true, false, false, false, false] (normalRun exP) (normalRun exP2))
    ⟨exC.fs, {}, {}⟩).fs = [("m.prom".toList, [1, 2, 3, 4, 5]), ("other".toList, [7])] := by decide

/-! three writers, one of them faulted -/

def exP3 : Params :=
  { target := "m.prom".toList, tmp := tmpName tmpPathParts "m.prom".toList 13 13 3, collectors := [[7, 7]], lastFlush := false }

/-- writer 0 and writer 2 complete, writer 1's `close` raises OSError after one byte reached its temporary file -/
def exWs : List Writer := [(exP, ⟨99, ⟨.osError, 0⟩, 0⟩), (exP2, ⟨4, ⟨.osError, 5⟩, 1⟩), (exP3, ⟨99, ⟨.osError, 0⟩, 0⟩)]

example : Independent "m.prom".toList exWs := by
  refine ⟨?_, ?_, ?_⟩
  · intro i h
    match i, h with
    | 0, _ => rfl
    | 1, _ => rfl
    | 2, _ => rfl
  · intro i h
    match i, h with
    | 0, _ => exact tmp_ne_target _ _ _ _
    | 1, _ => exact tmp_ne_target _ _ _ _
    | 2, _ => exact tmp_ne_target _ _ _ _
  · intro i j hi hj e
    match i, j, hi, hj with
    | 0, 0, _, _ => exact absurd rfl e
    | 1, 1, _, _ => exact absurd rfl e
    | 2, 2, _, _ => exact absurd rfl e
    | 0, 1, _, _ => exact tmp_names_distinct _ _ _ _ _ _ _ (by decide)
    | 1, 0, _, _ => exact tmp_names_distinct _ _ _ _ _ _ _ (by decide)
    | 0, 2, _, _ => exact tmp_names_distinct _ _ _ _ _ _ _ (by decide)
    | 2, 0, _, _ => exact tmp_names_distinct _ _ _ _ _ _ _ (by decide)
    | 1, 2, _, _ => exact tmp_names_distinct _ _ _ _ _ _ _ (by decide)
    | 2, 1, _, _ => exact tmp_names_distinct _ _ _ _ _ _ _ (by decide)

/-- round-robin until everybody is done: writer 2 (the shortest call) renames first, writer 0 last and wins; the faulted
writer 1 has removed its temporary file; the stale file under writer 0's name is gone and the unrelated file untouched -/
example : (runSched ((List.range 40).map (· % 3)) (initN exC.fs exWs)).fs
    = [("m.prom".toList, [1, 2, 3, 4, 5]), ("other".toList, [7])] := by decide
/-- cut in the middle (12 moves): the target is still the old content and all three temporary files exist -/
example : ((runSched ((List.range 12).map (· % 3)) (initN exC.fs exWs)).fs.get "m.prom".toList = some [9, 9]) ∧
    ((runSched ((List.range 12).map (· % 3)) (initN exC.fs exWs)).fs.map (·.1)).length = 5 := by decide

end PromVerif.Props.C18
