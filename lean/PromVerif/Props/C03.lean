/-
C03 — text exposition parses back to exactly the exposed series.   (theorems are added bottom-up; see below)
-/
import PromVerif.Model.TextExpo
import PromVerif.Model.TextParse

namespace PromVerif.Props.C03

/-- the extractor found the escape chains, the munging table and the name patterns in the shape it understands -/
theorem extract_ok : PromVerif.Generated.Expo.extractOk = true ∧ PromVerif.Generated.Validation.extractOk = true := by decide

end PromVerif.Props.C03
