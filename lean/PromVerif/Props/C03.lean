/-
C03 — text exposition parses back to exactly the exposed series.

Bottom-up: escaping (`unescape_escape`, `helpUnescape_helpEscape`), the scanner invariant (`scan_escape`,
`nextUnquoted_skips_quoted`), the label block (`parse_labels_render`), the sample line (`sample_line_roundtrip`).
Every theorem quantifies over ALL strings (no length bound).  `escape` is the chain of `.replace` calls re-extracted from
`openmetrics/exposition.py` on every run (`Generated.Expo.escapeChain`), the name patterns are the ones re-extracted
from `validation.py`.

Numbers are tokens: the exposition renders `repr(float(v))` through `floatToGoString`; the parser applies the parameters
`pyInt`, `pyFloat` (CPython `int()`, `float()`); the only laws used are stated as hypotheses next to the theorem.

Hypotheses forced by the proofs, and what the real code does at the excluded points:
* F2 — a metric / label name that the legacy pattern accepted although it ended in '\n' (`$` matches before a final line
  feed) was written bare and split the line: `Gauge('a','h',['l\n'])` → `a{l\n="v"} 1.0` → ValueError.  Repaired in
  /repo (`\Z`); the end-anchor kind is re-extracted on every run and `f2_repaired` is the theorem that depends on it — it
  (and with it every round-trip theorem below) stops checking if the pattern goes back to `$`.
* F20 — label names rejected by `_validate_labelname` (`__name__`, any `__…` name; under legacy validation every
  non-legacy name): the parser re-validates label names and raises ValueError, but several public paths write label
  names that were never validated: `Enum('__e', …)` / `Enum('a:b', …)` under legacy validation and
  `StateSetMetricFamily` (the metric name becomes a label name), `Info('i','h').info({'__k': 'v'})`, the `labels=`
  argument of every `*MetricFamily` helper, `Metric.add_sample`.  A violation of C03 reachable through the public API:
  a finding (witness theorem `f20_reserved_label_name_rejected`); `LabelsOK` excludes exactly these names.
* sample names `Metric()` would reject (empty; non-legacy under legacy validation) — only reachable through
  `Metric.add_sample`, which validates nothing: outside "expressible through the public API".
-/
import PromVerif.Model.TextExpo
import PromVerif.Model.TextParse
import PromVerif.Lemmas.TextParseRoundtrip

namespace PromVerif.Props.C03
open PromVerif.Py PromVerif.Model PromVerif.Model.Escape PromVerif.Model.ParseCore PromVerif.Model.Validation
open PromVerif.Model.TextExpo PromVerif.Model.TextParse
open PromVerif.Lemmas.Escape PromVerif.Lemmas.Scanner PromVerif.Lemmas.TextParse

/-- the extractor found the escape chains, the munging table and the name patterns in the shape it understands -/
theorem extract_ok : PromVerif.Generated.Expo.extractOk = true ∧ PromVerif.Generated.Validation.extractOk = true := by decide

-- escaping ------------------------------------------------------------------------------------------------------------

/-- `_replace_escaping(_escape(s)) == s` for every string -/
theorem unescape_escape (s : Str) : replaceEscaping (escape s) = s := Lemmas.Escape.unescape_escape s

example : replaceEscaping (escape "a\\\"\n\\n\\\\\"".toList) = "a\\\"\n\\n\\\\\"".toList := unescape_escape _
example : escape "\\\n\"".toList = "\\\\\\n\\\"".toList := by decide

/-- `_replace_help_escaping(help_escape(s)) == s` for every string (both HELP escaping sites of `generate_latest`) -/
theorem helpUnescape_helpEscape (s : Str) :
    replaceHelpEscaping (escapeHelp s) = s ∧ replaceHelpEscaping (escapeHelpTrailing s) = s :=
  ⟨Lemmas.Escape.helpUnescape_helpEscape s, by rw [escapeHelpTrailing_eq]; exact Lemmas.Escape.helpUnescape_helpEscape s⟩

example : escapeHelp "a\\n\n\"".toList = "a\\\\n\\n\"".toList := by decide

/-- escaped text contains no raw line feed (so a rendered line is one line) -/
theorem escape_no_newline (s : Str) : '\n' ∉ escape s ∧ '\n' ∉ escapeHelp s :=
  ⟨newline_not_mem_escape s, newline_not_mem_escapeHelp s⟩

-- the scanner -----------------------------------------------------------------------------------------------------------

/-- **scanner invariant**: `_next_unquoted_char` scanning `escape v` from (inside quotes, even backslash parity) never
reports a position and ends in (inside quotes, even parity) — whatever characters are wanted -/
theorem scan_escape (chs : Char → Bool) (v : Str) :
    noHit chs (escape v) true false = true ∧ run (escape v) true false = (true, false) :=
  Lemmas.Scanner.scan_escape chs v

/-- hence in `"escape(v)"rest` the first unquoted occurrence of a character of `chs` ('"' ∉ chs) lies in `rest` -/
theorem nextUnquoted_skips_quoted (chs : Char → Bool) (hq : chs '"' = false) (v rest : Str) :
    nextUnquotedChar ('"' :: (escape v ++ ['"']) ++ rest) chs 0 =
      (nextUnquotedChar rest chs 0).map (· + ((escape v).length + 2)) :=
  Lemmas.Scanner.nextUnquoted_skips_quoted chs hq v rest

example : nextUnquotedChar ("\"" ++ "a,\\\"}\\\\" ++ "\"" ++ ",b}").toList (fun c => c == ',' || c == '}') 0 = some 9 := by decide

-- the label block -------------------------------------------------------------------------------------------------------

/-- **`parse_labels` inverts the label rendering of `sample_line`**: for every label dict whose names the library's own
`_validate_labelname` accepts, with any label values — every character, every adjacency, empty —
bare or quoted names, any number of labels -/
theorem parse_labels_render {legacy : Bool} {ls : List (Str × Str)} (h : LabelsOK legacy ls) :
    parseLabels legacy (labelStr ls) false = .ok (sortByKey ls) :=
  Lemmas.TextParse.parse_labels_render h

example : LabelsOK false [("b".toList, "\\\"\n".toList), ("a b".toList, [])] := by decide
example : LabelsOK true [("le".toList, "+Inf".toList), ("a".toList, "x\\".toList)] := by decide
example : labelStr [("b".toList, "\\\"\n".toList), ("a b".toList, [])] = "\"a b\"=\"\",b=\"\\\\\\\"\\n\"".toList := by decide

/-- F2 is repaired: no name accepted by the legacy patterns (as extracted from the current source) ends in a line feed -/
theorem f2_repaired (n : Str) :
    (isValidLegacyMetricName n = true → n.getLast? ≠ some '\n') ∧ (isValidLegacyLabelname n = true → n.getLast? ≠ some '\n') :=
  ⟨legacyMetric_no_newline, legacyLabel_no_newline⟩

example : isValidLegacyLabelname "l\n".toList = false ∧ validateLabelname true "l\n".toList = .error .valueError :=
  ⟨by decide, by rfl⟩

-- the sample line ---------------------------------------------------------------------------------------------------------

/-- **a rendered sample line parses back to the sample**: same name, the label dict, the value token as read by the
number parameters, the millisecond count `ms` standing for `ms / 1000`.  Laws used about numbers, as hypotheses:
`int(goString v)` fails and `float(goString v) = v`; `int(str(ms)) = ms`; `ms / 1000` does not overflow. -/
theorem sample_line_roundtrip (legacy : Bool) (pyInt : Str → Option Int) (pyFloat : Str → Option Nat) (s : Sample) (b : Nat)
    (h : SampleOK legacy s)
    (hi : pyInt (Utils.floatToGoString s.value) = none) (hf : pyFloat (Utils.floatToGoString s.value) = some b)
    (hms : ∀ m, millisOf s = some m → pyInt (intStr m) = some m ∧ intDivOverflows m = false) :
    parseSample legacy pyInt pyFloat (strip (sampleLine s)) =
      .ok ⟨s.name, sortByKey s.labels, .flt b, (millisOf s).map (fun m => ⟨.int m⟩)⟩ :=
  Lemmas.TextParse.sample_line_roundtrip legacy pyInt pyFloat s b h hi hf hms

/-- non-vacuity: a quoted UTF-8 name, an adversarial label value, a value above 2^53 and a timestamp -/
def exSample : Sample :=
  ⟨"a b".toList, [("l".toList, "x\\\"\n,}".toList), ("é".toList, [])], "1.2345678901234568e+19".toList, some ⟨.int 1, 1000⟩, none⟩

example : SampleOK false exSample := ⟨by decide, by decide⟩
example : sampleLine { exSample with ts := none } = "{\"a b\",l=\"x\\\\\\\"\\n,}\",\"é\"=\"\"} 1.2345678901234568e+19\n".toList := by decide


/-- F20 witness: a reserved label name (as `Enum('__e', …)` produces) is written, quoted, and rejected by the parser -/
theorem f20_reserved_label_name_rejected :
    labelStr [("__e".toList, "a".toList)] = "\"__e\"=\"a\"".toList ∧
      parseLabels false (labelStr [("__e".toList, "a".toList)]) false = .error .valueError ∧
      parseLabels true (labelStr [("a:b".toList, "a".toList)]) false = .error .valueError :=
  ⟨by decide, by rfl, by rfl⟩

-- metadata lines ---------------------------------------------------------------------------------------------------------

/-- **HELP line round trip**: a rendered `# HELP` line (either HELP site of `generate_latest`) is the content below plus
a line feed; from the initial state the parser opens a family with exactly the written name — legacy or quoted with
separators inside — and a help text `helpDoc doc` that is `doc` up to trailing blanks (quotes, backslash-n adjacency and
leading blanks are preserved) -/
theorem help_line_roundtrip (legacy : Bool) (pyInt : Str → Option Int) (pyFloat : Str → Option Nat) {n : Str}
    (h : metricNameOK legacy n = true) (doc : Str) (tr : Bool) :
    helpLine n doc tr = helpContent n doc ++ ['\n'] ∧
    stepLine legacy pyInt pyFloat St.init (helpContent n doc) =
      .ok ({ name := n, doc := helpDoc doc, typ := "untyped".toList, samples := [], allowed := [n] }, []) ∧
    ∃ j, doc = helpDoc doc ++ j ∧ j.all isPySpace = true := by
  refine ⟨helpLine_eq n doc tr, ?_, helpDoc_spec doc⟩
  rw [stepLine_help legacy pyInt pyFloat St.init h doc]
  have hne : (n != St.init.name) = true := by
    have := metricNameOK_ne_nil h
    simpa [St.init] using this
  simp only [hne, ↓reduceIte]
  rfl

example : metricNameOK false "a b\"\\,{".toList = true ∧ metricNameOK true "a:b_total".toList = true := by decide
example : helpDoc " x\\n\"\n  ".toList = " x\\n\"\n".toList := by
  decide

/-- **TYPE line round trip**: after the HELP line of the same family the parser sets the written type and the allowed
sample names of that type -/
theorem type_line_roundtrip (legacy : Bool) (pyInt : Str → Option Int) (pyFloat : Str → Option Nat) (st : St) {n typ : Str}
    (h : metricNameOK legacy n = true) (ht : TypWord typ) (hst : st.name = n) :
    typeLine n typ = typeContent n typ ++ ['\n'] ∧
    stepLine legacy pyInt pyFloat st (typeContent n typ) =
      .ok ({ st with typ := typ, allowed := (allowedSuffixes typ).map (n ++ ·) }, []) := by
  refine ⟨typeLine_eq n typ, ?_⟩
  subst hst
  rw [stepLine_type legacy pyInt pyFloat st h ht]
  have : (st.name != st.name) = false := by simp
  simp only [this, Bool.false_eq_true, ↓reduceIte]
  rfl

example : TypWord "histogram".toList ∧ TypWord "untyped".toList := by decide

-- the document -----------------------------------------------------------------------------------------------------------

/-- **document-level round trip, samples**: for every expressible registry content — families of any of the eight types
from any source (instrumentation classes, `*MetricFamily` helpers, custom collectors whose sample names differ from the
family name), `_created`/`_gsum`/`_gcount` samples moved into trailing gauge families — the exposition parses, and the
parsed families carry exactly the exposed samples (name, label dict, value token, millisecond count), in exposition
order (`exposedSamples`: per family the non-trailing samples, then the trailing groups in sorted suffix order).
`Expressible` = per family: type in METRIC_TYPES, name accepted by `Metric()`; per sample `SampleGood`
(`SampleOK`, the number laws, name accepted by `Metric()`). -/
theorem text_roundtrip_samples (legacy : Bool) (pyInt : Str → Option Int) (pyFloat : Str → Option Nat) (fs : List Family)
    (h : Expressible legacy pyInt pyFloat fs) :
    ∃ fams, textParse legacy pyInt pyFloat (generateLatest fs) = .ok fams ∧
      flatten fams = (exposedSamples fs).map (expSample pyFloat) :=
  Lemmas.TextParse.text_roundtrip_samples legacy pyInt pyFloat fs h


/-- non-vacuity: a counter with an adversarial label value and help and a `_created` sample (moved to a trailing gauge
family), and a gauge with a UTF-8 name holding NaN -/
def exFams : List Family :=
  [⟨"c".toList, "help \\ x\n".toList, "counter".toList, [],
      [⟨"c_total".toList, [("l".toList, "x\"y\\".toList)], "1.0".toList, none, none⟩,
       ⟨"c_created".toList, [], "5.0".toList, none, none⟩]⟩,
   ⟨"é g".toList, [], "gauge".toList, [], [⟨"é g".toList, [], "nan".toList, none, none⟩]⟩]

example : Expressible false (fun _ => none) (fun _ => some 0) exFams := by
  have hs : ∀ s : Sample, SampleOK false s → s.ts = none → validateMetricName false s.name = .ok () →
      SampleGood false (fun _ => none) (fun _ => some 0) s :=
    fun s h1 h2 h3 => ⟨h1, rfl, rfl, fun m hm => by simp [millisOf, h2] at hm, h3⟩
  intro fam hf
  simp only [exFams, List.mem_cons, List.not_mem_nil, or_false] at hf
  rcases hf with rfl | rfl
  · refine ⟨by decide, by decide, ?_⟩
    intro s hm
    simp only [List.mem_cons, List.not_mem_nil, or_false] at hm
    rcases hm with rfl | rfl
    · exact hs _ ⟨by decide, by decide⟩ rfl rfl
    · exact hs _ ⟨by decide, by decide⟩ rfl rfl
  · refine ⟨by decide, by decide, ?_⟩
    intro s hm
    simp only [List.mem_cons, List.not_mem_nil, or_false] at hm
    subst hm
    exact hs _ ⟨by decide, by decide⟩ rfl rfl

example : (exposedSamples exFams).map (·.name) = ["c_total".toList, "c_created".toList, "é g".toList] := by decide


/-- **document-level round trip, families**: for an expressible registry whose families are regular (every sample name
within the suffix set of the written type: counter `_total`; gauge ''; summary '', `_count`, `_sum`; histogram `_bucket`,
`_count`, `_sum`) and whose consecutive written family names differ, the exposition parses to exactly `mungeText fs`:
per exposed family the main family — counter named without the `_total` put on the wire, info as gauge `name_info`,
stateset as gauge, gaugehistogram as histogram, unknown written `untyped` and read `unknown` — followed by one gauge
family `name+suffix` per `_created` / `_gcount` / `_gsum` group, each with the help text up to trailing blanks
(`helpDoc`) and its samples in order -/
theorem text_roundtrip_families (legacy : Bool) (pyInt : Str → Option Int) (pyFloat : Str → Option Nat) (fs : List Family)
    (h : Expressible legacy pyInt pyFloat fs) (hr : ∀ fam ∈ fs, RegularFam fam) (hd : NamesDiffer (fs.flatMap famBlocks)) :
    textParse legacy pyInt pyFloat (generateLatest fs) = .ok (mungeText pyFloat fs) :=
  Lemmas.TextParse.text_roundtrip_families legacy pyInt pyFloat fs h hr hd

example : (∀ fam ∈ exFams, RegularFam fam) ∧ NamesDiffer (exFams.flatMap famBlocks) := by
  refine ⟨?_, by decide⟩
  intro fam hf
  simp only [exFams, List.mem_cons, List.not_mem_nil, or_false] at hf
  rcases hf with rfl | rfl <;> decide

/-- the documented mapping on the example: counter `c` (written `c_total`) comes back as `c`, its `_created` sample as the
trailing gauge `c_created`, the UTF-8 gauge unchanged -/
example : (mungeText (fun _ => some 0) exFams).map (fun f => (f.name, f.typ, f.samples.map (·.name))) =
    [("c".toList, "counter".toList, ["c_total".toList]), ("c_created".toList, "gauge".toList, ["c_created".toList]),
     ("é g".toList, "gauge".toList, ["é g".toList])] := by decide

/-- non-vacuity with a timestamp: a gauge sample exposed with the millisecond count 1500 (1.5 s); `int()` is instantiated
by a function that reads exactly the token `1500` -/
def exFamsTs : List Family :=
  [⟨"g".toList, "h".toList, "gauge".toList, [],
      [⟨"g".toList, [("l".toList, "v\n".toList)], "2.5".toList, some ⟨.flt "1.5".toList, 1500⟩, none⟩]⟩]

theorem intStr_1500 : intStr 1500 = "1500".toList := by
  show decDigits 1500 = _
  rw [decDigits]; simp only [show ¬ (1500 < 10) by omega, ↓reduceDIte]
  rw [decDigits]; simp only [show ¬ (1500 / 10 < 10) by omega, ↓reduceDIte]
  rw [decDigits]; simp only [show ¬ (1500 / 10 / 10 < 10) by omega, ↓reduceDIte]
  rw [decDigits]; simp only [show (1500 / 10 / 10 / 10 < 10) by omega, ↓reduceDIte]
  decide

def exInt (s : Str) : Option Int := if s = "1500".toList then some 1500 else none

example : Expressible false exInt (fun _ => some 0) exFamsTs ∧ (∀ fam ∈ exFamsTs, RegularFam fam) ∧
    NamesDiffer (exFamsTs.flatMap famBlocks) := by
  refine ⟨?_, ?_, by decide⟩
  · intro fam hf
    simp only [exFamsTs, List.mem_cons, List.not_mem_nil, or_false] at hf
    subst hf
    refine ⟨by decide, by decide, ?_⟩
    intro s hm
    simp only [List.mem_cons, List.not_mem_nil, or_false] at hm
    subst hm
    refine ⟨⟨by decide, by decide⟩, by decide, rfl, ?_, by rfl⟩
    intro m hm
    have : m = 1500 := by simpa [millisOf] using hm.symm
    subst this
    exact ⟨by rw [intStr_1500]; rfl, by decide +kernel⟩
  · intro fam hf
    simp only [exFamsTs, List.mem_cons, List.not_mem_nil, or_false] at hf
    subst hf; decide

/-- …and the parsed family carries the sample with the millisecond count 1500, to be divided by 1000 -/
example : (mungeText (fun _ => some 0) exFamsTs).map (fun f => (f.name, f.typ, f.samples.map (fun s => (s.name, s.labels, s.ts)))) =
    [("g".toList, "gauge".toList, [("g".toList, [("l".toList, "v\n".toList)], some ⟨.int 1500⟩)])] := by rfl

end PromVerif.Props.C03
