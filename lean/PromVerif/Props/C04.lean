/-
C04 — OpenMetrics exposition and parser are mutually inverse.

Models (owned by other properties, used here unchanged): `Model.OMExpo` (`openmetrics/exposition.py`), `Model.OMParse`
(`openmetrics/parser.py`, generic over the number parameters `Params`), `Model.ParseCore`, `Model.Escape`,
`Model.Validation`, `Model.Utils`.  The escape chains, name patterns, suffix tables and the exemplar limit are the ones
re-extracted from the source on every run (`Generated.*`).

"Timestamp equal" in every statement below means EQUAL TO THE NANOSECOND AFTER TRUNCATION: a plain-decimal float timestamp denotes its
decimal text cut after the ninth fractional digit (that is all the wire format's `Timestamp` carries), so the parser's own
truncation (`parts[1][:9]`) cannot make a difference by definition — a mutant that ROUNDS or mis-scales (harness mutation (b)) does.
It is not Python equality: `Timestamp(1, 500000000) != 1.5` for `Timestamp.__eq__` / `Metric.__eq__`; the property compares the
instant.

Every theorem quantifies over ALL strings (no length bound).  Numbers are tokens: a value is exposed as
`floatToGoString(repr(float(v)))` and read back by the parameters `pyInt`, `pyFloat`; the laws used are hypotheses
(`ValTok`: `int()` refuses the token, `float()` reads it as `b`; `IntLaw`: `int()` on ASCII digit strings).  Timestamps are
compared by DENOTED VALUE (`Spec.OMRoundtrip.tsDenote` / `otsDenote`): the wire format carries seconds with nine
fractional digits, so `1.5` comes back as `Timestamp(1, 500000000)`.

Line level (all proved, no finding left open at this level)
  om_help_roundtrip, om_labels_roundtrip, om_labels_roundtrip_named, om_timestamp_roundtrip, om_exemplar_roundtrip,
  om_sample_line_roundtrip, not_nh_on_rendered_line.
Domain of the line level: label names accepted by the library's own `_validate_labelname` (`LabelsOK`, as in C03 — names it rejects
reach the exposition unvalidated: known finding F20b); finite timestamps (`TsOK`: every `int`, every `Timestamp` object, every
finite `float`; `nan`/`inf` float timestamps are written by the exposition and rejected by the parser ON PURPOSE — "Invalid
timestamp" — so they are rule content, not a defect).

Repaired in /repo while this property was built; each repair is a T1 flag the model branches on, the theorems below use it
through `decide`, so reverting a fix breaks them and the harness produces the input:
* F18 (bc8d08a, `remEscapeAware`)  the exemplar state machine flipped its in-quotes flag on every '"', also an escaped one:
  `c.inc(1, {'a': 'x"y'})` → `c_total 1.0 # {a="x\"y"} 1.0` → ValueError.  Regression: `exemplar_quote_regression`.
* F10 (7b52129, `stampAbsNsec`)  `Timestamp(sec < 0, nsec ≠ 0)` was written `-1.-500000000`.  Regression:
  `negative_timestamp_regression` (expose → parse of `Timestamp(-3, 5)`, parse → expose → parse of `a 1 -1.5`).
* F10b, F28 (64745db, `tsFracStrict`)  `-0.5` was read as `Timestamp(0, 500000000)` = +0.5; `1.234567891e-05` as
  `Timestamp(1, 234567891)`.  Both now stay floats.  Regressions: `negative_subsecond_regression`, `exponent_timestamp_regression`.
Open (known finding):
* F17  `count_without_sum_counterexample` — a histogram group with a negative bound and a `_count` is rejected with and
  without `_sum`, and the in-process `Histogram` exposes exactly `_count` without `_sum` for negative bounds.
-/
import PromVerif.Lemmas.OMRtRef
import PromVerif.Lemmas.OMRtDoc3
import PromVerif.Lemmas.OMRtConv
import PromVerif.Lemmas.OMRtFam2
import PromVerif.Props.C15

set_option autoImplicit false

namespace PromVerif.Props.C04
open PromVerif.Py PromVerif.Model PromVerif.Model.Escape PromVerif.Model.ParseCore PromVerif.Model.Validation
open PromVerif.Model.OMParse PromVerif.Spec.OMRoundtrip
open PromVerif.Lemmas.TextParse PromVerif.Lemmas.OMRt

/-- the extractor found the escape chains, the name patterns, the number rendering and every parser site -/
theorem extract_ok : PromVerif.Generated.Expo.extractOk = true ∧ PromVerif.Generated.Validation.extractOk = true ∧
    PromVerif.Generated.OMParse.extractOk = true ∧ PromVerif.Generated.Utils.extractOk = true := by decide

-- HELP ----------------------------------------------------------------------------------------------------------------

/-- **`_unescape_help(_escape(doc)) == doc`** for every help text (the OpenMetrics HELP line escapes backslash, line feed
and double quote; the parser's `_unescape_help` undoes exactly these) -/
theorem om_help_roundtrip (doc : Str) : unescapeHelp (escape doc) = doc := unescapeHelp_escape doc

example : escape cs!"a\\n\n\"q\" \\" = cs!"a\\\\n\\n\\\"q\\\" \\\\" := by decide
example : unescapeHelp cs!"a\\\\n\\n\\\"q\\\" \\\\" = cs!"a\\n\n\"q\" \\" := by decide

-- labels --------------------------------------------------------------------------------------------------------------

/-- **`parse_labels(…, openmetrics=True)` inverts the label block of the OpenMetrics exposition** — items joined by ',',
any label values (every character, every adjacency, empty), bare or quoted label names, any number of labels -/
theorem om_labels_roundtrip {legacy : Bool} {ls : List (Str × Str)} (h : LabelsOK legacy ls) :
    parseLabels legacy (joinStr [','] ((sortByKey ls).map OMExpo.labelItem)) true = .ok (sortByKey ls) := by
  obtain ⟨hok, hnd⟩ := labelsOK_sorted h
  rw [labelItem_eq_text, join_items]
  exact parseLabels_block _ hok hnd

/-- the same with a metric name outside the legacy alphabet: `"name"` or `"name", k="v",…` (comma and blank after the
quoted name) gives the name under `__name__` followed by the labels -/
theorem om_labels_roundtrip_named {legacy : Bool} (n : Str) (hn : isValidLegacyMetricName n = false) {ls : List (Str × Str)}
    (h : LabelsOK legacy ls) :
    parseLabels legacy (escapeMetricName n ++ (if ls.isEmpty then [] else [',', ' ']) ++
      (if ls.isEmpty then [] else joinStr [','] ((sortByKey ls).map OMExpo.labelItem))) true =
      .ok (("__name__".toList, n) :: sortByKey ls) := by
  obtain ⟨hok, hnd⟩ := labelsOK_sorted h
  have hq : escapeMetricName n = qname n := by simp [escapeMetricName, hn, qname]
  have hemp : ls.isEmpty = (sortByKey ls).isEmpty := labels_isEmpty_iff ls
  rw [labelItem_eq_text, join_items, hq, hemp]
  have := parseLabels_om_named (legacy := legacy) n (sortByKey ls) hok hnd
  cases hL : sortByKey ls with
  | nil => rw [hL] at this; simpa [spTail] using this
  | cons kv r => rw [hL] at this; simpa [spTail, exBlock] using this

example : LabelsOK false [(cs!"b", cs!"\\\"\n,}"), (cs!"a b", [])] := by decide
example : joinStr [','] ((sortByKey [(cs!"b", cs!"\\\"\n,}"), (cs!"a b", [])]).map OMExpo.labelItem) =
    cs!"\"a b\"=\"\",b=\"\\\\\\\"\\n,}\"" := by decide

-- timestamps ------------------------------------------------------------------------------------------------------------

/-- **the three timestamp forms read back to the same instant** (`tsSame`: equal denoted values, or the very same double):
`int` n → `Timestamp(n, 0)`; every `Timestamp(sec, nsec)` object, written `f"{sec}.{abs(nsec):09d}"`, → the same `Timestamp`; a
float by its `repr` → through the `aaaa.bbbb` branch (plain decimal form: `1.5` → `Timestamp(1, 500000000)`, digits beyond the
ninth dropped) or through `float()` (exponent form; `-0.…`) -/
theorem om_timestamp_roundtrip (P : Params) (hI : IntLaw P.pyInt) (t : Ts) (h : TsOK P t) :
    ∃ o, parseTimestamp P (OMExpo.tsStr t) = .ok (some o) ∧ tsSame P t o :=
  ts_roundtrip P hI t h

/-- the symbolic number instance satisfies the `int()` law -/
theorem intLaw_satisfiable : IntLaw refP.pyInt := refP_intLaw

example : TsOK refP (.int (-5)) ∧ TsOK refP (.stamp 3 5) ∧ TsOK refP (.stamp (-3) (-5)) :=
  ⟨trivial, by unfold TsOK; decide, by unfold TsOK; decide⟩
example : TsOK refP (.flt cs!"-1.5") :=
  Or.inl ⟨true, cs!"1", cs!"5", rfl, by decide, by decide, by decide, by decide, fun _ h => absurd h (by decide)⟩
example : TsOK refP (.flt cs!"-0.5") :=
  Or.inl ⟨true, cs!"0", cs!"5", rfl, by decide, by decide, by decide, by decide, fun _ _ => ⟨1000000005, by decide, by decide, by decide⟩⟩
example : TsOK refP (.flt cs!"1e+16") :=
  Or.inr ⟨by decide, by decide, by decide, 10 ^ 40 + tokCode cs!"1e+16", by decide, by decide, by decide⟩
example : OMExpo.tsStr (.stamp 3 5) = cs!"3.000000005" := by
  simp [OMExpo.tsStr, OMExpo.stampStr, intStr, decDigits_small, zpad]; decide
example : parseTimestamp refP cs!"3.000000005" = .ok (some (.stamp 3 5)) := by decide
example : parseTimestamp refP cs!"1.5" = .ok (some (.stamp 1 500000000)) := by decide
example : tsDenote refP.pyFloat (.flt cs!"1.5") = some (.nanos 1500000000) := by decide

/-- **F10 repaired (7b52129), kernel-checked regression**: a `Timestamp` with a negative second count and a fraction is written
with ONE minus sign and read back as itself — expose → parse of `Timestamp(-3, 5)` (stored `nsec = -5`), and parse → expose →
parse of the accepted document line `a 1 -1.5` -/
theorem negative_timestamp_regression :
    OMExpo.tsStr (.stamp (-3) (-5)) = cs!"-3.000000005" ∧ parseTimestamp refP cs!"-3.000000005" = .ok (some (.stamp (-3) (-5))) ∧
    parseTimestamp refP cs!"-1.5" = .ok (some (.stamp (-1) (-500000000))) ∧
    OMExpo.tsStr (.stamp (-1) (-500000000)) = cs!"-1.500000000" ∧
    parseTimestamp refP cs!"-1.500000000" = .ok (some (.stamp (-1) (-500000000))) ∧
    parseTimestamp refP cs!"-1.-500000000" = .error .valueError := by
  refine ⟨?_, by decide, by decide, ?_, by decide, by decide⟩
  · show OMExpo.stampStr (Int.negSucc 2) (Int.negSucc 4) = _
    simp [OMExpo.stampStr, intStr, decDigits_small, zpad, stampAbs_on]; decide
  · have h : decDigits 500000000 = cs!"500000000" := by
      simp [decDigits_step, decDigits_small]; decide
    show OMExpo.stampStr (Int.negSucc 0) (Int.negSucc 499999999) = _
    simp [OMExpo.stampStr, intStr, decDigits_small, zpad, h, stampAbs_on]; decide

/-- **F10b repaired (64745db), kernel-checked regression**: a negative float timestamp above -1 keeps its sign — it stays the
float `float()` reads -/
theorem negative_subsecond_regression :
    parseTimestamp refP cs!"-0.5" = .ok (some (.flt 1000000005)) ∧ refP.pyFloat cs!"-0.5" = some 1000000005 ∧
    refDecode 1000000005 = .fin (-500000000) ∧ tsDenote refP.pyFloat (.flt cs!"-0.5") = some (.nanos (-500000000)) := by
  decide

/-- **F28 repaired (64745db), kernel-checked regression**: an exponent-form float timestamp with nine mantissa digits is no
longer read by the `aaaa.bbbb` branch -/
theorem exponent_timestamp_regression :
    parseTimestamp refP cs!"1.234567891e-05" = .ok (some (.flt (10 ^ 40 + tokCode cs!"1.234567891e-05"))) ∧
    refP.pyFloat cs!"1.234567891e-05" = some (10 ^ 40 + tokCode cs!"1.234567891e-05") ∧
    parseTimestamp refP cs!"1.2345678912345678e+16" = .ok (some (.flt (10 ^ 40 + tokCode cs!"1.2345678912345678e+16"))) := by decide

-- the sample line ---------------------------------------------------------------------------------------------------------

/-- **a rendered sample line parses back to the sample** — for every combination of {legacy / quoted name} × labels ×
value × {no / int / float / `Timestamp`} timestamp × {no exemplar / exemplar with any label names accepted by
`_validate_exemplar`, any values within the 128-character limit, with or without timestamp}.

Hypotheses: `SampleOKom` — label names accepted by `_validate_labelname` (sample and exemplar), number tokens read as the
parameters say, `TsOK` timestamps (all finite ones), the 128-character limit on the exemplar.  No finding is excluded. -/
theorem om_sample_line_roundtrip (P : Params) (hI : IntLaw P.pyInt) (fam : Family) (s : Sample) (h : SampleOKom P s)
    (helig : s.exemplar.isSome = true → OMExpo.isValidExemplarMetric fam.typ fam.name s.name = true) :
    ∃ body o, OMExpo.sampleLine fam s = .ok (body ++ ['\n']) ∧ parseSample P body = .ok o ∧ SampleMatches P s o := by
  obtain ⟨o, h1, h2⟩ := line_roundtrip P hI s h
  exact ⟨lineBody s, o, sampleLine_eq fam s helig, h1, h2⟩

/-- **the exemplar tail ` # {labels} value [timestamp]` through the character state machine**: after any value token and
optional timestamp, the exemplar comes back with its label set, value and timestamp — label names and values with any
characters, double quotes and backslashes included (the machine follows backslash escaping since bc8d08a) -/
theorem om_exemplar_roundtrip (P : Params) (hI : IntLaw P.pyInt) (value : Str) (ts : Option TsIn) (e : Exemplar)
    (hv : ∃ b, ValTok P (Utils.floatToGoString value) b) (hts : ∀ t, ts = some t → TsOK P t.ts) (he : ExOK P e) :
    ∃ vb ots oex, parseRemainingText P (Utils.floatToGoString value ++ tsPart ts ++ OMExpo.exemplarStr e) =
        .ok (.flt vb, ots, some oex) ∧
      tsMatches P (ts.map (·.ts)) ots ∧ exemplarMatches P (some e) (some oex) := by
  have hs : SampleOKom P ⟨[], [], value, ts, some e⟩ :=
    ⟨⟨by simp, by simp⟩, hv, hts, fun e' he' => by cases he'; exact he⟩
  obtain ⟨vb, ots, oex, h1, _, h3, h4⟩ := rem_roundtrip P hI _ hs
  have hshape : lineRem ⟨[], [], value, ts, some e⟩ = Utils.floatToGoString value ++ tsPart ts ++ OMExpo.exemplarStr e := by
    unfold lineRem remText tsPart
    rw [exemplarStr_eq]
    simp
  rw [hshape] at h1
  cases oex with
  | none => exact absurd h4 (by simp [exemplarMatches])
  | some x => exact ⟨vb, ots, x, h1, h3, h4⟩

/-- **the native-histogram detector declines every line the exposition writes for a float-valued sample** — also a bucket
line with an exemplar (the '{' of the exemplar comes after an unquoted '#') -/
theorem not_nh_on_rendered_line (P : Params) (fam : Family) (s : Sample) (h : SampleOKom P s)
    (helig : s.exemplar.isSome = true → OMExpo.isValidExemplarMetric fam.typ fam.name s.name = true) (suffixes : List Str) :
    ∃ body, OMExpo.sampleLine fam s = .ok (body ++ ['\n']) ∧ nhDetect body = .ok none ∧ parseNhSample P body suffixes = .ok none :=
  ⟨lineBody s, sampleLine_eq fam s helig, line_not_nh P s h, parseNhSample_of_detect P _ _ (line_not_nh P s h)⟩

/-- non-vacuity: a bucket of a histogram with a quoted UTF-8 name, adversarial label values, a float timestamp and an exemplar
with a quoted label name, a double quote, a backslash and a line feed in its value and a negative `Timestamp` -/
def exFam : Family := ⟨cs!"h é", cs!"help", cs!"histogram", [], []⟩
def exSample : Sample :=
  ⟨cs!"h é_bucket", [(cs!"le", cs!"1.0"), (cs!"l", cs!"x\\\"\n,} # {")], cs!"3.0", some ⟨.flt cs!"1.5", 1500⟩,
   some ⟨[(cs!"trace id", cs!"a\\b\n\"c}"), (cs!"k\"", [])], cs!"0.5", some (.stamp (-7) (-5))⟩⟩

theorem valTok_ref (tok : Str) (b : Nat) (hne : tok ≠ []) (hc : tok.all Spec.OMRoundtrip.isNumChar = true) (hi : refInt? tok = none)
    (hf : refFloat? tok = some b) : ValTok refP tok b :=
  ⟨hne, fun c hm => List.all_eq_true.mp hc c hm, hi, hf⟩

example : SampleOKom refP exSample := by
  refine ⟨by decide, ⟨_, valTok_ref cs!"3.0" _ (by decide) (by decide) (by decide) (by decide : refFloat? cs!"3.0" = some 6000000004)⟩, ?_, ?_⟩
  · intro t ht; cases ht
    exact Or.inl ⟨false, cs!"1", cs!"5", rfl, by decide, by decide, by decide, by decide, fun h => absurd h (by decide)⟩
  · intro e he; cases he
    refine ⟨by decide, by decide, ⟨_, valTok_ref cs!"0.5" _ (by decide) (by decide) (by decide) (by decide : refFloat? cs!"0.5" = some 1000000004)⟩, ?_⟩
    intro t ht; cases ht; unfold TsOK; decide

set_option maxRecDepth 100000 in
example : OMExpo.sampleLine { exFam with } { exSample with exemplar := exSample.exemplar.map (fun e => { e with ts := none }) } =
    .ok cs!"{\"h é_bucket\", l=\"x\\\\\\\"\\n,} # {\",le=\"1.0\"} 3.0 1.5 # {\"k\\\"\"=\"\",\"trace id\"=\"a\\\\b\\n\\\"c}\"} 0.5\n" := by
  decide

set_option maxRecDepth 100000 in
/-- **F18 repaired (bc8d08a), kernel-checked regression**: an exemplar label value with a double quote — written `\"` by the
exposition — is read back (`c.inc(1, {'a': 'x"y'})`); likewise a quoted exemplar label NAME with a quote -/
theorem exemplar_quote_regression :
    OMExpo.sampleLine ⟨cs!"c", [], cs!"counter", [], []⟩ ⟨cs!"c_total", [], cs!"1.0", none, some ⟨[(cs!"a", cs!"x\"y")], cs!"1.0", none⟩⟩ =
      .ok cs!"c_total 1.0 # {a=\"x\\\"y\"} 1.0\n" ∧
    parseSample refP cs!"c_total 1.0 # {a=\"x\\\"y\"} 1.0" =
      .ok ⟨cs!"c_total", some [], some (.flt 2000000004), none, some ⟨[(cs!"a", cs!"x\"y")], .flt 2000000004, none⟩, none⟩ ∧
    OMExpo.sampleLine ⟨cs!"c", [], cs!"counter", [], []⟩ ⟨cs!"c_total", [], cs!"1.0", none, some ⟨[(cs!"a\"b", cs!"v")], cs!"1.0", none⟩⟩ =
      .ok cs!"c_total 1.0 # {\"a\\\"b\"=\"v\"} 1.0\n" ∧
    parseSample refP cs!"c_total 1.0 # {\"a\\\"b\"=\"v\"} 1.0" =
      .ok ⟨cs!"c_total", some [], some (.flt 2000000004), none, some ⟨[(cs!"a\"b", cs!"v")], .flt 2000000004, none⟩, none⟩ ∧
    parseSample refP cs!"c_total 1.0 # {a=\"\\\\\\\"{a=\\\"b\\\"} 1\"} +Inf" =
      .ok ⟨cs!"c_total", some [], some (.flt 2000000004), none, some ⟨[(cs!"a", cs!"\\\"{a=\"b\"} 1")], .flt 1, none⟩, none⟩ := by
  refine ⟨by decide, by decide, by decide, by decide, by decide⟩

-- the document ---------------------------------------------------------------------------------------------------------------

/-- the parsed family the exposition of `fam` stands for: same name, help, type, unit; per sample what its line parses to -/
def expFamily (P : Params) (fam : Family) : OFamily := ⟨fam.name, fam.doc, fam.typ, fam.unit, fam.samples.map (parsedOf P)⟩

/-- the domain of the document-level theorem: CONTENT THE PARSER'S RULE LAYER ACCEPTS.  The rule layer of the parser — the
per-sample checks (`preChecks`, grouping / timestamp / duplicate handling, `postChecks`) and the per-family checks of
`build_metric` (name clashes, unit, histogram groups, `Metric()`'s own validation), run on the exposed VALUES (no text involved)
— accepts every family and keeps every sample.  An explicit decidable predicate.
Relation to C15: on this domain every C15 rule predicate is absent (`ruleClean_breaks_no_c15_rule`), so C04 and C15 never
contradict each other.  The converse fails: the rule layer also enforces rules that are NOT among C15's — `_count` without `_sum`
(F17, `count_without_sum_counterexample`), `_sum` without `_count`, `_sum` next to negative bounds, a negative `_gsum` next to
non-negative bounds, `le="inf"` not spelled `+Inf`, a group resumed after another one, a series repeated at one timestamp
(silently dropped).  Content of these kinds is expressible through the public API, breaks no C15 rule, and does not round-trip:
the known gap between "breaks no C15 rule" and `RuleClean` (harness signatures `C04:parser-only-rule:*` and
`C04:negative-bound-count-without-sum`, with witnesses on the real code). -/
def RuleClean (P : Params) (fs : List Family) : Prop :=
  rulesOnly P (fs.map (fun fam => (fam, fam.samples.map (parsedOf P)))) = .ok (fs.map (expFamily P))

instance (P : Params) (fs : List Family) : Decidable (RuleClean P fs) := by unfold RuleClean; infer_instance

/-- expressible through the public API: per family `FamOK` (name and type `Metric()` accepts, unit without line feed, every
sample within the line-level domain, carrying an exemplar only where the exposition accepts one, named within the suffix set
of the type), consecutive families with different names -/
def Expressible (P : Params) (fs : List Family) : Prop := (∀ fam ∈ fs, FamOK P fam) ∧ AdjDiffer fs

def ExpressibleOM (P : Params) (fs : List Family) : Prop := Expressible P fs ∧ RuleClean P fs

/-- equality of an exposed and a parsed family on name, help, type, unit and every sample field -/
def FamilyMatches (P : Params) (fam : Family) (f : OFamily) : Prop :=
  f.name = fam.name ∧ f.doc = fam.doc ∧ f.typ = fam.typ ∧ f.unit = fam.unit ∧ Forall2 (SampleMatches P) fam.samples f.samples

theorem forall₂_map_of {α β : Type} {R : α → β → Prop} (f : α → β) : ∀ (l : List α), (∀ a ∈ l, R a (f a)) → Forall2 R l (l.map f) := by
  intro l
  induction l with
  | nil => intro _; exact .nil
  | cons a as ih => intro h; exact .cons (h a (by simp)) (ih (fun b hb => h b (by simp [hb])))

/-- **document level: parsing the OpenMetrics exposition yields the exposed families** — any number of families of any of
the eight types, legacy or quoted UTF-8 names, units, `_created`, the three timestamp forms, exemplars: every family comes
back with its name, help, type, unit and every sample with name, label set, value, timestamp (by denoted value) and exemplar.

Intermediate result `doc_parse` (no rule hypothesis): `omParse (generateLatest fs) = rulesOnly …`, i.e. tokenisation, metadata
handling and the family state machine are inverse to the exposition and what is left is the rule layer on the exposed values.

`_partial`, what is missing:
* the domain is "content the parser's rule layer accepts" (`RuleClean`), not "content that breaks no C15 rule": the first implies
  the second (`ruleClean_breaks_no_c15_rule`), the parser-only rules listed at `RuleClean` are the gap;
* `AdjDiffer` (consecutive families with different names) is required by the format (a repeated name continues the family);
  clashes through suffixes are part of `RuleClean` (`build_metric`'s seen_names).  F17 lives exactly here: the in-process
  `Histogram` with a negative first bound is `Expressible` but not `RuleClean` although it breaks no C15 rule
  (`count_without_sum_counterexample`). -/
theorem om_roundtrip_partial (P : Params) (hI : IntLaw P.pyInt) (fs : List Family) (h : ExpressibleOM P fs) :
    ∃ text fs', OMExpo.generateLatest fs = .ok text ∧ omParse P text = .ok fs' ∧ Forall2 (FamilyMatches P) fs fs' := by
  obtain ⟨⟨hok, hadj⟩, hrc⟩ := h
  obtain ⟨text, h1, _, h2⟩ := doc_parse P hI fs hok hadj
  refine ⟨text, fs.map (expFamily P), h1, by rw [h2]; exact hrc, ?_⟩
  apply forall₂_map_of
  intro fam hf
  refine ⟨rfl, rfl, rfl, rfl, ?_⟩
  apply forall₂_map_of
  intro s hs
  exact (parsedOf_spec P hI s ((hok fam hf).samples s hs).1).2

/-- the same without the rule hypothesis: what the parser does with an exposition is decided by its rule layer alone -/
theorem om_exposition_parse (P : Params) (hI : IntLaw P.pyInt) (fs : List Family) (h : Expressible P fs) :
    ∃ text, OMExpo.generateLatest fs = .ok text ∧
      omParse P text = rulesOnly P (fs.map (fun fam => (fam, fam.samples.map (parsedOf P)))) := by
  obtain ⟨text, h1, _, h2⟩ := doc_parse P hI fs h.1 h.2
  exact ⟨text, h1, h2⟩

/-- non-vacuity: a counter with an adversarial label value and help, an exemplar with a float timestamp and a `_created` sample,
followed by a gauge with a quoted UTF-8 name, a unit, a NaN value and a float timestamp -/
def exFams : List Family :=
  [⟨cs!"c", cs!"help \\ x\n\"q\"", cs!"counter", [],
      [⟨cs!"c_total", [(cs!"l", cs!"x\"y\\")], cs!"1.0", none, some ⟨[(cs!"trace id", cs!"a\\b")], cs!"0.5", some (.flt cs!"7.25")⟩⟩,
       ⟨cs!"c_created", [(cs!"l", cs!"x\"y\\")], cs!"5.0", none, none⟩]⟩,
   ⟨cs!"é g_seconds", [], cs!"gauge", cs!"seconds", [⟨cs!"é g_seconds", [], cs!"nan", some ⟨.flt cs!"1.5", 1500⟩, none⟩]⟩]

theorem valTok_ref' (repr : Str) (b : Nat) (hne : Utils.floatToGoString repr ≠ [])
    (hc : (Utils.floatToGoString repr).all Spec.OMRoundtrip.isNumChar = true) (hi : refInt? (Utils.floatToGoString repr) = none)
    (hf : refFloat? (Utils.floatToGoString repr) = some b) : ∃ b, ValTok refP (Utils.floatToGoString repr) b :=
  ⟨b, valTok_ref _ b hne hc hi hf⟩

set_option maxRecDepth 100000 in
example : ExpressibleOM refP exFams := by
  refine ⟨⟨?_, ⟨by decide, trivial⟩⟩, by decide⟩
  intro fam hf
  simp only [exFams, List.mem_cons, List.not_mem_nil, or_false] at hf
  rcases hf with rfl | rfl
  · refine ⟨by decide, by decide, by decide, ?_⟩
    intro s hs
    simp only [List.mem_cons, List.not_mem_nil, or_false] at hs
    rcases hs with rfl | rfl
    · refine ⟨⟨by decide, valTok_ref' cs!"1.0" 2000000004 (by decide) (by decide) (by decide) (by decide), ?_, ?_⟩, by decide, by decide⟩
      · intro t ht; cases ht
      · intro e he; cases he
        refine ⟨by decide, by decide, valTok_ref' cs!"0.5" 1000000004 (by decide) (by decide) (by decide) (by decide), ?_⟩
        intro t ht; cases ht
        exact Or.inl ⟨false, cs!"7", cs!"25", rfl, by decide, by decide, by decide, by decide, fun h => absurd h (by decide)⟩
    · refine ⟨⟨by decide, valTok_ref' cs!"5.0" 10000000004 (by decide) (by decide) (by decide) (by decide), ?_, ?_⟩, by decide, by decide⟩
      · intro t ht; cases ht
      · intro e he; cases he
  · refine ⟨by decide, by decide, by decide, ?_⟩
    intro s hs
    simp only [List.mem_cons, List.not_mem_nil, or_false] at hs
    subst hs
    refine ⟨⟨by decide, valTok_ref' cs!"nan" 0 (by decide) (by decide) (by decide) (by decide), ?_, ?_⟩, by decide, by decide⟩
    · intro t ht; cases ht
      exact Or.inl ⟨false, cs!"1", cs!"5", rfl, by decide, by decide, by decide, by decide, fun h => absurd h (by decide)⟩
    · intro e he; cases he

set_option maxRecDepth 100000 in
example : OMExpo.generateLatest exFams = .ok cs!"# HELP c help \\\\ x\\n\\\"q\\\"\n# TYPE c counter\nc_total{l=\"x\\\"y\\\\\"} 1.0 # {\"trace id\"=\"a\\\\b\"} 0.5 7.25\nc_created{l=\"x\\\"y\\\\\"} 5.0\n# HELP \"é g_seconds\" \n# TYPE \"é g_seconds\" gauge\n# UNIT \"é g_seconds\" seconds\n{\"é g_seconds\"} NaN 1.5\n# EOF\n" := by
  decide

/-- the F17 shape: a histogram family with a negative bound as the in-process `Histogram` exposes it (`_count`, no `_sum`), and
with a `_sum` added -/
def f17Fam (withSum : Bool) : Family :=
  ⟨cs!"h", cs!"h", cs!"histogram", [],
    [⟨cs!"h_bucket", [(cs!"le", cs!"-1.0")], cs!"0.0", none, none⟩, ⟨cs!"h_bucket", [(cs!"le", cs!"+Inf")], cs!"1.0", none, none⟩,
     ⟨cs!"h_count", [], cs!"1.0", none, none⟩] ++ (if withSum then [⟨cs!"h_sum", [], cs!"0.5", none, none⟩] else [])⟩

set_option maxRecDepth 100000 in
/-- **F17, kernel-checked**: the exposition of a histogram with a negative first bound and a `_count` is rejected by the
parser whether or not a `_sum` is written (without: `_sum/_gsum must be present if _count is present`; with: `Cannot have _sum
with negative buckets`); only the helper's shape — neither `_count` nor `_sum` — is accepted.  The in-process `Histogram`
exposes the first shape (C01 requires `_count`), so its own exposition does not parse -/
theorem count_without_sum_counterexample :
    OMExpo.generateLatest [f17Fam false] =
      .ok cs!"# HELP h h\n# TYPE h histogram\nh_bucket{le=\"-1.0\"} 0.0\nh_bucket{le=\"+Inf\"} 1.0\nh_count 1.0\n# EOF\n" ∧
    omParse refP cs!"# HELP h h\n# TYPE h histogram\nh_bucket{le=\"-1.0\"} 0.0\nh_bucket{le=\"+Inf\"} 1.0\nh_count 1.0\n# EOF\n" = .error .valueError ∧
    omParse refP cs!"# HELP h h\n# TYPE h histogram\nh_bucket{le=\"-1.0\"} 0.0\nh_bucket{le=\"+Inf\"} 1.0\nh_count 1.0\nh_sum 0.5\n# EOF\n" = .error .valueError ∧
    (omParse refP cs!"# HELP h h\n# TYPE h histogram\nh_bucket{le=\"-1.0\"} 0.0\nh_bucket{le=\"+Inf\"} 1.0\n# EOF\n").toOption.isSome = true ∧
    (omParse refP cs!"# HELP h h\n# TYPE h histogram\nh_bucket{le=\"1.0\"} 0.0\nh_bucket{le=\"+Inf\"} 1.0\nh_count 1.0\nh_sum 0.5\n# EOF\n").toOption.isSome = true := by
  refine ⟨by decide, by decide, by decide, by decide, by decide⟩

-- RuleClean and the rules of C15 ---------------------------------------------------------------------------------------------------

open PromVerif.Spec.OMRules in
/-- **`RuleClean` implies that none of the C15 rules is broken** — one direction of the link between the decidable predicate and
the declarative rule predicates of `Spec/OMRules.lean`, for every rule that has a document-level theorem in C15: on the
tokenised lines of the exposition (`docTokens`, which ARE `map parseLine ∘ docLines` of the exposed text: `om_exposition_tokens`)
no rule predicate holds.  (Each C15 theorem says "rule broken ⇒ the family state machine raises"; `RuleClean` says it does not.)
The converse — no rule broken ⇒ `RuleClean` — is not proved: it needs completeness of the C15 rule list with respect to the
parser's checks, and F17 shows the list is NOT complete (`_count` without `_sum` is rejected but is not among the rules). -/
theorem ruleClean_breaks_no_c15_rule (P : Params) (hI : IntLaw P.pyInt) (fs : List Family) (h : ExpressibleOM P fs) :
    let ls := docTokens P fs
    ¬ MissingEOF ls ∧ ¬ ContentAfterEOF ls ∧ ¬ BlankLine ls ∧ ¬ RepeatedMetadata ls ∧ ¬ LateMetadata ls ∧
    ¬ InterleavedFamilies ls ∧ ¬ ClashingFamilies ls ∧ ¬ UnitNotSuffix ls ∧ ¬ UnitOnInfoOrStateset ls ∧
    ¬ InfoNotOne P ls ∧ ¬ StatesetBadValue P ls ∧ ¬ StatesetNoLabel ls ∧ ¬ CounterLikeNaN P ls ∧ ¬ CounterLikeNegative P ls ∧
    ¬ QuantileOutOfRange P ls ∧ ¬ CountNotIntegral P ls ∧ ¬ BucketBoundNaN P ls ∧ ¬ ExemplarIneligible ls ∧
    ¬ HistBoundsNotIncreasingDoc P ls ∧ ¬ HistCountsNotCumulativeDoc P ls ∧ ¬ TimestampBackwards P ls ∧ ¬ TimestampPartial ls := by
  obtain ⟨⟨hok, hadj⟩, hrc⟩ := h
  have hass : isError (assemble P (docTokens P fs)) = false := by
    rw [assemble_docTokens P hI fs hok hadj, hrc]; rfl
  have no : ∀ {R : Prop}, (R → isError (assemble P (docTokens P fs)) = true) → ¬ R := fun f r => by
    rw [f r] at hass; cases hass
  exact ⟨no (C15.missing_eof P _), no (C15.content_after_eof P _), no (C15.blank_line P _), no (C15.repeated_metadata P _),
    no (C15.late_metadata P _), no (C15.interleaved_families P _), no (C15.clashing_families P _), no (C15.unit_not_suffix P _),
    no (C15.unit_on_info_or_stateset P _), no (C15.info_not_one P _), no (C15.stateset_bad_value P _), no (C15.stateset_no_label P _),
    no (C15.counter_like_nan P _), no (C15.counter_like_negative P _), no (C15.quantile_out_of_range P _),
    no (C15.count_not_integral P _), no (C15.bucket_bound_nan P _), no (C15.exemplar_ineligible P _),
    no (C15.hist_bounds_not_increasing P _), no (C15.hist_counts_not_cumulative P _), no (C15.timestamp_backwards P _),
    no (C15.timestamp_partial P _)⟩

/-- the tokenised lines of the exposed text are `docTokens` -/
theorem om_exposition_tokens (P : Params) (hI : IntLaw P.pyInt) (fs : List Family) (h : Expressible P fs) :
    ∃ text, OMExpo.generateLatest fs = .ok text ∧ (docLines text).map (parseLine P) = docTokens P fs := by
  obtain ⟨text, h1, h2, _⟩ := doc_parse P hI fs h.1 h.2
  exact ⟨text, h1, h2⟩

-- the converse -------------------------------------------------------------------------------------------------------------------

/-- **the converse at line level, for name and labels**: for EVERY accepted sample line (any text `_parse_sample` accepts) the
parsed label dict is again in the domain of the round trip — every label name passed `_validate_labelname` and no name occurs
twice; this is DERIVED from acceptance (`accepted_labels_ok`), not assumed.  Hence for any sample `s` carrying the parsed name and
label dict, the line the exposition writes for `s` parses to a sample with that same name and that same label dict, and agrees
with `s` on value, timestamp and exemplar (`SampleMatches P s o'`).

What this does NOT say (why `_partial`): it does not connect the value, timestamp and exemplar of `s` with those of the parsed
sample `o` — the re-rendering of a parsed number (`1` → `repr(float(1))` = `1.0`) and of a parsed float timestamp goes through
`float()`/`repr()`, which the model carries only as tokens; they enter as the hypotheses `hval`, `hts`, `hex` on the re-rendered
tokens.  So "parse ∘ render ∘ parse = parse" is proved for the name and the label dict of every accepted line, and for `Timestamp`
objects (`om_reparse_timestamp` + `parsed_timestamp_range`: every `Timestamp` the parser builds is a fixed point of
render-then-parse); for values, float timestamps and exemplars it is the forward theorem applied to the re-rendered tokens.  An
exemplar label set containing the metric-name slot (`# {"x"} 1` is accepted and parsed as `{'__name__': 'x'}`) is outside `ExOK`.
No document-level converse (families, duplicate suppression: known finding F30) is proved; the harness covers parse → expose →
parse on generated and mutated documents. -/
theorem om_reparse_partial (P : Params) (hI : IntLaw P.pyInt) (line : Str) (o : OSample) (hacc : parseSample P line = .ok o)
    (s : Sample) (hname : s.name = o.name) (hlabels : o.labels = some s.labels)
    (hval : ∃ b, ValTok P (Utils.floatToGoString s.value) b) (hts : ∀ t, s.ts = some t → TsOK P t.ts)
    (hex : ∀ e, s.exemplar = some e → ExOK P e) :
    ∃ o', parseSample P (lineBody s) = .ok o' ∧ o'.name = o.name ∧ o'.labels = o.labels.map sortByKey ∧ SampleMatches P s o' := by
  obtain ⟨L, hL, hok⟩ := parseSample_labels_ok P line o hacc
  rw [hlabels] at hL
  cases hL
  obtain ⟨o', h1, h2⟩ := line_roundtrip P hI s ⟨hok, hval, hts, hex⟩
  exact ⟨o', h1, by rw [h2.name, hname], by rw [h2.labels, hlabels]; rfl, h2⟩

/-- every label dict the parser returns for an accepted sample line: names accepted by `_validate_labelname`, no duplicates -/
theorem accepted_labels_ok (P : Params) (line : Str) (o : OSample) (hacc : parseSample P line = .ok o) :
    ∃ L, o.labels = some L ∧ LabelsOK P.legacy L := parseSample_labels_ok P line o hacc

/-- **the timestamp normalisation is idempotent**: every `Timestamp` object (class invariant, `parsed_timestamp_range`) is a fixed
point of render-then-parse -/
theorem om_reparse_timestamp (P : Params) (hI : IntLaw P.pyInt) (s n : Int)
    (h1 : 0 ≤ s → 0 ≤ n ∧ n < 1000000000) (h2 : s < 0 → -1000000000 < n ∧ n ≤ 0) :
    parseTimestamp P (OMExpo.tsStr (.stamp s n)) = .ok (some (.stamp s n)) := stamp_fixpoint P hI s n h1 h2

/-- the `Timestamp` objects the parser builds carry the sign of the second count in the nanosecond field: they all satisfy the
hypotheses of `om_reparse_timestamp` -/
theorem parsed_timestamp_range (a b s n : Int) (h : mkTimestamp a b = .ok (.stamp s n)) :
    (0 ≤ s → 0 ≤ n ∧ n < 1000000000) ∧ (s < 0 → -1000000000 < n ∧ n ≤ 0) := mkTimestamp_range a b s n h

set_option maxRecDepth 100000 in
/-- non-vacuity: an accepted line in a spelling the exposition never writes (blank after the comma, integer value, label order) -/
example : parseSample refP cs!"a{b=\"x\\\"y\", a=\"1\"} 17 1.5" =
    .ok ⟨cs!"a", some [(cs!"b", cs!"x\"y"), (cs!"a", cs!"1")], some (.int 17), some (.stamp 1 500000000), none, none⟩ := by decide

-- the converse, full line level and document level ------------------------------------------------------------------------------------

/-- **(a) the converse at line level, full**: for EVERY accepted sample line (any text `_parse_sample` accepts; it never yields a
native histogram), rendering the parsed sample again — name, label dict (the exposition sorts by key), value through
`repr(float(v))`, timestamp (`Timestamp.__str__` / `repr(float)`), exemplar — and parsing the rendered line gives the same sample:
same name, same label DICT, the value as the double `float(v)`, a `Timestamp` EXACTLY as it was, a float timestamp as the same
instant (`tsSame`: `15e0` comes back as `Timestamp(15, 0)`), the exemplar likewise (`SampleSame`).
Derived from acceptance, not assumed: the label names are valid and unique, every `Timestamp` satisfies the class invariant,
the exemplar's labels are valid, unique and within the 128-character limit.  Hypotheses (`BackLaws`): the number laws for the
PARSED values — `float()` reads `floatToGoString(repr(float(v)))` as `float(v)`, `repr` of a float timestamp lies in the float
grammar and `float()` reads it back — and no exemplar label in the metric-name slot (`# {"x"} 1` is accepted as
`{'__name__': 'x'}`; on the real code that round-trips too, the model's `LabelsOK` does not cover it). -/
theorem om_reparse_line (P : Params) (hI : IntLaw P.pyInt) (R : Rerender) (line : Str) (o : OSample)
    (hacc : parseSample P line = .ok o) (hl : BackLaws P R o) :
    ∃ o', parseSample P (lineBody (sampleBack R o)) = .ok o' ∧ SampleSame P R o o' :=
  reparse_line P hI R line o hacc hl

/-- non-vacuity of (a): the accepted line `a{b="x\"y", a="1"} 17 1.5` (spelling the exposition never writes) with `repr(float(17))` -/
def exR : Rerender := ⟨fun _ => cs!"17.0", fun _ => 34000000004, fun _ => cs!"1.5"⟩
def exParsed : OSample := ⟨cs!"a", some [(cs!"b", cs!"x\"y"), (cs!"a", cs!"1")], some (.int 17), some (.stamp 1 500000000), none, none⟩

example : parseSample refP cs!"a{b=\"x\\\"y\", a=\"1\"} 17 1.5" = .ok exParsed := by decide
example : BackLaws refP exR exParsed := by
  refine ⟨?_, ?_, ?_, ?_, ?_⟩
  · intro v _
    exact valTok_ref cs!"17.0" 34000000004 (by decide) (by decide) (by decide) (by decide)
  · intro b h; cases h
  · intro e h; cases h
  · intro e b h; cases h
  · intro e h; cases h
example : lineBody (sampleBack exR exParsed) = cs!"a{a=\"1\",b=\"x\\\"y\"} 17.0 1.500000000" := by
  simp [lineBody, lineHead, lineRem, sampleBack, exParsed, exR, tsBack, OMExpo.tsStr, OMExpo.stampStr, intStr, decDigits_small,
    decDigits_step, zpad]
  decide

/-- **(b) every family the parser returns is expressible again** — `_partial`.  From acceptance alone (`omParse_wf`): the family name
is one `Metric()` accepts, the type is among METRIC_TYPES, a unit suffixes the name, and every float-valued sample is what
`_parse_sample` made of some line, so that all the line-level facts of (a) hold for it.  What is NOT derived and enters through
`BackOK`: `noNH` (the property's exception), `laws` (number laws), and four structural facts —
* `unit` (no line feed in a unit), `eligible` (exemplars only on buckets / `_total`), `adj` (consecutive names differ): true of every
  accepted document (a unit is a piece of one line; `chkExemplar`; `build_metric`'s seen_names), their derivation — three more
  invariants of the line fold — is not done;
* `regular` (sample names within the suffix set of the family's type): FALSE for a stray sample whose name is itself a quoted string
  (finding F32, `stray_quoted_sample_counterexample`): the family gets the twice-unquoted name.
`RuleClean` of the re-rendered families is not derived either: see (c). -/
theorem parsed_family_expressible_partial (P : Params) (R : Rerender) (d : Str) (fs : List OFamily)
    (hacc : omParse P d = .ok fs) (hb : BackOK P R fs) :
    (∀ f ∈ fs, FamWf P f) ∧ Expressible P (fs.map (famBack R)) :=
  ⟨omParse_wf P d fs hacc, famBack_ok P R fs (omParse_wf P d fs hacc) hb, hb.adj⟩

/-- **(c) the converse at document level** — `_partial`: for every accepted document without native-histogram samples, exposing the
parsed families and parsing again reproduces the same families (`FamSame`: name, help, type, unit, every sample by `SampleSame`).
Unconditional part (`reparse_document`): `omParse (generateLatest fs') = rulesOnly …`, i.e. only the parser's rule layer on the
re-rendered values stands between the two parses.  Exactly what is missing:
* `hrc : RuleClean` of the re-rendered families is a hypothesis.  It is NOT a consequence of acceptance: the duplicate suppression
  compares a `Timestamp` and a float as unequal, so `a 1 1.5` / `a 2 1.5e0` is kept as two samples and loses one after
  re-rendering (known finding F30, `mixed_spelling_duplicate_counterexample`); the int → float change of values
  (`1` → `1.0`) also goes through the rule layer again (number semantics, not modelled);
* the `BackOK` fields listed at (b) (`regular` fails on F32). -/
theorem om_reparse_document_partial (P : Params) (hI : IntLaw P.pyInt) (R : Rerender) (d : Str) (fs : List OFamily)
    (hacc : omParse P d = .ok fs) (hb : BackOK P R fs) (hrc : RuleClean P (fs.map (famBack R))) :
    ∃ text fs'', OMExpo.generateLatest (fs.map (famBack R)) = .ok text ∧ omParse P text = .ok fs'' ∧ Forall2 (FamSame P R) fs fs'' := by
  obtain ⟨text, h1, h2, h3⟩ := reparse_document P hI R d fs hacc hb
  exact ⟨text, _, h1, by rw [h2]; exact hrc, h3⟩

set_option maxRecDepth 100000 in
/-- **F32, kernel-checked**: a stray sample (no metadata) whose name is itself a quoted string: `{"\"a\""} 1`.  The family is named
by unquoting the sample name AGAIN (`a`), the sample keeps `"a"`; exposed again, the sample no longer belongs to family `a`, opens a
second family `a`, and `build_metric` raises "Clashing name" -/
theorem stray_quoted_sample_counterexample :
    omParse refP cs!"{\"\\\"a\\\"\"} 1\n# EOF\n" =
      .ok [⟨cs!"a", [], cs!"unknown", [], [⟨cs!"\"a\"", some [], some (.int 1), none, none, none⟩]⟩] ∧
    (allowedNames cs!"a" cs!"unknown").contains cs!"\"a\"" = false ∧
    OMExpo.generateLatest [⟨cs!"a", [], cs!"unknown", [], [⟨cs!"\"a\"", [], cs!"1.0", none, none⟩]⟩] =
      .ok cs!"# HELP a \n# TYPE a unknown\n{\"\\\"a\\\"\"} 1.0\n# EOF\n" ∧
    omParse refP cs!"# HELP a \n# TYPE a unknown\n{\"\\\"a\\\"\"} 1.0\n# EOF\n" = .error .valueError := by
  refine ⟨by decide, by decide, by decide, by decide⟩

set_option maxRecDepth 100000 in
/-- **F30, kernel-checked**: one series twice at one instant, once in `aaaa.bbbb` and once in float spelling, is kept as two samples;
its re-exposition (both in canonical spelling) parses to ONE sample -/
theorem mixed_spelling_duplicate_counterexample :
    (omParse refP cs!"a 1 1.5\na 2 1.5e0\n# EOF\n").toOption.map (fun fs => fs.map (fun f => f.samples.length)) = some [2] ∧
    (omParse refP cs!"# HELP a \n# TYPE a unknown\na 1.0 1.500000000\na 2.0 1.5\n# EOF\n").toOption.map
      (fun fs => fs.map (fun f => f.samples.length)) = some [1] := by
  refine ⟨by decide, by decide⟩

end PromVerif.Props.C04
