/-
Model of `openmetrics.exposition.generate_latest`, statement by statement.
-/
import PromVerif.Model.Sample
import PromVerif.Model.Escape
import PromVerif.Model.Utils
import PromVerif.Py.Err

namespace PromVerif.Model.OMExpo
open PromVerif.Py PromVerif.Model PromVerif.Model.Escape PromVerif.Model.Validation

/-- `Timestamp.__str__`: f"{sec}.{nsec:09d}" (Python's `09d` pads to width 9 including a sign) -/
def stampStr (sec nsec : Int) : Str :=
  let body := match nsec with
    | .ofNat k => zpad 9 (decDigits k)
    | .negSucc k =>
      if Generated.Expo.stampAbsNsec then zpad 9 (decDigits (k + 1)) else '-' :: zpad 8 (decDigits (k + 1))
  intStr sec ++ ['.'] ++ body

/-- `str(timestamp)` -/
def tsStr : Ts → Str
  | .int n => intStr n
  | .flt r => r
  | .stamp s n => stampStr s n

/-- `_is_valid_exemplar_metric` — note `x in ('gaugehistogram')` is a substring test and `and` binds tighter than `or` -/
def isValidExemplarMetric (typ famName sampleName : Str) : Bool :=
  (typ == "counter".toList && endsWith "_total".toList sampleName) ||
  (isInfix typ "gaugehistogram".toList && endsWith "_bucket".toList sampleName) ||
  ((isInfix typ "histogram".toList && endsWith "_bucket".toList sampleName) || sampleName == famName)

def labelItem (kv : Str × Str) : Str := escapeLabelName kv.1 ++ ['=', '"'] ++ escape kv.2 ++ ['"']

def exemplarItem (kv : Str × Str) : Str :=
  (if Generated.Expo.exemplarNameEscaped then escapeLabelName kv.1 else kv.1) ++ ['=', '"'] ++ escapeExemplarValue kv.2 ++ ['"']

def exemplarStr (e : Exemplar) : Str :=
  let labels := ['{'] ++ joinStr [','] ((sortByKey e.labels).map exemplarItem) ++ ['}']
  match e.ts with
  | some t => " # ".toList ++ labels ++ [' '] ++ Utils.floatToGoString e.value ++ [' '] ++ tsStr t
  | none => " # ".toList ++ labels ++ [' '] ++ Utils.floatToGoString e.value

/-- one sample line; raises ValueError for an exemplar on an ineligible sample -/
def sampleLine (fam : Family) (s : Sample) : PyM Str :=
  let legacy := isValidLegacyMetricName s.name
  let l0 := if !legacy then escapeMetricName s.name ++ (if s.labels.isEmpty then [] else [',', ' ']) else []
  let l1 := if s.labels.isEmpty then l0 else l0 ++ joinStr [','] ((sortByKey s.labels).map labelItem)
  let labelstr := if l1.isEmpty then [] else ['{'] ++ l1 ++ ['}']
  let ex : PyM Str := match s.exemplar with
    | some e =>
      -- `if s.exemplar:` — a NamedTuple with fields is always truthy
      if !isValidExemplarMetric fam.typ fam.name s.name then .error .valueError else .ok (exemplarStr e)
    | none => .ok []
  match ex with
  | .error e => .error e
  | .ok exemplarstr =>
    let timestamp := match s.ts with
      | none => []
      | some t => ' ' :: tsStr t.ts
    let value := Utils.floatToGoString s.value
    if legacy then .ok (s.name ++ labelstr ++ [' '] ++ value ++ timestamp ++ exemplarstr ++ ['\n'])
    else .ok (labelstr ++ [' '] ++ value ++ timestamp ++ exemplarstr ++ ['\n'])

def familyLines (fam : Family) : PyM (List Str) := do
  let head := ["# HELP ".toList ++ escapeMetricName fam.name ++ [' '] ++ escape fam.doc ++ ['\n'],
               "# TYPE ".toList ++ escapeMetricName fam.name ++ [' '] ++ fam.typ ++ ['\n']]
  let unit := if fam.unit.isEmpty then [] else ["# UNIT ".toList ++ escapeMetricName fam.name ++ [' '] ++ fam.unit ++ ['\n']]
  let ls ← fam.samples.mapM (sampleLine fam)
  pure (head ++ unit ++ ls)

def generateLatest (fams : List Family) : PyM Str := do
  let ls ← fams.mapM familyLines
  pure ((ls.flatten ++ ["# EOF\n".toList]).flatten)

end PromVerif.Model.OMExpo
