/-
Model of prometheus_client/mmap_dict.py (C10, C11), function by function.

* a file (and the shared mapping of it) is a `List UInt8`; `MmapedDict` = (file, capacity, used, positions)
* values and timestamps are `UInt64` bit patterns (the store never computes with doubles)
* keys are `List Char` (Unicode scalar values), encoded/decoded with Lean core's UTF-8 functions
* every constant, both padding expressions and the ORDER of the file effects come from `Generated/Mmap.lean`
  (re-extracted from the source on every run); each writer operation returns the list of file effects it performed,
  in order, next to its result: C10 uses the result, C11 cuts the effect list at every prefix
* not modelled (returns `.error .timeout`, proved unreachable from every state the theorems speak about): a negative
  length field or header (Python's negative-index semantics on garbage), `read_mode=True`
* after an operation raised, the partially updated in-memory object is not modelled (the operation returns `.error`)
-/
import PromVerif.Py.Err
import PromVerif.Generated.Mmap

namespace PromVerif.Model.MmapDict
open PromVerif.Py PromVerif.Generated.Mmap

abbrev Bytes := List UInt8
abbrev Key := List Char

/-! ## bytes, struct -/

/-- `w` little-endian bytes of `n` -/
def le : Nat → Nat → Bytes
  | 0, _ => []
  | w + 1, n => UInt8.ofNat n :: le w (n / 256)

/-- little-endian value of a byte string -/
def unle : Bytes → Nat
  | [] => 0
  | b :: bs => b.toNat + 256 * unle bs

/-- Python `data[pos:pos+n]` for non-negative `pos`, `n` (clipped at the end) -/
def slice (data : Bytes) (pos n : Nat) : Bytes := (data.drop pos).take n

def zeros (n : Nat) : Bytes := List.replicate n 0

/-- `struct.Struct('i').pack(n)` for `n ≥ 0`: `struct.error` from 2^31 on -/
def packInt (n : Nat) : PyM Bytes :=
  if n < 2147483648 then .ok (le intWidth n) else .error .structError

/-- `struct.Struct('i').unpack_from(data, pos)[0]` -/
def unpackInt (data : Bytes) (pos : Nat) : PyM Int :=
  if pos + intWidth ≤ data.length then
    let n := unle (slice data pos intWidth)
    .ok (if n < 2147483648 then (n : Int) else (n : Int) - 4294967296)
  else .error .structError

/-- one double as its 8 bytes -/
def le64 (v : UInt64) : Bytes := le 8 v.toNat

def unle64 (bs : Bytes) : UInt64 := UInt64.ofNat (unle bs)

/-- `struct.Struct('dd').unpack_from(data, pos)` -/
def unpackTwoDoubles (data : Bytes) (pos : Nat) : PyM (UInt64 × UInt64) :=
  if pos + twoDoublesWidth ≤ data.length then
    .ok (unle64 (slice data pos 8), unle64 (slice data (pos + 8) 8))
  else .error .structError

/-- `key.encode('utf-8')` -/
def encodeKey (k : Key) : Bytes := (String.ofList k).toByteArray.data.toList

/-- `encoded_key.decode('utf-8')` (strict) -/
def decodeKey (bs : Bytes) : PyM Key :=
  match (ByteArray.mk bs.toArray).utf8Decode? with
  | some a => .ok a.toList
  | none => .error .unicodeError

/-! ## file effects -/

inductive Effect
  | createEmpty                               -- `open(…, 'a+b')` of an absent file
  | truncate (n : Nat)                        -- `f.truncate(n)`
  | sliceWrite (pos : Nat) (bytes : Bytes)    -- `m[pos:pos+len(bytes)] = bytes`
deriving Repr, DecidableEq

/-- `ftruncate`: cut, or extend with zeros -/
def truncate (f : Bytes) (n : Nat) : Bytes := f.take n ++ zeros (n - f.length)

def sliceWrite (f : Bytes) (pos : Nat) (bs : Bytes) : Bytes := f.take pos ++ bs ++ f.drop (pos + bs.length)

/-- a file system cell: `none` = the file does not exist -/
def applyEffect (f : Option Bytes) : Effect → Option Bytes
  | .createEmpty => some (f.getD [])
  | .truncate n => f.map (truncate · n)
  | .sliceWrite pos bs => f.map (sliceWrite · pos bs)

def applyEffects (f : Option Bytes) (es : List Effect) : Option Bytes := es.foldl applyEffect f

/-- file, size of the current mapping, effects performed so far (in order) -/
structure Fx where
  file : Bytes
  cap : Nat
  trace : List Effect

def Fx.truncate (s : Fx) (n : Nat) : Fx := ⟨MmapDict.truncate s.file n, n, s.trace ++ [.truncate n]⟩

/-- slice assignment into the mapping; a slice that does not fit raises IndexError (wrong size) -/
def Fx.sliceWrite (s : Fx) (pos : Nat) (bs : Bytes) : PyM Fx :=
  if pos + bs.length ≤ s.cap then .ok ⟨MmapDict.sliceWrite s.file pos bs, s.cap, s.trace ++ [.sliceWrite pos bs]⟩
  else .error .indexError

/-! ## `_read_all_values` -/

abbrev Item := Key × UInt64 × UInt64 × Nat

/-- the `while pos < used` loop, tail-recursive (`acc` = the items yielded so far, newest first).  `fuel` bounds the
iterations; running out of it, or an iteration that does not advance `pos` (the real loop would spin for ever), is
`.timeout`; both are proved impossible -/
def readLoopAcc (data : Bytes) (used : Nat) : Nat → Nat → List Item → PyM (List Item)
  | 0, pos, acc => if pos < used then .error .timeout else .ok acc.reverse
  | fuel + 1, pos, acc =>
    if pos < used then
      match unpackInt data pos with
      | .error e => .error e
      | .ok el =>
        if el < 0 then .error .timeout      -- negative length field: not modelled
        else
          let n := el.toNat
          if n + pos > used then .error .runtimeError
          else
            let pos1 := pos + lenFieldSkip
            let kb := slice data pos1 n
            let pos2 := pos1 + paddedLenReader n
            match unpackTwoDoubles data pos2 with
            | .error e => .error e
            | .ok (v, t) =>
              match decodeKey kb with
              | .error e => .error e
              | .ok key =>
                if pos2 + valueSkip ≤ pos then .error .timeout      -- no progress
                else readLoopAcc data used fuel (pos2 + valueSkip) ((key, v, t, pos2) :: acc)
    else .ok acc.reverse

def readLoop (data : Bytes) (used fuel pos : Nat) : PyM (List Item) := readLoopAcc data used fuel pos []

/-- `_read_all_values(data, used)`, fully iterated -/
def readAllValuesRaw (data : Bytes) (used : Int) : PyM (List Item) := do
  let used ← if used ≤ 0 then unpackInt data headerPos else .ok used
  if used ≤ 0 then .ok [] else readLoop data used.toNat used.toNat scanStart

/-- `if len(data) < N: return iter(())` — whether the extracted guard (if the source has one) fires -/
def shortFile (data : Bytes) : Bool :=
  match shortFileGuard with
  | some n => decide (data.length < n)
  | none => false

/-- `MmapedDict.read_all_values_from_file(filename)`, fully iterated (`pageSize` = `mmap.PAGESIZE`) -/
def readAllValuesFromFile (pageSize : Nat) (file : Bytes) : PyM (List Item) :=
  let data := file.take pageSize
  if shortFile data then .ok []
  else do
    let used ← unpackInt data headerPos
    let data := if used > data.length then data ++ (file.drop data.length).take (used.toNat - data.length) else data
    readAllValuesRaw data used

/-! ## `MmapedDict` -/

structure MmapedDict where
  file : Bytes
  capacity : Nat
  used : Nat
  positions : List (Key × Nat)

/-- `self._positions[key] = pos` -/
def setPos : List (Key × Nat) → Key → Nat → List (Key × Nat)
  | [], k, p => [(k, p)]
  | (k', p') :: r, k, p => if k' = k then (k, p) :: r else (k', p') :: setPos r k p

def ctorStep (initSize : Nat) (s : Fx) : Eff → PyM Fx
  | .truncateInitial => .ok (if s.cap = 0 then s.truncate initSize else s)
  | .remap => if s.cap = 0 then .error .valueError else .ok s      -- cannot mmap an empty file
  | .writeHeader => do
      let u ← unpackInt s.file headerPos
      if u = 0 then do
        let h ← packInt freshUsed
        s.sliceWrite headerPos h
      else .ok s
  | _ => .ok s

/-- `MmapedDict(filename)` on a file with the given content (`[]` = absent or empty); returns the effects too -/
def init (initSize : Nat) (file : Bytes) : PyM (MmapedDict × List Effect) := do
  let s ← ctorEffects.foldlM (ctorStep initSize) ⟨file, file.length, []⟩
  let u ← unpackInt s.file headerPos
  if u ≤ 0 then .error .timeout       -- zero is impossible here, a negative header is not modelled
  else do
    let items ← readAllValuesRaw s.file u
    .ok (⟨s.file, s.cap, u.toNat, items.foldl (fun ps (k, _, _, p) => setPos ps k p) []⟩, s.trace)

/-- successive capacities of the growth loop -/
def growCaps : Nat → Nat → Nat → PyM (List Nat)
  | 0, cap, need => if need > cap then .error .timeout else .ok []
  | fuel + 1, cap, need =>
    if need > cap then
      if growFactor * cap ≤ cap then .error .timeout      -- the capacity does not grow: the real loop would spin for ever
      else do
        let r ← growCaps fuel (growFactor * cap) need
        .ok (growFactor * cap :: r)
    else .ok []

/-- the bytes `_init_value` writes: `struct.pack('i{n}sdd', len(encoded), padded, 0.0, 0.0)` (native alignment), or — if the
source does not pack the doubles — `struct.pack('i{n}s', len(encoded), padded)` -/
def entryBytes (key : Key) : PyM Bytes :=
  let enc := encodeKey key
  let padded := enc ++ List.replicate (padCountWriter enc.length) (UInt8.ofNat padByte)
  if enc.length < 2147483648 then
    if entryPacksDoubles then
      .ok (le intWidth enc.length ++ padded ++ zeros ((8 - (intWidth + padded.length) % 8) % 8) ++ le64 0 ++ le64 0)
    else .ok (le intWidth enc.length ++ padded)
  else .error .structError

/-- `size` = bytes the entry counts for (what is written, plus the bytes reserved without being written) -/
def initValueStep (used size : Nat) (value : Bytes) (s : Fx) : Eff → PyM Fx
  | .growLoop =>
    match growKind with
    | .whileLoop => do
        let caps ← growCaps (used + size) s.cap (used + size)
        .ok (caps.foldl Fx.truncate s)
    | .ifOnce => .ok (if used + size > s.cap then s.truncate (growFactor * s.cap) else s)
    | .absent => .ok s
  | .writeEntry => s.sliceWrite used value
  | .writeHeader => do
      let h ← packInt (used + size)
      s.sliceWrite headerPos h
  | _ => .ok s

/-- `_init_value(key)` -/
def initValue (d : MmapedDict) (key : Key) : PyM (MmapedDict × List Effect) := do
  let value ← entryBytes key
  let size := value.length + entryReserve
  let s ← initValueEffects.foldlM (initValueStep d.used size value) ⟨d.file, d.capacity, []⟩
  let used := d.used + size
  .ok (⟨s.file, s.cap, used, setPos d.positions key (used - positionBack)⟩, s.trace)

def ensure (d : MmapedDict) (key : Key) : PyM (MmapedDict × List Effect) :=
  if (d.positions.lookup key).isNone then initValue d key else .ok (d, [])

/-- `pos = self._positions[key]; return _unpack_two_doubles(self._m, pos)` -/
def loadValue (d : MmapedDict) (key : Key) : PyM (UInt64 × UInt64) :=
  match d.positions.lookup key with
  | none => .error .keyError
  | some pos => unpackTwoDoubles d.file pos

/-- `pos = self._positions[key]; _pack_two_doubles(self._m, pos, value, timestamp)`: one 16-byte slice assignment -/
def storeValue (d : MmapedDict) (key : Key) (v t : UInt64) : PyM (MmapedDict × List Effect) :=
  match d.positions.lookup key with
  | none => .error .keyError
  | some pos =>
    let bs := le64 v ++ le64 t
    if pos + bs.length ≤ d.capacity then
      .ok ({ d with file := sliceWrite d.file pos bs }, [.sliceWrite pos bs])
    else .error .indexError

/-- `read_value(key)` -/
def readValue (d : MmapedDict) (key : Key) : PyM ((UInt64 × UInt64) × MmapedDict × List Effect) := do
  let (d, tr) ← ensure d key
  let r ← loadValue d key
  .ok (r, d, tr)

/-- `write_value(key, value, timestamp)` -/
def writeValue (d : MmapedDict) (key : Key) (v t : UInt64) : PyM (MmapedDict × List Effect) := do
  let (d, tr) ← ensure d key
  let (d, tr') ← storeValue d key v t
  .ok (d, tr ++ tr')

/-- `read_all_values()` (the position is dropped), fully iterated -/
def readAllValues (d : MmapedDict) : PyM (List (Key × UInt64 × UInt64)) := do
  let items ← readAllValuesRaw d.file d.used
  .ok (items.map fun (k, v, t, _) => (k, v, t))

/-- `close()`: what stays behind is the file -/
def close (d : MmapedDict) : Bytes := d.file

/-! ## histories -/

inductive Op
  | write (k : Key) (v t : UInt64)
  | read (k : Key)
  | reopen
deriving Repr

def step (initSize : Nat) (d : MmapedDict) : Op → PyM (MmapedDict × List Effect)
  | .write k v t => writeValue d k v t
  | .read k => do
      let (_, d, tr) ← readValue d k
      .ok (d, tr)
  | .reopen => init initSize (close d)

/-- run a history from an open store, collecting the effects -/
def runFrom (initSize : Nat) : MmapedDict → List Op → PyM (MmapedDict × List Effect)
  | d, [] => .ok (d, [])
  | d, op :: ops => do
      let (d1, tr1) ← step initSize d op
      let (d2, tr2) ← runFrom initSize d1 ops
      .ok (d2, tr1 ++ tr2)

/-- a history of a fresh writer: the file is created, opened, then the operations run -/
def run (initSize : Nat) (ops : List Op) : PyM (MmapedDict × List Effect) := do
  let (d0, tr0) ← init initSize []
  let (d, tr) ← runFrom initSize d0 ops
  .ok (d, .createEmpty :: tr0 ++ tr)

/-- `MultiProcessCollector._read_metrics`: the loop over the files, each read completely; the first exception ends it -/
def readMetrics (pageSize : Nat) (files : List Bytes) : PyM (List (List Item)) :=
  files.mapM (readAllValuesFromFile pageSize)

/-! ## the collector's listing → read step, with files that vanish in between -/

/-- a listed worker file: `parts[0]`, `parts[1]` of its base name split at `_`, and what `open` finds when the collector
gets to it — `none`: the file was removed between the directory listing and the read -/
structure Listed where
  typ : List Char
  mode : List Char
  content : Option Bytes

/-- `typ == 'gauge' and parts[1].startswith('live')` (both literals extracted) -/
def tolerated (typ mode : List Char) : Bool := typ == vanishTyp && vanishModePrefix.isPrefixOf mode

/-- `_read_metrics` over the listing: a vanished file raises FileNotFoundError in `open`; the handler skips tolerated names
and re-raises otherwise -/
def readMetricsListed (pageSize : Nat) : List Listed → PyM (List (List Item))
  | [] => .ok []
  | f :: rest =>
    match f.content with
    | none =>
      if vanishCaught == ['F', 'i', 'l', 'e', 'N', 'o', 't', 'F', 'o', 'u', 'n', 'd', 'E', 'r', 'r', 'o', 'r'] && tolerated f.typ f.mode
      then readMetricsListed pageSize rest
      else .error .fileNotFound
    | some b => do
      let items ← readAllValuesFromFile pageSize b
      let r ← readMetricsListed pageSize rest
      .ok (items :: r)

/-- the readers' two `read()` calls against a live file: the first block (and with it the header) is taken from the file
as it is at one moment, the rest from the file as it is at a later moment -/
def readAllValuesFromFile2 (pageSize : Nat) (file1 file2 : Bytes) : PyM (List Item) :=
  let data := file1.take pageSize
  if shortFile data then .ok []
  else do
    let used ← unpackInt data headerPos
    let data := if used > data.length then data ++ (file2.drop data.length).take (used.toNat - data.length) else data
    readAllValuesRaw data used

/-- one generation of a worker file: a writer opens whatever is there (creating the file if absent) and runs `ops` -/
def genRun (initSize : Nat) (f : Option Bytes) (ops : List Op) : PyM (MmapedDict × List Effect) := do
  let (d0, tr0) ← init initSize (f.getD [])
  let (d, tr) ← runFrom initSize d0 ops
  .ok (d, (if f.isNone then [Effect.createEmpty] else []) ++ tr0 ++ tr)

/-- … and stops dead after its first `k` file effects -/
def genCut (initSize : Nat) (f : Option Bytes) (ops : List Op) (k : Nat) : Option Bytes :=
  match genRun initSize f ops with
  | .ok (_, effs) => applyEffects f (effs.take k)
  | .error _ => f

end PromVerif.Model.MmapDict
