/-
Model/Conc — small-step interleaving semantics of threads running lock skeletons (C02).

  * shared store `cell : X → V`; lock table `owner : L → Option Tid`, NON-re-entrant: `acquire l` is enabled only
    while `owner l = none`, so a thread acquiring a lock it already holds blocks forever;
  * every thread is a continuation of micro-steps
        acquire l | release l | load x | store x u | iterBegin x | iterEnd x | call … | yield
    `load x` copies the cell into the thread's private register for `x`; `store x u` writes
    `ap u (register x) (cell x)`: the update may depend on what the thread read earlier (`+=` adds to the value it LOADED;
    `if k not in d: d[k] = c` inserts according to the table it LOOKED AT) and on the cell itself (a subscript store or a
    `list.append` is one bytecode on the live object).  A read-modify-write is `load x; store x u` — a thread switch may
    fall between the two (that is the read-add-store bytecode window); `withLock l body` is `acquire l; body; release l`;
  * a schedule is any list of thread ids; a step of a blocked or finished thread is disabled (`step = none`) and `run`
    skips it;
  * "dictionary changed size during iteration": `iterBegin x … iterEnd x` brackets an iteration over `x`; a `store x`
    by another thread while an iteration is open sets the error flag `err x`;
  * ghost state (never read by a step): `held` (stack of locks a thread holds) and `log x` (every value read from / written
    to `x`, newest first).
The thread programs are not written by hand: `compile` turns the skeletons of `Generated/Locks.lean` (T1) into micro-steps.
No Mathlib; everything is executable (the driver enumerates all interleavings of small programs with it).
-/
import PromVerif.Generated.Locks

namespace PromVerif.Model.Conc
open PromVerif.Generated.Locks

abbrev Tid := Nat

/-- function update -/
def upd {α β : Type} [DecidableEq α] (f : α → β) (a : α) (b : β) : α → β := fun a' => if a' = a then b else f a'

@[simp] theorem upd_same {α β : Type} [DecidableEq α] (f : α → β) (a : α) (b : β) : upd f a b a = b := by simp [upd]
theorem upd_ne {α β : Type} [DecidableEq α] (f : α → β) {a a' : α} (b : β) (h : a' ≠ a) : upd f a b a' = f a' := by
  simp [upd, h]

inductive Micro (L X U : Type)
  | acquire (l : L)
  | release (l : L)
  | load (x : X)
  | store (x : X) (u : U)
  | iterBegin (x : X)
  | iterEnd (x : X)
  | call (user : Bool) (c : Callee)
  | yield
deriving Repr

/-- an entry of the ghost log of a cell -/
inductive Ev (U V : Type)
  | rd (i : Tid) (v : V)
  | wr (i : Tid) (u : U) (v : V)
deriving Repr

structure Thread (L X U V : Type) where
  pc : List (Micro L X U)
  reg : X → V
  held : List L

structure St (L X U V : Type) where
  cell : X → V
  owner : L → Option Tid
  threads : List (Thread L X U V)
  iters : X → List Tid
  err : X → Bool
  log : X → List (Ev U V)

section Sem
variable {L X U V : Type} [DecidableEq L] [DecidableEq X]

/-- one step of thread `i`; `none` = disabled (no such thread, finished, or blocked) -/
def step (ap : U → V → V → V) (s : St L X U V) (i : Tid) : Option (St L X U V) :=
  match s.threads[i]? with
  | none => none
  | some t =>
    match t.pc with
    | [] => none
    | .acquire l :: r =>
      if s.owner l = none then
        some { s with owner := upd s.owner l (some i),
                      threads := s.threads.set i { t with pc := r, held := l :: t.held } }
      else none
    | .release l :: r =>
      if s.owner l = some i then
        some { s with owner := upd s.owner l none,
                      threads := s.threads.set i { t with pc := r, held := t.held.erase l } }
      else none
    | .load x :: r =>
      some { s with threads := s.threads.set i { t with pc := r, reg := upd t.reg x (s.cell x) },
                    log := upd s.log x (.rd i (s.cell x) :: s.log x) }
    | .store x u :: r =>
      some { s with cell := upd s.cell x (ap u (t.reg x) (s.cell x)),
                    threads := s.threads.set i { t with pc := r, reg := upd t.reg x (ap u (t.reg x) (s.cell x)) },
                    err := upd s.err x (s.err x || (s.iters x).any (fun j => decide (j ≠ i))),
                    log := upd s.log x (.wr i u (ap u (t.reg x) (s.cell x)) :: s.log x) }
    | .iterBegin x :: r =>
      some { s with iters := upd s.iters x (i :: s.iters x), threads := s.threads.set i { t with pc := r } }
    | .iterEnd x :: r =>
      some { s with iters := upd s.iters x ((s.iters x).erase i), threads := s.threads.set i { t with pc := r } }
    | .call _ _ :: r => some { s with threads := s.threads.set i { t with pc := r } }
    | .yield :: r => some { s with threads := s.threads.set i { t with pc := r } }

/-- run a schedule; disabled steps are skipped -/
def run (ap : U → V → V → V) (s : St L X U V) : List Tid → St L X U V
  | [] => s
  | i :: sched =>
    match step ap s i with
    | some s' => run ap s' sched
    | none => run ap s sched

def init (c0 : X → V) (progs : List (List (Micro L X U))) : St L X U V :=
  { cell := c0, owner := fun _ => none,
    threads := progs.map (fun p => { pc := p, reg := c0, held := [] }),
    iters := fun _ => [], err := fun _ => false, log := fun _ => [] }

def finished (s : St L X U V) : Prop := ∀ t ∈ s.threads, t.pc = []

def finishedB (s : St L X U V) : Bool := s.threads.all (fun t => t.pc.isEmpty)

/-- no thread can move -/
def stuck (ap : U → V → V → V) (s : St L X U V) : Prop := ∀ i, step ap s i = none

/-- an update applied to a cell the thread has just loaded (register = cell): what the update means in a linearisation -/
def lin (ap : U → V → V → V) : U → V → V := fun u v => ap u v v

/-- updates / values recorded in a log (newest first) -/
def applied : List (Ev U V) → List U
  | [] => []
  | .rd _ _ :: l => applied l
  | .wr _ u _ :: l => u :: applied l

/-- the value a cell holds after the updates of a log, linearised in log order -/
def cur (ap : U → V → V) (v0 : V) (l : List (Ev U V)) : V := (applied l).foldr ap v0

def Ev.val : Ev U V → V
  | .rd _ v => v
  | .wr _ _ v => v

/-- values read from the cell, newest first -/
def readsOf : List (Ev U V) → List V
  | [] => []
  | .rd _ v :: l => v :: readsOf l
  | .wr _ _ _ :: l => readsOf l

/-- every value the cell held: the initial one and each written one -/
def heldValues (v0 : V) : List (Ev U V) → List V
  | [] => [v0]
  | .rd _ _ :: l => heldValues v0 l
  | .wr _ _ v :: l => v :: heldValues v0 l

/-- `(thread, update, value the store left in the cell)` for every store, newest first -/
def writesOf : List (Ev U V) → List (Tid × U × V)
  | [] => []
  | .rd _ _ :: l => writesOf l
  | .wr i u v :: l => (i, u, v) :: writesOf l

/-- the updates to `x` a continuation will still perform -/
def stores (x : X) : List (Micro L X U) → List U
  | [] => []
  | .store y u :: r => if y = x then u :: stores x r else stores x r
  | _ :: r => stores x r

/-- all updates to `x` still to be performed by the threads -/
def pending (x : X) (ts : List (Thread L X U V)) : List U := (ts.map (fun t => stores x t.pc)).flatten

end Sem

/-! ## From skeletons to micro-steps -/

/-- a skeleton flattened to a token sequence (`withLock l body` ↦ `enter l … exit l`) -/
inductive Tok
  | enter (l : LockId)
  | exit (l : LockId)
  | read (x : Var)
  | write (x : Var)
  | rmw (x : Var)
  | copy (x : Var)
  | iterB (x : Var)
  | iterE (x : Var)
  | call (user : Bool) (c : Callee)
  | yield
deriving DecidableEq, Repr

mutual
def flat : Sk → List Tok
  | .withLock l body => .enter l :: (flatList body ++ [.exit l])
  | .read x => [.read x]
  | .write x => [.write x]
  | .rmw x => [.rmw x]
  | .copy x => [.copy x]
  | .iterate x body => .iterB x :: (flatList body ++ [.iterE x])
  | .callUser c => [.call true c]
  | .callLib c => [.call false c]
  | .yield => [.yield]
def flatList : List Sk → List Tok
  | [] => []
  | s :: r => flat s ++ flatList r
end

section Compile
variable {L X U : Type}

/-- how the abstract lock / variable names of a skeleton are bound to the locks and cells of the objects the call is made on,
and which update label the call's stores carry -/
structure Binding (L X U : Type) where
  lock : LockId → L
  var : Var → X
  /-- label of the store a `write x` / `rmw x` performs -/
  upd : Var → U

/-- micro-steps of one token; `cb c` is the (already compiled) code the callee `c` runs, spliced after the call marker.
`rmw x` is `load x; store x` — the window a thread switch may fall into. -/
def tokMicro (b : Binding L X U) (cb : Callee → List (Micro L X U)) : Tok → List (Micro L X U)
  | .enter l => [.acquire (b.lock l)]
  | .exit l => [.release (b.lock l)]
  | .read x => [.load (b.var x)]
  | .write x => [.store (b.var x) (b.upd x)]
  | .rmw x => [.load (b.var x), .store (b.var x) (b.upd x)]
  | .copy x => [.load (b.var x)]
  | .iterB x => [.iterBegin (b.var x)]
  | .iterE x => [.iterEnd (b.var x)]
  | .call u c => .call u c :: cb c
  | .yield => [.yield]

def compileToks (b : Binding L X U) (cb : Callee → List (Micro L X U)) (ts : List Tok) : List (Micro L X U) :=
  ts.flatMap (tokMicro b cb)

/-- the micro-step code of a method skeleton -/
def compile (b : Binding L X U) (cb : Callee → List (Micro L X U)) (sk : List Sk) : List (Micro L X U) :=
  compileToks b cb (flatList sk)

/-- no callee runs library code -/
def noCb : Callee → List (Micro L X U) := fun _ => []

/-- renaming of locks, cells and labels -/
def Micro.map {L' X' U' : Type} (fL : L → L') (fX : X → X') (fU : U → U') : Micro L X U → Micro L' X' U'
  | .acquire l => .acquire (fL l)
  | .release l => .release (fL l)
  | .load x => .load (fX x)
  | .store x u => .store (fX x) (fU u)
  | .iterBegin x => .iterBegin (fX x)
  | .iterEnd x => .iterEnd (fX x)
  | .call b c => .call b c
  | .yield => .yield

end Compile

/-- label of a store in canonical code: (variable, index of the sub-call inside a composite call) -/
abbrev CLabel := Var × Nat

/-- the canonical binding: one object of each kind; the label of a store names its variable and the sub-call `k` -/
def canon (k : Nat) : Binding LockId Var CLabel := { lock := id, var := id, upd := fun x => (x, k) }

abbrev CMicro := Micro LockId Var CLabel

/-! ## Concrete values and updates (used by the driver to enumerate outcomes, and by examples) -/

/-- a value is a finite map `Nat ↦ Nat`; a number `n` is the map `{0 ↦ n}` -/
abbrev CVal := List (Nat × Nat)

def CVal.num (t : CVal) : Nat := (t.lookup 0).getD 0
def CVal.has (t : CVal) (k : Nat) : Bool := (t.lookup k).isSome
def CVal.without (t : CVal) (k : Nat) : CVal := t.filter (fun e => e.1 != k)

/-- the updates the library's stores perform -/
inductive Upd
  | add (a : Nat)        -- `x += a`: adds to the value the thread LOADED
  | set (a : Nat)        -- `x = a`
  | ensure (k c : Nat)   -- `if k not in <table as looked at>: table[k] = c`
  | del (k : Nat)        -- `if k in <table as looked at>: del table[k]`
  | clear                -- `x = {}`
  | ins (k c : Nat)      -- `table[k] = c`
  | rem (k : Nat)        -- `del table[k]`
  | keep                 -- a store to a cell nobody observes
deriving DecidableEq, Repr

def apU : Upd → CVal → CVal → CVal
  | .add a, r, _ => [(0, r.num + a)]
  | .set a, _, _ => [(0, a)]
  | .ensure k c, r, cell => if r.has k then cell else (k, c) :: cell.without k
  | .del k, r, cell => if r.has k then cell.without k else cell
  | .clear, _, _ => []
  | .ins k c, _, cell => (k, c) :: cell.without k
  | .rem k, _, cell => cell.without k
  | .keep, _, cell => cell

/-- updates that ignore what the thread read earlier -/
def Upd.blind : Upd → Bool
  | .add _ => false
  | .ensure _ _ => false
  | .del _ => false
  | _ => true

theorem apU_blind : ∀ u, Upd.blind u = true → ∀ a b c, apU u a c = apU u b c := by
  intro u hu a b c
  cases u <;> first | rfl | cases hu

end PromVerif.Model.Conc
